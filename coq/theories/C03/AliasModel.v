(* C03: the ancestor lists of the capacity plugin as Go slices over shared backing arrays.

   capacity.go updateAncestors (1483):
       attr(q).ancestors = append(attr(parent).ancestors, parent)
   and, before /repo 6f3139f, checkQueueAllocatableHierarchically (1681) and
   checkJobEnqueueableHierarchically (1727) built the list they walk with
       list := append(attr(q).ancestors, q)
   Go's append writes IN PLACE when len < cap and only otherwise allocates (capacity 1, 2, 4, 8,
   ... for these small slices).  Two children of the same parent then hold slices over the same
   array; a vote for one of them writes its own id just behind its slice -- exactly where a child
   of its sibling keeps that sibling's id.  The model keeps a heap of arrays and slices
   (array, len); it is executable, the pre-fix witness is computed, and the repaired list
   construction (copy to a fresh array) is proved to leave every stored slice as it was.

   Law 117 (regression stream of the harness): a vote changes neither the stored hierarchy nor
   the answer of a later identical vote. *)
From stdpp Require Import gmap.
From Coq Require Import ZArith List Lia.
Import ListNotations.
Open Scope Z_scope.

Record slice := mkSlice { sl_arr : positive; sl_len : nat }.
Record gheap := mkHeap { h_arrays : gmap positive (list positive); h_next : positive }.

Definition arr_of (h : gheap) (a : positive) : list positive := default [] (h_arrays h !! a).
(* the elements a slice shows *)
Definition view (h : gheap) (s : slice) : list positive := take (sl_len s) (arr_of h (sl_arr s)).

(* growslice for 8-byte elements and small sizes: 0 -> 1, otherwise doubled *)
Definition grow (c : nat) : nat := match c with O => 1%nat | _ => (2 * c)%nat end.

(* append(s, x) *)
Definition go_append (h : gheap) (s : slice) (x : positive) : gheap * slice :=
  let a := arr_of h (sl_arr s) in
  if (sl_len s <? length a)%nat then
    (* room behind the slice: write in place, the array is shared *)
    (mkHeap (<[sl_arr s := <[sl_len s := x]> a]> (h_arrays h)) (h_next h), mkSlice (sl_arr s) (S (sl_len s)))
  else
    let n := h_next h in
    let fresh := take (sl_len s) a ++ x :: repeat 1%positive (grow (length a) - S (sl_len s)) in
    (mkHeap (<[n := fresh]> (h_arrays h)) (Pos.succ n), mkSlice n (S (sl_len s))).

(* the repaired construction: append(append(make([]T, 0, len(s)+1), s...), x) *)
Definition fresh_append (h : gheap) (s : slice) (x : positive) : gheap * slice :=
  let n := h_next h in
  (mkHeap (<[n := view h s ++ [x]]> (h_arrays h)) (Pos.succ n), mkSlice n (S (sl_len s))).

(* the plugin's table: queue -> its stored ancestors slice *)
Record table := mkTable { t_heap : gheap; t_anc : gmap positive slice }.

Definition empty_slice : slice := mkSlice 1%positive 0.   (* array 1 is the empty array *)
Definition init_table : table := mkTable (mkHeap {[1%positive := []]} 2%positive) ∅.

Definition anc_of (t : table) (q : positive) : slice := default empty_slice (t_anc t !! q).
Definition ancestors (t : table) (q : positive) : list positive := view (t_heap t) (anc_of t q).

(* updateAncestors for a queue whose parent is already in the table; root has no parent *)
Definition add_queue (t : table) (q : positive) (parent : option positive) : table :=
  match parent with
  | None => mkTable (t_heap t) (<[q := empty_slice]> (t_anc t))
  | Some p =>
    let '(h', s') := go_append (t_heap t) (anc_of t p) p in
    mkTable h' (<[q := s']> (t_anc t))
  end.

(* what a vote does to the table, and the list it walks *)
Definition vote_prefix (t : table) (q : positive) : table * list positive :=
  let '(h', s') := go_append (t_heap t) (anc_of t q) q in (mkTable h' (t_anc t), view h' s').
Definition vote_fixed (t : table) (q : positive) : table * list positive :=
  let '(h', s') := fresh_append (t_heap t) (anc_of t q) q in (mkTable h' (t_anc t), view h' s').

(* ---------- the witness: root > q1 > q2 > q3 > q4 > q5 > { c1, c2 > g } ---------- *)
Definition qroot := 10%positive. Definition q1 := 11%positive. Definition q2 := 12%positive.
Definition q3 := 13%positive. Definition q4 := 14%positive. Definition q5 := 15%positive.
Definition c1 := 21%positive. Definition c2 := 22%positive. Definition g := 23%positive.

Definition witness_table : table :=
  fold_left (fun t qp => add_queue t (fst qp) (snd qp))
    [(qroot, None); (q1, Some qroot); (q2, Some q1); (q3, Some q2); (q4, Some q3); (q5, Some q4);
     (c1, Some q5); (c2, Some q5); (g, Some c2)] init_table.

Example witness_before : ancestors witness_table g = [qroot; q1; q2; q3; q4; q5; c2].
Proof. vm_compute. reflexivity. Qed.

(* one vote for c1 (Allocatable or JobEnqueueable) and g's parent has become c1 *)
Theorem ancestors_aliasing_refuted :
  exists t q q', ancestors t q' = [qroot; q1; q2; q3; q4; q5; c2] /\
                 ancestors (fst (vote_prefix t q)) q' = [qroot; q1; q2; q3; q4; q5; c1].
Proof. exists witness_table, c1, g. split; vm_compute; reflexivity. Qed.

(* the vote itself walks the right list in both versions *)
Example witness_vote_list :
  snd (vote_prefix witness_table c1) = [qroot; q1; q2; q3; q4; q5; c1] /\
  snd (vote_fixed witness_table c1) = [qroot; q1; q2; q3; q4; q5; c1].
Proof. split; vm_compute; reflexivity. Qed.

(* ---------- the repaired construction never touches a stored slice ---------- *)

(* every array id in use is below the allocation pointer *)
Definition heap_wf (h : gheap) : Prop := forall a, is_Some (h_arrays h !! a) -> (a < h_next h)%positive.

Theorem vote_fixed_preserves (t : table) (q : positive) :
  heap_wf (t_heap t) ->
  (forall q' s, t_anc t !! q' = Some s -> is_Some (h_arrays (t_heap t) !! sl_arr s)) ->
  forall q', ancestors (fst (vote_fixed t q)) q' = ancestors t q'.
Proof.
  intros Hwf Hst q'. unfold vote_fixed, fresh_append, ancestors, anc_of, view, arr_of. simpl.
  destruct (t_anc t !! q') as [s|] eqn:E; simpl.
  - destruct (Hst q' s E) as [l Hl].
    assert (sl_arr s <> h_next (t_heap t)).
    { intros Heq. pose proof (Hwf (sl_arr s) (ex_intro _ l Hl)) as Hlt. rewrite Heq in Hlt. lia. }
    rewrite lookup_insert_ne by congruence. reflexivity.
  - reflexivity.
Qed.

Theorem vote_fixed_list (t : table) (q : positive) :
  snd (vote_fixed t q) = ancestors t q ++ [q].
Proof.
  unfold vote_fixed, fresh_append, ancestors, view, arr_of. simpl. rewrite lookup_insert. simpl.
  set (l := take _ _ ++ [q]).
  assert (Hlen : length l = S (sl_len (anc_of t q)) \/ (length l <= S (sl_len (anc_of t q)))%nat).
  { right. unfold l. rewrite app_length, take_length. simpl. lia. }
  apply take_ge. destruct Hlen; lia.
Qed.

(* ---------- the construction itself (audit W3; repaired by /repo 675735a) ----------
   updateAncestors appended to the PARENT's slice: two children c1, c2 of a parent whose slice has
   spare capacity share one array, and a child of c1 and a child of c2 then both write the slot
   behind it -- whichever queue is registered last overwrites the parent recorded for the other. *)
Definition hq := 24%positive.

Theorem construction_aliasing_refuted :
  ancestors witness_table g = [qroot; q1; q2; q3; q4; q5; c2] /\
  ancestors (add_queue witness_table hq (Some c1)) g = [qroot; q1; q2; q3; q4; q5; c1].
Proof. split; vm_compute; reflexivity. Qed.

(* the repaired construction: the child's list is built on a fresh array *)
Definition add_queue_fixed (t : table) (q : positive) (parent : option positive) : table :=
  match parent with
  | None => mkTable (t_heap t) (<[q := empty_slice]> (t_anc t))
  | Some p =>
    let '(h', s') := fresh_append (t_heap t) (anc_of t p) p in
    mkTable h' (<[q := s']> (t_anc t))
  end.

Definition table_wf (t : table) : Prop :=
  heap_wf (t_heap t) /\ forall q s, t_anc t !! q = Some s -> is_Some (h_arrays (t_heap t) !! sl_arr s).

(* registering q under p records exactly p's chain followed by p, changes no other queue's list,
   and keeps the table well-formed: by induction, every stored list is the queue's parent chain
   whatever the registration order *)
Theorem add_queue_fixed_spec (t : table) (q p : positive) :
  table_wf t ->
  let t' := add_queue_fixed t q (Some p) in
  ancestors t' q = ancestors t p ++ [p] /\
  (forall q', q' <> q -> ancestors t' q' = ancestors t q') /\
  table_wf t'.
Proof.
  intros [Hwf Hst]. cbv zeta. unfold add_queue_fixed, fresh_append. simpl.
  set (n := h_next (t_heap t)).
  assert (Hfresh : forall q' s, t_anc t !! q' = Some s -> sl_arr s <> n).
  { intros q' s Hs Heq. destruct (Hst q' s Hs) as [l Hl].
    pose proof (Hwf (sl_arr s) (ex_intro _ l Hl)) as Hlt. rewrite Heq in Hlt. unfold n in Hlt. lia. }
  split; [|split; [|split]].
  - unfold ancestors, anc_of, view, arr_of. simpl. rewrite lookup_insert. simpl.
    rewrite (lookup_insert (h_arrays (t_heap t)) n). simpl.
    apply take_ge. rewrite app_length, take_length. simpl. lia.
  - intros q' Hne. unfold ancestors, anc_of, view, arr_of. simpl. rewrite lookup_insert_ne by congruence.
    destruct (t_anc t !! q') as [s|] eqn:E; simpl; [|reflexivity].
    rewrite lookup_insert_ne by (apply not_eq_sym, (Hfresh q' s E)). reflexivity.
  - intros a [l Hl]. simpl in *. destruct (Pos.eq_dec a n) as [->|Hne]; [lia|].
    rewrite lookup_insert_ne in Hl by congruence. pose proof (Hwf a (ex_intro _ l Hl)). lia.
  - intros q' s Hs. simpl in *. destruct (Pos.eq_dec q' q) as [->|Hne].
    + rewrite lookup_insert in Hs. inversion Hs; subst s. simpl. rewrite lookup_insert. eauto.
    + rewrite lookup_insert_ne in Hs by congruence. destruct (Hst q' s Hs) as [l Hl].
      rewrite lookup_insert_ne by (apply not_eq_sym, (Hfresh q' s Hs)). eauto.
Qed.

(* ---------- law 117 ---------- *)
(* observed = [vote for g before; the disturbing vote; vote for g after; hierarchy unchanged;
               every stored ancestor list = the parent chain of the Queue objects] *)
Definition law_alias (toks : list Z) : option bool :=
  match toks with
  | [before; _; after; unchanged; chains] => Some ((before =? after) && (unchanged =? 1) && (chains =? 1))
  | _ => None
  end.
