(* C03: the placement decision of the reclaim action (reclaim.go reclaimForTask 225-270, after
   /repo bd1440f), as a function of what it consults -- there is no reclaim ACTION skeleton in
   Sched/CycleModel.v (allocate and backfill only); this is the one decision that matters for C03.

     victims are evicted until the task fits the node (possibly NONE: the node may already have
     room although legal victims of other queues sit on it);   fits_node := InitResreq <= FutureIdle
     then, in BOTH cases,  ssn.Allocatable(queue, task)  on the ledger as it is after the evictions;
     only then nodeStmt.Pipeline.

   [qs_after] are the plugin's records after the tentative evictions (= the records before, when
   nothing was evicted).  The theorem does not mention whether a victim was evicted. *)
From stdpp Require Import gmap.
From Coq Require Import ZArith List.
From V Require Import Base.Res Sched.LedgerInvP Sched.QueueLemmasBase C03.CapacityModel C03.CapacityLemmas.
Import ListNotations.
Open Scope Z_scope.

Definition reclaim_pipelines (hier ready : bool) (qs_after : qmap) (reserved : positive -> res)
    (q : positive) (req : res) (fits_node : bool) : bool :=
  fits_node && cap_allocatable hier ready qs_after reserved q req.

(* a reclaim placement -- with or without evictions -- leaves the queue and every ancestor within
   realCapability, in an Open leaf queue *)
Theorem reclaim_placement_bound hier ready qs_after reserved q req fits_node :
  reclaim_pipelines hier ready qs_after reserved q req fits_node = true ->
  exists r, qs_after !! q = Some r /\ qr_open r = true /\ ready = true /\
    (hier = true -> qr_children r = 0%nat) /\
    forall a, a = q \/ a ∈ qr_ancestors r ->
      exists ra c, qs_after !! a = Some ra /\ qr_realcap ra = Some c /\
        forall d, requested req d ->
          amt (qr_alloc ra) d + amt (reserved a) d + amt req d <= amt c d.
Proof.
  unfold reclaim_pipelines. intros H. apply andb_prop in H as [_ H].
  exact (capacity_allocatable_bound _ _ _ _ _ _ H).
Qed.

(* the seeded variant: the vote is only repeated when a victim was evicted ("ssn.Preemptive has
   just admitted the task against the same usage") *)
Definition reclaim_pipelines_skip (evicted : bool) (hier ready : bool) (qs_after : qmap)
    (reserved : positive -> res) (q : positive) (req : res) (fits_node : bool) : bool :=
  fits_node && (negb evicted || cap_allocatable hier ready qs_after reserved q req).

(* ... is wrong with hierarchical queues, because PreemptiveFn bounds the leaf only: the Preemptive
   vote is positive, nothing needs to be evicted, the task is pipelined and the parent (queue 2,
   realCapability 10, holding 10) goes to 12 *)
Theorem reclaim_skip_vote_refuted :
  exists eps qs q req ra c,
    cap_preemptive eps true qs q [req] = true /\
    reclaim_pipelines_skip false true true qs (fun _ => empty_res) q req true = true /\
    qs !! 2%positive = Some ra /\ 2%positive ∈ qr_ancestors (default ra (qs !! q)) /\
    qr_realcap ra = Some c /\ amt c DCpu < amt (qr_alloc ra) DCpu + amt req DCpu.
Proof.
  exists 2, wit_qs, 4%positive, (cpu_res 2),
         (mkQrec true (cpu_res 10) empty_res empty_res (cpu_res 10) (Some (cpu_res 10)) [1%positive] 2), (cpu_res 10).
  repeat split; try (vm_compute; reflexivity).
  vm_compute. apply elem_of_list_In. simpl. auto.
Qed.
