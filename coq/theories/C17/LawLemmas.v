(* C17 — the order and count laws accept the model's results for ALL inputs;
   the selected list of every scheduler, as a whole object: which nodes, in
   which order, nothing better skipped; independence from Go map iteration order. *)
From Coq Require Import ZArith List Bool QArith Lia Permutation Sorted.
From V Require Import C17.Model C17.Laws C17.Lemmas.
Import ListNotations.
Open Scope Z_scope.

(* ------------------------------------------------------------------ *)
(* lists                                                                *)
(* ------------------------------------------------------------------ *)

Lemma nodupb_NoDup l : nodupb l = true -> NoDup l.
Proof.
  induction l as [|x l IH]; simpl; intros H; [constructor|].
  apply andb_true_iff in H. destruct H as [H1 H2].
  constructor; [now apply memb_false, negb_true_iff | now apply IH].
Qed.

Lemma znodupb_NoDup l : znodupb l = true -> NoDup l.
Proof.
  induction l as [|x l IH]; simpl; intros H; [constructor|].
  apply andb_true_iff in H. destruct H as [H1 H2]. constructor; [|now apply IH].
  apply negb_true_iff in H1. intros Hin.
  assert (existsb (Z.eqb x) l = true); [|congruence].
  apply existsb_exists. exists x. split; [assumption | apply Z.eqb_refl].
Qed.

Lemma sorted_app_cross {A} (R : A -> A -> Prop) (a b : list A) x y :
  StronglySorted R (a ++ b) -> In x a -> In y b -> R x y.
Proof.
  induction a as [|h a IH]; simpl; intros H Hx Hy; [destruct Hx|].
  inversion H as [|? ? Hs Hf]; subst. destruct Hx as [-> | Hx].
  - rewrite Forall_forall in Hf. apply Hf. apply in_or_app. now right.
  - now apply IH.
Qed.

Lemma sorted_app_l {A} (R : A -> A -> Prop) (a b : list A) :
  StronglySorted R (a ++ b) -> StronglySorted R a.
Proof. intros H. eapply is_prefix_sorted; [|exact H]. now exists b. Qed.

(* the (index, element) pairs of a list *)
Lemma indexed_from_snd {A} (l : list A) : forall k, map snd (combine (seq k (length l)) l) = l.
Proof. induction l as [|x l IH]; intros k; simpl; [reflexivity|]. now rewrite IH. Qed.

Definition idx_lt {A} (a b : nat * A) : Prop := (fst a < fst b)%nat.

Lemma indexed_from_sorted {A} (l : list A) : forall k,
  StronglySorted idx_lt (combine (seq k (length l)) l) /\
  Forall (fun p => (k <= fst p)%nat) (combine (seq k (length l)) l).
Proof.
  induction l as [|x l IH]; intros k; simpl; [split; constructor|].
  destruct (IH (S k)) as [Hs Hf]. split.
  - constructor; [assumption|]. eapply Forall_impl; [|exact Hf]. intros p Hp. unfold idx_lt. simpl in *. lia.
  - constructor; [simpl; lia|]. eapply Forall_impl; [|exact Hf]. intros p Hp. simpl in *. lia.
Qed.

Lemma filter_sorted {A} (R : A -> A -> Prop) (p : A -> bool) l :
  StronglySorted R l -> StronglySorted R (filter p l).
Proof.
  induction 1 as [|x l Hs IH Hf]; simpl; [constructor|].
  destruct (p x); [|assumption]. constructor; [assumption|].
  apply Forall_forall. intros y Hy. apply filter_In in Hy. rewrite Forall_forall in Hf. now apply Hf.
Qed.

Lemma map_filter_snd {A I} (p : A -> bool) (l : list (I * A)) :
  map snd (filter (fun q => p (snd q)) l) = filter p (map snd l).
Proof.
  induction l as [|q l IH]; simpl; [reflexivity|]. destruct (p (snd q)); simpl; now rewrite IH.
Qed.

(* sorting pairs by a score of the second component sorts the second components *)
Lemma insert_desc_map_snd {A I} (sc : A -> Q) (x : I * A) l :
  map snd (insert_desc (fun q => sc (snd q)) x l) = insert_desc sc (snd x) (map snd l).
Proof.
  induction l as [|y r IH]; simpl; [reflexivity|].
  destruct (qgt (sc (snd y)) (sc (snd x))); simpl; [now rewrite IH | reflexivity].
Qed.

Lemma sort_desc_map_snd {A I} (sc : A -> Q) (l : list (I * A)) :
  map snd (sort_desc (fun q => sc (snd q)) l) = sort_desc sc (map snd l).
Proof.
  induction l as [|x l IH]; simpl; [reflexivity|]. now rewrite insert_desc_map_snd, IH.
Qed.

(* ------------------------------------------------------------------ *)
(* the sort orders (index, node) pairs lexicographically:               *)
(* higher score first, equal scores by position in the node list        *)
(* ------------------------------------------------------------------ *)

Definition lexP (sc : node -> Q) (a b : inode) : Prop := precedes sc a b = true.

Lemma lexP_intro sc (a b : inode) :
  (sc (snd b) <= sc (snd a))%Q -> (fst a < fst b)%nat -> lexP sc a b.
Proof.
  intros Hle Hlt. unfold lexP, precedes.
  destruct (qgt (sc (snd a)) (sc (snd b))) eqn:E; [reflexivity|]. simpl.
  apply qgt_false in E. apply andb_true_iff. split.
  - apply Qeq_bool_iff. now apply Qle_antisym.
  - now apply Nat.ltb_lt.
Qed.

Lemma lexP_le sc (a b : inode) : lexP sc a b -> (sc (snd b) <= sc (snd a))%Q.
Proof.
  unfold lexP, precedes. intros H. apply orb_true_iff in H. destruct H as [H | H].
  - apply qgt_true in H. now apply Qlt_le_weak.
  - apply andb_true_iff in H. destruct H as [H _]. apply Qeq_bool_iff in H. rewrite H. apply Qle_refl.
Qed.

Lemma insert_desc_lex sc (x : inode) l :
  StronglySorted (lexP sc) l -> Forall (fun z => (fst x < fst z)%nat) l ->
  StronglySorted (lexP sc) (insert_desc (fun q => sc (snd q)) x l).
Proof.
  induction l as [|y r IH]; simpl; intros Hs Hf; [repeat constructor|].
  inversion Hs as [|? ? Hr Hy]; subst. inversion Hf as [|? ? Hxy Hxr]; subst.
  destruct (qgt (sc (snd y)) (sc (snd x))) eqn:E.
  - constructor; [now apply IH|].
    eapply Permutation_Forall; [symmetry; apply insert_desc_perm|].
    constructor; [|assumption]. unfold lexP, precedes. now rewrite E.
  - apply qgt_false in E. constructor; [assumption|].
    constructor; [now apply lexP_intro|].
    rewrite Forall_forall in Hy, Hxr. apply Forall_forall. intros z Hz.
    apply lexP_intro; [|now apply Hxr].
    eapply Qle_trans; [apply lexP_le; now apply Hy | exact E].
Qed.

Lemma sort_desc_lex sc (l : list inode) :
  StronglySorted idx_lt l -> StronglySorted (lexP sc) (sort_desc (fun q => sc (snd q)) l).
Proof.
  induction 1 as [|x l Hs IH Hf]; simpl; [constructor|].
  apply insert_desc_lex; [assumption|].
  eapply Permutation_Forall; [symmetry; apply sort_desc_perm|]. exact Hf.
Qed.

Lemma chain_ok_sorted sc l : StronglySorted (lexP sc) l -> chain_ok sc l = true.
Proof.
  induction 1 as [|a l Hs IH Hf]; [reflexivity|].
  destruct l as [|b t]; [reflexivity|]. cbn [chain_ok].
  inversion Hf; subst. apply andb_true_iff. split; assumption.
Qed.

(* ------------------------------------------------------------------ *)
(* one scheduler: its selection inside the (index, node) view           *)
(* ------------------------------------------------------------------ *)

Lemma filter_filter_andb {A} (p q : A -> bool) l :
  filter q (filter p l) = filter (fun x => p x && q x) l.
Proof.
  induction l as [|x l IH]; simpl; [reflexivity|].
  destruct (p x); simpl; [|assumption]. destruct (q x); now rewrite IH.
Qed.

Definition nm (p : inode) : positive := nname (snd p).

Lemma indexed_snd nodes : map snd (indexed nodes) = nodes.
Proof. unfold indexed. apply indexed_from_snd. Qed.

Lemma indexed_names nodes : map nm (indexed nodes) = map nname nodes.
Proof. rewrite <- (indexed_snd nodes) at 2. now rewrite map_map. Qed.

Lemma eligible_snd look ch nodes a :
  map snd (eligible_of look ch (indexed nodes) a) =
  filter (pass_all (filters_of look ch)) (drop_assigned nname nodes a).
Proof.
  unfold eligible_of, drop_assigned.
  rewrite (map_filter_snd (fun n => negb (memb (nname n) a) && pass_all (filters_of look ch) n)).
  now rewrite indexed_snd, filter_filter_andb.
Qed.

Lemma eligible_sorted look ch nodes a : StronglySorted idx_lt (eligible_of look ch (indexed nodes) a).
Proof. unfold eligible_of. apply filter_sorted. unfold indexed. apply indexed_from_sorted. Qed.

Lemma find_unique (L : list inode) p :
  NoDup (map nm L) -> In p L -> find (fun q => Pos.eqb (nm q) (nm p)) L = Some p.
Proof.
  induction L as [|q L IH]; simpl; intros Hnd Hin; [destruct Hin|].
  inversion Hnd as [|? ? Hq Hnd']; subst. destruct Hin as [-> | Hin].
  - now rewrite Pos.eqb_refl.
  - destruct (Pos.eqb (nm q) (nm p)) eqn:E; [|now apply IH].
    apply Pos.eqb_eq in E. exfalso. apply Hq. rewrite E. now apply in_map.
Qed.

Lemma find_all_names (L T : list inode) :
  NoDup (map nm L) -> incl T L -> find_all L (map nm T) = Some T.
Proof.
  intros Hnd. induction T as [|p T IH]; intros Hin; simpl; [reflexivity|].
  change (fun p0 : inode => Pos.eqb (nname (snd p0)) (nm p)) with (fun q : inode => Pos.eqb (nm q) (nm p)).
  rewrite find_unique; [|assumption | apply Hin; now left].
  rewrite IH; [reflexivity|]. intros x Hx. apply Hin. now right.
Qed.

Lemma fold_min_zero l : Forall (fun x => 0 < x) l -> fold_left Z.min l 0 = 0.
Proof. induction 1 as [|x l Hx _ IH]; simpl; [reflexivity|]. now rewrite Z.min_l by lia. Qed.

Lemma caps_pos ch : Forall (fun x => 0 < x) (caps ch).
Proof. apply Forall_forall. intros x Hx. now apply caps_In in Hx. Qed.

Lemma limit_select_len mx (c : list node) :
  Z.of_nat (length (limit_select mx c)) = if 0 <? mx then Z.min mx (Z.of_nat (length c)) else Z.of_nat (length c).
Proof.
  unfold limit_select. destruct (0 <? mx) eqn:E1; simpl; [|reflexivity].
  apply Z.ltb_lt in E1. destruct (mx <? Z.of_nat (length c)) eqn:E2.
  - apply Z.ltb_lt in E2. rewrite firstn_length, Nat.min_l by lia. lia.
  - apply Z.ltb_ge in E2. lia.
Qed.

(* the node-limit selectors of a chain keep exactly min(caps, |candidates|) candidates *)
Lemma run_selectors_limit_length ch : forall c : list node,
  Z.of_nat (length (run_selectors (selectors_of ch) c)) = min_cap ch (Z.of_nat (length c)).
Proof.
  unfold min_cap. induction ch as [|rp ch IH]; intros c; [reflexivity|].
  destruct rp as [w lo hi|w|mn mx]; try (exact (IH c)).
  change (selectors_of (RLimit mn mx :: ch)) with (limit_select mx :: selectors_of ch).
  change (caps (RLimit mn mx :: ch)) with ((if 0 <? mx then [mx] else []) ++ caps ch).
  cbn [run_selectors]. pose proof (limit_select_len mx c) as Hl.
  destruct (limit_select mx c) as [|x c'] eqn:Ec.
  - (* nothing left: the chain stops, and every later cap leaves 0 *)
    simpl in Hl. revert Hl. destruct (0 <? mx); simpl; intros Hl.
    + rewrite Z.min_comm, <- Hl. symmetry. apply fold_min_zero, caps_pos.
    + rewrite <- Hl. symmetry. apply fold_min_zero, caps_pos.
  - rewrite <- Ec in Hl |- *. rewrite IH, Hl. destruct (0 <? mx); simpl; [|reflexivity].
    now rewrite Z.min_comm.
Qed.

Section OneScheduler.
  Variable look : positive -> option Z.
  Variable ch : list rpol.
  Variable nodes : list node.
  Hypothesis Hnd : NoDup (map nname nodes).
  Variable a : list positive.

  Let sc := total_score look ch.
  Let E := eligible_of look ch (indexed nodes) a.
  Let S := sort_desc (fun q : inode => sc (snd q)) E.
  Let sel := run_pipeline nname (to_gchain look ch) nodes a.

  Lemma S_perm : Permutation S E.
  Proof. apply sort_desc_perm. Qed.

  Lemma S_lex : StronglySorted (lexP sc) S.
  Proof. apply sort_desc_lex, eligible_sorted. Qed.

  Lemma sel_spec : sel = map nname (run_selectors (selectors_of ch) (map snd S)).
  Proof.
    unfold sel, S. rewrite pipeline_spec. cbn [to_gchain g_filters g_selectors].
    do 2 f_equal. etransitivity; [|symmetry; apply (sort_desc_map_snd sc E)].
    unfold E. rewrite eligible_snd. apply sort_desc_ext. apply eff_score_total.
  Qed.

  (* the selection is the first k entries of the sorted eligible (index, node) list *)
  Lemma sel_split : exists T rest, S = T ++ rest /\ sel = map nm T /\
    map snd T = run_selectors (selectors_of ch) (map snd S).
  Proof.
    destruct (run_selectors_prefix _ (selectors_of_prefix ch) (map snd S)) as [t Ht].
    set (c := run_selectors (selectors_of ch) (map snd S)) in *.
    exists (firstn (length c) S), (skipn (length c) S).
    assert (Hc : map snd (firstn (length c) S) = c).
    { rewrite <- firstn_map. transitivity (firstn (length c) (c ++ t)); [f_equal; exact Ht|].
      rewrite firstn_app, Nat.sub_diag, firstn_all. simpl. apply app_nil_r. }
    split; [symmetry; apply firstn_skipn|]. split; [|exact Hc].
    transitivity (map nname (map snd (firstn (length c) S))); [|apply map_map].
    rewrite sel_spec. f_equal. symmetry. exact Hc.
  Qed.

  Lemma E_incl : incl E (indexed nodes).
  Proof. intros p Hp. unfold E, eligible_of in Hp. now apply filter_In in Hp. Qed.

  Lemma indexed_nodup : NoDup (map nm (indexed nodes)).
  Proof. now rewrite indexed_names. Qed.

  Lemma nm_inj_E p q : In p (indexed nodes) -> In q (indexed nodes) -> nm p = nm q -> p = q.
  Proof.
    intros Hp Hq Heq. pose proof (find_unique _ p indexed_nodup Hp) as H1.
    pose proof (find_unique _ q indexed_nodup Hq) as H2. rewrite Heq in H1. congruence.
  Qed.

  Theorem sched_order_ok_model : sched_order_ok look ch (indexed nodes) a sel = true.
  Proof.
    destruct sel_split as [T [rest [HS [Hsel _]]]]. unfold sched_order_ok. fold sc. rewrite Hsel.
    assert (HT : incl T (indexed nodes)).
    { intros p Hp. apply E_incl. apply (Permutation_in _ S_perm). rewrite HS. apply in_or_app. now left. }
    rewrite (find_all_names _ _ indexed_nodup HT).
    pose proof S_lex as Hlex. rewrite HS in Hlex.
    apply andb_true_iff. split; [apply chain_ok_sorted; eapply sorted_app_l; eauto|].
    destruct (rev T) as [|y t] eqn:Er; [reflexivity|].
    assert (Hy : In y T) by (apply in_rev; rewrite Er; now left).
    apply forallb_forall. intros p Hp. fold E in Hp.
    destruct (memb (nname (snd p)) (map nm T)) eqn:Em; [reflexivity|]. simpl.
    apply memb_false in Em.
    apply (Permutation_in _ (Permutation_sym S_perm)) in Hp. rewrite HS in Hp.
    apply in_app_or in Hp. destruct Hp as [Hp | Hp].
    - exfalso. apply Em. change (nname (snd p)) with (nm p). now apply in_map.
    - exact (sorted_app_cross _ _ _ _ _ Hlex Hy Hp).
  Qed.

  Theorem sched_count_ok_model : sched_count_ok look ch (indexed nodes) a sel = true.
  Proof.
    destruct sel_split as [T [rest [HS [Hsel Hc]]]]. unfold sched_count_ok. fold E.
    apply andb_true_iff. split.
    - apply forallb_forall. intros x Hx. rewrite Hsel in Hx. apply in_map_iff in Hx.
      destruct Hx as [p [<- Hp]]. apply existsb_exists. exists p. split; [|apply Pos.eqb_refl].
      apply (Permutation_in _ S_perm). rewrite HS. apply in_or_app. now left.
    - apply Z.eqb_eq.
      assert (H1 : length (map nm T) = length (run_selectors (selectors_of ch) (map snd S))).
      { rewrite <- Hc. transitivity (length T); [apply map_length | symmetry; apply map_length]. }
      assert (H2 : length (map snd S) = length E).
      { transitivity (length S); [apply map_length | apply Permutation_length, S_perm]. }
      rewrite Hsel, H1, run_selectors_limit_length, H2. reflexivity.
  Qed.

  (* nothing better was skipped: every eligible unassigned node that was not
     taken comes after every taken node in (score desc, node-list position) order *)
  Theorem sel_no_skip p y :
    In p E -> ~ In (nm p) sel -> In y (indexed nodes) -> In (nm y) sel -> lexP sc y p.
  Proof.
    destruct sel_split as [T [rest [HS [Hsel _]]]]. intros Hp Hnp Hy Hny.
    pose proof S_lex as Hlex. rewrite HS in Hlex.
    assert (HT : incl T (indexed nodes)).
    { intros q Hq. apply E_incl. apply (Permutation_in _ S_perm). rewrite HS. apply in_or_app. now left. }
    assert (HyT : In y T).
    { rewrite Hsel in Hny. apply in_map_iff in Hny. destruct Hny as [q [Hq HqT]].
      rewrite (nm_inj_E y q Hy (HT _ HqT)); auto. }
    apply (Permutation_in _ (Permutation_sym S_perm)) in Hp. rewrite HS in Hp.
    apply in_app_or in Hp. destruct Hp as [Hp | Hp].
    - exfalso. apply Hnp. rewrite Hsel. now apply in_map.
    - exact (sorted_app_cross _ _ _ _ _ Hlex HyT Hp).
  Qed.
End OneScheduler.

(* ------------------------------------------------------------------ *)
(* the scheduler loop, scheduler by scheduler                           *)
(* ------------------------------------------------------------------ *)

Lemma calc_results_app {A} (name : A -> positive) nodes (cfgs : list (Z * gchain A)) : forall st,
  exists new, st_results (fold_left (calc_step name false nodes) cfgs st) = new ++ st_results st /\
              map fst new = rev (map fst cfgs).
Proof.
  induction cfgs as [|c cfgs IH]; intros st; simpl; [now exists []|].
  destruct (IH (calc_step name false nodes st c)) as [new [H1 H2]].
  exists (new ++ [(fst c, run_pipeline name (snd c) nodes (st_assigned st))]). split.
  - rewrite H1. unfold calc_step. cbn [st_results]. now rewrite <- app_assoc.
  - rewrite map_app, H2. reflexivity.
Qed.

Lemma rlookup_app_notin (new rest : list (Z * list positive)) n :
  ~ In n (map fst new) -> rlookup (new ++ rest) n = rlookup rest n.
Proof.
  induction new as [|[k v] new IH]; simpl; intros H; [reflexivity|].
  destruct (k =? n) eqn:E; [apply Z.eqb_eq in E; tauto|]. apply IH. tauto.
Qed.

Lemma rlookup_final_map R n : rlookup (final_map R) n = rlookup R n.
Proof.
  unfold final_map.
  assert (G : forall ks, rlookup (map (fun s => (s, rlookup R s)) ks) n = if existsb (Z.eqb n) ks then rlookup R n else []).
  { induction ks as [|k ks IH]; simpl; [reflexivity|]. rewrite (Z.eqb_sym n k).
    destruct (k =? n) eqn:E; simpl; [apply Z.eqb_eq in E; now subst | exact IH]. }
  rewrite G. destruct (existsb (Z.eqb n) (zsort_dedup (map fst R))) eqn:E; [reflexivity|].
  symmetry. assert (Hn : ~ In n (map fst R)).
  { intros Hin. apply zsort_dedup_In in Hin.
    assert (existsb (Z.eqb n) (zsort_dedup (map fst R)) = true); [|congruence].
    apply existsb_exists. exists n. split; [assumption | apply Z.eqb_refl]. }
  clear -Hn. induction R as [|[k v] R IH]; simpl in *; [reflexivity|].
  destruct (k =? n) eqn:E; [apply Z.eqb_eq in E; tauto | apply IH; tauto].
Qed.

Definition cfg_of (look : positive -> option Z) (f : Z -> list rpol) (s : sspec) : Z * gchain node :=
  (ss_name s, to_gchain look (f (ss_name s))).

(* what the schedulers before this one took, read off the result map *)
Definition taken_from (R : list (Z * list positive)) (pre : list sspec) (t0 : list positive) : list positive :=
  fold_left (fun t s => rlookup R (ss_name s) ++ t) pre t0.

Lemma taken_from_ext R R' pre : (forall n, rlookup R n = rlookup R' n) ->
  forall t0, taken_from R pre t0 = taken_from R' pre t0.
Proof.
  intros H. unfold taken_from. induction pre as [|s pre IH]; intros t0; simpl; [reflexivity|].
  now rewrite H, IH.
Qed.

Section Loop.
  Variable look : positive -> option Z.
  Variable f : Z -> list rpol.
  Variable nodes : list node.

  Let step := calc_step nname false nodes.
  Let pipe (s : sspec) (a : list positive) := run_pipeline nname (to_gchain look (f (ss_name s))) nodes a.

  Lemma core_head s tl st :
    NoDup (map ss_name (s :: tl)) ->
    rlookup (st_results (fold_left step (map (cfg_of look f) (s :: tl)) st)) (ss_name s) = pipe s (st_assigned st).
  Proof.
    intros Hnd. simpl. destruct (calc_results_app nname nodes (map (cfg_of look f) tl) (step st (cfg_of look f s))) as [new [H1 H2]].
    fold step in H1. rewrite H1. rewrite rlookup_app_notin.
    - unfold step, calc_step. cbn [st_results cfg_of fst snd rlookup]. now rewrite Z.eqb_refl.
    - rewrite H2, map_map. cbn [cfg_of fst]. rewrite <- in_rev. now inversion Hnd.
  Qed.

  Lemma core : forall suffix st pre sp post,
    NoDup (map ss_name suffix) -> suffix = pre ++ sp :: post ->
    let R := st_results (fold_left step (map (cfg_of look f) suffix) st) in
    rlookup R (ss_name sp) = pipe sp (taken_from R pre (st_assigned st)).
  Proof.
    induction suffix as [|s tl IH]; intros st pre sp post Hnd Heq R; [now destruct pre|].
    destruct pre as [|s' pre'].
    - simpl in Heq. injection Heq as -> ->. unfold R. now apply core_head.
    - simpl in Heq. injection Heq as <- ->.
      pose proof (core_head s (pre' ++ sp :: post) st Hnd) as Hh. fold R in Hh.
      inversion Hnd as [|? ? _ Hnd']; subst.
      pose proof (IH (step st (cfg_of look f s)) pre' sp post Hnd' eq_refl) as Ht.
      simpl in R. fold R in Ht. rewrite Ht. unfold taken_from at 2. simpl. fold (taken_from R pre').
      rewrite Hh. reflexivity.
  Qed.

  (* any per-scheduler check that every pipeline outcome passes is passed by the fold of the law *)
  Lemma law_fold (ok : (positive -> option Z) -> list rpol -> list inode -> list positive -> list positive -> bool)
        specs :
    NoDup (map ss_name specs) ->
    (forall s a, ok look (f (ss_name s)) (indexed nodes) a (pipe s a) = true) ->
    let R := st_results (fold_left step (map (cfg_of look f) specs) {| st_assigned := []; st_results := [] |}) in
    forall pre post, specs = pre ++ post ->
      fold_left (fun (acc : bool * list positive) s =>
                   let l := rlookup R (ss_name s) in
                   (fst acc && ok look (f (ss_name s)) (indexed nodes) (snd acc) l, l ++ snd acc))
                pre (true, []) = (true, taken_from R pre []).
  Proof.
    intros Hnd Hok R pre. induction pre as [|sp pre IH] using rev_ind; intros post Heq; [reflexivity|].
    rewrite fold_left_app. rewrite (IH (sp :: post)) by (now rewrite Heq, <- app_assoc).
    cbn [fold_left fst snd]. unfold taken_from at 3. rewrite fold_left_app. cbn [fold_left].
    fold (taken_from R pre []).
    rewrite <- app_assoc in Heq. simpl in Heq.
    pose proof (core specs {| st_assigned := []; st_results := [] |} pre sp post Hnd Heq) as Hc.
    fold R in Hc. cbn [st_assigned] in Hc. rewrite Hc at 1. now rewrite Hok.
  Qed.
End Loop.

Lemma fold_left_ext {S C} (g h : S -> C -> S) l : (forall s c, g s c = h s c) ->
  forall s, fold_left g l s = fold_left h l s.
Proof. intros H. induction l as [|c l IH]; intros s; simpl; [reflexivity|]. now rewrite H, IH. Qed.

Lemma assignments_results nodes m specs res :
  assignments nodes m specs = Some res ->
  res = final_map (st_results (fold_left (calc_step nname false nodes)
                                 (map (cfg_of (mlookup m) (chain_of specs)) specs)
                                 {| st_assigned := []; st_results := [] |})).
Proof.
  unfold assignments. destruct (valid_config specs); [|discriminate]. intros [= <-].
  now rewrite calc_unbatched.
Qed.

Lemma per_sched_model ok nodes m specs res :
  (forall ch a, NoDup (map nname nodes) ->
     ok (mlookup m) ch (indexed nodes) a (run_pipeline nname (to_gchain (mlookup m) ch) nodes a) = true) ->
  assignments nodes m specs = Some res -> per_sched ok nodes m specs res = true.
Proof.
  intros Hok Ha. unfold per_sched.
  destruct (nodupb (map nname nodes) && znodupb (map ss_name specs)) eqn:G; [|reflexivity].
  apply andb_true_iff in G. destruct G as [G1 G2].
  apply nodupb_NoDup in G1. apply znodupb_NoDup in G2.
  pose proof (assignments_results _ _ _ _ Ha) as Hres.
  set (R := st_results _) in Hres.
  rewrite (fold_left_ext _ (fun (acc : bool * list positive) s =>
             let l := rlookup R (ss_name s) in
             (fst acc && ok (mlookup m) (chain_of specs (ss_name s)) (indexed nodes) (snd acc) l, l ++ snd acc))).
  - unfold R. rewrite (law_fold (mlookup m) (chain_of specs) nodes ok specs G2) with (post := []).
    + reflexivity.
    + intros s a. now apply Hok.
    + now rewrite app_nil_r.
  - intros acc s. cbv zeta. now rewrite Hres, rlookup_final_map.
Qed.

(* the order law and the count law accept the model's result for ALL inputs *)
Theorem law_order_model nodes m specs res :
  assignments nodes m specs = Some res -> law_order nodes m specs res = true.
Proof.
  apply per_sched_model. intros ch a Hnd. now apply sched_order_ok_model.
Qed.

Theorem law_count_model nodes m specs res :
  assignments nodes m specs = Some res -> law_count nodes m specs res = true.
Proof.
  apply per_sched_model. intros ch a Hnd. now apply sched_count_ok_model.
Qed.

(* ------------------------------------------------------------------ *)
(* the selected list of a scheduler as a whole object                   *)
(* ------------------------------------------------------------------ *)

(* which nodes, in which order: scheduler [sp] gets exactly the selector chain
   applied to the stably score-sorted list of the nodes that pass all its
   filters and were not taken by the schedulers configured before it —
   unbatched and batched path alike ([assignments] dispatches on the size) *)
Theorem shard_exact nodes m specs res pre sp post :
  assignments nodes m specs = Some res ->
  NoDup (map ss_name specs) -> specs = pre ++ sp :: post ->
  let ch := chain_of specs (ss_name sp) in
  In (ss_name sp, rlookup res (ss_name sp)) res /\
  rlookup res (ss_name sp) =
    map nname (run_selectors (selectors_of ch)
      (sort_desc (total_score (mlookup m) ch)
        (filter (pass_all (filters_of (mlookup m) ch))
          (drop_assigned nname nodes (taken_from res pre []))))).
Proof.
  intros Ha Hnd Heq ch. pose proof (assignments_results _ _ _ _ Ha) as Hres.
  set (R := st_results _) in Hres.
  assert (Hr : forall n, rlookup res n = rlookup R n) by (intros n; now rewrite Hres, rlookup_final_map).
  split.
  - apply rlookup_In. rewrite Hres. unfold final_map. rewrite map_map. cbn [fst]. rewrite map_id.
    apply zsort_dedup_In.
    destruct (calc_results_app nname nodes (map (cfg_of (mlookup m) (chain_of specs)) specs)
                {| st_assigned := []; st_results := [] |}) as [new [H1 H2]].
    fold R in H1. cbn [st_results] in H1. rewrite app_nil_r in H1. rewrite H1, H2, <- in_rev, map_map.
    cbn [cfg_of fst]. rewrite Heq, map_app. apply in_or_app. right. now left.
  - rewrite (taken_from_ext res R pre Hr), Hr.
    pose proof (core (mlookup m) (chain_of specs) nodes specs {| st_assigned := []; st_results := [] |}
                  pre sp post Hnd Heq) as Hc.
    cbv zeta in Hc. fold R in Hc. cbn [st_assigned] in Hc. rewrite Hc, pipeline_spec.
    cbn [to_gchain g_filters g_selectors]. fold ch.
    now rewrite (sort_desc_ext _ (total_score (mlookup m) ch)) by apply eff_score_total.
Qed.

(* nothing better was skipped: an eligible, still unassigned node that was not
   selected comes after EVERY selected node in (weighted score descending,
   position in the node list) order *)
Theorem shard_no_skip nodes m specs res pre sp post p y :
  assignments nodes m specs = Some res ->
  NoDup (map nname nodes) -> NoDup (map ss_name specs) -> specs = pre ++ sp :: post ->
  let ch := chain_of specs (ss_name sp) in
  let l := rlookup res (ss_name sp) in
  In p (eligible_of (mlookup m) ch (indexed nodes) (taken_from res pre [])) -> ~ In (nm p) l ->
  In y (indexed nodes) -> In (nm y) l ->
  precedes (total_score (mlookup m) ch) y p = true.
Proof.
  intros Ha Hn Hnd Heq ch l. pose proof (assignments_results _ _ _ _ Ha) as Hres.
  set (R := st_results _) in Hres.
  assert (Hr : forall n, rlookup res n = rlookup R n) by (intros n; now rewrite Hres, rlookup_final_map).
  pose proof (core (mlookup m) (chain_of specs) nodes specs {| st_assigned := []; st_results := [] |}
                pre sp post Hnd Heq) as Hc.
  cbv zeta in Hc. fold R in Hc. cbn [st_assigned] in Hc.
  unfold l. rewrite (taken_from_ext res R pre Hr), Hr, Hc. fold ch.
  apply sel_no_skip. exact Hn.
Qed.

(* ------------------------------------------------------------------ *)
(* identical inputs, identical assignments: what Go iterates as a map   *)
(* ------------------------------------------------------------------ *)

(* the node-metric map: any listing order of the same map gives the same assignments *)
Lemma mlookup_notin (m : metrics) k : ~ In k (map fst m) -> mlookup m k = None.
Proof.
  induction m as [|[k' v] m IH]; simpl; intros H; [reflexivity|].
  destruct (Pos.eqb k' k) eqn:E; [apply Pos.eqb_eq in E; tauto | apply IH; tauto].
Qed.

Lemma mlookup_perm (m m' : metrics) :
  Permutation m m' -> NoDup (map fst m) -> forall k, mlookup m k = mlookup m' k.
Proof.
  induction 1 as [| [k v] m m' Hp IH | [k1 v1] [k2 v2] m | m m' m'' H1 IH1 H2 IH2]; intros Hnd n.
  - reflexivity.
  - simpl. inversion Hnd; subst. now rewrite IH.
  - simpl. destruct (Pos.eqb k1 n) eqn:E1, (Pos.eqb k2 n) eqn:E2; try reflexivity.
    apply Pos.eqb_eq in E1, E2. subst. inversion Hnd as [|? ? Hx _]; subst. simpl in Hx. tauto.
  - rewrite IH1 by assumption. apply IH2.
    eapply Permutation_NoDup; [|exact Hnd]. now apply Permutation_map.
Qed.

Theorem assignments_metrics_perm nodes m m' specs :
  NoDup (map fst m) -> Permutation m m' ->
  assignments nodes m specs = assignments nodes m' specs.
Proof. intros Hnd Hp. apply assignments_metrics_order. now apply mlookup_perm. Qed.

(* the node list: it reaches CalculateShardAssignments in the order the node
   lister happens to return it (listNodesFromCache does not sort), and on a
   tie of weighted scores that order decides — REFUTED as an invariance *)
Theorem node_order_refuted :
  exists nodes nodes' m specs,
    Permutation nodes nodes' /\ NoDup (map nname nodes) /\
    assignments nodes m specs = Some [(1, [1%positive])] /\
    assignments nodes' m specs = Some [(1, [2%positive])].
Proof.
  exists (plain_nodes 2), (rev (plain_nodes 2)), [], [spec_limit1]. repeat split.
  - apply Permutation_rev.
  - vm_compute. repeat constructor; simpl; intuition discriminate.
Qed.

(* ... and holds when no two nodes tie: then the sorted list, hence every shard,
   is the same for every order of the node list *)
Lemma Permutation_filter' {A} (p : A -> bool) l l' : Permutation l l' -> Permutation (filter p l) (filter p l').
Proof.
  induction 1 as [| x l l' _ IH | x y l | l l' l'' _ IH1 _ IH2]; simpl.
  - constructor.
  - destruct (p x); [now constructor | assumption].
  - destruct (p x), (p y); try reflexivity. apply perm_swap.
  - now transitivity (filter p l').
Qed.

Lemma strict_sorted_unique {A} (R : A -> A -> Prop) (l1 : list A) : forall l2,
  (forall x y, R x y -> R y x -> False) -> (forall x, R x x -> False) ->
  StronglySorted R l1 -> StronglySorted R l2 -> Permutation l1 l2 -> l1 = l2.
Proof.
  induction l1 as [|h1 t1 IH]; intros l2 Has Hir S1 S2 Hp.
  - apply Permutation_nil in Hp. now subst.
  - destruct l2 as [|h2 t2]; [apply Permutation_sym, Permutation_nil in Hp; discriminate|].
    inversion S1 as [|? ? S1' F1]; subst. inversion S2 as [|? ? S2' F2]; subst.
    rewrite Forall_forall in F1, F2.
    assert (Hh : h1 = h2).
    { assert (I1 : In h1 (h2 :: t2)) by (eapply Permutation_in; [exact Hp | now left]).
      assert (I2 : In h2 (h1 :: t1)) by (eapply Permutation_in; [apply Permutation_sym; exact Hp | now left]).
      destruct I1 as [E | I1]; [now symmetry|]. destruct I2 as [E | I2]; [assumption|].
      exfalso. exact (Has h1 h2 (F1 _ I2) (F2 _ I1)). }
    subst h2. f_equal. apply IH; auto. eapply Permutation_cons_inv; eauto.
Qed.

Definition tie_free (sc : node -> Q) (l : list node) : Prop :=
  forall x y, In x l -> In y l -> (sc x == sc y)%Q -> x = y.

Lemma sort_desc_perm_invariant (sc : node -> Q) l l' :
  NoDup l -> tie_free sc l -> Permutation l l' -> sort_desc sc l = sort_desc sc l'.
Proof.
  intros Hnd Htf Hp.
  set (R := fun a b : node => In a l /\ In b l /\ (sc b < sc a)%Q).
  assert (Hs : forall k, Permutation k l -> StronglySorted R (sort_desc sc k)).
  { intros k Hk. pose proof (sort_desc_sorted sc k) as Hge.
    assert (Hnd' : NoDup (sort_desc sc k)).
    { eapply Permutation_NoDup; [|exact Hnd]. symmetry. now rewrite sort_desc_perm. }
    assert (Hin : forall z, In z (sort_desc sc k) -> In z l).
    { intros z Hz. eapply Permutation_in; [|exact Hz]. now rewrite sort_desc_perm. }
    revert Hge Hnd' Hin. generalize (sort_desc sc k). intros t0 Hge. induction Hge as [|a t Ht IH Hf]; intros Hnd' Hin; [constructor|].
    inversion Hnd' as [|? ? Ha Hnt]; subst. constructor; [apply IH; auto; intros z Hz; apply Hin; now right|].
    rewrite Forall_forall in Hf. apply Forall_forall. intros b Hb. unfold R.
    split; [apply Hin; now left|]. split; [apply Hin; now right|].
    specialize (Hf b Hb). unfold ge_sc in Hf. apply Qle_lt_or_eq in Hf. destruct Hf as [Hlt | Heq]; [assumption|].
    exfalso. apply Ha. rewrite (Htf a b); auto; [apply Hin; now left | apply Hin; now right | now symmetry]. }
  apply (strict_sorted_unique R).
  - intros x y [_ [_ H1]] [_ [_ H2]]. eapply Qlt_irrefl. eapply Qlt_trans; eauto.
  - intros x [_ [_ H]]. eapply Qlt_irrefl; eauto.
  - apply Hs. reflexivity.
  - apply Hs. now symmetry.
  - rewrite !sort_desc_perm. exact Hp.
Qed.

Lemma run_pipeline_node_perm look ch nodes nodes' a :
  NoDup nodes -> tie_free (total_score look ch) nodes -> Permutation nodes nodes' ->
  run_pipeline nname (to_gchain look ch) nodes a = run_pipeline nname (to_gchain look ch) nodes' a.
Proof.
  intros Hnd Htf Hp. rewrite !pipeline_spec. cbn [to_gchain g_filters g_selectors]. do 2 f_equal.
  rewrite 2!(sort_desc_ext (eff_score (to_gchain look ch)) (total_score look ch)) by apply eff_score_total.
  apply sort_desc_perm_invariant.
  - unfold drop_assigned. now apply NoDup_filter, NoDup_filter.
  - intros x y Hx Hy. apply Htf.
    + apply filter_In in Hx. destruct Hx as [Hx _]. apply drop_assigned_In in Hx. tauto.
    + apply filter_In in Hy. destruct Hy as [Hy _]. apply drop_assigned_In in Hy. tauto.
  - unfold drop_assigned. now apply Permutation_filter', Permutation_filter'.
Qed.

(* with pairwise distinct weighted scores (per scheduler) the assignments do
   not depend on the order in which the lister returns the nodes *)
Theorem assignments_node_perm_tie_free nodes nodes' m specs :
  NoDup nodes -> Permutation nodes nodes' ->
  (forall s, In s specs -> tie_free (total_score (mlookup m) (chain_of specs (ss_name s))) nodes) ->
  assignments nodes m specs = assignments nodes' m specs.
Proof.
  intros Hnd Hp Htf. unfold assignments. destruct (valid_config specs); [|reflexivity].
  do 3 f_equal. rewrite !calc_unbatched. unfold calc_with, manager_chains.
  generalize {| st_assigned := []; st_results := [] |}.
  revert Htf. generalize (chain_of specs). intros f Htf.
  induction specs as [|s specs' IH]; intros st; simpl; [reflexivity|].
  rewrite IH by (intros s' Hs'; apply Htf; now right). f_equal.
  unfold calc_step. cbn [fst snd].
  now rewrite (run_pipeline_node_perm _ _ nodes nodes') by (auto; apply Htf; now left).
Qed.

(* ------------------------------------------------------------------ *)
(* the tolerance law (108) accepts the model's result as well           *)
(* ------------------------------------------------------------------ *)

Lemma total_score_class look ch (a b : node) :
  look (nname a) = look (nname b) -> nwarm a = nwarm b -> total_score look ch a = total_score look ch b.
Proof.
  intros H1 H2. unfold total_score. apply fold_left_ext. intros q rp.
  destruct rp as [w lo hi|w|mn mx]; [| |reflexivity].
  - unfold alloc_score. now rewrite H1.
  - unfold warm_score. now rewrite H2.
Qed.

Lemma same_class_score look ch a b :
  same_class look a b = true -> total_score look ch a = total_score look ch b.
Proof.
  unfold same_class. intros H. apply andb_true_iff in H. destruct H as [H1 H2].
  apply total_score_class; [|now apply Bool.eqb_prop].
  unfold opt_z_eqb in H1. destruct (look (nname a)), (look (nname b)); try discriminate; [|reflexivity].
  apply Z.eqb_eq in H1. now subst.
Qed.

Lemma tol_nonneg : (0 <= tol)%Q.
Proof. unfold tol, Qle. simpl. lia. Qed.

Lemma precedes_tol_of_precedes look ch (a b : inode) :
  precedes (total_score look ch) a b = true -> precedes_tol look (total_score look ch) a b = true.
Proof.
  set (sc := total_score look ch). unfold precedes, precedes_tol. intros H.
  apply orb_true_iff. right. apply orb_true_iff in H. apply andb_true_iff.
  assert (Hle : forall x y : Q, (x <= y)%Q -> (x <= y + tol)%Q).
  { intros x y Hxy. rewrite <- (Qplus_0_r x). apply Qplus_le_compat; [assumption | apply tol_nonneg]. }
  destruct H as [H | H].
  - apply qgt_true in H. split.
    + apply negb_true_iff, qgt_false, Hle. now apply Qlt_le_weak.
    + destruct (same_class look (snd a) (snd b)) eqn:E; [|reflexivity].
      exfalso. apply (same_class_score look ch) in E. fold sc in E. rewrite E in H. eapply Qlt_irrefl; eauto.
  - apply andb_true_iff in H. destruct H as [H1 H2]. apply Qeq_bool_iff in H1. split.
    + apply negb_true_iff, qgt_false, Hle. rewrite H1. apply Qle_refl.
    + rewrite H2. apply orb_true_r.
Qed.

Lemma chain_ok_tol_sorted look ch l :
  StronglySorted (lexP (total_score look ch)) l -> chain_ok_tol look (total_score look ch) l = true.
Proof.
  induction 1 as [|a l Hs IH Hf]; [reflexivity|].
  destruct l as [|b t]; [reflexivity|]. cbn [chain_ok_tol].
  inversion Hf; subst. apply andb_true_iff. split; [now apply precedes_tol_of_precedes | assumption].
Qed.

Theorem sched_order_tol_ok_model look ch nodes a :
  NoDup (map nname nodes) ->
  sched_order_tol_ok look ch (indexed nodes) a (run_pipeline nname (to_gchain look ch) nodes a) = true.
Proof.
  intros Hnd. destruct (sel_split look ch nodes a) as [T [rest [HS [Hsel _]]]].
  unfold sched_order_tol_ok. rewrite Hsel.
  pose proof (S_perm look ch nodes a) as Hperm. pose proof (S_lex look ch nodes a) as Hlex.
  rewrite HS in Hperm, Hlex.
  assert (HT : incl T (indexed nodes)).
  { intros p Hp. apply (E_incl look ch nodes a). apply (Permutation_in _ Hperm). apply in_or_app. now left. }
  rewrite (find_all_names _ _ (indexed_nodup nodes Hnd) HT).
  apply andb_true_iff. split; [apply chain_ok_tol_sorted; eapply sorted_app_l; eauto|].
  apply forallb_forall. intros p Hp.
  destruct (memb (nname (snd p)) (map nm T)) eqn:Em; [reflexivity|]. simpl.
  apply memb_false in Em. apply (Permutation_in _ (Permutation_sym Hperm)) in Hp.
  apply in_app_or in Hp. destruct Hp as [Hp | Hp].
  - exfalso. apply Em. change (nname (snd p)) with (nm p). now apply in_map.
  - apply forallb_forall. intros y Hy. apply precedes_tol_of_precedes.
    exact (sorted_app_cross _ _ _ _ _ Hlex Hy Hp).
Qed.

Theorem law_order_tol_model nodes m specs res :
  assignments nodes m specs = Some res -> law_order_tol nodes m specs res = true.
Proof.
  apply per_sched_model. intros ch a Hnd. now apply sched_order_tol_ok_model.
Qed.

(* ------------------------------------------------------------------ *)
(* the repaired listing (fix f5a4653): nodes sorted by name             *)
(* ------------------------------------------------------------------ *)

Lemma ins_node_perm x l : Permutation (ins_node x l) (x :: l).
Proof.
  induction l as [|y r IH]; simpl; [reflexivity|].
  destruct (Pos.leb (nname x) (nname y)); [reflexivity|]. rewrite IH. apply perm_swap.
Qed.

Lemma list_nodes_perm l : Permutation (list_nodes l) l.
Proof. induction l as [|x l IH]; simpl; [reflexivity|]. rewrite ins_node_perm. now constructor. Qed.

Definition name_le (a b : node) : Prop := (nname a <= nname b)%positive.

Lemma ins_node_sorted x l : StronglySorted name_le l -> StronglySorted name_le (ins_node x l).
Proof.
  induction l as [|y r IH]; simpl; intros H; [repeat constructor|].
  inversion H as [|? ? Hr Hy]; subst. destruct (Pos.leb (nname x) (nname y)) eqn:E.
  - apply Pos.leb_le in E. constructor; [assumption|]. constructor; [exact E|].
    eapply Forall_impl; [|exact Hy]. intros z Hz. unfold name_le in *. lia.
  - apply Pos.leb_gt in E. constructor; [now apply IH|].
    eapply Permutation_Forall; [symmetry; apply ins_node_perm|].
    constructor; [unfold name_le; lia | assumption].
Qed.

Lemma list_nodes_sorted l : StronglySorted name_le (list_nodes l).
Proof. induction l as [|x l IH]; simpl; [constructor | now apply ins_node_sorted]. Qed.

Definition name_lt (a b : node) : Prop := (nname a < nname b)%positive.

Lemma sorted_le_lt l : NoDup (map nname l) -> StronglySorted name_le l -> StronglySorted name_lt l.
Proof.
  induction l as [|a l IH]; intros Hnd Hs; [constructor|].
  simpl in Hnd. inversion Hnd as [|? ? Ha Hnd']; subst. inversion Hs as [|? ? Hs' Hf]; subst.
  constructor; [now apply IH|]. rewrite Forall_forall in Hf. apply Forall_forall. intros b Hb.
  specialize (Hf b Hb). unfold name_le, name_lt in *.
  assert (nname a <> nname b) by (intros E; apply Ha; rewrite E; now apply in_map). lia.
Qed.

(* whatever order the lister returns the nodes in, the controller works on the same list *)
Theorem list_nodes_order_independent nodes nodes' :
  Permutation nodes nodes' -> NoDup (map nname nodes) -> list_nodes nodes = list_nodes nodes'.
Proof.
  intros Hp Hnd. apply (strict_sorted_unique name_lt).
  - unfold name_lt. intros x y H1 H2. lia.
  - unfold name_lt. intros x H. lia.
  - apply sorted_le_lt; [|apply list_nodes_sorted].
    eapply Permutation_NoDup; [|exact Hnd]. apply Permutation_map. symmetry. apply list_nodes_perm.
  - apply sorted_le_lt; [|apply list_nodes_sorted].
    eapply Permutation_NoDup; [|exact Hnd]. apply Permutation_map.
    transitivity nodes'; [exact Hp | symmetry; apply list_nodes_perm].
  - rewrite !list_nodes_perm. exact Hp.
Qed.

(* identical cluster state, identical assignments — at full strength, ties included *)
Theorem assignments_lister_order_independent nodes nodes' m specs :
  Permutation nodes nodes' -> NoDup (map nname nodes) ->
  assignments (list_nodes nodes) m specs = assignments (list_nodes nodes') m specs.
Proof. intros Hp Hnd. now rewrite (list_nodes_order_independent nodes nodes' Hp Hnd). Qed.

(* ------------------------------------------------------------------ *)
(* statelessness across reconciles                                      *)
(* ------------------------------------------------------------------ *)

Lemma reconcile_fresh specs mg nodes m :
  new_manager specs = Some mg ->
  fst (reconcile mg nodes m) = mg /\ assignments nodes m specs = Some (snd (reconcile mg nodes m)).
Proof.
  unfold new_manager, assignments. destruct (valid_config specs); [|discriminate].
  intros [= <-]. split; [reflexivity|]. unfold reconcile, manager_chains. cbn [snd].
  now rewrite map_map.
Qed.

(* the k-th reconcile of ANY history on one manager returns what a fresh manager
   returns on the k-th input alone: no result depends on an earlier reconcile *)
Theorem history_stateless specs steps outs k ns m :
  history specs steps = Some outs -> nth_error steps k = Some (ns, m) ->
  exists r, nth_error outs k = Some r /\ assignments ns m specs = Some r.
Proof.
  unfold history. destruct (new_manager specs) as [mg|] eqn:Emg; [|discriminate].
  intros [= <-]. revert k. induction steps as [|[ns0 m0] steps IH]; intros k Hk; [now destruct k|].
  destruct k as [|k]; simpl in Hk.
  - injection Hk as -> ->. eexists. split; [reflexivity|].
    exact (proj2 (reconcile_fresh specs mg ns m Emg)).
  - exact (IH k Hk).
Qed.

Theorem history_length specs steps outs :
  history specs steps = Some outs -> length outs = length steps.
Proof.
  unfold history. destruct (new_manager specs) as [mg|]; [|discriminate]. intros [= <-].
  revert mg. induction steps as [|[ns m] steps IH]; intros mg; simpl; [reflexivity|].
  unfold reconcile. simpl. now rewrite IH.
Qed.
