(* C17 — the publication step (applyAssignment / assignmentNeedsUpdate): what
   holds of the published NodeShards for all histories, and what does not. *)
From Coq Require Import ZArith List Bool QArith Lia.
From V Require Import C17.Model C17.Laws C17.Lemmas C17.LawLemmas C17.ConfigLemmas.
Import ListNotations.
Open Scope Z_scope.

Lemma plookup_In pub s v : plookup pub s = Some v -> In (s, v) pub.
Proof.
  induction pub as [|[k w] t IH]; simpl; [discriminate|].
  destruct (k =? s) eqn:E; [|intros H; right; now apply IH].
  apply Z.eqb_eq in E. intros [= ->]. subst. now left.
Qed.

Lemma publish_In pub calc e : In e (publish pub calc) -> In e calc \/ In e pub.
Proof.
  unfold publish. rewrite in_map_iff. intros [[s l] [<- Hin]]. unfold publish_entry. cbn [fst snd].
  destruct (plookup pub s) as [cur|] eqn:E; [|now left].
  destruct (needs_update cur l); [now left|]. right. now apply plookup_In.
Qed.

Lemma publish_names pub calc : map fst (publish pub calc) = map fst calc.
Proof. unfold publish. rewrite map_map. reflexivity. Qed.

(* a shard that is (re)published shows the current calculation; one that is not keeps its old content *)
Lemma publish_current pub calc s l :
  In (s, l) calc ->
  plookup pub s = None \/ (exists cur, plookup pub s = Some cur /\ needs_update cur l = true) ->
  In (s, l) (publish pub calc).
Proof.
  intros Hin H. unfold publish. apply in_map_iff. exists (s, l). split; [|assumption].
  unfold publish_entry. cbn [fst snd]. destruct H as [-> | [cur [-> ->]]]; reflexivity.
Qed.

Lemma publish_kept pub calc s l cur :
  In (s, l) calc -> plookup pub s = Some cur -> needs_update cur l = false -> In (s, cur) (publish pub calc).
Proof.
  intros Hin H1 H2. unfold publish. apply in_map_iff. exists (s, l). split; [|assumption].
  unfold publish_entry. cbn [fst snd]. now rewrite H1, H2.
Qed.

(* every published shard is the calculated shard of the same scheduler at this
   or an earlier sync of the same history — never anything else *)
Lemma pub_history_origin mg steps : forall pub0 k pubk e,
  nth_error (pub_history mg pub0 steps) k = Some pubk -> In e pubk ->
  In e pub0 \/
  exists j ns m, (j <= k)%nat /\ nth_error steps j = Some (ns, m) /\
                 In e (snd (reconcile mg (list_nodes ns) m)).
Proof.
  induction steps as [|[ns0 m0] steps IH]; intros pub0 k pubk e Hk He; [now destruct k|].
  simpl in Hk. destruct k as [|k]; simpl in Hk.
  - injection Hk as <-. apply publish_In in He. destruct He as [He | He]; [|now left].
    right. exists 0%nat, ns0, m0. split; [lia|]. split; [reflexivity | assumption].
  - destruct (IH _ _ _ _ Hk He) as [H | [j [ns [m [Hj [Hn Hin]]]]]].
    + apply publish_In in H. destruct H as [H | H]; [|now left].
      right. exists 0%nat, ns0, m0. split; [lia|]. split; [reflexivity | assumption].
    + right. exists (S j), ns, m. split; [lia|]. split; assumption.
Qed.

Theorem published_is_earlier_calculation specs steps pubs k pubk e :
  publish_history specs steps = Some pubs -> nth_error pubs k = Some pubk -> In e pubk ->
  exists j ns m res, (j <= k)%nat /\ nth_error steps j = Some (ns, m) /\
                     sync_assignments ns m specs = Some res /\ In e res.
Proof.
  unfold publish_history. destruct (new_manager specs) as [mg|] eqn:Emg; [|discriminate].
  intros [= <-] Hk He.
  destruct (pub_history_origin mg steps [] k pubk e Hk He) as [[] | [j [ns [m [Hj [Hn Hin]]]]]].
  exists j, ns, m, (snd (reconcile mg (list_nodes ns) m)). repeat split; auto.
  unfold sync_assignments. exact (proj2 (reconcile_fresh specs mg (list_nodes ns) m Emg)).
Qed.

(* --- assignmentNeedsUpdate, exactly --- *)
Lemma needs_update_spec p c :
  needs_update p c = true <->
  length p <> length c \/ (Nat.max 1 (length c / 10) <= new_count p c)%nat.
Proof.
  unfold needs_update. destruct (length p =? length c)%nat eqn:E; simpl.
  - apply Nat.eqb_eq in E. rewrite Nat.leb_le. intuition.
  - apply Nat.eqb_neq in E. intuition.
Qed.

(* shards below 20 nodes: republished exactly when the count differs or some node is new *)
Theorem needs_update_small p c :
  (length c < 20)%nat ->
  (needs_update p c = true <-> length p <> length c \/ (1 <= new_count p c)%nat).
Proof.
  intros H. rewrite needs_update_spec.
  assert (length c / 10 < 2)%nat by (apply Nat.div_lt_upper_bound; lia).
  rewrite Nat.max_l by lia. reflexivity.
Qed.

(* ... from 20 nodes on, a single swapped node is never published *)
Theorem needs_update_single_swap_missed p c :
  length p = length c -> (20 <= length c)%nat -> new_count p c = 1%nat -> needs_update p c = false.
Proof.
  intros H1 H2 H3. destruct (needs_update p c) eqn:E; [|reflexivity].
  apply needs_update_spec in E. destruct E as [E | E]; [contradiction|].
  assert (2 <= length c / 10)%nat by (apply Nat.div_le_lower_bound; lia). lia.
Qed.

(* ... in general up to len/10 - 1 swapped nodes, and a pure reordering never *)
Theorem needs_update_below_threshold p c :
  length p = length c -> (new_count p c < Nat.max 1 (length c / 10))%nat -> needs_update p c = false.
Proof.
  intros H1 H2. destruct (needs_update p c) eqn:E; [|reflexivity].
  apply needs_update_spec in E. destruct E as [E | E]; [contradiction | lia].
Qed.

(* --- the published shards are NOT always disjoint / eligible (known finding
   C17-publish-hysteresis-keeps-stale-node): schedulers 1 = allocation-rate
   [0, 0.6], 2 = allocation-rate [0.7, 1.0]; nodes 1..20 at 0.30, node 21 at
   0.65, node 22 at 0.90; then node 1 rises to 0.90 and node 21 falls to 0.30.
   Scheduler 1's calculation swaps one node of twenty: not published.
   Scheduler 2's grows: published.  Node 1 is in both NodeShards, and fails
   scheduler 1's filter. --- *)
Definition hyst_specs : list sspec :=
  [ {| ss_name := 1; ss_cpumin := 0; ss_cpumax := 1000; ss_prefer := false; ss_minn := 0; ss_maxn := 0;
       ss_args := []; ss_policies := [{| ps_name := P_ALLOC; ps_weight := 1; ps_args := [(1, 0); (2, 600)] |}] |};
    {| ss_name := 2; ss_cpumin := 0; ss_cpumax := 1000; ss_prefer := false; ss_minn := 0; ss_maxn := 0;
       ss_args := []; ss_policies := [{| ps_name := P_ALLOC; ps_weight := 1; ps_args := [(1, 700); (2, 1000)] |}] |} ].

Definition hyst_metrics (u1 u21 : Z) : metrics :=
  map (fun i => (Pos.of_nat i, Some (if (i =? 1)%nat then u1 else if (i =? 21)%nat then u21
                                       else if (i =? 22)%nat then 900 else 300)))
      (seq 1 22).

Definition hyst_steps : list (list node * metrics) :=
  [ (plain_nodes 22, hyst_metrics 300 650); (plain_nodes 22, hyst_metrics 900 300) ].

Theorem published_disjoint_eligible_refuted :
  exists p1 p2 l1 l2,
    publish_history hyst_specs hyst_steps = Some [p1; p2] /\
    In (1, l1) p2 /\ In (2, l2) p2 /\ In 1%positive l1 /\ In 1%positive l2 /\
    alloc_filter (mlookup (hyst_metrics 900 300)) 0 60 {| nname := 1; nwarm := false |} = false /\
    law_disjoint p2 = false /\
    law_eligible (plain_nodes 22) (hyst_metrics 900 300) hyst_specs p2 = false /\
    sync_assignments (plain_nodes 22) (hyst_metrics 900 300) hyst_specs =
      Some [(1, map Pos.of_nat (seq 2 20)); (2, [1; 22]%positive)].
Proof.
  eexists _, _, (map Pos.of_nat (seq 1 20)), [1; 22]%positive.
  vm_compute. repeat split; auto 30.
Qed.

(* ------------------------------------------------------------------ *)
(* the worker's fallback (calculateAndApplyAssignment after 3dd3dc2)    *)
(* ------------------------------------------------------------------ *)

Lemma fallback_loop_spec nodes cfgs : forall st s l,
  NoDup (map fst cfgs) -> fallback_loop nodes cfgs (st_assigned st) s = Some l ->
  rlookup (st_results (fold_left (calc_step nname false nodes) cfgs st)) s = l.
Proof.
  induction cfgs as [|c r IH]; intros st s l Hnd H; [discriminate|].
  simpl in Hnd. inversion Hnd as [|? ? Hc Hnd']; subst. simpl in H. simpl fold_left.
  destruct (fst c =? s) eqn:E.
  - apply Z.eqb_eq in E. injection H as <-.
    destruct (calc_results_app nname nodes r (calc_step nname false nodes st c)) as [new [H1 H2]].
    rewrite H1, rlookup_app_notin by (rewrite H2, <- in_rev; now rewrite <- E).
    unfold calc_step. cbn [st_results rlookup]. now rewrite E, Z.eqb_refl.
  - apply (IH (calc_step nname false nodes st c)); assumption.
Qed.

Lemma fallback_loop_some nodes cfgs : forall assigned s,
  In s (map fst cfgs) -> exists l, fallback_loop nodes cfgs assigned s = Some l.
Proof.
  induction cfgs as [|c r IH]; intros assigned s Hin; [destruct Hin|]. simpl.
  destruct (fst c =? s) eqn:E; [eexists; reflexivity|].
  destruct Hin as [H | H]; [apply Z.eqb_neq in E; contradiction | now apply IH].
Qed.

(* for every scheduler the fallback computes exactly the scheduler's component of
   the global calculation on the same (listed) nodes and metrics — nothing else
   enters: not the NodeShard lister's content, not the order in which keys are processed *)
Theorem fallback_eq_global specs mg nodes m s :
  new_manager specs = Some mg -> In s (map ss_name specs) ->
  fallback mg nodes m s = Some (rlookup (snd (reconcile mg (list_nodes nodes) m)) s).
Proof.
  intros Hmg Hs.
  assert (Hnames : map fst mg = map ss_name specs /\ NoDup (map ss_name specs)).
  { unfold new_manager in Hmg. destruct (valid_config specs) eqn:Ev; [|discriminate]. injection Hmg as <-.
    split; [now rewrite map_map|]. apply (valid_config_facts specs Ev). }
  destruct Hnames as [Hn Hnd]. unfold fallback.
  assert (Hcn : map fst (mg_cfgs mg m) = map ss_name specs) by (unfold mg_cfgs; now rewrite map_map).
  destruct (fallback_loop_some (list_nodes nodes) (mg_cfgs mg m) [] s) as [l Hl]; [now rewrite Hcn|].
  rewrite Hl. f_equal. unfold reconcile. cbn [snd]. rewrite rlookup_final_map, calc_unbatched.
  unfold calc_with. symmetry.
  apply (fallback_loop_spec (list_nodes nodes) (mg_cfgs mg m) {| st_assigned := []; st_results := [] |} s l);
    [now rewrite Hcn | exact Hl].
Qed.
