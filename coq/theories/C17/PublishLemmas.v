(* C17 — the publication step (applyAssignment / assignmentNeedsUpdate): what
   holds of the published NodeShards for all histories, and what does not. *)
From Coq Require Import ZArith List Bool QArith Lia.
From V Require Import C17.Model C17.Laws C17.Lemmas C17.LawLemmas C17.ConfigLemmas.
Import ListNotations.
Open Scope Z_scope.

Lemma plookup_In pub s v : plookup pub s = Some v -> In (s, v) pub.
Proof.
  induction pub as [|[k w] t IH]; simpl; [discriminate|].
  destruct (k =? s) eqn:E; [|intros H; right; now apply IH].
  apply Z.eqb_eq in E. intros [= ->]. subst. now left.
Qed.

Lemma publish_In pub calc e : In e (publish pub calc) -> In e calc \/ In e pub.
Proof.
  unfold publish. rewrite in_map_iff. intros [[s l] [<- Hin]]. unfold publish_entry. cbn [fst snd].
  destruct (plookup pub s) as [cur|] eqn:E; [|now left].
  destruct (needs_update cur l); [now left|]. right. now apply plookup_In.
Qed.

Lemma publish_names pub calc : map fst (publish pub calc) = map fst calc.
Proof. unfold publish. rewrite map_map. reflexivity. Qed.

(* a shard that is (re)published shows the current calculation; one that is not keeps its old content *)
Lemma publish_current pub calc s l :
  In (s, l) calc ->
  plookup pub s = None \/ (exists cur, plookup pub s = Some cur /\ needs_update cur l = true) ->
  In (s, l) (publish pub calc).
Proof.
  intros Hin H. unfold publish. apply in_map_iff. exists (s, l). split; [|assumption].
  unfold publish_entry. cbn [fst snd]. destruct H as [-> | [cur [-> ->]]]; reflexivity.
Qed.

Lemma publish_kept pub calc s l cur :
  In (s, l) calc -> plookup pub s = Some cur -> needs_update cur l = false -> In (s, cur) (publish pub calc).
Proof.
  intros Hin H1 H2. unfold publish. apply in_map_iff. exists (s, l). split; [|assumption].
  unfold publish_entry. cbn [fst snd]. now rewrite H1, H2.
Qed.

(* every published shard is the calculated shard of the same scheduler at this
   or an earlier sync of the same history — never anything else *)
Lemma pub_history_origin mg steps : forall pub0 k pubk e,
  nth_error (pub_history mg pub0 steps) k = Some pubk -> In e pubk ->
  In e pub0 \/
  exists j ns m, (j <= k)%nat /\ nth_error steps j = Some (ns, m) /\
                 In e (snd (reconcile mg (list_nodes ns) m)).
Proof.
  induction steps as [|[ns0 m0] steps IH]; intros pub0 k pubk e Hk He; [now destruct k|].
  simpl in Hk. destruct k as [|k]; simpl in Hk.
  - injection Hk as <-. apply publish_In in He. destruct He as [He | He]; [|now left].
    right. exists 0%nat, ns0, m0. split; [lia|]. split; [reflexivity | assumption].
  - destruct (IH _ _ _ _ Hk He) as [H | [j [ns [m [Hj [Hn Hin]]]]]].
    + apply publish_In in H. destruct H as [H | H]; [|now left].
      right. exists 0%nat, ns0, m0. split; [lia|]. split; [reflexivity | assumption].
    + right. exists (S j), ns, m. split; [lia|]. split; assumption.
Qed.

Theorem published_is_earlier_calculation specs steps pubs k pubk e :
  publish_history specs steps = Some pubs -> nth_error pubs k = Some pubk -> In e pubk ->
  exists j ns m res, (j <= k)%nat /\ nth_error steps j = Some (ns, m) /\
                     sync_assignments ns m specs = Some res /\ In e res.
Proof.
  unfold publish_history. destruct (new_manager specs) as [mg|] eqn:Emg; [|discriminate].
  intros [= <-] Hk He.
  destruct (pub_history_origin mg steps [] k pubk e Hk He) as [[] | [j [ns [m [Hj [Hn Hin]]]]]].
  exists j, ns, m, (snd (reconcile mg (list_nodes ns) m)). repeat split; auto.
  unfold sync_assignments. exact (proj2 (reconcile_fresh specs mg (list_nodes ns) m Emg)).
Qed.

(* --- assignmentNeedsUpdate, exactly --- *)
Lemma needs_update_spec p c :
  needs_update p c = true <->
  length p <> length c \/ (Nat.max 1 (length c / 10) <= new_count p c)%nat.
Proof.
  unfold needs_update. destruct (length p =? length c)%nat eqn:E; simpl.
  - apply Nat.eqb_eq in E. rewrite Nat.leb_le. intuition.
  - apply Nat.eqb_neq in E. intuition.
Qed.

(* shards below 20 nodes: republished exactly when the count differs or some node is new *)
Theorem needs_update_small p c :
  (length c < 20)%nat ->
  (needs_update p c = true <-> length p <> length c \/ (1 <= new_count p c)%nat).
Proof.
  intros H. rewrite needs_update_spec.
  assert (length c / 10 < 2)%nat by (apply Nat.div_lt_upper_bound; lia).
  rewrite Nat.max_l by lia. reflexivity.
Qed.

(* ... from 20 nodes on, a single swapped node is never published *)
Theorem needs_update_single_swap_missed p c :
  length p = length c -> (20 <= length c)%nat -> new_count p c = 1%nat -> needs_update p c = false.
Proof.
  intros H1 H2 H3. destruct (needs_update p c) eqn:E; [|reflexivity].
  apply needs_update_spec in E. destruct E as [E | E]; [contradiction|].
  assert (2 <= length c / 10)%nat by (apply Nat.div_le_lower_bound; lia). lia.
Qed.

(* ... in general up to len/10 - 1 swapped nodes, and a pure reordering never *)
Theorem needs_update_below_threshold p c :
  length p = length c -> (new_count p c < Nat.max 1 (length c / 10))%nat -> needs_update p c = false.
Proof.
  intros H1 H2. destruct (needs_update p c) eqn:E; [|reflexivity].
  apply needs_update_spec in E. destruct E as [E | E]; [contradiction | lia].
Qed.

(* --- the published shards are NOT always disjoint / eligible (known finding
   C17-publish-hysteresis-keeps-stale-node): schedulers 1 = allocation-rate
   [0, 0.6], 2 = allocation-rate [0.7, 1.0]; nodes 1..20 at 0.30, node 21 at
   0.65, node 22 at 0.90; then node 1 rises to 0.90 and node 21 falls to 0.30.
   Scheduler 1's calculation swaps one node of twenty: not published.
   Scheduler 2's grows: published.  Node 1 is in both NodeShards, and fails
   scheduler 1's filter. --- *)
Definition hyst_specs : list sspec :=
  [ {| ss_name := 1; ss_cpumin := 0; ss_cpumax := 1000; ss_prefer := false; ss_minn := 0; ss_maxn := 0;
       ss_args := []; ss_policies := [{| ps_name := P_ALLOC; ps_weight := 1; ps_args := [(1, 0); (2, 600)] |}] |};
    {| ss_name := 2; ss_cpumin := 0; ss_cpumax := 1000; ss_prefer := false; ss_minn := 0; ss_maxn := 0;
       ss_args := []; ss_policies := [{| ps_name := P_ALLOC; ps_weight := 1; ps_args := [(1, 700); (2, 1000)] |}] |} ].

Definition hyst_metrics (u1 u21 : Z) : metrics :=
  map (fun i => (Pos.of_nat i, Some (if (i =? 1)%nat then u1 else if (i =? 21)%nat then u21
                                       else if (i =? 22)%nat then 900 else 300)))
      (seq 1 22).

Definition hyst_steps : list (list node * metrics) :=
  [ (plain_nodes 22, hyst_metrics 300 650); (plain_nodes 22, hyst_metrics 900 300) ].

Theorem published_disjoint_eligible_refuted :
  exists p1 p2 l1 l2,
    publish_history hyst_specs hyst_steps = Some [p1; p2] /\
    In (1, l1) p2 /\ In (2, l2) p2 /\ In 1%positive l1 /\ In 1%positive l2 /\
    alloc_filter (mlookup (hyst_metrics 900 300)) 0 60 {| nname := 1; nwarm := false |} = false /\
    law_disjoint p2 = false /\
    law_eligible (plain_nodes 22) (hyst_metrics 900 300) hyst_specs p2 = false /\
    sync_assignments (plain_nodes 22) (hyst_metrics 900 300) hyst_specs =
      Some [(1, map Pos.of_nat (seq 2 20)); (2, [1; 22]%positive)].
Proof.
  eexists _, _, (map Pos.of_nat (seq 1 20)), [1; 22]%positive.
  vm_compute. repeat split; auto 30.
Qed.

(* ------------------------------------------------------------------ *)
(* the worker's fallback (calculateAndApplyAssignment after 3dd3dc2)    *)
(* ------------------------------------------------------------------ *)

Lemma fallback_loop_spec nodes cfgs : forall st s l,
  NoDup (map fst cfgs) -> fallback_loop nodes cfgs (st_assigned st) s = Some l ->
  rlookup (st_results (fold_left (calc_step nname false nodes) cfgs st)) s = l.
Proof.
  induction cfgs as [|c r IH]; intros st s l Hnd H; [discriminate|].
  simpl in Hnd. inversion Hnd as [|? ? Hc Hnd']; subst. simpl in H. simpl fold_left.
  destruct (fst c =? s) eqn:E.
  - apply Z.eqb_eq in E. injection H as <-.
    destruct (calc_results_app nname nodes r (calc_step nname false nodes st c)) as [new [H1 H2]].
    rewrite H1, rlookup_app_notin by (rewrite H2, <- in_rev; now rewrite <- E).
    unfold calc_step. cbn [st_results rlookup]. now rewrite E, Z.eqb_refl.
  - apply (IH (calc_step nname false nodes st c)); assumption.
Qed.

Lemma fallback_loop_some nodes cfgs : forall assigned s,
  In s (map fst cfgs) -> exists l, fallback_loop nodes cfgs assigned s = Some l.
Proof.
  induction cfgs as [|c r IH]; intros assigned s Hin; [destruct Hin|]. simpl.
  destruct (fst c =? s) eqn:E; [eexists; reflexivity|].
  destruct Hin as [H | H]; [apply Z.eqb_neq in E; contradiction | now apply IH].
Qed.

(* for every scheduler the fallback computes exactly the scheduler's component of
   the global calculation on the same (listed) nodes and metrics — nothing else
   enters: not the NodeShard lister's content, not the order in which keys are processed *)
Theorem fallback_eq_global specs mg nodes m s :
  new_manager specs = Some mg -> In s (map ss_name specs) ->
  fallback mg nodes m s = Some (rlookup (snd (reconcile mg (list_nodes nodes) m)) s).
Proof.
  intros Hmg Hs.
  assert (Hnames : map fst mg = map ss_name specs /\ NoDup (map ss_name specs)).
  { unfold new_manager in Hmg. destruct (valid_config specs) eqn:Ev; [|discriminate]. injection Hmg as <-.
    split; [now rewrite map_map|]. apply (valid_config_facts specs Ev). }
  destruct Hnames as [Hn Hnd]. unfold fallback.
  assert (Hcn : map fst (mg_cfgs mg m) = map ss_name specs) by (unfold mg_cfgs; now rewrite map_map).
  destruct (fallback_loop_some (list_nodes nodes) (mg_cfgs mg m) [] s) as [l Hl]; [now rewrite Hcn|].
  rewrite Hl. f_equal. unfold reconcile. cbn [snd]. rewrite rlookup_final_map, calc_unbatched.
  unfold calc_with. symmetry.
  apply (fallback_loop_spec (list_nodes nodes) (mg_cfgs mg m) {| st_assigned := []; st_results := [] |} s l);
    [now rewrite Hcn | exact Hl].
Qed.

(* ------------------------------------------------------------------ *)
(* the op-level controller model (selector 8): what holds               *)
(* ------------------------------------------------------------------ *)

Lemma plookup_pinsert api s l t :
  plookup (pinsert api s l) t = if s =? t then Some l else plookup api t.
Proof.
  induction api as [|[k v] r IH]; simpl.
  - destruct (s =? t); reflexivity.
  - destruct (s <? k) eqn:E1; simpl.
    + destruct (s =? t); reflexivity.
    + destruct (s =? k) eqn:E2; simpl.
      * apply Z.eqb_eq in E2. subst k. destruct (s =? t); reflexivity.
      * rewrite IH. destruct (k =? t) eqn:E3; [|reflexivity].
        apply Z.eqb_eq in E3. subst k. now rewrite E2.
Qed.

(* applyAssignment for one scheduler, entry by entry *)
Lemma apply6_lookup api hidden s l t :
  plookup (apply6 api hidden s l) t =
  if s =? t then
    match plookup api s with
    | None => Some l
    | Some cur => if existsb (Z.eqb s) hidden then Some cur
                  else if needs_update cur l then Some l else Some cur
    end
  else plookup api t.
Proof.
  unfold apply6. destruct (plookup api s) as [cur|] eqn:E.
  - destruct (existsb (Z.eqb s) hidden).
    + destruct (s =? t) eqn:Et; [apply Z.eqb_eq in Et; now subst|reflexivity].
    + destruct (needs_update cur l).
      * apply plookup_pinsert.
      * destruct (s =? t) eqn:Et; [apply Z.eqb_eq in Et; now subst|reflexivity].
  - apply plookup_pinsert.
Qed.

(* a global sync with nothing hidden: every NodeShard of the calculation shows the
   calculated shard unless the damping threshold refuses the update — entry by entry *)
Lemma sync_fold_lookup (calc : list (Z * list positive)) : forall api t,
  NoDup (map fst calc) ->
  plookup (fold_left (fun a e => apply6 a [] (fst e) (snd e)) calc api) t =
  match plookup calc t with
  | None => plookup api t
  | Some l => match plookup api t with
              | None => Some l
              | Some cur => if needs_update cur l then Some l else Some cur
              end
  end.
Proof.
  induction calc as [|[s l] r IH]; intros api t Hnd; [reflexivity|].
  simpl in Hnd. inversion Hnd as [|? ? Hs Hnd']; subst. simpl fold_left. rewrite IH by assumption.
  cbn [fst snd plookup]. rewrite apply6_lookup. cbn [existsb].
  destruct (s =? t) eqn:E.
  - apply Z.eqb_eq in E. subst t.
    assert (Hr : plookup r s = None).
    { clear -Hs. induction r as [|[k v] r IH]; simpl in *; [reflexivity|].
      destruct (k =? s) eqn:E; [apply Z.eqb_eq in E; tauto | apply IH; tauto]. }
    rewrite Hr. destruct (plookup api s) as [cur|]; [|reflexivity].
    destruct (needs_update cur l); reflexivity.
  - reflexivity.
Qed.

Lemma zinsert_sorted x l : Sorted.StronglySorted Z.lt l -> Sorted.StronglySorted Z.lt (zinsert x l).
Proof.
  induction l as [|y r IH]; simpl; intros H; [repeat constructor|].
  inversion H as [|? ? Hr Hy]; subst.
  destruct (x <? y) eqn:E1.
  - apply Z.ltb_lt in E1. constructor; [assumption|]. constructor; [assumption|].
    eapply Forall_impl; [|exact Hy]. intros z Hz. lia.
  - destruct (x =? y) eqn:E2; [assumption|].
    apply Z.ltb_ge in E1. apply Z.eqb_neq in E2. constructor; [now apply IH|].
    apply Forall_forall. intros z Hz. apply zinsert_In in Hz. destruct Hz as [-> | Hz]; [lia|].
    rewrite Forall_forall in Hy. now apply Hy.
Qed.

Lemma zsort_dedup_sorted l : Sorted.StronglySorted Z.lt (zsort_dedup l).
Proof. induction l as [|x l IH]; simpl; [constructor | now apply zinsert_sorted]. Qed.

Lemma sorted_lt_nodup l : Sorted.StronglySorted Z.lt l -> NoDup l.
Proof.
  induction 1 as [|x l Hs IH Hf]; constructor; [|assumption].
  intros Hin. rewrite Forall_forall in Hf. specialize (Hf x Hin). lia.
Qed.

Lemma final_map_names_nodup r : NoDup (map fst (final_map r)).
Proof.
  unfold final_map. rewrite map_map. cbn [fst]. rewrite map_id.
  apply sorted_lt_nodup, zsort_dedup_sorted.
Qed.

Lemma plookup_rlookup_final r s l : plookup (final_map r) s = Some l -> In (s, l) (final_map r).
Proof. apply plookup_In. Qed.

Lemma In_plookup (calc : list (Z * list positive)) s l :
  NoDup (map fst calc) -> In (s, l) calc -> plookup calc s = Some l.
Proof.
  induction calc as [|[k v] r IH]; simpl; intros Hnd Hin; [destruct Hin|].
  inversion Hnd as [|? ? Hk Hnd']; subst. destruct Hin as [E | Hin].
  - injection E as -> ->. now rewrite Z.eqb_refl.
  - destruct (k =? s) eqn:E; [|now apply IH]. apply Z.eqb_eq in E. subst k.
    exfalso. apply Hk. change s with (fst (s, l)). now apply in_map.
Qed.

(* OSync with nothing hidden, entry by entry: the model's syncShards + workers *)
Theorem sync_step_lookup mg ns m st t :
  let calc := snd (reconcile mg (list_nodes ns) m) in
  plookup (c_api (step6 mg ns m st (OSync []))) t =
  match plookup calc t with
  | None => plookup (c_api st) t
  | Some l => match plookup (c_api st) t with
              | None => Some l
              | Some cur => if needs_update cur l then Some l else Some cur
              end
  end.
Proof.
  intros calc. cbn [step6 c_api]. apply sync_fold_lookup. apply final_map_names_nodup.
Qed.

(* the invariant the coordinator asked for: after a global sync with no hidden
   NodeShard and no damping (every existing NodeShard of a configured scheduler is
   either already current or gets updated), EVERY scheduler's published shard IS its
   calculated shard, and the published shards of different schedulers are disjoint *)
Theorem sync_without_damping_publishes_calculation specs mg ns m st :
  new_manager specs = Some mg ->
  let calc := snd (reconcile mg (list_nodes ns) m) in
  (forall s l cur, In (s, l) calc -> plookup (c_api st) s = Some cur -> needs_update cur l = true \/ cur = l) ->
  let api' := c_api (step6 mg ns m st (OSync [])) in
  (forall s l, In (s, l) calc -> plookup api' s = Some l) /\
  (forall s1 l1 s2 l2 x, In (s1, l1) calc -> In (s2, l2) calc -> s1 <> s2 ->
     plookup api' s1 = Some l1 /\ plookup api' s2 = Some l2 /\ ~ (In x l1 /\ In x l2)).
Proof.
  intros Hmg calc Hnd api'.
  assert (Hcur : forall s l, In (s, l) calc -> plookup api' s = Some l).
  { intros s l Hin. unfold api'. rewrite sync_step_lookup. fold calc.
    rewrite (In_plookup calc s l (final_map_names_nodup _) Hin).
    destruct (plookup (c_api st) s) as [cur|] eqn:E; [|reflexivity].
    destruct (Hnd s l cur Hin E) as [-> | ->]; [reflexivity|]. now destruct (needs_update l l). }
  split; [exact Hcur|]. intros s1 l1 s2 l2 x H1 H2 Hne. repeat split; auto.
  intros [Hx1 Hx2].
  pose proof (proj2 (reconcile_fresh specs mg (list_nodes ns) m Hmg)) as Ha. fold calc in Ha.
  exact (shards_disjoint _ _ _ _ s1 l1 s2 l2 x Ha H1 H2 Hne Hx1 Hx2).
Qed.

(* the fallback on a concrete controller (non-vacuity of C17_fallback_eq_global):
   two schedulers [0,1] capped at 2, four nodes at 0.1 .. 0.4 *)
Definition two_caps : list sspec :=
  map (fun k => {| ss_name := k; ss_cpumin := 0; ss_cpumax := 1000; ss_prefer := false; ss_minn := 0; ss_maxn := 0;
                   ss_args := [];
                   ss_policies := [ {| ps_name := P_ALLOC; ps_weight := 1; ps_args := [(1, 0); (2, 1000)] |};
                                    {| ps_name := P_LIMIT; ps_weight := 0; ps_args := [(4, 2)] |} ] |}) [1; 2].
Definition m_up : metrics := map (fun i => (Pos.of_nat i, Some (100 * Z.of_nat i))) (seq 1 4).
Definition m_down : metrics := map (fun i => (Pos.of_nat i, Some (100 * Z.of_nat (5 - i)))) (seq 1 4).

Example fallback_demo :
  exists mg, new_manager two_caps = Some mg /\
    fallback mg (plain_nodes 4) m_up 1 = Some [4; 3]%positive /\
    fallback mg (plain_nodes 4) m_up 2 = Some [2; 1]%positive /\
    fallback mg (plain_nodes 4) m_up 7 = None.
Proof. eexists. vm_compute. repeat split; reflexivity. Qed.

(* second audit N1 (known finding C17-fallback-republishes-one-shard): a global sync,
   then the utilisations are reversed, the cache is gone and only scheduler 2's key
   is processed: both NodeShards hold nodes 3 and 4 — no damping involved *)
Theorem fallback_single_key_overlap_refuted :
  exists p1 p2,
    publish_ops_history two_caps
      [ (plain_nodes 4, m_up, [OSync []]); (plain_nodes 4, m_down, [OClear; OKey 2 []]) ] = Some [p1; p2] /\
    p2 = [(1, [4; 3]%positive); (2, [3; 4]%positive)] /\
    law_disjoint p2 = false /\
    needs_update [4; 3]%positive [1; 2]%positive = true /\
    sync_assignments (plain_nodes 4) m_down two_caps = Some [(1, [1; 2]%positive); (2, [3; 4]%positive)].
Proof. eexists _, _. vm_compute. repeat split; reflexivity. Qed.

(* every NodeShard the op-level controller ever publishes — through a sync, a
   cached assignment or the fallback, with deleted and lister-hidden NodeShards —
   is some scheduler's entry of the global calculation of this or an earlier step *)
Definition inv6 (P : Z * list positive -> Prop) (st : cstate6) : Prop :=
  (forall e, In e (c_api st) -> P e) /\
  (forall c e, c_cache st = Some c -> In e c -> P e).

Lemma pinsert_In api s l e : In e (pinsert api s l) -> e = (s, l) \/ In e api.
Proof.
  induction api as [|[k v] r IH]; simpl; [intuition|].
  destruct (s <? k); simpl; [intuition|]. destruct (s =? k); simpl; [intuition|].
  intros [H | H]; [now right; left|]. destruct (IH H); [now left | now right; right].
Qed.

Lemma premove_In api s e : In e (premove api s) -> In e api.
Proof.
  induction api as [|[k v] r IH]; simpl; [tauto|].
  destruct (k =? s); simpl; [intros H; right; now apply IH|]. intros [H | H]; [now left | right; now apply IH].
Qed.

Lemma apply6_In api h s l e : In e (apply6 api h s l) -> e = (s, l) \/ In e api.
Proof.
  unfold apply6. destruct (plookup api s); [|apply pinsert_In].
  destruct (existsb (Z.eqb s) h); [now right|]. destruct (needs_update l0 l); [apply pinsert_In | now right].
Qed.

Lemma fallback_loop_In nodes cfgs : forall assigned s l,
  fallback_loop nodes cfgs assigned s = Some l -> In s (map fst cfgs).
Proof.
  induction cfgs as [|c r IH]; intros assigned s l H; [discriminate|]. simpl in H.
  destruct (fst c =? s) eqn:E; [apply Z.eqb_eq in E; now left | right; eapply IH; eauto].
Qed.

Lemma step6_inv specs mg ns m (P : Z * list positive -> Prop) st o :
  new_manager specs = Some mg ->
  (forall e, In e (snd (reconcile mg (list_nodes ns) m)) -> P e) ->
  inv6 P st -> inv6 P (step6 mg ns m st o).
Proof.
  intros Hmg Hcalc [Hapi Hcache]. destruct o as [hidden | s hidden | | s | failed]; cbn [step6].
  - split; cbn [c_api c_cache].
    + generalize (c_api st) Hapi. induction (snd (reconcile mg (list_nodes ns) m)) as [|[k v] r IH]; intros api Ha e He; [now apply Ha|].
      simpl in He. refine (IH _ _ _ e He); [intros; apply Hcalc; now right|].
      intros e' He'. apply apply6_In in He'. destruct He' as [-> | He']; [apply Hcalc; now left | now apply Ha].
    + intros c e [= <-]. apply Hcalc.
  - assert (Hd : forall l, match c_cache st with
                         | Some c => match plookup c s with Some l0 => Some l0 | None => fallback mg ns m s end
                         | None => fallback mg ns m s end = Some l -> P (s, l)).
    { intros l H.
      assert (Hf : fallback mg ns m s = Some l -> P (s, l)).
      { intros Hfb. assert (Hin : In s (map ss_name specs)).
        { unfold fallback in Hfb. apply fallback_loop_In in Hfb. unfold mg_cfgs in Hfb. rewrite map_map in Hfb. cbn [fst] in Hfb.
          unfold new_manager in Hmg. destruct (valid_config specs); [|discriminate]. injection Hmg as <-.
          now rewrite map_map in Hfb. }
        rewrite (fallback_eq_global specs mg ns m s Hmg Hin) in Hfb. injection Hfb as <-.
        apply Hcalc. apply rlookup_In. unfold reconcile. cbn [snd]. unfold final_map. rewrite map_map. cbn [fst]. rewrite map_id.
        apply zsort_dedup_In.
        destruct (calc_results_app nname (list_nodes ns) (map (fun c => (fst c, to_gchain (mlookup m) (snd c))) mg)
                    {| st_assigned := []; st_results := [] |}) as [new [H1 H2]].
        rewrite calc_unbatched. unfold calc_with. rewrite H1. cbn [st_results]. rewrite app_nil_r, H2, <- in_rev, map_map. cbn [fst].
        unfold new_manager in Hmg. destruct (valid_config specs); [|discriminate]. injection Hmg as <-. now rewrite map_map. }
      destruct (c_cache st) as [c|] eqn:Ec; [|now apply Hf].
      destruct (plookup c s) as [l0|] eqn:El; [|now apply Hf].
      injection H as <-. apply (Hcache c); [reflexivity | now apply plookup_In]. }
    destruct (match c_cache st with Some c => _ | None => _ end) as [l|] eqn:E; [|split; assumption].
    split; cbn [c_api c_cache]; [|assumption].
    intros e He. apply apply6_In in He. destruct He as [-> | He]; [now apply Hd | now apply Hapi].
  - split; cbn [c_api c_cache]; [assumption | discriminate].
  - split; cbn [c_api c_cache]; [|assumption]. intros e He. apply Hapi. eapply premove_In; eauto.
  - split; cbn [c_api c_cache].
    + generalize (c_api st) Hapi. induction (snd (reconcile mg (list_nodes ns) m)) as [|[k v] r IH]; intros api Ha e He; [now apply Ha|].
      simpl in He. refine (IH _ _ _ e He); [intros; apply Hcalc; now right|].
      intros e' He'. destruct (existsb (Z.eqb k) failed); [now apply Ha|].
      apply apply6_In in He'. destruct He' as [-> | He']; [apply Hcalc; now left | now apply Ha].
    + intros c e [= <-]. apply Hcalc.
Qed.

Lemma fold_step6_inv specs mg ns m (P : Z * list positive -> Prop) ops : forall st,
  new_manager specs = Some mg ->
  (forall e, In e (snd (reconcile mg (list_nodes ns) m)) -> P e) ->
  inv6 P st -> inv6 P (fold_left (step6 mg ns m) ops st).
Proof.
  induction ops as [|o ops IH]; intros st Hmg Hc H0; [exact H0|].
  simpl. apply IH; auto. eapply step6_inv; eauto.
Qed.

Lemma inv6_weaken (P Q : Z * list positive -> Prop) st : (forall e, P e -> Q e) -> inv6 P st -> inv6 Q st.
Proof. intros H [H1 H2]. split; [intros e He; apply H, H1, He | intros c e Hc He; apply H; eapply H2; eauto]. Qed.

Definition from_step (mg : manager) (steps : list (list node * metrics * list op6)) (k : nat) (e : Z * list positive) : Prop :=
  exists j ns m ops, (j <= k)%nat /\ nth_error steps j = Some (ns, m, ops) /\
                     In e (snd (reconcile mg (list_nodes ns) m)).

Lemma ops_history_origin specs mg : new_manager specs = Some mg ->
  forall steps st (P0 : Z * list positive -> Prop) k api e,
  inv6 P0 st -> nth_error (ops_history mg st steps) k = Some api -> In e api ->
  P0 e \/ from_step mg steps k e.
Proof.
  intros Hmg. induction steps as [|[[ns m] ops] steps IH]; intros st P0 k api e Hinv Hk He; [now destruct k|].
  set (P1 := fun e => P0 e \/ exists x : unit, In e (snd (reconcile mg (list_nodes ns) m))).
  assert (Hst' : inv6 P1 (fold_left (step6 mg ns m) ops st)).
  { apply (fold_step6_inv specs); auto.
    - intros e' He'. right. now exists tt.
    - eapply inv6_weaken; [|exact Hinv]. intros; now left. }
  simpl in Hk. destruct k as [|k]; simpl in Hk.
  - injection Hk as <-. destruct Hst' as [Ha _]. destruct (Ha e He) as [H | [_ H]]; [now left|].
    right. exists 0%nat, ns, m, ops. repeat split; auto.
  - destruct (IH _ P1 k api e Hst' Hk He) as [[H | [_ H]] | [j [ns' [m' [ops' [Hj [Hn Hin]]]]]]].
    + now left.
    + right. exists 0%nat, ns, m, ops. split; [lia|]. split; [reflexivity | assumption].
    + right. exists (S j), ns', m', ops'. split; [lia|]. split; assumption.
Qed.

Theorem published_ops_is_earlier_calculation specs steps pubs k api e :
  publish_ops_history specs steps = Some pubs -> nth_error pubs k = Some api -> In e api ->
  exists j ns m ops res, (j <= k)%nat /\ nth_error steps j = Some (ns, m, ops) /\
                         sync_assignments ns m specs = Some res /\ In e res.
Proof.
  unfold publish_ops_history. destruct (new_manager specs) as [mg|] eqn:Emg; [|discriminate].
  intros [= <-] Hk He.
  destruct (ops_history_origin specs mg Emg steps {| c_api := []; c_cache := None |} (fun _ => False) k api e)
    as [[] | [j [ns [m [ops [Hj [Hn Hin]]]]]]]; auto.
  - split; [intros e0 [] | intros c e0; discriminate].
  - exists j, ns, m, ops, (snd (reconcile mg (list_nodes ns) m)). repeat split; auto.
    unfold sync_assignments. exact (proj2 (reconcile_fresh specs mg (list_nodes ns) m Emg)).
Qed.
