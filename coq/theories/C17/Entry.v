(* Entry point of the C17 correspondence: selector + tokens -> tokens.
   Input of every selector starts with  nodes, metrics, scheduler specs:
     nodes    = n, then n times (name, warm)
     metrics  = n, then n times (name, present?, [permille])
     specs    = n, then n times (name, cpuMin, cpuMax, preferWarmup, minNodes, maxNodes,
                                 legacy args, policies)
     args     = n, then n times (key, value)
     policies = n, then n times (name, weight, args)
   A result is  n, then n times (scheduler, k, k node names), ascending by scheduler. *)
From Coq Require Import ZArith List Bool.
From V Require Import Base.Codec C17.Model C17.Laws.
Import ListNotations.
Open Scope Z_scope.

Definition tag (i : Z) : list Z := [-100 - i].

Definition dNode : dec node := let* n := dPos in let* w := dBool in ret {| nname := n; nwarm := w |}.
Definition dMetrics : dec metrics := dList (dPair dPos (dOpt dZ)).
Definition dArgs : dec args := dList (dPair dZ dZ).
Definition dPspec : dec pspec :=
  let* n := dZ in let* w := dZ in let* a := dArgs in ret {| ps_name := n; ps_weight := w; ps_args := a |}.
Definition dSspec : dec sspec :=
  let* n := dZ in let* c1 := dZ in let* c2 := dZ in let* pw := dBool in
  let* mn := dZ in let* mx := dZ in let* a := dArgs in let* ps := dList dPspec in
  ret {| ss_name := n; ss_cpumin := c1; ss_cpumax := c2; ss_prefer := pw;
         ss_minn := mn; ss_maxn := mx; ss_args := a; ss_policies := ps |}.
Definition dInput : dec (list node * metrics * list sspec) :=
  let* ns := dList dNode in let* m := dMetrics in let* ss := dList dSspec in ret (ns, m, ss).
Definition dResult : dec result := dList (dPair dZ (dList dPos)).

Definition eResult (r : result) : list Z := eList (fun e => fst e :: eList ePos (snd e)) r.

Definition eAssign (o : option result) : list Z :=
  tag 1 ++ match o with
           | None => [0]
           | Some r => [1] ++ tag 2 ++ eResult r
           end.

(* a history: specs, then the steps; a step = nodes, then metrics entries that also
   carry the ResourceVersion token the harness gives the NodeMetrics (ignored by the model:
   utilisation comes from pods and moves without it) *)
Definition dMetricsRv : dec metrics :=
  dList (let* n := dPos in let* v := dOpt dZ in let* rv := dZ in ret (n, v)).
Definition dHistory : dec (list sspec * list (list node * metrics)) :=
  let* ss := dList dSspec in
  let* steps := dList (dPair (dList dNode) dMetricsRv) in ret (ss, steps).

Definition eHistory (o : option (list result)) : list Z :=
  tag 1 ++ match o with
           | None => [0]
           | Some outs => [1] ++ tag 2 ++ eList (fun r => tag 3 ++ eResult r) outs
           end.

(* an op-level controller history: specs, then steps = nodes, metrics (with rv), ops;
   an op = code (1 sync, 2 key, 3 clear cache, 4 delete shard, 5 sync with failing writes), scheduler, hidden (5: failing) NodeShards *)
Definition dOp : dec op6 :=
  let* c := dZ in let* s := dZ in let* h := dList dZ in
  if c =? 1 then ret (OSync h) else if c =? 2 then ret (OKey s h)
  else if c =? 3 then ret OClear else if c =? 4 then ret (ODelete s)
  else if c =? 5 then ret (OSyncFaulty h) else fail.
Definition dOpsHistory : dec (list sspec * list (list node * metrics * list op6)) :=
  let* ss := dList dSspec in
  let* steps := dList (let* ns := dList dNode in let* m := dMetricsRv in let* ops := dList dOp in ret (ns, m, ops)) in
  ret (ss, steps).

Definition entry (sel : Z) (toks : list Z) : list Z :=
  match sel with
  (* CalculateShardAssignments through the real configuration path *)
  | 1 => match run_dec dInput toks with
         | Some (ns, m, ss) => eAssign (assignments ns m ss)
         | None => bad_input end
  (* the same with the pre-fix batched path (development aid: run against a pre-fix worktree) *)
  | 2 => match run_dec dInput toks with
         | Some (ns, m, ss) => eAssign (old_assignments ns m ss)
         | None => bad_input end
  (* near-tie inputs (float64 may order exact ties either way): only the accept/reject
     decision is compared; the assignment itself is judged by the laws, 108 in place of 104 *)
  | 3 => match run_dec dInput toks with
         | Some (_, _, ss) => tag 1 ++ eBool (valid_config ss)
         | None => bad_input end
  (* syncShards' view: the nodes as listNodesFromCache returns them (sorted by name), then the calculation *)
  | 4 => match run_dec dInput toks with
         | Some (ns, m, ss) => eAssign (sync_assignments ns m ss)
         | None => bad_input end
  (* one manager, a sequence of reconciles with changing nodes / metrics *)
  | 5 => match run_dec dHistory toks with
         | Some (ss, steps) => eHistory (history ss steps)
         | None => bad_input end
  (* one controller, a sequence of syncs: the PUBLISHED NodeShards after every sync *)
  | 6 => match run_dec dHistory toks with
         | Some (ss, steps) => eHistory (publish_history ss steps)
         | None => bad_input end
  (* the same, with every sync after the first driven through syncHandler's fallback
     (expired assignment cache -> calculateAndApplyAssignment): the same function *)
  | 7 => match run_dec dHistory toks with
         | Some (ss, steps) => eHistory (publish_history ss steps)
         | None => bad_input end
  (* the controller key by key: syncs, single worker items in any order, cache clears,
     deleted NodeShards, NodeShards missing from the lister; the NodeShards on the API server after every step *)
  | 8 => match run_dec dOpsHistory toks with
         | Some (ss, steps) => eHistory (publish_ops_history ss steps)
         | None => bad_input end
  (* laws evaluated on the implementation's own results: must answer [1] *)
  | 101 => match run_dec dResult toks with
           | Some r => eBool (law_disjoint r) | None => bad_input end
  | 102 => match run_dec (dPair dInput dResult) toks with
           | Some ((_, _, ss), r) => eBool (law_bounded ss r) | None => bad_input end
  | 103 => match run_dec (dPair dInput dResult) toks with
           | Some ((ns, m, ss), r) => eBool (law_eligible ns m ss r) | None => bad_input end
  | 104 => match run_dec (dPair dInput dResult) toks with
           | Some ((ns, m, ss), r) => eBool (law_order ns m ss r) | None => bad_input end
  | 105 => match run_dec (dPair dResult dResult) toks with
           | Some (a, b) => eBool (law_deterministic a b) | None => bad_input end
  | 106 => match run_dec (dPair dInput dResult) toks with
           | Some ((ns, m, ss), r) => eBool (law_count ns m ss r) | None => bad_input end
  (* the same cluster listed by two differently filled node listers: identical assignments *)
  | 107 => match run_dec (dPair dResult dResult) toks with
           | Some (a, b) => eBool (law_deterministic a b) | None => bad_input end
  (* a reconcile on a reused manager against a fresh manager on the same input *)
  | 109 => match run_dec (dPair dResult dResult) toks with
           | Some (a, b) => eBool (law_deterministic a b) | None => bad_input end
  (* the published NodeShards after a sync: pairwise disjoint; every node eligible on the current metrics *)
  | 110 => match run_dec dResult toks with
           | Some r => eBool (law_disjoint r) | None => bad_input end
  | 111 => match run_dec (dPair dInput dResult) toks with
           | Some ((ns, m, ss), r) => eBool (law_eligible ns m ss r) | None => bad_input end
  (* bound / eligibility against the configured policy entries *)
  | 112 => match run_dec (dPair dInput dResult) toks with
           | Some ((_, _, ss), r) => eBool (law_bounded_config ss r) | None => bad_input end
  | 113 => match run_dec (dPair dInput dResult) toks with
           | Some ((ns, m, ss), r) => eBool (law_eligible_config ns m ss r) | None => bad_input end
  | 108 => match run_dec (dPair dInput dResult) toks with
           | Some ((ns, m, ss), r) => eBool (law_order_tol ns m ss r) | None => bad_input end
  | _ => bad_input
  end.
