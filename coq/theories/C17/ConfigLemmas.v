(* C17 — the property stated against the CONFIGURATION (the policy entries an
   accepted ShardingConfig carries after applyPolicyDefaults), not against the
   manager's initialised chain; and what acceptance of a Go result by the
   boolean laws means as a Prop. *)
From Coq Require Import ZArith List Bool QArith Lia Permutation Sorted.
From V Require Import C17.Model C17.Laws C17.Lemmas C17.LawLemmas.
Import ListNotations.
Open Scope Z_scope.

Lemma zdistinct_NoDup l : zdistinct l = true -> NoDup l.
Proof.
  induction l as [|x l IH]; simpl; intros H; [constructor|].
  apply andb_true_iff in H. destruct H as [H1 H2]. constructor; [|now apply IH].
  apply negb_true_iff in H1. intros Hin.
  assert (existsb (Z.eqb x) l = true); [|congruence].
  apply existsb_exists. exists x. split; [assumption | apply Z.eqb_refl].
Qed.

(* what an accepted configuration guarantees (ParseShardingConfig after fix 4209844) *)
Lemma valid_config_facts specs :
  valid_config specs = true ->
  (forall s, In s specs -> valid_spec s = true) /\ all_init specs /\ NoDup (map ss_name specs).
Proof.
  unfold valid_config. intros H. apply andb_prop in H. destruct H as [H H3].
  apply andb_prop in H. destruct H as [H1 H2]. repeat split.
  - unfold valid_specs in H1. destruct specs; [discriminate|]. rewrite forallb_forall in H1. exact H1.
  - unfold all_init, sched_configs. apply Forall_forall. intros c Hc. apply in_map_iff in Hc.
    destruct Hc as [s [<- Hs]]. cbn [snd]. rewrite forallb_forall in H2. specialize (H2 s Hs).
    unfold chain_inits in H2. destruct (init_chain (map to_ref (apply_defaults s))); [discriminate | discriminate].
  - now apply zdistinct_NoDup.
Qed.

Lemma assignments_valid nodes m specs res :
  assignments nodes m specs = Some res -> valid_config specs = true.
Proof. unfold assignments. destruct (valid_config specs); [reflexivity | discriminate]. Qed.

Lemma init_chain_all ps : forall ch q,
  init_chain ps = Some ch -> In q ps -> exists rp, init_policy q = Some rp /\ In rp ch.
Proof.
  induction ps as [|p ps IH]; intros ch q Hc Hin; [destruct Hin|].
  simpl in Hc. destruct (init_policy p) as [rp|] eqn:Ep; [|discriminate].
  destruct (init_chain ps) as [ch'|] eqn:Ec; [|discriminate]. injection Hc as <-.
  destruct Hin as [-> | Hin].
  - exists rp. split; [assumption | now left].
  - destruct (IH ch' q eq_refl Hin) as [r [H1 H2]]. exists r. split; [assumption | now right].
Qed.

(* every policy entry of an accepted configuration IS in the chain its scheduler runs *)
Lemma configured_policy_in_chain specs sp p :
  valid_config specs = true -> In sp specs -> In p (apply_defaults sp) ->
  exists rp, init_policy (to_ref p) = Some rp /\ In rp (chain_of specs (ss_name sp)).
Proof.
  intros Hv Hsp Hp. destruct (valid_config_facts specs Hv) as [_ [Hall Hnd]].
  assert (Hc : In (ss_name sp, map to_ref (apply_defaults sp)) (sched_configs specs)).
  { unfold sched_configs. apply in_map_iff. now exists sp. }
  destruct (init_chain (map to_ref (apply_defaults sp))) as [ch|] eqn:Ech.
  - destruct (init_chain_all _ ch (to_ref p) Ech (in_map to_ref _ _ Hp)) as [rp [H1 H2]].
    exists rp. split; [assumption|]. unfold chain_of, policy_cache.
    rewrite (init_all_lookup _ [] _ (map to_ref (apply_defaults sp)) ch); try assumption.
    unfold sched_configs. rewrite map_map. exact Hnd.
  - unfold all_init in Hall. rewrite Forall_forall in Hall. specialize (Hall _ Hc). cbn in Hall. congruence.
Qed.

(* clause 2 against the configuration: every node-limit entry of the scheduler's
   configured chain (explicit, or synthesized from the deprecated scalars) caps its shard *)
Theorem shard_bounded_config nodes m specs res sp p l :
  assignments nodes m specs = Some res -> In sp specs ->
  In p (apply_defaults sp) -> ps_name p = P_LIMIT -> 0 < arg_or (ps_args p) 4 0 ->
  In (ss_name sp, l) res -> Z.of_nat (length l) <= arg_or (ps_args p) 4 0.
Proof.
  intros Ha Hsp Hp Hn Hmx Hin.
  destruct (configured_policy_in_chain specs sp p (assignments_valid _ _ _ _ Ha) Hsp Hp) as [rp [Hi Hc]].
  unfold init_policy, to_ref in Hi. cbn [ps_name ps_args] in Hi. rewrite Hn in Hi. cbn in Hi.
  destruct ((arg_or (ps_args p) 3 0 <? 0) || ((0 <? arg_or (ps_args p) 4 0) && (arg_or (ps_args p) 4 0 <? arg_or (ps_args p) 3 0)));
    [discriminate|]. injection Hi as <-.
  eapply shard_bounded; eauto.
Qed.

(* clause 3 against the configuration: every allocation-rate entry of the
   scheduler's configured chain is passed by every node of its shard *)
Theorem shard_eligible_config nodes m specs res sp p l x :
  assignments nodes m specs = Some res -> In sp specs ->
  In p (apply_defaults sp) -> ps_name p = P_ALLOC ->
  In (ss_name sp, l) res -> In x l ->
  exists n, In n nodes /\ nname n = x /\
    alloc_filter (mlookup m) (round_util (arg_or (ps_args p) 1 0)) (round_util (arg_or (ps_args p) 2 0)) n = true.
Proof.
  intros Ha Hsp Hp Hn Hin Hx.
  destruct (configured_policy_in_chain specs sp p (assignments_valid _ _ _ _ Ha) Hsp Hp) as [rp [Hi Hc]].
  unfold init_policy, to_ref in Hi. cbn [ps_name ps_args ps_weight] in Hi. rewrite Hn in Hi. cbn in Hi.
  destruct ((arg_or (ps_args p) 1 0 <? 0) || (1000 <? arg_or (ps_args p) 2 0) || (arg_or (ps_args p) 2 0 <? arg_or (ps_args p) 1 0));
    [discriminate|]. injection Hi as <-.
  destruct (shard_eligible nodes m specs res (ss_name sp) l x Ha Hin Hx) as [n [H1 [H2 H3]]].
  exists n. split; [assumption|]. split; [assumption|]. eapply H3. exact Hc.
Qed.

(* the deprecated scalar, without side conditions on the rest of the configuration *)
Theorem legacy_max_nodes_bound_config nodes m specs res sp l :
  assignments nodes m specs = Some res -> In sp specs ->
  has_policy (ss_policies sp) P_LIMIT = false -> 0 < ss_maxn sp ->
  In (ss_name sp, l) res -> Z.of_nat (length l) <= ss_maxn sp.
Proof.
  intros Ha Hsp Hno Hmx Hin.
  destruct (valid_config_facts specs (assignments_valid _ _ _ _ Ha)) as [_ [Hall Hnd]].
  eapply legacy_max_nodes_bound; eauto.
Qed.

(* the whole object and no-skip, for every accepted configuration *)
Theorem shard_exact_config nodes m specs res pre sp post :
  assignments nodes m specs = Some res -> specs = pre ++ sp :: post ->
  let ch := chain_of specs (ss_name sp) in
  In (ss_name sp, rlookup res (ss_name sp)) res /\
  rlookup res (ss_name sp) =
    map nname (run_selectors (selectors_of ch)
      (sort_desc (total_score (mlookup m) ch)
        (filter (pass_all (filters_of (mlookup m) ch))
          (drop_assigned nname nodes (taken_from res pre []))))).
Proof.
  intros Ha Heq. destruct (valid_config_facts specs (assignments_valid _ _ _ _ Ha)) as [_ [_ Hnd]].
  exact (shard_exact nodes m specs res pre sp post Ha Hnd Heq).
Qed.

Theorem shard_no_skip_config nodes m specs res pre sp post p y :
  assignments nodes m specs = Some res ->
  NoDup (map nname nodes) -> specs = pre ++ sp :: post ->
  let ch := chain_of specs (ss_name sp) in
  let l := rlookup res (ss_name sp) in
  In p (eligible_of (mlookup m) ch (indexed nodes) (taken_from res pre [])) -> ~ In (nm p) l ->
  In y (indexed nodes) -> In (nm y) l ->
  precedes (total_score (mlookup m) ch) y p = true.
Proof.
  intros Ha Hn Heq. destruct (valid_config_facts specs (assignments_valid _ _ _ _ Ha)) as [_ [_ Hnd]].
  exact (shard_no_skip nodes m specs res pre sp post p y Ha Hn Hnd Heq).
Qed.

(* a configuration whose chain cannot be initialised is rejected — the
   pre-fix manager ran it with an EMPTY chain (no filter, no cap): kept as the witness *)
Definition bad_chain_spec : sspec :=
  {| ss_name := 1; ss_cpumin := 0; ss_cpumax := 1000; ss_prefer := false; ss_minn := 0; ss_maxn := 0;
     ss_args := [];
     ss_policies := [ {| ps_name := P_ALLOC; ps_weight := 1; ps_args := [(1, 800); (2, 200)] |};
                      {| ps_name := P_LIMIT; ps_weight := 0; ps_args := [(4, 1)] |} ] |}.

Theorem uninitialisable_chain_refuted :
  valid_specs [bad_chain_spec] = true /\                 (* what ParseShardingConfig checked before the fix *)
  chain_of [bad_chain_spec] 1 = [] /\                    (* what initializePolicies leaves behind *)
  final_map (st_results (calc nname (plain_nodes 5) (manager_chains (mlookup []) [bad_chain_spec])))
    = [(1, [1; 2; 3; 4; 5]%positive)] /\                 (* cap 1 configured, 5 of 5 nodes assigned *)
  assignments (plain_nodes 5) [] [bad_chain_spec] = None. (* now: rejected *)
Proof. vm_compute. repeat split; reflexivity. Qed.

(* ------------------------------------------------------------------ *)
(* what the boolean laws mean on ANY result (e.g. a Go result)          *)
(* ------------------------------------------------------------------ *)

Theorem law_eligible_sound nodes m specs (r : result) s l x :
  law_eligible nodes m specs r = true -> In (s, l) r -> In x l ->
  exists n, In n nodes /\ nname n = x /\ pass_all (filters_of (mlookup m) (chain_of specs s)) n = true.
Proof.
  unfold law_eligible. rewrite forallb_forall. intros H Hin Hx. specialize (H _ Hin). cbn [fst snd] in H.
  rewrite forallb_forall in H. specialize (H _ Hx). apply existsb_exists in H.
  destruct H as [n [Hn H]]. apply andb_true_iff in H. destruct H as [H1 H2].
  apply Pos.eqb_eq in H1. exists n. tauto.
Qed.

(* the per-scheduler laws: acceptance means the per-scheduler check holds for
   EVERY scheduler, with exactly the nodes the result gives to the schedulers before it *)
Lemma per_sched_fold (ok : (positive -> option Z) -> list rpol -> list inode -> list positive -> list positive -> bool)
      (look : positive -> option Z) (f : Z -> list rpol) (inodes : list inode) (r : result) specs : forall acc,
  fst (fold_left (fun (acc : bool * list positive) s =>
                    let l := rlookup r (ss_name s) in
                    (fst acc && ok look (f (ss_name s)) inodes (snd acc) l, l ++ snd acc))
                 specs acc) = true ->
  fst acc = true /\
  forall pre sp post, specs = pre ++ sp :: post ->
    ok look (f (ss_name sp)) inodes (taken_from r pre (snd acc)) (rlookup r (ss_name sp)) = true.
Proof.
  induction specs as [|s specs IH]; intros acc H; simpl in H.
  - split; [assumption|]. intros pre sp post Heq. now destruct pre.
  - destruct (IH _ H) as [H1 H2]. cbn [fst snd] in H1, H2. apply andb_true_iff in H1. destruct H1 as [Ha Hs].
    split; [assumption|]. intros pre sp post Heq. destruct pre as [|s' pre].
    + simpl in Heq. injection Heq as <- <-. exact Hs.
    + simpl in Heq. injection Heq as <- ->. exact (H2 pre sp post eq_refl).
Qed.

Theorem per_sched_sound ok nodes m specs (r : result) pre sp post :
  per_sched ok nodes m specs r = true ->
  NoDup (map nname nodes) -> NoDup (map ss_name specs) -> specs = pre ++ sp :: post ->
  ok (mlookup m) (chain_of specs (ss_name sp)) (indexed nodes) (taken_from r pre []) (rlookup r (ss_name sp)) = true.
Proof.
  unfold per_sched. intros H Hn Hs Heq.
  assert (G : nodupb (map nname nodes) && znodupb (map ss_name specs) = true).
  { apply andb_true_iff. split.
    - clear -Hn. induction (map nname nodes) as [|x l IH]; [reflexivity|]. inversion Hn; subst. simpl.
      apply andb_true_iff. split; [now apply negb_true_iff, memb_false | now apply IH].
    - clear -Hs. induction (map ss_name specs) as [|x l IH]; [reflexivity|]. inversion Hs; subst. simpl.
      apply andb_true_iff. split; [|now apply IH]. apply negb_true_iff.
      destruct (existsb (Z.eqb x) l) eqn:E; [|reflexivity]. apply existsb_exists in E.
      destruct E as [y [Hy E]]. apply Z.eqb_eq in E. subst. contradiction. }
  rewrite G in H.
  destruct (per_sched_fold ok (mlookup m) (chain_of specs) (indexed nodes) r specs (true, []) H) as [_ H2].
  exact (H2 pre sp post Heq).
Qed.

(* law 104 on one scheduler, as a Prop: the picks are real nodes, consecutive
   picks are in (score desc, list position) order, and every eligible node that
   was left behind comes after the last pick *)
Theorem sched_order_ok_sound look ch inodes taken l :
  sched_order_ok look ch inodes taken l = true ->
  exists tl, find_all inodes l = Some tl /\
    chain_ok (total_score look ch) tl = true /\
    forall y t p, rev tl = y :: t -> In p (eligible_of look ch inodes taken) ->
      ~ In (nname (snd p)) l -> precedes (total_score look ch) y p = true.
Proof.
  unfold sched_order_ok. destruct (find_all inodes l) as [tl|]; [|discriminate].
  intros H. apply andb_true_iff in H. destruct H as [H1 H2]. exists tl. split; [reflexivity|].
  split; [assumption|]. intros y t p Hr Hp Hn. rewrite Hr in H2. rewrite forallb_forall in H2.
  specialize (H2 p Hp). apply orb_true_iff in H2. destruct H2 as [H2 | H2]; [|assumption].
  apply memb_In in H2. contradiction.
Qed.

(* law 106 on one scheduler, as a Prop: the shard consists of eligible
   unassigned nodes and has exactly min(caps, number of eligible unassigned nodes) of them *)
Theorem sched_count_ok_sound look ch inodes taken l :
  sched_count_ok look ch inodes taken l = true ->
  (forall x, In x l -> exists p, In p (eligible_of look ch inodes taken) /\ nname (snd p) = x) /\
  Z.of_nat (length l) = min_cap ch (Z.of_nat (length (eligible_of look ch inodes taken))).
Proof.
  unfold sched_count_ok. intros H. apply andb_true_iff in H. destruct H as [H1 H2]. split.
  - intros x Hx. rewrite forallb_forall in H1. specialize (H1 x Hx). apply existsb_exists in H1.
    destruct H1 as [p [Hp He]]. apply Pos.eqb_eq in He. now exists p.
  - now apply Z.eqb_eq.
Qed.

(* law 108 on one scheduler, as a Prop *)
Theorem sched_order_tol_ok_sound look ch inodes taken l :
  sched_order_tol_ok look ch inodes taken l = true ->
  exists tl, find_all inodes l = Some tl /\
    chain_ok_tol look (total_score look ch) tl = true /\
    forall y p, In y tl -> In p (eligible_of look ch inodes taken) -> ~ In (nname (snd p)) l ->
      precedes_tol look (total_score look ch) y p = true.
Proof.
  unfold sched_order_tol_ok. destruct (find_all inodes l) as [tl|]; [|discriminate].
  intros H. apply andb_true_iff in H. destruct H as [H1 H2]. exists tl. split; [reflexivity|].
  split; [assumption|]. intros y p Hy Hp Hn. rewrite forallb_forall in H2. specialize (H2 p Hp).
  apply orb_true_iff in H2. destruct H2 as [H2 | H2].
  - apply memb_In in H2. contradiction.
  - rewrite forallb_forall in H2. now apply H2.
Qed.

(* laws 112 / 113 accept the model's result, and mean the configured clause *)
Lemma assignments_entry nodes m specs res sp :
  assignments nodes m specs = Some res -> In sp specs -> In (ss_name sp, rlookup res (ss_name sp)) res.
Proof.
  intros Ha Hsp. destruct (in_split _ _ Hsp) as [pre [post Heq]].
  exact (proj1 (shard_exact_config nodes m specs res pre sp post Ha Heq)).
Qed.

Theorem law_bounded_config_model nodes m specs res :
  assignments nodes m specs = Some res -> law_bounded_config specs res = true.
Proof.
  intros Ha. unfold law_bounded_config. apply forallb_forall. intros sp Hsp.
  apply forallb_forall. intros p Hp.
  destruct (ps_name p =? P_LIMIT) eqn:E1; [|reflexivity]. simpl.
  destruct (0 <? arg_or (ps_args p) 4 0) eqn:E2; [|reflexivity]. simpl.
  apply Z.eqb_eq in E1. apply Z.ltb_lt in E2. apply Z.leb_le.
  exact (shard_bounded_config nodes m specs res sp p _ Ha Hsp Hp E1 E2 (assignments_entry nodes m specs res sp Ha Hsp)).
Qed.

Theorem law_bounded_config_sound specs (r : result) sp p :
  law_bounded_config specs r = true -> In sp specs -> In p (apply_defaults sp) ->
  ps_name p = P_LIMIT -> 0 < arg_or (ps_args p) 4 0 ->
  Z.of_nat (length (rlookup r (ss_name sp))) <= arg_or (ps_args p) 4 0.
Proof.
  unfold law_bounded_config. rewrite forallb_forall. intros H Hsp Hp Hn Hmx.
  specialize (H _ Hsp). rewrite forallb_forall in H. specialize (H _ Hp).
  rewrite Hn, Z.eqb_refl in H. simpl in H.
  replace (0 <? arg_or (ps_args p) 4 0) with true in H by (symmetry; now apply Z.ltb_lt).
  simpl in H. now apply Z.leb_le.
Qed.

Theorem law_eligible_config_model nodes m specs res :
  assignments nodes m specs = Some res -> law_eligible_config nodes m specs res = true.
Proof.
  intros Ha. unfold law_eligible_config. apply forallb_forall. intros sp Hsp.
  apply forallb_forall. intros p Hp.
  destruct (ps_name p =? P_ALLOC) eqn:E1; [|reflexivity]. simpl. apply Z.eqb_eq in E1.
  apply forallb_forall. intros x Hx.
  destruct (shard_eligible_config nodes m specs res sp p _ x Ha Hsp Hp E1 (assignments_entry _ _ _ _ _ Ha Hsp) Hx)
    as [n [H1 [H2 H3]]].
  apply existsb_exists. exists n. split; [assumption|]. rewrite H3, andb_true_r. subst x. apply Pos.eqb_refl.
Qed.

Theorem law_eligible_config_sound nodes m specs (r : result) sp p x :
  law_eligible_config nodes m specs r = true -> In sp specs -> In p (apply_defaults sp) ->
  ps_name p = P_ALLOC -> In x (rlookup r (ss_name sp)) ->
  exists n, In n nodes /\ nname n = x /\
    alloc_filter (mlookup m) (round_util (arg_or (ps_args p) 1 0)) (round_util (arg_or (ps_args p) 2 0)) n = true.
Proof.
  unfold law_eligible_config. rewrite forallb_forall. intros H Hsp Hp Hn Hx.
  specialize (H _ Hsp). rewrite forallb_forall in H. specialize (H _ Hp).
  rewrite Hn, Z.eqb_refl in H. simpl in H. rewrite forallb_forall in H. specialize (H _ Hx).
  apply existsb_exists in H. destruct H as [n [Hin H]]. apply andb_true_iff in H. destruct H as [H1 H2].
  apply Pos.eqb_eq in H1. exists n. tauto.
Qed.
