(* C17 — model of the sharding controller's node-shard computation.
   Executable definitions only (proofs are in C17/Lemmas.v).

   Modelled Go code (volcano /repo):
     pkg/controllers/sharding/sharding_manager.go   initializePolicies, CalculateShardAssignments,
                                                    runPipeline (+ batched variant), dropAssigned
     pkg/controllers/sharding/config.go             ParseShardingConfig's checks, validatePolicies,
                                                    applyPolicyDefaults, hasPolicy
     pkg/controllers/sharding/sharding_controller.go  toPolicyRefs, schedulerConfigFromSpec
     pkg/controllers/sharding/policy/allocationrate  Initialize, Filter, Score, roundUtil
     pkg/controllers/sharding/policy/warmup          Score (default label only)
     pkg/controllers/sharding/policy/nodelimit       Initialize, Select
     pkg/controllers/sharding/policy/arguments.go    GetInt / GetFloat64 (absent key keeps the default)

   Numbers: CPU utilisations are integers in permille (1/1000); roundUtil is
   round-half-up to hundredths (the harness never generates a value whose last
   digit is 5, where float64 rounding of u*100 is not the decimal one).  Scores
   are exact rationals (Q); the harness only emits cases on which the float64
   order of the weighted sums equals the exact order (it checks this with the
   real Score methods before emitting).

   Identifiers: node names are positive numbers, scheduler names are Z
   (<= 0 stands for the empty string), policy names: 1 allocation-rate,
   2 warmup, 3 node-limit, 0 empty string, anything else = not registered.
   Argument keys: 1 minCPUUtil, 2 maxCPUUtil, 3 minNodes, 4 maxNodes, others ignored. *)
From Coq Require Import ZArith List Bool QArith.
Import ListNotations.
Open Scope Z_scope.

(* ------------------------------------------------------------------ *)
(* 1. Generic pipeline: any Filterers / Scorers / Selectors            *)
(* ------------------------------------------------------------------ *)

Definition memb (x : positive) (l : list positive) : bool := existsb (Pos.eqb x) l.

(* what runPipeline sees of a resolved policy chain *)
Record gchain (A : Type) := {
  g_filters : list (A -> bool);          (* rp.Filter != nil, in config order *)
  g_anyscorer : bool;                    (* some rp.Score != nil *)
  g_score : A -> Q;                      (* sum of weight * Score(node) over the Scorers *)
  g_selectors : list (list A -> list A)  (* rp.Select != nil, in config order *)
}.
Arguments g_filters {A}. Arguments g_anyscorer {A}. Arguments g_score {A}. Arguments g_selectors {A}.

Section Pipeline.
  Context {A : Type}.
  Variable name : A -> positive.

  (* dropAssigned: sharding_manager.go 269-278 *)
  Definition drop_assigned (nodes : list A) (assigned : list positive) : list A :=
    filter (fun n => negb (memb (name n) assigned)) nodes.

  Definition pass_all (fs : list (A -> bool)) (n : A) : bool := forallb (fun f => f n) fs.

  (* phase 1, 192-213: skipped when no policy is a Filterer *)
  Definition filter_stage (ch : gchain A) (c : list A) : list A :=
    match g_filters ch with
    | [] => c
    | fs => filter (pass_all fs) c
    end.

  Definition qgt (a b : Q) : bool := negb (Qle_bool a b).

  (* sort.SliceStable with less(i,j) = score i > score j: the unique stable
     arrangement, computed here by insertion from the right *)
  Fixpoint insert_desc (sc : A -> Q) (x : A) (l : list A) : list A :=
    match l with
    | [] => [x]
    | y :: r => if qgt (sc y) (sc x) then y :: insert_desc sc x r else x :: y :: r
    end.
  Definition sort_desc (sc : A -> Q) (l : list A) : list A := fold_right (insert_desc sc) [] l.

  (* phase 2, 217-244: only when more than one candidate and some Scorer *)
  Definition sort_stage (ch : gchain A) (c : list A) : list A :=
    if (1 <? length c)%nat && g_anyscorer ch then sort_desc (g_score ch) c else c.

  (* phase 3, 248-258: an empty result stops the chain *)
  Fixpoint run_selectors (sels : list (list A -> list A)) (c : list A) : list A :=
    match sels with
    | [] => c
    | s :: r => match s c with
                | [] => []
                | c' => run_selectors r c'
                end
    end.

  Definition select_stage (ch : gchain A) (c : list A) : list A := run_selectors (g_selectors ch) c.

  (* runPipeline, 188-265 *)
  Definition run_pipeline (ch : gchain A) (nodes : list A) (assigned : list positive) : list positive :=
    map name (select_stage ch (sort_stage ch (filter_stage ch (drop_assigned nodes assigned)))).

  (* consecutive chunks of n elements (the last one may be shorter) *)
  Fixpoint chunks_acc (n : nat) (cur : list A) (room : nat) (l : list A) : list (list A) :=
    match l with
    | [] => match cur with [] => [] | _ => [rev cur] end
    | x :: r => match room with
                | S k => chunks_acc n (x :: cur) k r
                | O => rev cur :: chunks_acc n [x] (n - 1) r
                end
    end.
  Definition chunks (n : nat) (l : list A) : list (list A) := chunks_acc n [] n l.

  Definition batch_size : nat := 50.

  (* runPipelineBatched (after the fix): Filter (and Score) per 50-node batch,
     survivors merged in batch order, ONE sort and ONE selector chain *)
  Definition run_pipeline_batched (ch : gchain A) (nodes : list A) (assigned : list positive) : list positive :=
    let merged := flat_map (fun b => filter_stage ch (drop_assigned b assigned)) (chunks batch_size nodes) in
    map name (select_stage ch (sort_stage ch merged)).

  (* the scheduler loop of CalculateShardAssignments, 139-166.  [assigned] is
     the key set of the assignedNodes map, [results] the assignments map as an
     association list whose FIRST entry for a name is the latest write. *)
  Record cstate := { st_assigned : list positive; st_results : list (Z * list positive) }.

  Definition calc_step (batched : bool) (nodes : list A) (st : cstate) (c : Z * gchain A) : cstate :=
    let sel := if batched then run_pipeline_batched (snd c) nodes (st_assigned st)
               else run_pipeline (snd c) nodes (st_assigned st) in
    {| st_assigned := sel ++ st_assigned st; st_results := (fst c, sel) :: st_results st |}.

  Definition calc_with (batched : bool) (nodes : list A) (cfgs : list (Z * gchain A)) : cstate :=
    fold_left (calc_step batched nodes) cfgs {| st_assigned := []; st_results := [] |}.

  (* CalculateShardAssignments: batched beyond defaultBatchSize nodes *)
  Definition calc (nodes : list A) (cfgs : list (Z * gchain A)) : cstate :=
    calc_with (batch_size <? length nodes)%nat nodes cfgs.

  (* ---- the batched path as it was BEFORE the fix (kept for the refuted
     witness only): the whole calculation is run per 50-node batch with a
     fresh assignedNodes map, per-scheduler results are appended. *)
  Fixpoint rlookup (r : list (Z * list positive)) (s : Z) : list positive :=
    match r with
    | [] => []
    | (k, v) :: t => if k =? s then v else rlookup t s
    end.

  Definition old_batched (nodes : list A) (cfgs : list (Z * gchain A)) (s : Z) : list positive :=
    flat_map (fun b => rlookup (st_results (calc_with false b cfgs)) s) (chunks batch_size nodes).

  Definition old_calc (nodes : list A) (cfgs : list (Z * gchain A)) (s : Z) : list positive :=
    if (batch_size <? length nodes)%nat then old_batched nodes cfgs s
    else rlookup (st_results (calc_with false nodes cfgs)) s.
End Pipeline.

(* the observable: the assignments map, ascending by scheduler name *)
Fixpoint zinsert (x : Z) (l : list Z) : list Z :=
  match l with
  | [] => [x]
  | y :: r => if x <? y then x :: l else if x =? y then l else y :: zinsert x r
  end.
Definition zsort_dedup (l : list Z) : list Z := fold_right zinsert [] l.

Definition final_map (r : list (Z * list positive)) : list (Z * list positive) :=
  map (fun s => (s, rlookup r s)) (zsort_dedup (map fst r)).

(* ------------------------------------------------------------------ *)
(* 2. The built-in policies                                            *)
(* ------------------------------------------------------------------ *)

Record node := { nname : positive; nwarm : bool }.   (* nwarm: Labels["node.volcano.sh/warmup"] == "true" *)

(* GetAllNodeMetrics() after convertNodeMetrics: nil entries are dropped *)
Definition metrics := list (positive * option Z).
Fixpoint mlookup (m : metrics) (n : positive) : option Z :=
  match m with
  | [] => None
  | (k, v) :: r => if Pos.eqb k n then v else mlookup r n
  end.

(* roundUtil on a non-negative permille value, result in hundredths *)
Definition round_util (p : Z) : Z := (p + 5) / 10.

Inductive rpol :=
| RAlloc (w lo hi : Z)     (* weight; minCPURounded, maxCPURounded in hundredths *)
| RWarm (w : Z)
| RLimit (mn mx : Z).

(* allocationrate.Filter, 78-88 *)
Definition alloc_filter (look : positive -> option Z) (lo hi : Z) (n : node) : bool :=
  match look (nname n) with
  | None => false
  | Some u => if u <? 0 then false
              else let k := round_util u in (lo <=? k) && (k <=? hi)
  end.

(* allocationrate.Score, 95-120.  [hi - lo] is positive on every policy that
   Initialize accepted whenever the division is reached. *)
Definition alloc_score (look : positive -> option Z) (lo hi : Z) (n : node) : Q :=
  match look (nname n) with
  | None => 0%Q
  | Some u => if u <? 0 then 0%Q
              else if hi - lo =? 0 then 1%Q
              else let s := Qmake (round_util u - lo) (Z.to_pos (hi - lo)) in
                   if negb (Qle_bool 0%Q s) then 0%Q
                   else if negb (Qle_bool s 1%Q) then 1%Q else s
  end.

Definition warm_score (n : node) : Q := if nwarm n then 1%Q else 0%Q.

(* nodelimit.Select, 64-73 *)
Definition limit_select {A} (mx : Z) (c : list A) : list A :=
  if (0 <? mx) && (mx <? Z.of_nat (length c)) then firstn (Z.to_nat mx) c else c.

(* scores[i] += w * Score(...), in chain order, from 0 *)
Definition total_score (look : positive -> option Z) (ch : list rpol) (n : node) : Q :=
  fold_left (fun acc rp => match rp with
                           | RAlloc w lo hi => (acc + inject_Z w * alloc_score look lo hi n)%Q
                           | RWarm w => (acc + inject_Z w * warm_score n)%Q
                           | RLimit _ _ => acc
                           end) ch 0%Q.

Definition is_scorer (rp : rpol) : bool := match rp with RLimit _ _ => false | _ => true end.

Definition filters_of (look : positive -> option Z) (ch : list rpol) : list (node -> bool) :=
  flat_map (fun rp => match rp with RAlloc _ lo hi => [alloc_filter look lo hi] | _ => [] end) ch.

Definition selectors_of (ch : list rpol) : list (list node -> list node) :=
  flat_map (fun rp => match rp with RLimit _ mx => [limit_select mx] | _ => [] end) ch.

Definition to_gchain (look : positive -> option Z) (ch : list rpol) : gchain node :=
  {| g_filters := filters_of look ch;
     g_anyscorer := existsb is_scorer ch;
     g_score := total_score look ch;
     g_selectors := selectors_of ch |}.

(* ------------------------------------------------------------------ *)
(* 3. Configuration: YAML spec -> policy chain -> initialised policies *)
(* ------------------------------------------------------------------ *)

Definition args := list (Z * Z).
Fixpoint arg (a : args) (k : Z) : option Z :=
  match a with
  | [] => None
  | (k', v) :: r => if k' =? k then Some v else arg r k
  end.
Definition arg_or (a : args) (k d : Z) : Z := match arg a k with Some v => v | None => d end.
Definition has_arg (a : args) (k : Z) : bool := match arg a k with Some _ => true | None => false end.

Record pspec := { ps_name : Z; ps_weight : Z; ps_args : args }.

Record sspec := {
  ss_name : Z;
  ss_cpumin : Z; ss_cpumax : Z;     (* permille *)
  ss_prefer : bool;
  ss_minn : Z; ss_maxn : Z;
  ss_args : args;                   (* legacy Arguments *)
  ss_policies : list pspec
}.

Definition P_ALLOC := 1. Definition P_WARM := 2. Definition P_LIMIT := 3.

(* validatePolicies, config.go 164-183 *)
Definition valid_policy (p : pspec) : bool :=
  negb (ps_name p =? 0) && negb (ps_weight p <? 0) &&
  ((ps_name p =? P_LIMIT) || (negb (has_arg (ps_args p) 3) && negb (has_arg (ps_args p) 4))).

(* the per-entry checks of ParseShardingConfig, config.go 132-154 *)
Definition valid_spec (s : sspec) : bool :=
  negb (ss_name s <=? 0) &&
  negb ((ss_cpumin s <? 0) || (1000 <? ss_cpumin s)) &&
  negb ((ss_cpumax s <? 0) || (1000 <? ss_cpumax s)) &&
  negb (ss_cpumax s <? ss_cpumin s) &&
  negb (ss_minn s <? 0) &&
  negb (ss_maxn s <? ss_minn s) &&
  forallb valid_policy (ss_policies s).

Definition valid_specs (specs : list sspec) : bool :=
  match specs with [] => false | _ => forallb valid_spec specs end.

Definition has_policy (ps : list pspec) (n : Z) : bool := existsb (fun p => ps_name p =? n) ps.

(* applyPolicyDefaults, config.go 338-370 *)
Definition apply_defaults (s : sspec) : list pspec :=
  let p1 := match ss_policies s with
            | [] =>
              let a := match ss_args s with
                       | [] => [(1, ss_cpumin s); (2, ss_cpumax s)]
                       | a => a
                       end in
              {| ps_name := P_ALLOC; ps_weight := 1; ps_args := a |} ::
              (if ss_prefer s then [{| ps_name := P_WARM; ps_weight := 1; ps_args := [] |}] else [])
            | ps => ps
            end in
  if ((0 <? ss_minn s) || (0 <? ss_maxn s)) && negb (has_policy p1 P_LIMIT)
  then p1 ++ [{| ps_name := P_LIMIT; ps_weight := 0; ps_args := [(3, ss_minn s); (4, ss_maxn s)] |}]
  else p1.

(* toPolicyRefs, sharding_controller.go 908-925: weight 0 means 1 *)
Definition to_ref (p : pspec) : pspec :=
  {| ps_name := ps_name p; ps_weight := (if ps_weight p =? 0 then 1 else ps_weight p); ps_args := ps_args p |}.

(* builder() + Initialize of one PolicyRef; None = error (unknown name or rejected arguments) *)
Definition init_policy (p : pspec) : option rpol :=
  if ps_name p =? P_ALLOC then
    let lo := arg_or (ps_args p) 1 0 in
    let hi := arg_or (ps_args p) 2 0 in
    if (lo <? 0) || (1000 <? hi) || (hi <? lo) then None
    else Some (RAlloc (ps_weight p) (round_util lo) (round_util hi))
  else if ps_name p =? P_WARM then Some (RWarm (ps_weight p))
  else if ps_name p =? P_LIMIT then
    let mn := arg_or (ps_args p) 3 0 in
    let mx := arg_or (ps_args p) 4 0 in
    if (mn <? 0) || ((0 <? mx) && (mx <? mn)) then None
    else Some (RLimit mn mx)
  else None.

Fixpoint init_chain (ps : list pspec) : option (list rpol) :=
  match ps with
  | [] => Some []
  | p :: r => match init_policy p with
              | None => None
              | Some rp => match init_chain r with None => None | Some ch => Some (rp :: ch) end
              end
  end.

(* ParseShardingConfig as a whole (after fix 4209844): the per-entry checks;
   validatePolicyChain — every policy of the chain applyPolicyDefaults
   synthesizes can be built and initialised; scheduler names pairwise distinct *)
Definition chain_inits (s : sspec) : bool :=
  match init_chain (map to_ref (apply_defaults s)) with Some _ => true | None => false end.

Fixpoint zdistinct (l : list Z) : bool :=
  match l with [] => true | x :: r => negb (existsb (Z.eqb x) r) && zdistinct r end.

Definition valid_config (specs : list sspec) : bool :=
  valid_specs specs && forallb chain_inits specs && zdistinct (map ss_name specs).

(* initializePolicies, sharding_manager.go 75-106: the FIRST error returns,
   leaving this and every later scheduler without a policyCache entry *)
Fixpoint init_all (cfgs : list (Z * list pspec)) (cache : list (Z * list rpol)) : list (Z * list rpol) :=
  match cfgs with
  | [] => cache
  | (n, ps) :: r => match init_chain ps with
                    | None => cache
                    | Some ch => init_all r ((n, ch) :: cache)
                    end
  end.

Fixpoint clookup (cache : list (Z * list rpol)) (s : Z) : list rpol :=
  match cache with
  | [] => []
  | (k, v) :: t => if k =? s then v else clookup t s
  end.

Definition sched_configs (specs : list sspec) : list (Z * list pspec) :=
  map (fun s => (ss_name s, map to_ref (apply_defaults s))) specs.

Definition policy_cache (specs : list sspec) : list (Z * list rpol) := init_all (sched_configs specs) [].

(* sm.policyCache[config.Name] *)
Definition chain_of (specs : list sspec) (s : Z) : list rpol := clookup (policy_cache specs) s.

Definition manager_chains (look : positive -> option Z) (specs : list sspec) : list (Z * gchain node) :=
  map (fun s => (ss_name s, to_gchain look (chain_of specs (ss_name s)))) specs.

(* ParseShardingConfig -> applyShardingConfig -> NewShardingManager ->
   CalculateShardAssignments; None = the configuration was rejected *)
Definition assignments (nodes : list node) (m : metrics) (specs : list sspec) : option (list (Z * list positive)) :=
  if valid_config specs
  then Some (final_map (st_results (calc nname nodes (manager_chains (mlookup m) specs))))
  else None.

(* the same with the pre-fix batched path *)
Definition old_assignments (nodes : list node) (m : metrics) (specs : list sspec) : option (list (Z * list positive)) :=
  if valid_config specs
  then Some (map (fun s => (s, old_calc nname nodes (manager_chains (mlookup m) specs) s))
                 (zsort_dedup (map ss_name specs)))
  else None.

(* listNodesFromCache (sharding_controller.go, after fix f5a4653): the lister's
   nodes sorted by name.  Names are distinct in a lister, so sort.Slice (not
   stable) has exactly one possible result: the ascending arrangement, computed
   here by insertion.  The harness names node k "n%07d", so Go's byte-wise
   string order is the numeric order of the positives. *)
Fixpoint ins_node (x : node) (l : list node) : list node :=
  match l with
  | [] => [x]
  | y :: r => if Pos.leb (nname x) (nname y) then x :: l else y :: ins_node x r
  end.
Definition list_nodes (l : list node) : list node := fold_right ins_node [] l.

(* syncShards: listNodesFromCache, then CalculateShardAssignments *)
Definition sync_assignments (nodes : list node) (m : metrics) (specs : list sspec) :=
  assignments (list_nodes nodes) m specs.

(* ------------------------------------------------------------------ *)
(* 4. One manager, many reconciles                                      *)
(* ------------------------------------------------------------------ *)

(* what a ShardingManager holds after NewShardingManager: the configs (names, in
   order) with the policy chain cached for each name.  CalculateShardAssignments
   reads it and writes nothing back: every reconcile fetches the provider's
   metrics anew and starts from an empty assignedNodes map. *)
Definition manager := list (Z * list rpol).

Definition new_manager (specs : list sspec) : option manager :=
  if valid_config specs
  then Some (map (fun s => (ss_name s, chain_of specs (ss_name s))) specs)
  else None.

Definition reconcile (mg : manager) (nodes : list node) (m : metrics) : manager * list (Z * list positive) :=
  (mg, final_map (st_results (calc nname nodes (map (fun c => (fst c, to_gchain (mlookup m) (snd c))) mg)))).

Fixpoint run_history (mg : manager) (steps : list (list node * metrics)) : list (list (Z * list positive)) :=
  match steps with
  | [] => []
  | (ns, m) :: r => let '(mg', out) := reconcile mg ns m in out :: run_history mg' r
  end.

Definition history (specs : list sspec) (steps : list (list node * metrics)) :=
  match new_manager specs with
  | None => None
  | Some mg => Some (run_history mg steps)
  end.

(* ------------------------------------------------------------------ *)
(* 5. Publication: what the NodeShard objects show                      *)
(* ------------------------------------------------------------------ *)

(* assignmentNeedsUpdate, sharding_controller.go 628-655: a different node
   count always updates; with the same count the calculated nodes that are NEW
   (not in the published set) are counted and the update happens once
   max(1, len(calculated)/10) of them are found *)
Definition new_count (published calculated : list positive) : nat :=
  length (filter (fun x => negb (memb x published)) calculated).

Definition needs_update (published calculated : list positive) : bool :=
  if negb (length published =? length calculated)%nat then true
  else (Nat.max 1 (length calculated / 10) <=? new_count published calculated)%nat.

Fixpoint plookup (pub : list (Z * list positive)) (s : Z) : option (list positive) :=
  match pub with
  | [] => None
  | (k, v) :: t => if k =? s then Some v else plookup t s
  end.

(* applyAssignment, 553-590, for one scheduler: no NodeShard yet => createShard
   with the calculated nodes; otherwise the object is rewritten only when
   assignmentNeedsUpdate says so *)
Definition publish_entry (pub : list (Z * list positive)) (e : Z * list positive) : Z * list positive :=
  (fst e, match plookup pub (fst e) with
          | None => snd e
          | Some cur => if needs_update cur (snd e) then snd e else cur
          end).

(* syncShards + the workers: every scheduler of the calculated map is applied;
   the published state has the names of the calculation, in its (ascending) order *)
Definition publish (pub calc : list (Z * list positive)) : list (Z * list positive) :=
  map (publish_entry pub) calc.

(* one controller, a sequence of syncs: list the nodes (sorted), calculate, publish *)
Fixpoint pub_history (mg : manager) (pub : list (Z * list positive)) (steps : list (list node * metrics))
  : list (list (Z * list positive)) :=
  match steps with
  | [] => []
  | (ns, m) :: r => let pub' := publish pub (snd (reconcile mg (list_nodes ns) m)) in
                    pub' :: pub_history mg pub' r
  end.

Definition publish_history (specs : list sspec) (steps : list (list node * metrics)) :=
  match new_manager specs with
  | None => None
  | Some mg => Some (pub_history mg [] steps)
  end.

(* ------------------------------------------------------------------ *)
(* 6. The worker's two ways to an assignment, key by key                *)
(* ------------------------------------------------------------------ *)

(* calculateAndApplyAssignment after fix 3dd3dc2: the manager's configs are
   walked in order on ONE assignment context (calculateSingleSchedulerAssignment
   = runPipeline, never batched, then its nodes enter AssignedNodes) until the
   requested scheduler has been calculated.  Whether a predecessor has a
   NodeShard, in the lister or on the API server, plays no role. *)
Fixpoint fallback_loop (nodes : list node) (cfgs : list (Z * gchain node)) (assigned : list positive) (s : Z)
  : option (list positive) :=
  match cfgs with
  | [] => None                       (* "scheduler config not found" *)
  | c :: r => let sel := run_pipeline nname (snd c) nodes assigned in
              if fst c =? s then Some sel else fallback_loop nodes r (sel ++ assigned) s
  end.

Definition mg_cfgs (mg : manager) (m : metrics) : list (Z * gchain node) :=
  map (fun c => (fst c, to_gchain (mlookup m) (snd c))) mg.

Definition fallback (mg : manager) (nodes : list node) (m : metrics) (s : Z) : option (list positive) :=
  fallback_loop (list_nodes nodes) (mg_cfgs mg m) [] s.

(* controller state between worker items: the NodeShards on the API server and
   the assignment cache (None = empty or older than maxAssignmentCacheRetention) *)
Record cstate6 := { c_api : list (Z * list positive); c_cache : option (list (Z * list positive)) }.

Fixpoint premove (pub : list (Z * list positive)) (s : Z) : list (Z * list positive) :=
  match pub with
  | [] => []
  | (k, v) :: t => if k =? s then premove t s else (k, v) :: premove t s
  end.

Fixpoint pinsert (pub : list (Z * list positive)) (s : Z) (l : list positive) : list (Z * list positive) :=
  match pub with
  | [] => [(s, l)]
  | (k, v) :: t => if s <? k then (s, l) :: pub else if s =? k then (s, l) :: t else (k, v) :: pinsert t s l
  end.

(* applyAssignment for scheduler s with the NodeShards in [hidden] missing from
   the lister: a visible shard is rewritten iff assignmentNeedsUpdate; an
   invisible one goes to createShard, which creates it unless the API server
   already has it (AlreadyExists is swallowed: nothing changes) *)
Definition apply6 (api : list (Z * list positive)) (hidden : list Z) (s : Z) (desired : list positive) :=
  match plookup api s with
  | Some cur => if existsb (Z.eqb s) hidden then api
                else if needs_update cur desired then pinsert api s desired else api
  | None => pinsert api s desired
  end.

Inductive op6 :=
| OSync (hidden : list Z)          (* syncShards, then every scheduler's key *)
| OKey (s : Z) (hidden : list Z)   (* one worker item *)
| OClear                           (* ConfigMap reload / cache outlived its retention *)
| ODelete (s : Z)                  (* somebody deleted the NodeShard *)
| OSyncFaulty (failed : list Z).   (* a global sync during which every Create/Update of the NodeShards in
                                      [failed] fails through all of the worker's retries: the key is dropped,
                                      the NodeShard stays as it was (or absent) *)

Definition step6 (mg : manager) (nodes : list node) (m : metrics) (st : cstate6) (o : op6) : cstate6 :=
  match o with
  | OSync hidden =>
    let calc := snd (reconcile mg (list_nodes nodes) m) in
    {| c_api := fold_left (fun api e => apply6 api hidden (fst e) (snd e)) calc (c_api st);
       c_cache := Some calc |}
  | OKey s hidden =>
    let desired := match c_cache st with
                   | Some c => match plookup c s with Some l => Some l | None => fallback mg nodes m s end
                   | None => fallback mg nodes m s
                   end in
    match desired with
    | Some l => {| c_api := apply6 (c_api st) hidden s l; c_cache := c_cache st |}
    | None => st
    end
  | OClear => {| c_api := c_api st; c_cache := None |}
  | ODelete s => {| c_api := premove (c_api st) s; c_cache := c_cache st |}
  | OSyncFaulty failed =>
    let calc := snd (reconcile mg (list_nodes nodes) m) in
    {| c_api := fold_left (fun api e => if existsb (Z.eqb (fst e)) failed then api
                                        else apply6 api [] (fst e) (snd e)) calc (c_api st);
       c_cache := Some calc |}
  end.

Fixpoint ops_history (mg : manager) (st : cstate6) (steps : list (list node * metrics * list op6))
  : list (list (Z * list positive)) :=
  match steps with
  | [] => []
  | (ns, m, ops) :: r => let st' := fold_left (step6 mg ns m) ops st in
                         c_api st' :: ops_history mg st' r
  end.

Definition publish_ops_history (specs : list sspec) (steps : list (list node * metrics * list op6)) :=
  match new_manager specs with
  | None => None
  | Some mg => Some (ops_history mg {| c_api := []; c_cache := None |} steps)
  end.
