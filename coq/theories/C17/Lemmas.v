(* C17 — proofs about the model of the shard computation (C17/Model.v). *)
From Coq Require Import ZArith List Bool QArith Lia Permutation Sorted.
From V Require Import C17.Model C17.Laws.
Import ListNotations.
Open Scope Z_scope.

(* ------------------------------------------------------------------ *)
(* small list facts                                                     *)
(* ------------------------------------------------------------------ *)

Lemma memb_In x l : memb x l = true <-> In x l.
Proof.
  unfold memb. rewrite existsb_exists. split.
  - intros [y [Hy He]]. apply Pos.eqb_eq in He. now subst.
  - intros H. exists x. split; [assumption | apply Pos.eqb_refl].
Qed.

Lemma memb_false x l : memb x l = false <-> ~ In x l.
Proof. rewrite <- memb_In. destruct (memb x l); split; congruence. Qed.

Lemma filter_all_true {A} (p : A -> bool) l : (forall x, p x = true) -> filter p l = l.
Proof. intros H. induction l as [|a l IH]; simpl; [reflexivity|]. now rewrite H, IH. Qed.

Lemma flat_map_filter {A} (p : A -> bool) (ls : list (list A)) :
  flat_map (filter p) ls = filter p (concat ls).
Proof.
  induction ls as [|l ls IH]; simpl; [reflexivity|].
  now rewrite IH, filter_app.
Qed.

Definition is_prefix {A} (a b : list A) : Prop := exists t, b = a ++ t.

Lemma is_prefix_refl {A} (a : list A) : is_prefix a a.
Proof. exists []. now rewrite app_nil_r. Qed.

Lemma is_prefix_trans {A} (a b c : list A) : is_prefix a b -> is_prefix b c -> is_prefix a c.
Proof. intros [t ->] [u ->]. exists (t ++ u). now rewrite app_assoc. Qed.

Lemma is_prefix_nil {A} (b : list A) : is_prefix [] b.
Proof. now exists b. Qed.

Lemma is_prefix_incl {A} (a b : list A) : is_prefix a b -> incl a b.
Proof. intros [t ->] x Hx. apply in_or_app. now left. Qed.

Lemma is_prefix_length {A} (a b : list A) : is_prefix a b -> (length a <= length b)%nat.
Proof. intros [t ->]. rewrite app_length. lia. Qed.

Lemma is_prefix_sorted {A} (R : A -> A -> Prop) (a b : list A) :
  is_prefix a b -> StronglySorted R b -> StronglySorted R a.
Proof.
  intros [t ->]. induction a as [|x a IH]; simpl; intros H; [constructor|].
  inversion H; subst. constructor; [now apply IH|].
  rewrite Forall_app in H3. tauto.
Qed.

Lemma fold_left_inv {S C} (step : S -> C -> S) (P : S -> Prop) cs :
  forall s, P s -> (forall s c, In c cs -> P s -> P (step s c)) -> P (fold_left step cs s).
Proof.
  induction cs as [|c cs IH]; simpl; intros s Hs Hstep; [assumption|].
  apply IH; [apply Hstep; auto | intros; apply Hstep; auto].
Qed.

(* ------------------------------------------------------------------ *)
(* the generic pipeline                                                 *)
(* ------------------------------------------------------------------ *)

Section PipelineFacts.
  Context {A : Type}.
  Variable name : A -> positive.
  Implicit Types (sc : A -> Q).

  (* a Selector obeying its interface contract ("returns the input slice
     unchanged or a prefix thereof", policy/interface.go) *)
  Definition prefix_sel (s : list A -> list A) : Prop := forall l, is_prefix (s l) l.

  Lemma drop_assigned_In nodes assigned n :
    In n (drop_assigned name nodes assigned) <-> In n nodes /\ ~ In (name n) assigned.
  Proof.
    unfold drop_assigned. rewrite filter_In, negb_true_iff, memb_false. tauto.
  Qed.

  Lemma filter_stage_spec (ch : gchain A) c :
    filter_stage ch c = filter (pass_all (g_filters ch)) c.
  Proof.
    unfold filter_stage. destruct (g_filters ch) as [|f fs]; [|reflexivity].
    symmetry. apply filter_all_true. reflexivity.
  Qed.

  (* --- the stable descending sort --- *)

  Lemma qgt_true a b : qgt a b = true <-> (b < a)%Q.
  Proof.
    unfold qgt. rewrite negb_true_iff. split.
    - intros H. apply Qnot_le_lt. intros Hle. apply Qle_bool_iff in Hle. congruence.
    - intros H. destruct (Qle_bool a b) eqn:E; [|reflexivity].
      apply Qle_bool_iff in E. exfalso. eapply Qlt_not_le; eauto.
  Qed.

  Lemma qgt_false a b : qgt a b = false <-> (a <= b)%Q.
  Proof.
    unfold qgt. rewrite negb_false_iff. apply Qle_bool_iff.
  Qed.

  Lemma insert_desc_perm sc x l : Permutation (insert_desc sc x l) (x :: l).
  Proof.
    induction l as [|y r IH]; simpl; [reflexivity|].
    destruct (qgt (sc y) (sc x)); [|reflexivity].
    rewrite IH. apply perm_swap.
  Qed.

  Lemma sort_desc_perm sc l : Permutation (sort_desc sc l) l.
  Proof.
    induction l as [|x l IH]; simpl; [reflexivity|].
    rewrite insert_desc_perm. now constructor.
  Qed.

  (* a before b in the output => score a >= score b *)
  Definition ge_sc (sc : A -> Q) (a b : A) : Prop := (sc b <= sc a)%Q.

  Lemma insert_desc_sorted sc x l :
    StronglySorted (ge_sc sc) l -> StronglySorted (ge_sc sc) (insert_desc sc x l).
  Proof.
    induction l as [|y r IH]; simpl; intros H.
    - repeat constructor.
    - inversion H as [|? ? Hr Hy]; subst.
      destruct (qgt (sc y) (sc x)) eqn:E.
      + constructor; [now apply IH|].
        eapply Permutation_Forall; [symmetry; apply insert_desc_perm|].
        constructor; [|assumption].
        apply qgt_true in E. unfold ge_sc. now apply Qlt_le_weak.
      + apply qgt_false in E. constructor; [assumption|].
        constructor; [exact E|].
        eapply Forall_impl; [|exact Hy]. intros z Hz. unfold ge_sc in *.
        eapply Qle_trans; eauto.
  Qed.

  Lemma sort_desc_sorted sc l : StronglySorted (ge_sc sc) (sort_desc sc l).
  Proof.
    induction l as [|x l IH]; simpl; [constructor|]. now apply insert_desc_sorted.
  Qed.

  (* stability: the nodes of any one score value keep their input order *)
  Lemma insert_desc_stable sc v x l :
    filter (fun y => Qeq_bool (sc y) v) (insert_desc sc x l) =
    filter (fun y => Qeq_bool (sc y) v) (x :: l).
  Proof.
    induction l as [|y r IH]; [reflexivity|].
    simpl insert_desc. destruct (qgt (sc y) (sc x)) eqn:E; [|reflexivity].
    cbn [filter] in *. rewrite IH.
    destruct (Qeq_bool (sc y) v) eqn:Ey; [|reflexivity].
    destruct (Qeq_bool (sc x) v) eqn:Ex; [|reflexivity].
    exfalso. apply Qeq_bool_iff in Ey, Ex. apply qgt_true in E.
    rewrite Ey, Ex in E. eapply Qlt_irrefl; eauto.
  Qed.

  Lemma sort_desc_stable sc v l :
    filter (fun y => Qeq_bool (sc y) v) (sort_desc sc l) = filter (fun y => Qeq_bool (sc y) v) l.
  Proof.
    induction l as [|x l IH]; [reflexivity|].
    simpl sort_desc. rewrite insert_desc_stable. cbn [filter]. now rewrite IH.
  Qed.

  Lemma insert_desc_ext sc sc' x l :
    (forall y, sc y = sc' y) -> insert_desc sc x l = insert_desc sc' x l.
  Proof.
    intros H. induction l as [|y r IH]; simpl; [reflexivity|]. now rewrite !H, IH.
  Qed.

  Lemma sort_desc_ext sc sc' l : (forall y, sc y = sc' y) -> sort_desc sc l = sort_desc sc' l.
  Proof.
    intros H. induction l as [|x l IH]; simpl; [reflexivity|].
    rewrite IH. now apply insert_desc_ext.
  Qed.

  Lemma sort_desc_const q (l : list A) : sort_desc (fun _ => q) l = l.
  Proof.
    induction l as [|x l IH]; simpl; [reflexivity|]. rewrite IH.
    destruct l as [|y r]; simpl; [reflexivity|].
    replace (qgt q q) with false; [reflexivity|].
    symmetry. apply qgt_false. apply Qle_refl.
  Qed.

  (* the score the sort phase effectively uses *)
  Definition eff_score (ch : gchain A) : A -> Q :=
    if g_anyscorer ch then g_score ch else fun _ => 0%Q.

  Lemma sort_stage_spec (ch : gchain A) c : sort_stage ch c = sort_desc (eff_score ch) c.
  Proof.
    unfold sort_stage, eff_score. destruct (g_anyscorer ch).
    - rewrite andb_true_r. destruct (1 <? length c)%nat eqn:E; [reflexivity|].
      apply Nat.ltb_ge in E. destruct c as [|x [|y r]]; simpl in *; try reflexivity. lia.
    - rewrite andb_false_r. now rewrite sort_desc_const.
  Qed.

  (* --- runPipeline = drop assigned -> AND of filters -> stable descending sort -> selectors --- *)
  Theorem pipeline_spec (ch : gchain A) nodes assigned :
    run_pipeline name ch nodes assigned =
    map name (run_selectors (g_selectors ch)
               (sort_desc (eff_score ch)
                 (filter (pass_all (g_filters ch)) (drop_assigned name nodes assigned)))).
  Proof.
    unfold run_pipeline, select_stage. now rewrite sort_stage_spec, filter_stage_spec.
  Qed.

  (* --- selectors --- *)
  Lemma run_selectors_prefix sels : Forall prefix_sel sels ->
    forall c, is_prefix (run_selectors sels c) c.
  Proof.
    induction 1 as [|s sels Hs _ IH]; intros c; simpl; [apply is_prefix_refl|].
    destruct (s c) as [|a c'] eqn:E; [apply is_prefix_nil|].
    eapply is_prefix_trans; [apply IH|]. rewrite <- E. apply Hs.
  Qed.

  Lemma run_selectors_bound sels s k : Forall prefix_sel sels -> In s sels ->
    (forall l, (length (s l) <= k)%nat) -> forall c, (length (run_selectors sels c) <= k)%nat.
  Proof.
    intros Hall. induction Hall as [|s0 sels Hs0 Hall IH]; intros Hin Hk c; [destruct Hin|].
    simpl. destruct (s0 c) as [|a c'] eqn:E; [simpl; lia|].
    destruct Hin as [-> | Hin].
    - pose proof (is_prefix_length _ _ (run_selectors_prefix sels Hall (a :: c'))) as H1.
      specialize (Hk c). rewrite E in Hk. lia.
    - now apply IH.
  Qed.

  (* every selected name belongs to an unassigned node that passed ALL filters *)
  Theorem pipeline_filtered (ch : gchain A) nodes assigned x :
    Forall prefix_sel (g_selectors ch) ->
    In x (run_pipeline name ch nodes assigned) ->
    exists n, In n nodes /\ name n = x /\ ~ In x assigned /\ pass_all (g_filters ch) n = true.
  Proof.
    intros Hsel. rewrite pipeline_spec, in_map_iff. intros [n [Hn Hin]].
    apply (is_prefix_incl _ _ (run_selectors_prefix _ Hsel _)) in Hin.
    apply (Permutation_in _ (sort_desc_perm _ _)) in Hin.
    apply filter_In in Hin. destruct Hin as [Hin Hp].
    apply drop_assigned_In in Hin. destruct Hin as [Hin Hna].
    exists n. subst x. tauto.
  Qed.

  (* the selected nodes are a prefix of the candidates in stable descending score order *)
  Theorem pipeline_prefix (ch : gchain A) nodes assigned :
    Forall prefix_sel (g_selectors ch) ->
    exists cand, run_pipeline name ch nodes assigned = map name cand /\
      is_prefix cand (sort_desc (eff_score ch)
                       (filter (pass_all (g_filters ch)) (drop_assigned name nodes assigned))).
  Proof.
    intros Hsel. rewrite pipeline_spec. eexists. split; [reflexivity|].
    now apply run_selectors_prefix.
  Qed.

  Theorem pipeline_sorted (ch : gchain A) nodes assigned :
    Forall prefix_sel (g_selectors ch) ->
    exists cand, run_pipeline name ch nodes assigned = map name cand /\
      StronglySorted (ge_sc (eff_score ch)) cand.
  Proof.
    intros Hsel. destruct (pipeline_prefix ch nodes assigned Hsel) as [cand [E P]].
    exists cand. split; [assumption|].
    eapply is_prefix_sorted; [exact P | apply sort_desc_sorted].
  Qed.

  Theorem pipeline_bound (ch : gchain A) nodes assigned s k :
    Forall prefix_sel (g_selectors ch) -> In s (g_selectors ch) ->
    (forall l, (length (s l) <= k)%nat) ->
    (length (run_pipeline name ch nodes assigned) <= k)%nat.
  Proof.
    intros Hall Hin Hk. rewrite pipeline_spec, map_length.
    now apply (run_selectors_bound _ s k).
  Qed.

  (* --- batching --- *)
  Lemma chunks_acc_concat n (l : list A) : forall cur room,
    concat (chunks_acc n cur room l) = rev cur ++ l.
  Proof.
    induction l as [|x r IH]; intros cur room; simpl.
    - destruct cur; simpl; [reflexivity|]. now rewrite !app_nil_r.
    - destruct room; simpl; rewrite IH; simpl; [reflexivity|].
      now rewrite <- app_assoc.
  Qed.

  Lemma chunks_concat n (l : list A) : concat (chunks n l) = l.
  Proof. unfold chunks. now rewrite chunks_acc_concat. Qed.

  (* the batched pipeline computes exactly what the unbatched one computes, for every cluster size *)
  Theorem batched_eq (ch : gchain A) nodes assigned :
    run_pipeline_batched name ch nodes assigned = run_pipeline name ch nodes assigned.
  Proof.
    unfold run_pipeline_batched, run_pipeline. do 3 f_equal.
    rewrite (flat_map_ext _ (filter (fun n => negb (memb (name n) assigned) && pass_all (g_filters ch) n))).
    - rewrite flat_map_filter, chunks_concat, filter_stage_spec.
      unfold drop_assigned. clear. induction nodes as [|a l IH]; simpl; [reflexivity|].
      destruct (negb (memb (name a) assigned)); simpl; [|assumption].
      destruct (pass_all (g_filters ch) a); now rewrite IH.
    - intros b. rewrite filter_stage_spec. unfold drop_assigned.
      induction b as [|a l IH]; simpl; [reflexivity|].
      destruct (negb (memb (name a) assigned)); simpl; [|assumption].
      destruct (pass_all (g_filters ch) a); now rewrite IH.
  Qed.

  Lemma calc_step_batched b nodes st c :
    calc_step name b nodes st c = calc_step name false nodes st c.
  Proof. unfold calc_step. destruct b; [|reflexivity]. now rewrite batched_eq. Qed.

  Theorem calc_unbatched nodes cfgs : calc name nodes cfgs = calc_with name false nodes cfgs.
  Proof.
    unfold calc, calc_with. generalize ({| st_assigned := []; st_results := [] |}).
    induction cfgs as [|c cfgs IH]; intros st; simpl; [reflexivity|].
    now rewrite calc_step_batched, IH.
  Qed.

  (* --- the scheduler loop --- *)
  Definition good_cfgs (cfgs : list (Z * gchain A)) : Prop :=
    Forall (fun c => Forall prefix_sel (g_selectors (snd c))) cfgs.

  Definition disj (a b : list positive) : Prop := forall x, In x a -> In x b -> False.

  Definition calc_inv (st : cstate) : Prop :=
    (forall e, In e (st_results st) -> incl (snd e) (st_assigned st)) /\
    ForallOrdPairs (fun a b => disj (snd a) (snd b)) (st_results st).

  Lemma calc_step_inv nodes st c :
    Forall prefix_sel (g_selectors (snd c)) -> calc_inv st -> calc_inv (calc_step name false nodes st c).
  Proof.
    intros Hsel [Hincl Hfop]. unfold calc_step; cbn [st_assigned st_results]. split.
    - intros e [<- | He]; cbn [snd]; intros x Hx; apply in_or_app; [now left|].
      right. eapply Hincl; eauto.
    - constructor; [|assumption].
      apply Forall_forall. intros e He x Hx Hx'. cbn [snd] in Hx.
      destruct (pipeline_filtered _ _ _ _ Hsel Hx) as [n [_ [_ [Hna _]]]].
      apply Hna. eapply Hincl; eauto.
  Qed.

  Lemma calc_inv_holds nodes cfgs : good_cfgs cfgs -> calc_inv (calc name nodes cfgs).
  Proof.
    intros Hg. rewrite calc_unbatched. unfold calc_with. apply fold_left_inv.
    - split; [intros e []|constructor].
    - intros s c Hc Hs. apply calc_step_inv; [|assumption].
      unfold good_cfgs in Hg. rewrite Forall_forall in Hg. now apply Hg.
  Qed.

  (* two different runs of the loop never select a common node: for ALL node
     lists (duplicate names included), all chains, batched or not *)
  Theorem calc_disjoint nodes cfgs e1 e2 :
    good_cfgs cfgs ->
    In e1 (st_results (calc name nodes cfgs)) -> In e2 (st_results (calc name nodes cfgs)) ->
    e1 <> e2 -> disj (snd e1) (snd e2).
  Proof.
    intros Hg H1 H2 Hne. destruct (calc_inv_holds nodes cfgs Hg) as [_ Hfop].
    destruct (ForallOrdPairs_In Hfop _ _ H1 H2) as [E | [D | D]]; [contradiction | exact D |].
    intros x Ha Hb. exact (D x Hb Ha).
  Qed.

  (* whatever holds of every possible pipeline outcome of every configured
     scheduler holds of every entry of the assignments map *)
  Lemma calc_results_forall (Q : Z * list positive -> Prop) nodes cfgs :
    (forall c a, In c cfgs -> Q (fst c, run_pipeline name (snd c) nodes a)) ->
    forall e, In e (st_results (calc name nodes cfgs)) -> Q e.
  Proof.
    intros HQ. rewrite calc_unbatched. unfold calc_with.
    apply (fold_left_inv (calc_step name false nodes) (fun st => forall e, In e (st_results st) -> Q e)).
    - intros e [].
    - intros s c Hc Hs e [<- | He]; [now apply HQ | now apply Hs].
  Qed.
End PipelineFacts.

(* ------------------------------------------------------------------ *)
(* the assignments map                                                  *)
(* ------------------------------------------------------------------ *)

Lemma zinsert_In x y l : In y (zinsert x l) <-> y = x \/ In y l.
Proof.
  induction l as [|z r IH]; simpl; [intuition auto|].
  destruct (x <? z) eqn:E1; simpl; [intuition auto|].
  destruct (x =? z) eqn:E2; simpl.
  - apply Z.eqb_eq in E2. subst. intuition auto.
  - rewrite IH. intuition auto.
Qed.
Lemma zsort_dedup_In y l : In y (zsort_dedup l) <-> In y l.
Proof.
  induction l as [|x l IH]; simpl; [tauto|]. rewrite zinsert_In, IH. intuition auto.
Qed.

Lemma rlookup_In r s : In s (map fst r) -> In (s, rlookup r s) r.
Proof.
  induction r as [|[k v] t IH]; simpl; [tauto|].
  destruct (k =? s) eqn:E.
  - apply Z.eqb_eq in E. subst. now left.
  - intros [H | H]; [apply Z.eqb_neq in E; contradiction | right; now apply IH].
Qed.

Lemma final_map_In r e : In e (final_map r) -> In e r.
Proof.
  unfold final_map. rewrite in_map_iff. intros [s [<- Hs]].
  rewrite zsort_dedup_In in Hs. now apply rlookup_In.
Qed.

(* ------------------------------------------------------------------ *)
(* the built-in policies                                                *)
(* ------------------------------------------------------------------ *)

Lemma limit_select_prefix mx : prefix_sel (@limit_select node mx).
Proof.
  intros l. unfold limit_select.
  destruct ((0 <? mx) && (mx <? Z.of_nat (length l))); [|apply is_prefix_refl].
  exists (skipn (Z.to_nat mx) l). symmetry. apply firstn_skipn.
Qed.

Lemma limit_select_length mx (l : list node) : 0 < mx -> (length (limit_select mx l) <= Z.to_nat mx)%nat.
Proof.
  intros Hmx. unfold limit_select.
  destruct ((0 <? mx) && (mx <? Z.of_nat (length l))) eqn:E.
  - apply firstn_le_length.
  - apply andb_false_iff in E. destruct E as [E | E]; [apply Z.ltb_ge in E; lia|].
    apply Z.ltb_ge in E. lia.
Qed.

Lemma selectors_of_prefix ch : Forall prefix_sel (selectors_of ch).
Proof.
  unfold selectors_of. induction ch as [|rp ch IH]; simpl; [constructor|].
  destruct rp; simpl; try assumption. constructor; [apply limit_select_prefix | assumption].
Qed.

Lemma selectors_of_In ch mn mx : In (RLimit mn mx) ch -> In (limit_select mx) (selectors_of ch).
Proof.
  intros H. unfold selectors_of. apply in_flat_map. exists (RLimit mn mx). split; [assumption|now left].
Qed.

Lemma filters_of_In look ch w lo hi :
  In (RAlloc w lo hi) ch -> In (alloc_filter look lo hi) (filters_of look ch).
Proof.
  intros H. unfold filters_of. apply in_flat_map. exists (RAlloc w lo hi). split; [assumption|now left].
Qed.

Lemma manager_chains_good look specs : good_cfgs (manager_chains look specs).
Proof.
  unfold good_cfgs, manager_chains. apply Forall_forall. intros c Hc.
  apply in_map_iff in Hc. destruct Hc as [s [<- _]]. cbn. apply selectors_of_prefix.
Qed.

Lemma total_score_noscorer look ch n : existsb is_scorer ch = false -> total_score look ch n = 0%Q.
Proof.
  unfold total_score. generalize 0%Q. induction ch as [|rp ch IH]; intros q H; simpl; [reflexivity|].
  simpl in H. apply orb_false_iff in H. destruct H as [H1 H2].
  destruct rp; simpl in H1; try discriminate. now apply IH.
Qed.

Lemma eff_score_total look ch n : eff_score (to_gchain look ch) n = total_score look ch n.
Proof.
  unfold eff_score. cbn. destruct (existsb is_scorer ch) eqn:E; [reflexivity|].
  symmetry. now apply total_score_noscorer.
Qed.

(* ------------------------------------------------------------------ *)
(* the property                                                         *)
(* ------------------------------------------------------------------ *)

Lemma assignments_In nodes m specs res e :
  assignments nodes m specs = Some res -> In e res ->
  In e (st_results (calc nname nodes (manager_chains (mlookup m) specs))).
Proof.
  unfold assignments. destruct (valid_config specs); [|discriminate].
  intros [= <-]. apply final_map_In.
Qed.

(* T1: shards of different schedulers never overlap — every node list, every
   metric map, every scheduler list, above and below the batching threshold *)
Theorem shards_disjoint nodes m specs res s1 l1 s2 l2 x :
  assignments nodes m specs = Some res ->
  In (s1, l1) res -> In (s2, l2) res -> s1 <> s2 -> In x l1 -> In x l2 -> False.
Proof.
  intros Ha H1 H2 Hne.
  apply (assignments_In _ _ _ _ _ Ha) in H1. apply (assignments_In _ _ _ _ _ Ha) in H2.
  assert (Hd : (s1, l1) <> (s2, l2)) by congruence.
  exact (calc_disjoint nname nodes _ _ _ (manager_chains_good _ specs) H1 H2 Hd x).
Qed.

Lemma manager_chains_In look specs c :
  In c (manager_chains look specs) -> snd c = to_gchain look (chain_of specs (fst c)).
Proof.
  unfold manager_chains. rewrite in_map_iff. intros [s [<- _]]. reflexivity.
Qed.

(* T2: a shard never exceeds the maxNodes of any node-limit policy of its scheduler, for every cluster size *)
Theorem shard_bounded nodes m specs res s l mn mx :
  assignments nodes m specs = Some res -> In (s, l) res ->
  In (RLimit mn mx) (chain_of specs s) -> 0 < mx -> Z.of_nat (length l) <= mx.
Proof.
  intros Ha Hin. apply (assignments_In _ _ _ _ _ Ha) in Hin. revert mn mx.
  change ((fun e : Z * list positive => forall mn mx, In (RLimit mn mx) (chain_of specs (fst e)) -> 0 < mx ->
            Z.of_nat (length (snd e)) <= mx) (s, l)).
  revert Hin. apply calc_results_forall. intros c a Hc mn mx Hl Hmx. cbn [fst snd].
  rewrite (manager_chains_In _ _ _ Hc).
  assert (length (run_pipeline nname (to_gchain (mlookup m) (chain_of specs (fst c))) nodes a) <= Z.to_nat mx)%nat.
  { apply (pipeline_bound nname _ nodes a (limit_select mx)); cbn.
    - apply selectors_of_prefix.
    - eapply selectors_of_In; eauto.
    - intros l0. now apply limit_select_length. }
  lia.
Qed.

(* T3: every assigned node exists and passed ALL filter policies of its scheduler *)
Theorem shard_eligible nodes m specs res s l x :
  assignments nodes m specs = Some res -> In (s, l) res -> In x l ->
  exists n, In n nodes /\ nname n = x /\
    forall w lo hi, In (RAlloc w lo hi) (chain_of specs s) -> alloc_filter (mlookup m) lo hi n = true.
Proof.
  intros Ha Hin. apply (assignments_In _ _ _ _ _ Ha) in Hin. revert x.
  change ((fun e : Z * list positive => forall x, In x (snd e) ->
            exists n, In n nodes /\ nname n = x /\
              forall w lo hi, In (RAlloc w lo hi) (chain_of specs (fst e)) -> alloc_filter (mlookup m) lo hi n = true) (s, l)).
  revert Hin. apply calc_results_forall. intros c a Hc x Hx. cbn [fst snd] in *.
  rewrite (manager_chains_In _ _ _ Hc) in Hx.
  apply pipeline_filtered in Hx; [|cbn; apply selectors_of_prefix].
  destruct Hx as [n [Hn [Hname [_ Hp]]]]. exists n. split; [assumption|]. split; [assumption|].
  intros w lo hi Hal. cbn in Hp. unfold pass_all in Hp. rewrite forallb_forall in Hp.
  apply Hp. eapply filters_of_In; eauto.
Qed.

(* T4: a shard is a prefix of the still-unassigned eligible nodes in stable
   descending order of the weighted score — in particular it is sorted *)
Theorem shard_order nodes m specs res s l :
  assignments nodes m specs = Some res -> In (s, l) res ->
  exists assigned cand,
    l = map nname cand /\
    is_prefix cand
      (sort_desc (total_score (mlookup m) (chain_of specs s))
         (filter (pass_all (filters_of (mlookup m) (chain_of specs s))) (drop_assigned nname nodes assigned))) /\
    StronglySorted (ge_sc (total_score (mlookup m) (chain_of specs s))) cand.
Proof.
  intros Ha Hin. apply (assignments_In _ _ _ _ _ Ha) in Hin.
  change ((fun e : Z * list positive => exists assigned cand,
            snd e = map nname cand /\
            is_prefix cand
              (sort_desc (total_score (mlookup m) (chain_of specs (fst e)))
                 (filter (pass_all (filters_of (mlookup m) (chain_of specs (fst e)))) (drop_assigned nname nodes assigned))) /\
            StronglySorted (ge_sc (total_score (mlookup m) (chain_of specs (fst e)))) cand) (s, l)).
  revert Hin. apply calc_results_forall. intros c a Hc. cbn [fst snd].
  rewrite (manager_chains_In _ _ _ Hc).
  destruct (pipeline_prefix nname (to_gchain (mlookup m) (chain_of specs (fst c))) nodes a) as [cand [E P]];
    [cbn; apply selectors_of_prefix|].
  exists a, cand. split; [exact E|].
  rewrite (sort_desc_ext _ (total_score (mlookup m) (chain_of specs (fst c)))) in P
    by apply eff_score_total.
  split; [exact P|].
  eapply is_prefix_sorted; [exact P | apply sort_desc_sorted].
Qed.

(* ------------------------------------------------------------------ *)
(* determinism: the result depends on the metrics only through lookups  *)
(* (no dependence on the order in which the provider's map is listed)   *)
(* ------------------------------------------------------------------ *)

Section Ext.
  Context {A : Type}.
  Variable name : A -> positive.

  Definition gchain_ext (ch ch' : gchain A) : Prop :=
    Forall2 (fun f g => forall n, f n = g n) (g_filters ch) (g_filters ch') /\
    g_anyscorer ch = g_anyscorer ch' /\
    (forall n, g_score ch n = g_score ch' n) /\
    g_selectors ch = g_selectors ch'.

  Lemma pass_all_ext fs fs' n :
    Forall2 (fun f g : A -> bool => forall n, f n = g n) fs fs' -> pass_all fs n = pass_all fs' n.
  Proof. induction 1 as [|f g fs fs' H _ IH]; simpl; [reflexivity|]. now rewrite H, IH. Qed.

  Lemma run_pipeline_ext ch ch' nodes assigned :
    gchain_ext ch ch' -> run_pipeline name ch nodes assigned = run_pipeline name ch' nodes assigned.
  Proof.
    intros [Hf [Ha [Hs Hsel]]]. rewrite !pipeline_spec, Hsel. do 2 f_equal.
    rewrite (sort_desc_ext (eff_score ch) (eff_score ch')).
    - f_equal. apply filter_ext. intros n. now apply pass_all_ext.
    - intros y. unfold eff_score. rewrite Ha. destruct (g_anyscorer ch'); [apply Hs | reflexivity].
  Qed.

  Lemma calc_ext nodes cfgs cfgs' :
    Forall2 (fun c c' => fst c = fst c' /\ gchain_ext (snd c) (snd c')) cfgs cfgs' ->
    calc name nodes cfgs = calc name nodes cfgs'.
  Proof.
    intros H. rewrite !calc_unbatched. unfold calc_with.
    generalize ({| st_assigned := []; st_results := [] |}).
    induction H as [|c c' cfgs cfgs' [Hn He] _ IH]; intros st; simpl; [reflexivity|].
    rewrite <- IH. f_equal. unfold calc_step. now rewrite Hn, (run_pipeline_ext _ _ _ _ He).
  Qed.
End Ext.

Lemma alloc_filter_ext look look' lo hi n :
  (forall k, look k = look' k) -> alloc_filter look lo hi n = alloc_filter look' lo hi n.
Proof. intros H. unfold alloc_filter. now rewrite H. Qed.

Lemma total_score_ext look look' ch n :
  (forall k, look k = look' k) -> total_score look ch n = total_score look' ch n.
Proof.
  intros H. unfold total_score. generalize 0%Q.
  induction ch as [|rp ch IH]; intros q; simpl; [reflexivity|].
  rewrite IH. do 2 f_equal. destruct rp; try reflexivity.
  unfold alloc_score. now rewrite H.
Qed.

Lemma to_gchain_ext look look' ch :
  (forall k, look k = look' k) -> gchain_ext (to_gchain look ch) (to_gchain look' ch).
Proof.
  intros H. unfold gchain_ext; cbn. repeat split.
  - induction ch as [|rp ch IH]; simpl; [constructor|].
    destruct rp; simpl; try assumption. constructor; [|assumption].
    intros n. now apply alloc_filter_ext.
  - intros n. now apply total_score_ext.
Qed.

Theorem assignments_metrics_order nodes m m' specs :
  (forall k, mlookup m k = mlookup m' k) ->
  assignments nodes m specs = assignments nodes m' specs.
Proof.
  intros H. unfold assignments. destruct (valid_config specs); [|reflexivity].
  do 3 f_equal. apply calc_ext. unfold manager_chains.
  generalize (chain_of specs). intros f.
  induction specs as [|s specs' IH]; simpl; constructor.
  - split; [reflexivity|]. cbn. now apply to_gchain_ext.
  - exact IH.
Qed.

(* ------------------------------------------------------------------ *)
(* the deprecated scheduler-level maxNodes: it caps the shard exactly   *)
(* when applyPolicyDefaults synthesises the node-limit entry            *)
(* ------------------------------------------------------------------ *)

Definition legacy_limit (s : sspec) : pspec :=
  {| ps_name := P_LIMIT; ps_weight := 0; ps_args := [(3, ss_minn s); (4, ss_maxn s)] |}.

Lemma apply_defaults_limit s :
  0 < ss_maxn s -> has_policy (ss_policies s) P_LIMIT = false -> In (legacy_limit s) (apply_defaults s).
Proof.
  intros Hmx Hno. unfold apply_defaults.
  set (p1 := match ss_policies s with [] => _ | _ => _ end).
  assert (Hp1 : has_policy p1 P_LIMIT = false).
  { subst p1. destruct (ss_policies s) as [|p ps]; [|exact Hno].
    destruct (ss_prefer s); reflexivity. }
  rewrite Hp1. replace (0 <? ss_maxn s) with true by (symmetry; now apply Z.ltb_lt).
  rewrite orb_true_r. simpl. apply in_or_app. right. now left.
Qed.

Lemma init_legacy_limit s :
  0 <= ss_minn s -> ss_minn s <= ss_maxn s ->
  init_policy (to_ref (legacy_limit s)) = Some (RLimit (ss_minn s) (ss_maxn s)).
Proof.
  intros H1 H2. unfold init_policy, to_ref, legacy_limit, arg_or. cbn.
  replace (ss_minn s <? 0) with false by (symmetry; apply Z.ltb_ge; lia).
  replace (ss_maxn s <? ss_minn s) with false by (symmetry; apply Z.ltb_ge; lia).
  now rewrite andb_false_r.
Qed.

Lemma init_chain_In ps : forall ch p rp,
  init_chain ps = Some ch -> In p ps -> init_policy p = Some rp -> In rp ch.
Proof.
  induction ps as [|q ps IH]; intros ch p rp Hc Hin Hp; [destruct Hin|].
  simpl in Hc. destruct (init_policy q) as [rq|] eqn:Eq; [|discriminate].
  destruct (init_chain ps) as [ch'|] eqn:Ec; [|discriminate].
  injection Hc as <-. destruct Hin as [-> | Hin].
  - rewrite Hp in Eq. injection Eq as <-. now left.
  - right. eapply IH; eauto.
Qed.

Lemma init_all_other n cfgs : forall cache,
  ~ In n (map fst cfgs) -> clookup (init_all cfgs cache) n = clookup cache n.
Proof.
  induction cfgs as [|[k qs] cfgs IH]; intros cache Hn; simpl; [reflexivity|].
  destruct (init_chain qs); [|reflexivity]. rewrite IH by (simpl in Hn; tauto).
  simpl. destruct (k =? n) eqn:E; [|reflexivity]. apply Z.eqb_eq in E. simpl in Hn. tauto.
Qed.

Lemma init_all_lookup cfgs : forall cache n ps ch,
  NoDup (map fst cfgs) -> Forall (fun c => init_chain (snd c) <> None) cfgs ->
  In (n, ps) cfgs -> init_chain ps = Some ch -> clookup (init_all cfgs cache) n = ch.
Proof.
  induction cfgs as [|[k qs] cfgs IH]; intros cache n ps ch Hnd Hall Hin Hch; [destruct Hin|].
  simpl in Hnd. inversion Hnd as [|? ? Hk Hnd']; subst. inversion Hall as [|? ? Hq Hall']; subst.
  simpl in Hq. simpl. destruct (init_chain qs) as [cq|] eqn:Eq; [|congruence].
  destruct Hin as [E | Hin].
  - injection E as -> ->. rewrite Hch in Eq. injection Eq as <-.
    rewrite init_all_other by assumption. simpl. now rewrite Z.eqb_refl.
  - eapply IH; eauto.
Qed.

(* every policy chain initialises (no unknown policy, no rejected arguments) *)
Definition all_init (specs : list sspec) : Prop :=
  Forall (fun c => init_chain (snd c) <> None) (sched_configs specs).

Theorem legacy_max_nodes_bound nodes m specs res sp l :
  assignments nodes m specs = Some res ->
  NoDup (map ss_name specs) -> all_init specs ->
  In sp specs -> has_policy (ss_policies sp) P_LIMIT = false -> 0 < ss_maxn sp ->
  In (ss_name sp, l) res -> Z.of_nat (length l) <= ss_maxn sp.
Proof.
  intros Ha Hnd Hall Hsp Hno Hmx Hin.
  assert (Hv : valid_spec sp = true).
  { unfold assignments in Ha. destruct (valid_config specs) eqn:E; [|discriminate].
    unfold valid_config in E. apply andb_prop in E. destruct E as [E _].
    apply andb_prop in E. destruct E as [E _]. unfold valid_specs in E. destruct specs; [discriminate|].
    rewrite forallb_forall in E. now apply E. }
  assert (Hmn : (ss_minn sp <? 0) = false /\ (ss_maxn sp <? ss_minn sp) = false).
  { unfold valid_spec in Hv. rewrite !andb_true_iff, !negb_true_iff in Hv. tauto. }
  destruct Hmn as [H1 H2]. apply Z.ltb_ge in H1, H2.
  apply (shard_bounded nodes m specs res (ss_name sp) l (ss_minn sp) (ss_maxn sp) Ha Hin); [|assumption].
  unfold chain_of, policy_cache.
  assert (Hc : In (ss_name sp, map to_ref (apply_defaults sp)) (sched_configs specs)).
  { unfold sched_configs. apply in_map_iff. now exists sp. }
  destruct (init_chain (map to_ref (apply_defaults sp))) as [ch|] eqn:Ech.
  - rewrite (init_all_lookup _ [] _ (map to_ref (apply_defaults sp)) ch); try assumption.
    + eapply init_chain_In; [exact Ech | | now apply init_legacy_limit].
      apply in_map. now apply apply_defaults_limit.
    + unfold sched_configs. rewrite map_map. exact Hnd.
  - unfold all_init in Hall. rewrite Forall_forall in Hall. specialize (Hall _ Hc). cbn in Hall. congruence.
Qed.

(* ------------------------------------------------------------------ *)
(* the batched path BEFORE the fix: cap and order held per batch only   *)
(* ------------------------------------------------------------------ *)

Definition plain_nodes (n : nat) : list node :=
  map (fun i => {| nname := Pos.of_nat i; nwarm := false |}) (seq 1 n).

Definition spec_limit1 : sspec :=
  {| ss_name := 1; ss_cpumin := 0; ss_cpumax := 1000; ss_prefer := false; ss_minn := 0; ss_maxn := 0;
     ss_args := []; ss_policies := [{| ps_name := P_LIMIT; ps_weight := 0; ps_args := [(3, 0); (4, 1)] |}] |}.

(* 51 nodes, one scheduler with node-limit maxNodes = 1: the old path hands out 2 nodes *)
Theorem bounded_old_batched_refuted :
  exists nodes m specs l,
    length nodes = 51%nat /\
    In (RLimit 0 1) (chain_of specs 1) /\
    old_assignments nodes m specs = Some [(1, l)] /\ length l = 2%nat /\
    assignments nodes m specs = Some [(1, [1%positive])].
Proof.
  exists (plain_nodes 51), [], [spec_limit1], [1%positive; 51%positive].
  vm_compute. repeat split; auto.
Qed.

Definition spec_legacy3 : sspec :=
  {| ss_name := 1; ss_cpumin := 0; ss_cpumax := 1000; ss_prefer := false; ss_minn := 0; ss_maxn := 3;
     ss_args := []; ss_policies := [] |}.

Definition rising_metrics (n : nat) : metrics :=
  map (fun i => (Pos.of_nat i, Some (10 * Z.of_nat i))) (seq 1 n).

(* 60 nodes whose utilisation (= score) rises with the name, cap 3: the old
   path returns the top 3 of EACH batch, 6 nodes, not in descending order;
   the code as it is now returns the global top 3 *)
Theorem order_old_batched_refuted :
  exists nodes m specs,
    old_assignments nodes m specs = Some [(1, [50; 49; 48; 60; 59; 58]%positive)] /\ assignments nodes m specs = Some [(1, [60; 59; 58]%positive)].
Proof.
  exists (plain_nodes 60), (rising_metrics 60), [spec_legacy3]. vm_compute. split; reflexivity.
Qed.

(* non-vacuity: a configuration that is accepted, initialises, and yields non-empty, capped shards *)
Definition demo_specs : list sspec :=
  [ {| ss_name := 2; ss_cpumin := 0; ss_cpumax := 600; ss_prefer := true; ss_minn := 1; ss_maxn := 2;
       ss_args := []; ss_policies := [] |};
    {| ss_name := 1; ss_cpumin := 0; ss_cpumax := 1000; ss_prefer := false; ss_minn := 0; ss_maxn := 0;
       ss_args := [];
       ss_policies := [ {| ps_name := P_ALLOC; ps_weight := 2; ps_args := [(1, 300); (2, 1000)] |};
                        {| ps_name := P_WARM; ps_weight := 1; ps_args := [] |};
                        {| ps_name := P_LIMIT; ps_weight := 0; ps_args := [(4, 2)] |} ] |} ].

Definition demo_nodes : list node :=
  [ {| nname := 1; nwarm := false |}; {| nname := 2; nwarm := true |}; {| nname := 3; nwarm := false |};
    {| nname := 4; nwarm := true |}; {| nname := 5; nwarm := false |}; {| nname := 6; nwarm := false |} ].

Definition demo_metrics : metrics :=
  [ (1%positive, Some 100); (2%positive, Some 500); (3%positive, Some 550); (4%positive, Some 900);
    (5%positive, Some 904); (6%positive, None) ].

Example demo_assignments :
  assignments demo_nodes demo_metrics demo_specs = Some [(1, [4; 5]%positive); (2, [2; 3]%positive)] /\ NoDup (map ss_name demo_specs) /\ all_init demo_specs.
Proof.
  split; [vm_compute; reflexivity|]. split.
  - repeat constructor; simpl; intuition discriminate.
  - unfold all_init. vm_compute. repeat constructor; discriminate.
Qed.

(* ------------------------------------------------------------------ *)
(* the executable laws accept the model's own results, and mean what    *)
(* the theorems say                                                     *)
(* ------------------------------------------------------------------ *)

Lemma disjointb_spec a b : disjointb a b = true <-> disj a b.
Proof.
  unfold disjointb, disj. rewrite forallb_forall. split.
  - intros H x Ha Hb. specialize (H x Ha). apply negb_true_iff, memb_false in H. contradiction.
  - intros H x Ha. apply negb_true_iff, memb_false. intros Hb. exact (H x Ha Hb).
Qed.

Lemma law_disjoint_complete (r : result) :
  (forall e1 e2, In e1 r -> In e2 r -> fst e1 <> fst e2 -> disj (snd e1) (snd e2)) ->
  law_disjoint r = true.
Proof.
  induction r as [|[s l] t IH]; intros H; simpl; [reflexivity|].
  apply andb_true_iff. split.
  - apply forallb_forall. intros e He. destruct (fst e =? s) eqn:E; [reflexivity|]. simpl.
    apply disjointb_spec. apply Z.eqb_neq in E.
    apply (H (s, l) e); simpl; auto.
  - apply IH. intros e1 e2 H1 H2. apply H; now right.
Qed.

Lemma law_disjoint_sound (r : result) s1 l1 s2 l2 :
  law_disjoint r = true -> In (s1, l1) r -> In (s2, l2) r -> s1 <> s2 -> disj l1 l2.
Proof.
  induction r as [|[s l] t IH]; intros H H1 H2 Hne; [destruct H1|].
  simpl in H. apply andb_true_iff in H. destruct H as [Hh Ht]. rewrite forallb_forall in Hh.
  destruct H1 as [E1 | H1], H2 as [E2 | H2].
  - congruence.
  - injection E1 as -> ->. specialize (Hh _ H2). simpl in Hh.
    destruct (s2 =? s1) eqn:E; [apply Z.eqb_eq in E; congruence|]. now apply disjointb_spec.
  - injection E2 as -> ->. specialize (Hh _ H1). simpl in Hh.
    destruct (s1 =? s2) eqn:E; [apply Z.eqb_eq in E; congruence|].
    apply disjointb_spec in Hh. intros x Ha Hb. exact (Hh x Hb Ha).
  - now apply IH.
Qed.

Theorem law_disjoint_model nodes m specs res :
  assignments nodes m specs = Some res -> law_disjoint res = true.
Proof.
  intros Ha. apply law_disjoint_complete. intros [s1 l1] [s2 l2] H1 H2 Hne x Hx1 Hx2.
  exact (shards_disjoint nodes m specs res s1 l1 s2 l2 x Ha H1 H2 Hne Hx1 Hx2).
Qed.

Lemma caps_In ch mx : In mx (caps ch) -> 0 < mx /\ exists mn, In (RLimit mn mx) ch.
Proof.
  unfold caps. rewrite in_flat_map. intros [rp [Hrp Hin]].
  destruct rp as [| |mn mx']; try destruct Hin.
  destruct (0 <? mx') eqn:E; [|destruct Hin]. destruct Hin as [<- | []].
  apply Z.ltb_lt in E. split; [assumption|]. now exists mn.
Qed.

Theorem law_bounded_model nodes m specs res :
  assignments nodes m specs = Some res -> law_bounded specs res = true.
Proof.
  intros Ha. unfold law_bounded. apply forallb_forall. intros [s l] He.
  apply forallb_forall. intros mx Hmx. cbn [fst snd] in *.
  apply caps_In in Hmx. destruct Hmx as [Hpos [mn Hin]].
  apply Z.leb_le. eapply shard_bounded; eauto.
Qed.

Theorem law_bounded_sound specs (r : result) s l mn mx :
  law_bounded specs r = true -> In (s, l) r -> In (RLimit mn mx) (chain_of specs s) -> 0 < mx ->
  Z.of_nat (length l) <= mx.
Proof.
  unfold law_bounded. rewrite forallb_forall. intros H Hin Hl Hmx.
  specialize (H _ Hin). cbn [fst snd] in H. rewrite forallb_forall in H.
  apply Z.leb_le. apply H. unfold caps. apply in_flat_map. exists (RLimit mn mx).
  split; [assumption|]. replace (0 <? mx) with true by (symmetry; now apply Z.ltb_lt). now left.
Qed.

Theorem law_eligible_model nodes m specs res :
  assignments nodes m specs = Some res -> law_eligible nodes m specs res = true.
Proof.
  intros Ha. unfold law_eligible. apply forallb_forall. intros [s l] He.
  apply (assignments_In _ _ _ _ _ Ha) in He.
  change ((fun e : Z * list positive =>
    forallb (fun x => existsb (fun n => Pos.eqb (nname n) x &&
        pass_all (filters_of (mlookup m) (chain_of specs (fst e))) n) nodes) (snd e) = true) (s, l)).
  revert He. apply calc_results_forall. intros c a Hc. cbn [fst snd].
  apply forallb_forall. intros x Hx. rewrite (manager_chains_In _ _ _ Hc) in Hx.
  apply pipeline_filtered in Hx; [|cbn; apply selectors_of_prefix].
  destruct Hx as [n [Hn [Hname [_ Hp]]]]. apply existsb_exists. exists n. split; [assumption|].
  cbn [to_gchain g_filters] in Hp. rewrite Hp, andb_true_r. subst x. apply Pos.eqb_refl.
Qed.

Lemma pos_list_eqb_refl l : pos_list_eqb l l = true.
Proof. induction l as [|x l IH]; simpl; [reflexivity|]. now rewrite Pos.eqb_refl, IH. Qed.

Lemma law_deterministic_refl (r : result) : law_deterministic r r = true.
Proof.
  unfold law_deterministic. induction r as [|[s l] r IH]; simpl; [reflexivity|].
  now rewrite Z.eqb_refl, pos_list_eqb_refl, IH.
Qed.
