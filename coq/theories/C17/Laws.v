(* Executable forms of the C17 property, evaluated on what the IMPLEMENTATION
   returned (the assignments map of ShardingManager.CalculateShardAssignments).
   They use the configuration side of the model (which policies a scheduler
   ends up with, the policies' own Filter / Score) but never the modelled
   pipeline, sort, selector chain or scheduler loop. *)
From Coq Require Import ZArith List Bool QArith.
From V Require Import C17.Model.
Import ListNotations.
Open Scope Z_scope.

Definition result := list (Z * list positive).

(* --- 101: shards of different schedulers never overlap --- *)
Definition disjointb (a b : list positive) : bool := forallb (fun x => negb (memb x b)) a.

Fixpoint law_disjoint (r : result) : bool :=
  match r with
  | [] => true
  | (s, l) :: t => forallb (fun e => (fst e =? s) || disjointb l (snd e)) t && law_disjoint t
  end.

(* --- 102: at most the configured maximum, whatever the cluster size --- *)
Definition caps (ch : list rpol) : list Z :=
  flat_map (fun rp => match rp with RLimit _ mx => if 0 <? mx then [mx] else [] | _ => [] end) ch.

Definition law_bounded (specs : list sspec) (r : result) : bool :=
  forallb (fun e => forallb (fun mx => Z.of_nat (length (snd e)) <=? mx) (caps (chain_of specs (fst e)))) r.

(* --- 103: every assigned node exists and passed ALL of the scheduler's filters --- *)
Definition law_eligible (nodes : list node) (m : metrics) (specs : list sspec) (r : result) : bool :=
  forallb (fun e =>
    let fs := filters_of (mlookup m) (chain_of specs (fst e)) in
    forallb (fun x => existsb (fun n => Pos.eqb (nname n) x && pass_all fs n) nodes) (snd e)) r.

(* --- 104 / 106: taken in descending weighted-score order (ties in node-list
   order), nothing better left behind, and as many as the cap allows.  These two
   need to know which nodes earlier schedulers took, so they only speak when
   node names and scheduler names are pairwise distinct. --- *)
Fixpoint nodupb (l : list positive) : bool :=
  match l with [] => true | x :: r => negb (memb x r) && nodupb r end.
Fixpoint znodupb (l : list Z) : bool :=
  match l with [] => true | x :: r => negb (existsb (Z.eqb x) r) && znodupb r end.

Definition inode := (nat * node)%type.
Definition indexed (nodes : list node) : list inode := combine (seq 0 (length nodes)) nodes.

Definition precedes (sc : node -> Q) (a b : inode) : bool :=
  qgt (sc (snd a)) (sc (snd b)) || (Qeq_bool (sc (snd a)) (sc (snd b)) && (fst a <? fst b)%nat).

Fixpoint chain_ok (sc : node -> Q) (l : list inode) : bool :=
  match l with
  | a :: ((b :: _) as t) => precedes sc a b && chain_ok sc t
  | _ => true
  end.

Fixpoint find_all (inodes : list inode) (l : list positive) : option (list inode) :=
  match l with
  | [] => Some []
  | x :: r => match find (fun p => Pos.eqb (nname (snd p)) x) inodes, find_all inodes r with
              | Some p, Some t => Some (p :: t)
              | _, _ => None
              end
  end.

Definition eligible_of (look : positive -> option Z) (ch : list rpol) (inodes : list inode) (taken : list positive) : list inode :=
  filter (fun p => negb (memb (nname (snd p)) taken) && pass_all (filters_of look ch) (snd p)) inodes.

Definition sched_order_ok (look : positive -> option Z) (ch : list rpol) (inodes : list inode)
           (taken l : list positive) : bool :=
  let sc := total_score look ch in
  match find_all inodes l with
  | None => false
  | Some tl =>
    chain_ok sc tl &&
    match rev tl with
    | [] => true
    | y :: _ => forallb (fun p => memb (nname (snd p)) l || precedes sc y p) (eligible_of look ch inodes taken)
    end
  end.

Definition min_cap (ch : list rpol) (n : Z) : Z := fold_left Z.min (caps ch) n.

Definition sched_count_ok (look : positive -> option Z) (ch : list rpol) (inodes : list inode)
           (taken l : list positive) : bool :=
  let el := eligible_of look ch inodes taken in
  forallb (fun x => existsb (fun p => Pos.eqb (nname (snd p)) x) el) l &&
  (Z.of_nat (length l) =? min_cap ch (Z.of_nat (length el))).

Definition per_sched (ok : (positive -> option Z) -> list rpol -> list inode -> list positive -> list positive -> bool)
           (nodes : list node) (m : metrics) (specs : list sspec) (r : result) : bool :=
  if nodupb (map nname nodes) && znodupb (map ss_name specs) then
    fst (fold_left (fun (acc : bool * list positive) s =>
                      let l := rlookup r (ss_name s) in
                      (fst acc && ok (mlookup m) (chain_of specs (ss_name s)) (indexed nodes) (snd acc) l,
                       l ++ snd acc))
                   specs (true, []))
  else true.

Definition law_order := per_sched sched_order_ok.
Definition law_count := per_sched sched_count_ok.

(* --- 105: identical inputs, identical assignments (two runs on fresh managers) --- *)
Fixpoint pos_list_eqb (a b : list positive) : bool :=
  match a, b with
  | [], [] => true
  | x :: r, y :: t => Pos.eqb x y && pos_list_eqb r t
  | _, _ => false
  end.
Fixpoint result_eqb (a b : result) : bool :=
  match a, b with
  | [], [] => true
  | (s, l) :: r, (s', l') :: t => (s =? s') && pos_list_eqb l l' && result_eqb r t
  | _, _ => false
  end.
Definition law_deterministic (a b : result) : bool := result_eqb a b.

(* --- 108: the order law with a tolerance, for inputs on which float64
   rounding can break an exact tie of weighted scores (or create one).  Scores
   closer than [tol] may come in either order; nodes of the same class (same
   utilisation entry, same warmup flag: bit-identical float scores) must still
   keep their node-list order, so a tie-break change is still seen. --- *)
Definition tol : Q := 1 # 1000000000.

Definition opt_z_eqb (a b : option Z) : bool :=
  match a, b with
  | None, None => true
  | Some x, Some y => x =? y
  | _, _ => false
  end.

Definition same_class (look : positive -> option Z) (a b : node) : bool :=
  opt_z_eqb (look (nname a)) (look (nname b)) && Bool.eqb (nwarm a) (nwarm b).

Definition precedes_tol (look : positive -> option Z) (sc : node -> Q) (a b : inode) : bool :=
  qgt (sc (snd a)) (sc (snd b) + tol) ||
  (negb (qgt (sc (snd b)) (sc (snd a) + tol)) &&
   (negb (same_class look (snd a) (snd b)) || (fst a <? fst b)%nat)).

Fixpoint chain_ok_tol (look : positive -> option Z) (sc : node -> Q) (l : list inode) : bool :=
  match l with
  | a :: ((b :: _) as t) => precedes_tol look sc a b && chain_ok_tol look sc t
  | _ => true
  end.

(* the left-behind check cannot use only the last pick here (the tolerant
   relation is not transitive): every pick is compared with every skipped node *)
Definition sched_order_tol_ok (look : positive -> option Z) (ch : list rpol) (inodes : list inode)
           (taken l : list positive) : bool :=
  let sc := total_score look ch in
  match find_all inodes l with
  | None => false
  | Some tl =>
    chain_ok_tol look sc tl &&
    forallb (fun p => memb (nname (snd p)) l || forallb (fun y => precedes_tol look sc y p) tl)
            (eligible_of look ch inodes taken)
  end.

Definition law_order_tol := per_sched sched_order_tol_ok.

(* --- 112 / 113: bound and eligibility against the CONFIGURATION (every policy
   entry of apply_defaults, whether or not the manager managed to initialise
   it): a configured cap or filter that the running chain ignores fails here --- *)
Definition law_bounded_config (specs : list sspec) (r : result) : bool :=
  forallb (fun sp =>
    forallb (fun p =>
      negb (ps_name p =? P_LIMIT) || negb (0 <? arg_or (ps_args p) 4 0) ||
      (Z.of_nat (length (rlookup r (ss_name sp))) <=? arg_or (ps_args p) 4 0))
      (apply_defaults sp)) specs.

Definition law_eligible_config (nodes : list node) (m : metrics) (specs : list sspec) (r : result) : bool :=
  forallb (fun sp =>
    forallb (fun p =>
      negb (ps_name p =? P_ALLOC) ||
      forallb (fun x => existsb (fun n => Pos.eqb (nname n) x &&
                 alloc_filter (mlookup m) (round_util (arg_or (ps_args p) 1 0))
                                          (round_util (arg_or (ps_args p) 2 0)) n) nodes)
              (rlookup r (ss_name sp)))
      (apply_defaults sp)) specs.
