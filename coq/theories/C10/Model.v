(* Model of the queue admission webhook
     pkg/webhooks/admission/queues/validate/validate_queue.go   (AdmitQueues and everything it calls)
     pkg/webhooks/router/indexer.go                             (GetQueuesByParent)
   as the code is AFTER the four fix commits 16eeba9, 02b9100, e160f0e, aa1c1ec (docs/notes/C10.md);
   line numbers are those of the file after them.

   State = the queue set the lister shows (name -> spec).  Names are positives
   (1 = "root", 2 = "default"); a parent is [option positive], None being the
   empty string.  A v1.ResourceList is a finite map dimension -> amount in the
   canonical unit api.NewResource uses (milli for cpu and scalars, plain value
   for memory and pods).  Dimensions: 1 pods, 2 cpu, 3 memory, 4 and 5 extended
   resources (integer resources for the Kubernetes quantity validator), 6, 7
   other scalars, 8 a name api.NewResource drops.  nil and empty lists behave
   the same everywhere in this code, so they are not distinguished.

   Executable definitions only; proofs are in Lemmas.v. *)
From stdpp Require Import gmap.
From Coq Require Import ZArith.
From V Require Import Base.Res.
Open Scope Z_scope.

Notation rlist := (gmap positive Z).

Definition root : positive := 1%positive.
Definition default_q : positive := 2%positive.

Record qspec := mkQ {
  qparent : option positive;   (* Spec.Parent, None = "" *)
  qalloc : Z;                  (* Status.Allocated[pods] (0 = absent or zero) *)
  qstate : Z;                  (* Status.State: 0 "", 1 Open, 2 Closed, 3 Closing, 4 Unknown *)
  qterm : bool;                (* metadata.deletionTimestamp is set: the queue is terminating *)
  qcap : rlist;                (* Spec.Capability *)
  qdes : rlist;                (* Spec.Deserved *)
  qguar : rlist                (* Spec.Guarantee.Resource *)
}.

Notation queues := (gmap positive qspec).

Record cfg := mkCfg { max_depth : Z; alloc_check : bool; root_prot : bool }.

Inductive req :=
| Create (n : positive) (s : qspec)
| Update (n : positive) (s : qspec)        (* qalloc of s is ignored: the status is kept *)
| Delete (n : positive)
| DeleteFin (n : positive)                (* DELETE of a queue that carries a finalizer: validated like DELETE;
                                             when admitted the object stays in the set as TERMINATING
                                             (deletionTimestamp set) until the finalizer is removed.  No code
                                             under C10 reads the deletionTimestamp, so the flag is not modelled *)
| EnvGone (n : positive)                  (* the finalizer is removed: the object disappears, whether it has
                                             children or not (root and default can never be terminating: their
                                             DELETE is always refused) *)
| EnvStatus (n : positive) (a st : Z).     (* status update by the scheduler / queue controller, not an
                                              admission request: allocated pods := a, state := st,
                                              a negative value leaving the field as it is *)

Inductive verdict :=
| VAllowed | VSpec | VSelfParent | VDepth | VAncMissing | VParentGet | VParentBusy | VRootProt
| VParentGone | VCapAncestor | VSiblingSum | VCapChildren | VChildrenSum
| VDelProtected | VDelMissing | VDelAllocated | VDelChildren
| VCycle | VSubtreeDepth | VRootParent | VParentTerminating
| VNotInvoked      (* UPDATE / status update of a queue that does not exist: 404 before admission *)
| VFuel.           (* fuel of a modelled recursion exhausted: the Go code would not return *)

Definition allowed (v : verdict) : bool := match v with VAllowed => true | _ => false end.

(* ---------- resource lists ---------- *)

Definition amount (m : rlist) (d : positive) : Z := default 0 (m !! d).

Definition cpu_d : positive := 2%positive.
Definition mem_d : positive := 3%positive.
Definition hidden_d : positive := 8%positive.
(* dimensions api.NewResource puts into ScalarResources *)
Definition scalar_dim (d : positive) : bool :=
  negb (bool_decide (d = cpu_d) || bool_decide (d = mem_d) || bool_decide (d = hidden_d)).
(* dimensions the scheduler's Resource sees at all *)
Definition vis (d : positive) : bool := negb (bool_decide (d = hidden_d)).
(* helper.IsIntegerResourceName among our dimensions, in milli units (pods are counted in units) *)
Definition int_dim (d : positive) : bool := bool_decide (d = 4%positive) || bool_decide (d = 5%positive).

(* k8scorevalid.ValidateResourceQuantityValue *)
Definition qty_ok (d : positive) (v : Z) : bool :=
  bool_decide (0 <= v) && (negb (int_dim d) || bool_decide (v mod 1000 = 0)).

(* validateResourceQuantityOfQueue (validate_queue.go 227-293): no error *)
Definition spec_ok (s : qspec) : bool :=
  map_allb qty_ok (qcap s) &&
  map_allb qty_ok (qdes s) &&
  map_allb (fun d g => qty_ok d g &&
              match qdes s !! d with Some x => bool_decide (g <= x) | None => false end) (qguar s) &&
  map_allb (fun d x => match qcap s !! d with Some c => bool_decide (x <= c) | None => true end) (qdes s).

(* api.NewResource on a list of our dimensions *)
Definition new_resource (m : rlist) : res :=
  let s : rlist := filter (fun kv => scalar_dim (fst kv) = true) m in
  mkRes (amount m cpu_d) (amount m mem_d) (if bool_decide (s = ∅) then None else Some s).

(* getSingleResource (435-447) *)
Definition rget (r : res) (d : positive) : Z :=
  if bool_decide (d = cpu_d) then cpu r else if bool_decide (d = mem_d) then mem r else sget r d.

(* Resource.ResourceNames on integer amounts: minResource = 0.1 is the threshold 1 *)
Definition res_names (r : res) : list positive :=
  match names_of 1 r with
  | (c, m, ks) => (if c then [cpu_d] else []) ++ (if m then [mem_d] else []) ++ ks
  end.

(* ---------- lookups ---------- *)

(* AdmissionServiceConfig.GetQueuesByParent (indexer.go): index and fallback agree *)
Definition children_of (Q : queues) (p : positive) : list (positive * qspec) :=
  filter (fun ns => qparent (snd ns) = Some p) (map_to_list Q).

Definition is_top (p : option positive) : bool :=
  match p with None => true | Some x => bool_decide (x = root) end.

(* ---------- validateQueueDepth 511-539, queueSubtreeHeight 541-557 (after the fix) ---------- *)

(* [rem] = MaxQueueDepth - depth, the iterations the loop may still take: the
   Go loop increments depth and fails when it exceeds the maximum, so it is
   structurally bounded; the result is the budget left (max - final depth). *)
Fixpoint depth_walk (rem : nat) (Q : queues) (self : positive) (parent : option positive) : verdict + nat :=
  match parent with
  | None => inr rem
  | Some p =>
    if bool_decide (p = root) then inr rem
    else if bool_decide (p = self) then inl VCycle
    else match rem with
         | O => inl VDepth
         | S r => match Q !! p with
                  | None => inl VAncMissing
                  | Some ps => depth_walk r Q self (qparent ps)
                  end
         end
  end.

(* queueSubtreeHeight(name, limit) *)
Fixpoint sub_height (limit : nat) (Q : queues) (n : positive) : nat :=
  match limit with
  | O => O
  | S l => foldr (fun c acc => Nat.max (S (sub_height l Q (fst c))) acc) O (children_of Q n)
  end.

(* validateHierarchicalQueue (373-419) *)
Definition validate_hier_with (term_check : bool) (c : cfg) (Q : queues) (n : positive) (s : qspec) : verdict :=
  match qparent s with
  | None => VAllowed
  | Some p =>
    if bool_decide (n = root) then VRootParent      (* the root queue cannot have a parent *)
    else if bool_decide (p = root) then VAllowed
    else if bool_decide (p = n) then VSelfParent
    else match depth_walk (Z.to_nat (max_depth c - 1)) Q n (Some p) with
         | inl v => v
         | inr rem =>
           if (rem <? sub_height (S rem) Q n)%nat then VSubtreeDepth
           else match Q !! p with
                | None => VParentGet
                | Some ps =>
                  (* a terminating queue takes no new children (third fix) *)
                  if term_check && qterm ps then VParentTerminating
                  else if bool_decide (children_of Q p = []) && negb (bool_decide (qalloc ps = 0))
                  then VParentBusy else VAllowed
                end
         end
  end.

Definition validate_hier := validate_hier_with true.
(* as it was before the fix "a terminating queue takes no new children" (kept for the record) *)
Definition validate_hier_preterm := validate_hier_with false.

(* ---------- hierarchical resources (450-494, 565-746) ---------- *)

(* findNearestAncestorCapability: None = fuel exhausted, Some None = (0,false) *)
Fixpoint nearest_cap (fuel : nat) (Q : queues) (parent : option positive) (d : positive) : option (option Z) :=
  match parent with
  | None => Some None
  | Some p =>
    if bool_decide (p = root) then Some None
    else match fuel with
         | O => None
         | S f => match Q !! p with
                  | None => Some None
                  | Some ps =>
                    let v := rget (new_resource (qcap ps)) d in
                    if bool_decide (0 < v) then Some (Some v) else nearest_cap f Q (qparent ps) d
                  end
         end
  end.

Definition opt_max (a b : option Z) : option Z :=
  match a, b with Some x, Some y => Some (Z.max x y) | _, _ => None end.

(* findSubtreeMaxCapability: None = fuel exhausted *)
Fixpoint subtree_max (fuel : nat) (Q : queues) (n : positive) (s : qspec) (d : positive) : option Z :=
  match fuel with
  | O => None
  | S f =>
    let v := rget (new_resource (qcap s)) d in
    if bool_decide (0 < v) then Some v
    else foldr (fun c acc => opt_max (subtree_max f Q (fst c) (snd c) d) acc) (Some 0) (children_of Q n)
  end.

Definition fuel_of (Q : queues) : nat := S (size Q).

(* the accumulate-and-compare loops of validateSiblingsSum / validateChildrenConstraints:
   total.Add(item); if limit.LessPartly(total, Zero) -> error *)
Fixpoint sum_check_from (lim tot : res) (items : list res) : bool :=
  match items with
  | [] => true
  | x :: r => let tot' := add tot x in negb (less_partly lim tot' DZero) && sum_check_from lim tot' r
  end.
Definition sum_check (lim : res) (items : list res) : bool := sum_check_from lim empty_res items.

(* first verdict that is not VAllowed *)
Fixpoint first_bad (l : list verdict) : verdict :=
  match l with [] => VAllowed | v :: r => if allowed v then first_bad r else v end.

(* validateChildAgainstAncestor (608-634), first loop: the queue's own capability *)
Definition child_vs_ancestor_own (Q : queues) (s : qspec) : verdict :=
  let r := new_resource (qcap s) in
  first_bad (map (fun d =>
      match nearest_cap (fuel_of Q) Q (qparent s) d with
      | None => VFuel
      | Some None => VAllowed
      | Some (Some up) => if bool_decide (up < rget r d) then VCapAncestor else VAllowed
      end) (res_names r)).

(* collectDescendantCapabilityNames (637-651): None = fuel exhausted *)
Fixpoint desc_names (fuel : nat) (Q : queues) (n : positive) : option (list positive) :=
  match fuel with
  | O => None
  | S f =>
    foldr (fun c acc =>
             match desc_names f Q (fst c), acc with
             | Some a, Some b => Some (res_names (new_resource (qcap (snd c))) ++ a ++ b)
             | _, _ => None
             end) (Some []) (children_of Q n)
  end.

(* validateChildAgainstAncestor, second loop (after the second fix): the largest capability in
   the subtree of the queue, for every name some descendant sets *)
Definition child_vs_ancestor_desc (Q : queues) (n : positive) (s : qspec) : verdict :=
  match desc_names (fuel_of Q) Q n with
  | None => VFuel
  | Some names =>
    first_bad (map (fun d =>
        match subtree_max (fuel_of Q) Q n s d, nearest_cap (fuel_of Q) Q (qparent s) d with
        | Some my, Some (Some up) => if bool_decide (up < my) then VCapAncestor else VAllowed
        | Some _, Some None => VAllowed
        | _, _ => VFuel
        end) names)
  end.

Definition child_vs_ancestor (Q : queues) (n : positive) (s : qspec) : verdict :=
  match child_vs_ancestor_own Q s with
  | VAllowed => child_vs_ancestor_desc Q n s
  | v => v
  end.

(* validateSiblingsSum (654-692); the guarantee and deserved errors are one class *)
Definition siblings_sum (Q : queues) (n : positive) (s ps : qspec) (p : positive) : verdict :=
  let sibs := map snd (filter (fun c => fst c <> n) (children_of Q p)) ++ [s] in
  if sum_check (new_resource (qguar ps)) (map (fun x => new_resource (qguar x)) sibs) &&
     sum_check (new_resource (qdes ps)) (map (fun x => new_resource (qdes x)) sibs)
  then VAllowed else VSiblingSum.

(* validateChildrenConstraints (695-746) *)
Definition children_constraints (Q : queues) (s : qspec) (kids : list (positive * qspec)) : verdict :=
  let r := new_resource (qcap s) in
  match first_bad (map (fun d =>
          match foldr (fun c acc => opt_max (subtree_max (fuel_of Q) Q (fst c) (snd c) d) acc) (Some 0) kids with
          | None => VFuel
          | Some childMax => if bool_decide (rget r d < childMax) then VCapChildren else VAllowed
          end) (res_names r)) with
  | VAllowed =>
    if sum_check (new_resource (qguar s)) (map (fun x => new_resource (qguar (snd x))) kids) &&
       sum_check (new_resource (qdes s)) (map (fun x => new_resource (qdes (snd x))) kids)
    then VAllowed else VChildrenSum
  | v => v
  end.

(* validateHierarchicalQueueResources (565-605) *)
Definition validate_resources_with (cva : verdict) (Q : queues) (n : positive) (s : qspec) : verdict :=
  let v1 :=
    match qparent s with
    | None => VAllowed
    | Some p =>
      if bool_decide (p = root) then VAllowed
      else match Q !! p with
           | None => VParentGone
           | Some ps =>
             match cva with
             | VAllowed => siblings_sum Q n s ps p
             | v => v
             end
           end
    end in
  match v1 with
  | VAllowed =>
    match children_of Q n with
    | [] => VAllowed
    | kids => children_constraints Q s kids
    end
  | v => v
  end.

Definition validate_resources (Q : queues) (n : positive) (s : qspec) : verdict :=
  validate_resources_with (child_vs_ancestor Q n s) Q n s.

Definition same_resources (a b : qspec) : bool :=
  bool_decide (qcap a = qcap b) && bool_decide (qdes a = qdes b) && bool_decide (qguar a = qguar b).

(* AdmitQueues, CREATE / UPDATE branch (81-116); [old] = None for CREATE *)
(* validateStateOfQueue (205-224) on the Status.State the request object carries: the stored
   status on UPDATE (the API server keeps the status on a spec update), none on CREATE *)
Definition state_ok (st : Z) : bool := (st =? 0) || (st =? 1) || (st =? 2).

Definition admit_cu_with (res : verdict) (c : cfg) (Q : queues) (n : positive) (s : qspec) (old : option qspec) : verdict :=
  if negb (spec_ok s && state_ok (match old with None => 0 | Some o => qstate o end)) then VSpec
  else
    let parent_changed := match old with None => true | Some o => negb (bool_decide (qparent o = qparent s)) end in
    match (if parent_changed then validate_hier c Q n s else VAllowed) with
    | VAllowed =>
      let res_changed := match old with None => true | Some o => negb (same_resources o s) end in
      if root_prot c && bool_decide (n = root) && match old with None => false | Some _ => res_changed end
      then VRootProt
      else if negb (bool_decide (n = root)) && (parent_changed || res_changed)   (* needsValidateHierarchicalQueue *)
           then res else VAllowed
    | v => v
    end.

Definition admit_cu (c : cfg) (Q : queues) (n : positive) (s : qspec) (old : option qspec) : verdict :=
  admit_cu_with (validate_resources Q n s) c Q n s old.

(* validateQueueDeleting (295-330) *)
Definition admit_delete (c : cfg) (Q : queues) (n : positive) : verdict :=
  if bool_decide (n = default_q) || bool_decide (n = root) then VDelProtected
  else match Q !! n with
       | None => VDelMissing
       | Some s =>
         if alloc_check c && negb (bool_decide (qalloc s = 0)) then VDelAllocated
         else if negb (bool_decide (children_of Q n = [])) then VDelChildren
         else VAllowed
       end.

Definition with_status (a st : Z) (t : bool) (s : qspec) : qspec :=
  mkQ (qparent s) a st t (qcap s) (qdes s) (qguar s).

(* what the implementation answers to a request *)
Definition verdict_of (c : cfg) (Q : queues) (r : req) : verdict :=
  match r with
  | Create n s => admit_cu c Q n s None
  | Update n s => match Q !! n with None => VNotInvoked | Some o => admit_cu c Q n s (Some o) end
  | Delete n | DeleteFin n => admit_delete c Q n
  | EnvGone n => match Q !! n with None => VNotInvoked | Some _ => VAllowed end
  | EnvStatus n a st => match Q !! n with None => VNotInvoked | Some _ => VAllowed end
  end.

(* what the API server does with an admitted request (storage semantics:
   create of an existing name and update/delete of a missing one change nothing) *)
Definition apply_req (Q : queues) (r : req) : queues :=
  match r with
  | Create n s => match Q !! n with None => <[n := with_status 0 0 false s]> Q | Some _ => Q end
  | Update n s => match Q !! n with None => Q | Some o => <[n := with_status (qalloc o) (qstate o) (qterm o) s]> Q end
  | Delete n => delete n Q
  | DeleteFin n =>   (* the object stays, terminating *)
    match Q !! n with None => Q | Some o => <[n := with_status (qalloc o) (qstate o) true o]> Q end
  | EnvGone n =>   (* the API server drops a terminating object once its finalizers are gone, children or not *)
    match Q !! n with
    | Some o => if qterm o && negb (bool_decide (n = root)) && negb (bool_decide (n = default_q))
                then delete n Q else Q
    | None => Q
    end
  | EnvStatus n a st =>
    match Q !! n with
    | None => Q
    | Some o => <[n := with_status (if a <? 0 then qalloc o else a) (if st <? 0 then qstate o else st) (qterm o) o]> Q
    end
  end.

Definition apply_if_admitted (c : cfg) (Q : queues) (r : req) : queues :=
  if allowed (verdict_of c Q r) then apply_req Q r else Q.

Definition run_history (c : cfg) (Q0 : queues) (rs : list req) : queues :=
  fold_left (apply_if_admitted c) rs Q0.

(* the verdicts along a history *)
Fixpoint verdicts (c : cfg) (Q : queues) (rs : list req) : list verdict :=
  match rs with
  | [] => []
  | r :: rest => verdict_of c Q r :: verdicts c (apply_if_admitted c Q r) rest
  end.

(* ---------- scheduler side: pkg/scheduler/plugins/capacity/capacity.go 1212-1231, 1452-1485 ----------
   buildHierarchicalQueueAttrs aborts (every function of the plugin then rejects) when
   updateAncestors fails for some queue: its parent ("" standing for root) is not among the
   session's queues.  (updateAncestors also has a cycle test on its recursion path; it consults
   the already-built queueOpts first, so on the queue sets reached here only the missing parent
   is observable.) *)
Definition capacity_ready (Q : queues) : bool :=
  map_allb (fun n s => bool_decide (n = root) ||
                       bool_decide (is_Some (Q !! default root (qparent s)))) Q.

(* ---------- the validation as it was BEFORE the fixes (kept for the record) ---------- *)

(* before the second fix validateChildAgainstAncestor had only its first loop *)
Definition admit_cu_precap (c : cfg) (Q : queues) (n : positive) (s : qspec) (old : option qspec) : verdict :=
  admit_cu_with (validate_resources_with (child_vs_ancestor_own Q s) Q n s) c Q n s old.


Fixpoint depth_walk_prefix (rem : nat) (Q : queues) (parent : option positive) : verdict + nat :=
  match parent with
  | None => inr rem
  | Some p =>
    if bool_decide (p = root) then inr rem
    else match rem with
         | O => inl VDepth
         | S r => match Q !! p with
                  | None => inl VAncMissing
                  | Some ps => depth_walk_prefix r Q (qparent ps)
                  end
         end
  end.

Definition validate_hier_prefix (c : cfg) (Q : queues) (n : positive) (s : qspec) : verdict :=
  match qparent s with
  | None => VAllowed
  | Some p =>
    if bool_decide (p = root) then VAllowed
    else if bool_decide (p = n) then VSelfParent
    else match depth_walk_prefix (Z.to_nat (max_depth c - 1)) Q (Some p) with
         | inl v => v
         | inr _ =>
           match Q !! p with
           | None => VParentGet
           | Some ps =>
             if bool_decide (children_of Q p = []) && negb (bool_decide (qalloc ps = 0))
             then VParentBusy else VAllowed
           end
         end
  end.
