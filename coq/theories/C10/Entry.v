(* Entry point of the C10 correspondence: selector + tokens -> tokens.
   Wire format of a history:
     maxDepth allocCheck rootProt notTree  nQ queue*  nReq request*
     queue   = name parent(0 = "") allocatedPods state rl(cap) rl(deserved) rl(guarantee)
     rl      = n (dim amount)*n
     request = 1 name parent rl rl rl | 2 name parent rl rl rl | 3 name | 4 name pods state (-1 = unchanged) | 5 name (DELETE, finalizer) | 6 name (finalizer removed)
   sel 1 answers  (tag(i) verdict_i)*  tag(900) final queue set (names ascending)
                  tag(901) whether the capacity plugin accepts that queue set.
   sel 101..105 take the history followed by the implementation's verdict list. *)
From stdpp Require Import gmap.
From Coq Require Import ZArith List.
From V Require Import Base.Codec Base.Res C10.Model C10.Laws.
Import ListNotations.
Open Scope Z_scope.

Definition tag (i : Z) : list Z := [-100 - i].

Definition vcode (v : verdict) : Z :=
  match v with
  | VAllowed => 0 | VSpec => 1 | VSelfParent => 2 | VDepth => 3 | VAncMissing => 4 | VParentGet => 5
  | VParentBusy => 6 | VRootProt => 7 | VParentGone => 8 | VCapAncestor => 9 | VSiblingSum => 10
  | VCapChildren => 12 | VChildrenSum => 13 | VDelProtected => 15 | VDelMissing => 16
  | VDelAllocated => 17 | VDelChildren => 18 | VCycle => 19 | VSubtreeDepth => 20
  | VNotInvoked => 21 | VRootParent => 22 | VParentTerminating => 23 | VFuel => 99
  end.

Definition dRl : dec rlist := let* kvs := dList (dPair dPos dZ) in ret (list_to_map kvs).
Definition dParent : dec (option positive) :=
  let* z := dZ in if z <? 0 then fail else if z =? 0 then ret None else ret (Some (Z.to_pos z)).
Definition dSpecBody (a : Z) : dec qspec :=
  let* p := dParent in let* c := dRl in let* d := dRl in let* g := dRl in ret (mkQ p a 0 false c d g).
Definition dQueue : dec (positive * qspec) :=
  let* n := dPos in let* p := dParent in let* a := dZ in let* st := dZ in
  let* c := dRl in let* d := dRl in let* g := dRl in ret (n, mkQ p a st false c d g).
Definition dReq : dec req :=
  let* k := dZ in
  if k =? 1 then let* n := dPos in let* s := dSpecBody 0 in ret (Create n s)
  else if k =? 2 then let* n := dPos in let* s := dSpecBody 0 in ret (Update n s)
  else if k =? 3 then let* n := dPos in ret (Delete n)
  else if k =? 5 then let* n := dPos in ret (DeleteFin n)
  else if k =? 6 then let* n := dPos in ret (EnvGone n)
  else if k =? 4 then let* n := dPos in let* a := dZ in let* st := dZ in ret (EnvStatus n a st)
  else fail.
Definition dCfg : dec cfg :=
  let* m := dZ in let* a := dBool in let* r := dBool in let* _ := dZ in ret (mkCfg m a r).
(* the 4th configuration token is for the harness and law 108 only: 1 = the generator perturbed the
   initial set on purpose, the gate need not hold *)
Definition not_tree (toks : list Z) : bool :=
  match toks with _ :: _ :: _ :: e :: _ => negb (e =? 0) | _ => false end.
Definition dHistory : dec (cfg * queues * list req) :=
  let* c := dCfg in let* qs := dList dQueue in let* rs := dList dReq in
  ret (c, list_to_map qs, rs).

Definition eRl (m : rlist) : list Z := eList (fun kv => [Zpos (fst kv); snd kv]) (sort_kv (map_to_list m)).
Definition eParent (p : option positive) : list Z := match p with None => [0] | Some x => [Zpos x] end.
Definition eQueue (ns : positive * qspec) : list Z :=
  let s := snd ns in
  [Zpos (fst ns)] ++ eParent (qparent s) ++ [qalloc s; qstate s] ++ eBool (qterm s) ++ eRl (qcap s) ++ eRl (qdes s) ++ eRl (qguar s).
Definition eState (Q : queues) : list Z := eList eQueue (sort_kv (map_to_list Q)).

Fixpoint eVerdicts (i : Z) (vs : list verdict) : list Z :=
  match vs with
  | [] => []
  | v :: r => tag i ++ [vcode v] ++ eVerdicts (i + 1) r
  end.

Definition run_entry (c : cfg) (Q0 : queues) (rs : list req) : list Z :=
  eVerdicts 1 (verdicts c Q0 rs) ++ tag 900 ++ eState (run_history c Q0 rs) ++
  tag 901 ++ eBool (capacity_ready (run_history c Q0 rs)) ++
  (* 903: GetQueuesByParent answered the same through the informer's parent index (whose verdict is the
     one reported) and through the lister fallback on every request: always, in the model there is one lookup *)
  tag 903 ++ eBool true.

Definition law_entry (f : cfg -> queues -> list req -> list Z -> bool) (toks : list Z) : list Z :=
  match run_dec (let* h := dHistory in let* vs := dList dZ in ret (h, vs)) toks with
  | Some (c, q, rs, vs) => eBool (f c q rs vs)
  | None => bad_input
  end.

Definition entry (sel : Z) (toks : list Z) : list Z :=
  match sel with
  | 1 => match run_dec dHistory toks with
         | Some (c, q, rs) => run_entry c q rs
         | None => bad_input
         end
  (* two requests validated against the SAME queue set (concurrent admissions, informer lag): the
     set the history produced; both verdicts, then the set after applying the admitted ones *)
  | 2 => match run_dec (let* h := dHistory in let* r1 := dReq in let* r2 := dReq in ret (h, r1, r2)) toks with
         | Some (c, q, rs, r1, r2) =>
           let Q := run_history c q rs in
           let v1 := verdict_of c Q r1 in
           let v2 := verdict_of c Q r2 in
           let Q1 := if allowed v1 then apply_req Q r1 else Q in
           let Q2 := if allowed v2 then apply_req Q1 r2 else Q1 in
           tag 1 ++ [vcode v1] ++ tag 2 ++ [vcode v2] ++ tag 900 ++ eState Q2
         | None => bad_input
         end
  (* the three fixed concurrent scenarios: both admitted, the set before is a tree, the set after is not *)
  | 3 => match run_dec (let* h := dHistory in let* r1 := dReq in let* r2 := dReq in ret (h, r1, r2)) toks with
         | Some (c, q, rs, r1, r2) =>
           let Q := run_history c q rs in
           eBool (allowed (verdict_of c Q r1) && allowed (verdict_of c Q r2)) ++
           eBool (depth_okb c && tree_okb c Q) ++
           eBool (depth_okb c && tree_okb c (apply_req (apply_req Q r1) r2))
         | None => bad_input
         end
  | 101 => law_entry law_shape toks
  | 102 => law_entry law_per toks
  | 103 => law_entry law_sums toks
  | 104 => law_entry law_caps toks
  | 105 => law_entry law_delete toks
  | 107 => law_entry law_delete_alloc toks
  | 108 => if not_tree toks then eBool true else law_entry law_gate toks
  | 106 => match run_dec (let* h := dHistory in let* vs := dList dZ in let* rd := dZ in ret (h, vs, rd)) toks with
           | Some (c, q, rs, vs, rd) => eBool (law_capacity c q rs vs rd)
           | None => bad_input
           end
  | _ => bad_input
  end.
