(* Executable form of the C10 invariant, evaluated on what the IMPLEMENTATION
   answered: a history is replayed with the verdicts the real webhook gave
   (an admitted request is applied with the storage semantics [apply_req]) and
   the queue set is checked after every step.  The checkers are written
   directly on the queue set (parent links, amounts of the resource lists);
   they use none of the model's validation functions. *)
From stdpp Require Import gmap.
From Coq Require Import ZArith.
From V Require Import Base.Res C10.Model.
Open Scope Z_scope.

(* the root queue exists and has no parent *)
Definition root_okb (Q : queues) : bool :=
  match Q !! root with Some sr => bool_decide (qparent sr = None) | None => false end.

(* the chain of parent links starting at [parent] reaches the root ("" or
   "root") within k links, every queue on the way existing *)
Fixpoint reach_in (k : nat) (Q : queues) (parent : option positive) : bool :=
  match k with
  | O => false
  | S k' =>
    match parent with
    | None => true
    | Some p =>
      if bool_decide (p = root) then true
      else match Q !! p with
           | None => false
           | Some ps => reach_in k' Q (qparent ps)
           end
    end
  end.

Definition shape_okb (c : cfg) (Q : queues) : bool :=
  root_okb Q &&
  map_allb (fun n s => bool_decide (n = root) || reach_in (Z.to_nat (max_depth c)) Q (qparent s)) Q.

Definition nonneg_l (m : rlist) : bool := map_allb (fun _ v => bool_decide (0 <= v)) m.

Definition queue_okb (s : qspec) : bool :=
  nonneg_l (qcap s) && nonneg_l (qdes s) && nonneg_l (qguar s) &&
  map_allb (fun d g => match qdes s !! d with Some x => bool_decide (g <= x) | None => false end) (qguar s) &&
  map_allb (fun d x => match qcap s !! d with Some c => bool_decide (x <= c) | None => true end) (qdes s).

Definition per_okb (Q : queues) : bool := map_allb (fun _ s => queue_okb s) Q.

(* sum over the children of p of one amount *)
Definition csum (f : qspec -> rlist) (Q : queues) (p d : positive) : Z :=
  foldr (fun ns acc => amount (f (snd ns)) d + acc) 0 (children_of Q p).

Definition keys_l (m : rlist) : list positive := map fst (map_to_list m).
Definition dims_of (Q : queues) : list positive :=
  flat_map (fun ns => keys_l (qcap (snd ns)) ++ keys_l (qdes (snd ns)) ++ keys_l (qguar (snd ns))) (map_to_list Q).

Definition sums_okb (Q : queues) : bool :=
  map_allb (fun p sp =>
    bool_decide (p = root) ||
    forallb (fun d => negb (vis d) ||
                      (bool_decide (csum qguar Q p d <= amount (qguar sp) d) &&
                       bool_decide (csum qdes Q p d <= amount (qdes sp) d))) (dims_of Q)) Q.

(* capability of the nearest proper ancestor below root that sets dimension d
   (a positive amount): None = the chain does not end, Some None = no such ancestor *)
Fixpoint nearest_anc (fuel : nat) (Q : queues) (parent : option positive) (d : positive) : option (option Z) :=
  match fuel with
  | O => None
  | S f =>
    match parent with
    | None => Some None
    | Some p =>
      if bool_decide (p = root) then Some None
      else match Q !! p with
           | None => Some None
           | Some ps => if bool_decide (0 < amount (qcap ps) d) then Some (Some (amount (qcap ps) d))
                        else nearest_anc f Q (qparent ps) d
           end
    end
  end.

Definition caps_okb (Q : queues) : bool :=
  map_allb (fun n s =>
    bool_decide (n = root) ||
    map_allb (fun d v => negb (vis d) || negb (bool_decide (0 < v)) ||
                match nearest_anc (S (S (size Q))) Q (qparent s) d with
                | Some (Some up) => bool_decide (v <= up)
                | Some None => true
                | None => false
                end) (qcap s)) Q.

(* a terminating queue (other than root) has no children *)
Definition term_okb (Q : queues) : bool :=
  map_allb (fun n s => bool_decide (n = root) || negb (qterm s) ||
                       forallb (fun ms => negb (bool_decide (qparent (snd ms) = Some n))) (map_to_list Q)) Q.

Definition tree_okb (c : cfg) (Q : queues) : bool :=
  shape_okb c Q && per_okb Q && sums_okb Q && caps_okb Q && term_okb Q.

(* an admitted DELETE: not root/default, the queue exists, has no children and
   (flag on) no allocated pods *)
Definition delete_guardb (c : cfg) (Q : queues) (r : req) : bool :=
  match r with
  | Delete n | DeleteFin n =>
    negb (bool_decide (n = root)) && negb (bool_decide (n = default_q)) &&
    match Q !! n with
    | None => false
    | Some s => (negb (alloc_check c) || bool_decide (qalloc s = 0)) &&
                forallb (fun ms => negb (bool_decide (qparent (snd ms) = Some n))) (map_to_list Q)
    end
  | _ => true
  end.

(* replay with the implementation's verdict codes (0 = allowed) *)
Fixpoint replay (chk : queues -> bool) (grd : queues -> req -> bool)
         (Q : queues) (rs : list req) (vs : list Z) : bool :=
  match rs, vs with
  | [], [] => true
  | r :: rs', v :: vs' =>
    if v =? 0 then grd Q r && (let Q' := apply_req Q r in chk Q' && replay chk grd Q' rs' vs')
    else replay chk grd Q rs' vs'
  | _, _ => false
  end.

(* Every law is gated on exactly the hypothesis of the theorem that backs it, evaluated on the
   initial queue set (when the gate is false the law answers true without replaying: on such
   histories only the model-vs-implementation comparison of the verdicts speaks):
     101 shape        1 <= MaxQueueDepth and shape_okb Q0              (shape_step)
     102 per-queue    per_okb Q0                                       (per_queue_step)
     103 sums         1 <= Max, shape_okb, per_okb, sums_okb Q0        (sum_step)
     104 capability   1 <= Max, shape_okb, caps_okb Q0                 (cap_step)
     105, 107 delete  none                                             (delete_guard)
     106 capacity     none on Q0 (shape_okb of the final set)          (shape_capacity_ready)
     108 gate         tree_okb Q0 itself, emitted for the families whose initial set is a tree *)
Definition law_gated (gate : bool) (chk : queues -> bool) (grd : queues -> req -> bool)
           (Q0 : queues) (rs : list req) (vs : list Z) : bool :=
  if gate then replay chk grd Q0 rs vs else true.

Definition no_guard (_ : queues) (_ : req) : bool := true.
Definition depth_okb (c : cfg) : bool := 1 <=? max_depth c.

Definition law_shape c Q0 := law_gated (depth_okb c && shape_okb c Q0 && term_okb Q0) (shape_okb c) no_guard Q0.
Definition law_per (c : cfg) Q0 := law_gated (per_okb Q0) per_okb no_guard Q0.
Definition law_sums c Q0 :=
  law_gated (depth_okb c && shape_okb c Q0 && term_okb Q0 && per_okb Q0 && sums_okb Q0) sums_okb no_guard Q0.
Definition law_caps c Q0 := law_gated (depth_okb c && shape_okb c Q0 && term_okb Q0 && caps_okb Q0) caps_okb no_guard Q0.
Definition law_delete c Q0 := law_gated true (fun _ => true) (delete_guardb c) Q0.
Definition law_gate c Q0 (rs : list req) (vs : list Z) : bool := depth_okb c && tree_okb c Q0.

(* the deletion clause of the property text at full strength: an admitted DELETE never targets a
   queue whose status shows allocated pods, whatever the configuration *)
Definition delete_allocb (Q : queues) (r : req) : bool :=
  match r with
  | Delete n | DeleteFin n => match Q !! n with Some s => bool_decide (qalloc s = 0) | None => true end
  | _ => true
  end.
Definition law_delete_alloc (c : cfg) Q0 := law_gated true (fun _ => true) delete_allocb Q0.

(* the real capacity plugin accepted the hierarchy the history ended in *)
Fixpoint replay_final (Q : queues) (rs : list req) (vs : list Z) : queues :=
  match rs, vs with
  | r :: rs', v :: vs' => replay_final (if v =? 0 then apply_req Q r else Q) rs' vs'
  | _, _ => Q
  end.
Definition law_capacity (c : cfg) (Q0 : queues) (rs : list req) (vs : list Z) (ready : Z) : bool :=
  if shape_okb c (replay_final Q0 rs vs) then ready =? 1 else true.
