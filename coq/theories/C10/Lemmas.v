(* Proofs about the C10 model: the tree invariant is preserved by every
   admitted request, hence by every history. *)
From stdpp Require Import gmap.
From Coq Require Import ZArith Lia.
From V Require Import Base.Res Base.ResLemmas C10.Model C10.Laws.
Open Scope Z_scope.

(* ================= tree shape ================= *)

(* n is a queue of Q whose parent links lead to the root in exactly k links *)
Inductive reach (Q : queues) : positive -> nat -> Prop :=
| reach_top n s : Q !! n = Some s -> is_top (qparent s) = true -> reach Q n 1
| reach_up n s p k : Q !! n = Some s -> qparent s = Some p -> p <> root ->
                     reach Q p k -> reach Q n (S k).

Definition ShapeInv (c : cfg) (Q : queues) : Prop :=
  (exists sr, Q !! root = Some sr /\ qparent sr = None) /\
  forall n s, Q !! n = Some s -> n <> root -> exists k, reach Q n k /\ Z.of_nat k <= max_depth c.

Lemma is_top_some p : is_top (Some p) = true <-> p = root.
Proof. unfold is_top. rewrite bool_decide_eq_true. done. Qed.

Lemma reach_fun Q n k1 k2 : reach Q n k1 -> reach Q n k2 -> k1 = k2.
Proof.
  intros H. revert k2. induction H as [n s Hn Ht|n s p k Hn Hp Hr H IH]; intros k2 H2.
  - inversion H2 as [? s2 Hn2 Ht2|? s2 p2 k' Hn2 Hp2 Hr2 H']; subst; [done|].
    rewrite Hn in Hn2. inversion Hn2; subst. rewrite Hp2 in Ht. apply is_top_some in Ht. done.
  - inversion H2 as [? s2 Hn2 Ht2|? s2 p2 k' Hn2 Hp2 Hr2 H']; subst.
    + rewrite Hn in Hn2. inversion Hn2; subst. rewrite Hp in Ht2. apply is_top_some in Ht2. done.
    + rewrite Hn in Hn2. inversion Hn2; subst. rewrite Hp in Hp2. inversion Hp2; subst.
      f_equal. by apply IH.
Qed.

Lemma reach_pos Q n k : reach Q n k -> (1 <= k)%nat.
Proof. destruct 1; lia. Qed.

(* a queue that reaches the root is not on a cycle: it is not its own proper ancestor *)
Inductive below (Q : queues) : positive -> nat -> positive -> Prop :=
| below_refl m : below Q m 0 m
| below_step m j c sc n : Q !! c = Some sc -> qparent sc = Some n -> below Q m j c -> below Q m (S j) n.

Lemma below_snoc Q m s p j n :
  Q !! m = Some s -> qparent s = Some p -> below Q p j n -> below Q m (S j) n.
Proof.
  intros Hm Hp H. induction H as [x|x j c sc n Hc Hpc H IH].
  - eapply below_step; [exact Hm|exact Hp|constructor].
  - eapply below_step; [exact Hc|exact Hpc|]. by apply IH.
Qed.


(* reach along a chain that avoids queue a *)
Inductive reachA (Q : queues) (a : positive) : positive -> nat -> Prop :=
| reachA_top n s : n <> a -> Q !! n = Some s -> is_top (qparent s) = true -> reachA Q a n 1
| reachA_up n s p k : n <> a -> Q !! n = Some s -> qparent s = Some p -> p <> root ->
                      reachA Q a p k -> reachA Q a n (S k).

Lemma reachA_insert Q a s m k : reachA Q a m k -> reach (<[a := s]> Q) m k.
Proof.
  induction 1 as [n sn Hna Hn Ht|n sn p k Hna Hn Hp Hr H IH].
  - eapply reach_top; [by rewrite lookup_insert_ne|done].
  - eapply reach_up; [by rewrite lookup_insert_ne|done..].
Qed.

Lemma reach_insert_fresh Q a s m k : Q !! a = None -> reach Q m k -> reach (<[a := s]> Q) m k.
Proof.
  intros Ha. induction 1 as [n sn Hn Ht|n sn p k Hn Hp Hr H IH].
  - eapply reach_top; [|done]. rewrite lookup_insert_ne; [done|]. intros ->. congruence.
  - eapply reach_up; [|done..]. rewrite lookup_insert_ne; [done|]. intros ->. congruence.
Qed.

Lemma reach_same_parent Q a o s m k :
  Q !! a = Some o -> qparent s = qparent o -> reach Q m k -> reach (<[a := s]> Q) m k.
Proof.
  intros Ha Hp. induction 1 as [n sn Hn Ht|n sn p k Hn Hpn Hr H IH].
  - destruct (decide (n = a)) as [->|Hne].
    + eapply reach_top; [by rewrite lookup_insert|]. rewrite Hp. congruence.
    + eapply reach_top; [by rewrite lookup_insert_ne|done].
  - destruct (decide (n = a)) as [->|Hne].
    + eapply reach_up; [by rewrite lookup_insert| |done..]. rewrite Hp. congruence.
    + eapply reach_up; [by rewrite lookup_insert_ne|done..].
Qed.

Lemma reach_delete_leaf Q a m k :
  (forall x sx, Q !! x = Some sx -> qparent sx <> Some a) -> m <> a ->
  reach Q m k -> reach (delete a Q) m k.
Proof.
  intros Hleaf Hm H. induction H as [n sn Hn Ht|n sn p k Hn Hpn Hr H IH].
  - eapply reach_top; [by rewrite lookup_delete_ne|done].
  - eapply reach_up; [by rewrite lookup_delete_ne|done..|].
    apply IH. intros ->. by apply (Hleaf _ _ Hn).
Qed.

(* the depth walk of validateQueueDepth *)
Lemma depth_walk_ok rem : forall Q self p rem',
  depth_walk rem Q self (Some p) = inr rem' -> p <> root ->
  exists k, reachA Q self p k /\ rem = (rem' + k)%nat.
Proof.
  induction rem as [|r IH]; intros Q self p rem' H Hp; simpl in H.
  - rewrite bool_decide_eq_false_2 in H by done. destruct (bool_decide (p = self)); done.
  - rewrite bool_decide_eq_false_2 in H by done.
    destruct (bool_decide (p = self)) eqn:Hs; [done|]. apply bool_decide_eq_false in Hs.
    destruct (Q !! p) as [ps|] eqn:Hq; [|done].
    destruct (qparent ps) as [p2|] eqn:Hp2.
    + destruct (decide (p2 = root)) as [->|Hr2].
      * destruct r; simpl in H; inversion H; subst;
          (exists 1%nat; split; [eapply reachA_top; eauto; rewrite Hp2; by apply is_top_some|lia]).
      * destruct (IH _ _ _ _ H Hr2) as (k & Hk & ->).
        exists (S k). split; [eapply reachA_up; eauto|lia].
    + destruct r; simpl in H; inversion H; subst;
        (exists 1%nat; split; [eapply reachA_top; eauto; by rewrite Hp2|lia]).
Qed.

Lemma depth_walk_not_allowed rem : forall Q self parent,
  depth_walk rem Q self parent <> inl VAllowed.
Proof.
  induction rem as [|r IH]; intros Q self [p|]; simpl; try done.
  - destruct (bool_decide (p = root)); [done|]. destruct (bool_decide (p = self)); done.
  - destruct (bool_decide (p = root)); [done|]. destruct (bool_decide (p = self)); [done|].
    destruct (Q !! p); [apply IH|done].
Qed.

Lemma foldr_max_ge {A} (f : A -> nat) (l : list A) x :
  x ∈ l -> (f x <= foldr (fun c acc => Nat.max (f c) acc) O l)%nat.
Proof.
  induction l as [|y l IH]; intros Hx; [by apply elem_of_nil in Hx|].
  apply elem_of_cons in Hx as [->|Hx]; simpl; [lia|]. specialize (IH Hx). lia.
Qed.

Lemma elem_children Q p n s :
  (n, s) ∈ children_of Q p <-> Q !! n = Some s /\ qparent s = Some p.
Proof.
  unfold children_of. rewrite elem_of_list_filter, elem_of_map_to_list. simpl. tauto.
Qed.

Lemma children_nil Q p x sx : children_of Q p = [] -> Q !! x = Some sx -> qparent sx <> Some p.
Proof.
  intros Hnil Hx Hp. assert ((x, sx) ∈ children_of Q p) as Hin by by apply elem_children.
  rewrite Hnil in Hin. by apply elem_of_nil in Hin.
Qed.

Lemma sub_height_below Q m j n :
  below Q m j n -> forall limit, (Nat.min j limit <= sub_height limit Q n)%nat.
Proof.
  induction 1 as [x|x j c sc n Hc Hpc H IH]; intros limit; [lia|].
  destruct limit as [|l]; [lia|]. simpl.
  assert ((c, sc) ∈ children_of Q n) as Hin by by apply elem_children.
  pose proof (foldr_max_ge (fun c0 : positive * qspec => S (sub_height l Q (fst c0))) _ _ Hin) as Hge.
  simpl in Hge. specialize (IH l). lia.
Qed.

(* what an admitted validateHierarchicalQueue establishes about the new place of n *)
Lemma hier_allowed c Q n s s2 :
  validate_hier c Q n s = VAllowed -> 1 <= max_depth c -> qparent s2 = qparent s ->
  exists dn, reach (<[n := s2]> Q) n dn /\ Z.of_nat dn <= max_depth c /\
    ((is_top (qparent s) = true /\ dn = 1%nat) \/
     (forall m j, below Q m j n -> Z.of_nat (j + dn) <= max_depth c)).
Proof.
  intros H Hmax Hp2. unfold validate_hier, validate_hier_with in H.
  destruct (qparent s) as [p|] eqn:Hp.
  2:{ exists 1%nat. split; [|split; [lia|by left]].
      eapply reach_top; [by rewrite lookup_insert|by rewrite Hp2]. }
  destruct (decide (n = root)) as [->|Hnroot]; [by rewrite bool_decide_eq_true_2 in H|].
  rewrite (bool_decide_eq_false_2 (n = root)) in H by done.
  destruct (decide (p = root)) as [->|Hr].
  { exists 1%nat. split; [|split; [lia|left; split; [by apply is_top_some|done]]].
    eapply reach_top; [by rewrite lookup_insert|]. rewrite Hp2. by apply is_top_some. }
  rewrite (bool_decide_eq_false_2 (p = root)) in H by done.
  destruct (bool_decide (p = n)); [done|].
  destruct (depth_walk _ Q n (Some p)) as [v|rem] eqn:Hw; [subst; by apply depth_walk_not_allowed in Hw|].
  destruct (rem <? sub_height (S rem) Q n)%nat eqn:Hh; [done|]. apply Nat.ltb_ge in Hh.
  destruct (depth_walk_ok _ _ _ _ _ Hw Hr) as (k & Hk & Hrem).
  exists (S k). split; [|split].
  - eapply reach_up; [by rewrite lookup_insert|by rewrite Hp2|done|by apply reachA_insert].
  - lia.
  - right. intros m j Hb. pose proof (sub_height_below _ _ _ _ Hb (S rem)). lia.
Qed.

(* moving n (with everything below it) to a place of depth dn *)
Lemma reach_reparent Q n s' dn m k :
  reach (<[n := s']> Q) n dn -> reach Q m k ->
  reach (<[n := s']> Q) m k \/ exists j, below Q m j n /\ reach (<[n := s']> Q) m (j + dn).
Proof.
  intros Hn H. induction H as [x sx Hx Ht|x sx p k Hx Hp Hr H IH].
  - destruct (decide (x = n)) as [->|Hne].
    + right. exists 0%nat. split; [constructor|done].
    + left. eapply reach_top; [by rewrite lookup_insert_ne|done].
  - destruct (decide (x = n)) as [->|Hne].
    + right. exists 0%nat. split; [constructor|done].
    + destruct IH as [IH|(j & Hb & IH)].
      * left. eapply reach_up; [by rewrite lookup_insert_ne|done..].
      * right. exists (S j). split; [by eapply below_snoc|].
        eapply reach_up; [by rewrite lookup_insert_ne|done..].
Qed.

Lemma reach_reparent_top Q n s' m k :
  reach (<[n := s']> Q) n 1 -> reach Q m k ->
  exists k', reach (<[n := s']> Q) m k' /\ (k' <= k)%nat.
Proof.
  intros Hn H. induction H as [x sx Hx Ht|x sx p k Hx Hp Hr H IH].
  - destruct (decide (x = n)) as [->|Hne]; [by exists 1%nat|].
    exists 1%nat. split; [|lia]. eapply reach_top; [by rewrite lookup_insert_ne|done].
  - destruct (decide (x = n)) as [->|Hne].
    + exists 1%nat. split; [done|]. pose proof (reach_pos _ _ _ H). lia.
    + destruct IH as (k' & IH & Hle). exists (S k'). split; [|lia].
      eapply reach_up; [by rewrite lookup_insert_ne|done..].
Qed.

(* ---------- what an admitted request went through ---------- *)

Lemma first_bad_allowed l : first_bad l = VAllowed -> forall v, v ∈ l -> v = VAllowed.
Proof.
  induction l as [|x l IH]; intros H v Hv; [by apply elem_of_nil in Hv|].
  simpl in H. destruct (allowed x) eqn:Hx.
  - apply elem_of_cons in Hv as [->|Hv]; [by destruct x|by apply IH].
  - subst. done.
Qed.

Lemma admit_cu_allowed c Q n s old :
  admit_cu c Q n s old = VAllowed ->
  spec_ok s = true /\
  (match old with None => True | Some o => qparent o <> qparent s end ->
     validate_hier c Q n s = VAllowed) /\
  (n <> root ->
   match old with None => True | Some o => qparent o <> qparent s \/ same_resources o s = false end ->
     validate_resources Q n s = VAllowed).
Proof.
  unfold admit_cu, admit_cu_with. destruct (spec_ok s); simpl; [|done].
  destruct (state_ok _); simpl; [|done]. intros H. split; [done|].
  set (pc := match old with None => true | Some o => negb (bool_decide (qparent o = qparent s)) end) in *.
  assert (match old with None => True | Some o => qparent o <> qparent s end -> pc = true) as Hpc.
  { subst pc. destruct old; [|done]. intros Hne. by rewrite bool_decide_eq_false_2. }
  destruct (if pc then validate_hier c Q n s else VAllowed) eqn:Hh; try done.
  split.
  - intros Hne. rewrite (Hpc Hne) in Hh. done.
  - intros Hn Hch.
    destruct (root_prot c && bool_decide (n = root) && _); [done|].
    rewrite (bool_decide_eq_false_2 (n = root)) in H by done. simpl in H.
    assert ((pc || match old with None => true | Some o => negb (same_resources o s) end) = true) as Hor.
    { destruct old as [o|]; [|by rewrite orb_true_r].
      destruct Hch as [Hne|Hsr]; [by rewrite (Hpc Hne)|]. rewrite Hsr. by rewrite orb_true_r. }
    rewrite Hor in H. done.
Qed.

Lemma admit_delete_allowed c Q n :
  admit_delete c Q n = VAllowed ->
  n <> root /\ n <> default_q /\ exists s, Q !! n = Some s /\
  (alloc_check c = true -> qalloc s = 0) /\ children_of Q n = [].
Proof.
  unfold admit_delete.
  destruct (bool_decide (n = default_q)) eqn:Hd; [done|].
  destruct (bool_decide (n = root)) eqn:Hr; [done|]. simpl.
  apply bool_decide_eq_false in Hd, Hr.
  destruct (Q !! n) as [s|]; [|done].
  destruct (alloc_check c && negb (bool_decide (qalloc s = 0))) eqn:Ha; [done|].
  destruct (bool_decide (children_of Q n = [])) eqn:Hc; simpl; [|done].
  apply bool_decide_eq_true in Hc. intros _. repeat split; try done.
  exists s. repeat split; try done. intros Hf. rewrite Hf in Ha. simpl in Ha.
  apply negb_false_iff, bool_decide_eq_true in Ha. done.
Qed.

Lemma allowed_eq v : allowed v = true -> v = VAllowed.
Proof. by destruct v. Qed.

(* a terminating queue (other than root) has no children: a DELETE is only admitted for a queue
   without children, and (third fix) a terminating queue is refused as a new parent *)
Definition TermInv (Q : queues) : Prop :=
  forall n s, Q !! n = Some s -> n <> root -> qterm s = true ->
  forall m sm, Q !! m = Some sm -> qparent sm <> Some n.

(* ---------- every admitted request keeps the shape ---------- *)

Lemma hier_root c Q s : validate_hier c Q root s = VAllowed -> qparent s = None.
Proof.
  unfold validate_hier, validate_hier_with. destruct (qparent s); [|done]. by rewrite bool_decide_eq_true_2.
Qed.

Lemma root_inv_step c Q r :
  (exists sr, Q !! root = Some sr /\ qparent sr = None) ->
  exists sr, apply_if_admitted c Q r !! root = Some sr /\ qparent sr = None.
Proof.
  intros (sr & Hsr & Hpr). unfold apply_if_admitted.
  destruct (allowed (verdict_of c Q r)) eqn:Hv; [|by eauto]. apply allowed_eq in Hv.
  destruct r as [n s|n s|n|n|n|n a st]; simpl in *.
  - destruct (Q !! n) as [o|] eqn:Hn; [by eauto|].
    exists sr. rewrite lookup_insert_ne; [done|]. intros ->. congruence.
  - destruct (Q !! n) as [o|] eqn:Hn; [|by eauto].
    destruct (decide (n = root)) as [->|Hne]; [|exists sr; by rewrite lookup_insert_ne].
    rewrite Hsr in Hn. inversion Hn; subst o.
    exists (with_status (qalloc sr) (qstate sr) (qterm sr) s). rewrite lookup_insert. split; [done|]. simpl.
    destruct (decide (qparent sr = qparent s)) as [Heq|Hne]; [congruence|].
    apply admit_cu_allowed in Hv as (_ & Hh & _). by apply (hier_root c Q), Hh.
  - apply admit_delete_allowed in Hv as (Hr & _). exists sr. by rewrite lookup_delete_ne.
  - destruct (Q !! n) as [o|] eqn:Hn; [|by eauto].
    destruct (decide (n = root)) as [->|Hne]; [|exists sr; by rewrite lookup_insert_ne].
    rewrite Hsr in Hn. inversion Hn; subst o. eexists. rewrite lookup_insert. split; [done|]. done.
  - destruct (Q !! n) as [o|] eqn:Hn; [|by eauto].
    destruct (qterm o && negb (bool_decide (n = root)) && negb (bool_decide (n = default_q))) eqn:Hg; [|by eauto].
    apply andb_true_iff in Hg as [Hg Hgd]. apply andb_true_iff in Hg as [Hgt Hgr].
    apply negb_true_iff, bool_decide_eq_false in Hgr, Hgd.
    exists sr. by rewrite lookup_delete_ne.
  - destruct (Q !! n) as [o|] eqn:Hn; [|by eauto].
    destruct (decide (n = root)) as [->|Hne]; [|exists sr; by rewrite lookup_insert_ne].
    rewrite Hsr in Hn. inversion Hn; subst o. eexists. rewrite lookup_insert. split; [done|]. done.
Qed.

Lemma shape_step c Q r :
  1 <= max_depth c -> TermInv Q -> ShapeInv c Q -> ShapeInv c (apply_if_admitted c Q r).
Proof.
  intros Hmax Hterm [Hroot Hinv]. split; [by apply root_inv_step|]. unfold apply_if_admitted.
  destruct (allowed (verdict_of c Q r)) eqn:Hv; [|done]. apply allowed_eq in Hv.
  destruct r as [n s|n s|n|n|n|n a st]; simpl in *.
  - (* CREATE *)
    destruct (Q !! n) as [o|] eqn:Hn; [done|].
    apply admit_cu_allowed in Hv as (_ & Hh & _). specialize (Hh I).
    destruct (hier_allowed c Q n s (with_status 0 0 false s) Hh Hmax eq_refl) as (dn & Hdn & Hle & _).
    intros m sm Hm Hmr. destruct (decide (m = n)) as [->|Hne]; [by exists dn|].
    rewrite lookup_insert_ne in Hm by done.
    destruct (Hinv _ _ Hm Hmr) as (k & Hk & Hkle). exists k. split; [|done].
    by apply reach_insert_fresh.
  - (* UPDATE *)
    destruct (Q !! n) as [o|] eqn:Hn; [|done].
    intros m sm Hm Hmr.
    assert (exists so, Q !! m = Some so) as [so Hso].
    { destruct (decide (m = n)) as [->|Hne]; [by exists o|]. rewrite lookup_insert_ne in Hm by done. by exists sm. }
    destruct (Hinv _ _ Hso Hmr) as (k & Hk & Hkle).
    destruct (decide (qparent o = qparent s)) as [Heq|Hne].
    + exists k. split; [|done]. eapply reach_same_parent; eauto.
    + apply admit_cu_allowed in Hv as (_ & Hh & _). specialize (Hh Hne).
      destruct (hier_allowed c Q n s (with_status (qalloc o) (qstate o) (qterm o) s) Hh Hmax eq_refl) as (dn & Hdn & Hle & Hcase).
      destruct Hcase as [[_ ->]|Hbelow].
      * destruct (reach_reparent_top _ _ _ _ _ Hdn Hk) as (k' & Hk' & Hle'). exists k'. split; [done|lia].
      * destruct (reach_reparent _ _ _ _ _ _ Hdn Hk) as [Hk'|(j & Hb & Hk')].
        -- by exists k.
        -- exists (j + dn)%nat. split; [done|]. exact (Hbelow _ _ Hb).
  - (* DELETE *)
    apply admit_delete_allowed in Hv as (Hnr & _ & s & Hn & _ & Hkids).
    intros m sm Hm Hmr. apply lookup_delete_Some in Hm as [Hne Hm].
    destruct (Hinv _ _ Hm Hmr) as (k & Hk & Hkle). exists k. split; [|done].
    apply reach_delete_leaf; [|done..]. intros x sx Hx. by eapply children_nil.
  - destruct (Q !! n) as [o|] eqn:Hn; [|done].
    intros m sm Hm Hmr.
    assert (exists so, Q !! m = Some so) as [so Hso].
    { destruct (decide (m = n)) as [->|Hne]; [by exists o|]. rewrite lookup_insert_ne in Hm by done. by exists sm. }
    destruct (Hinv _ _ Hso Hmr) as (k & Hk & Hkle). exists k. split; [|done].
    eapply reach_same_parent; eauto.
  - destruct (Q !! n) as [o|] eqn:Hn; [|done].
    destruct (qterm o && negb (bool_decide (n = root)) && negb (bool_decide (n = default_q))) eqn:Hg; [|done].
    apply andb_true_iff in Hg as [Hg Hgd]. apply andb_true_iff in Hg as [Hgt Hgr].
    apply negb_true_iff, bool_decide_eq_false in Hgr, Hgd.
    intros m sm Hm Hmr. apply lookup_delete_Some in Hm as [Hne Hm].
    destruct (Hinv _ _ Hm Hmr) as (k & Hk & Hkle). exists k. split; [|done].
    apply reach_delete_leaf; [|done..]. by apply (Hterm n o Hn Hgr Hgt).
  - (* status update *)
    destruct (Q !! n) as [o|] eqn:Hn; [|done].
    intros m sm Hm Hmr.
    assert (exists so, Q !! m = Some so) as [so Hso].
    { destruct (decide (m = n)) as [->|Hne]; [by exists o|]. rewrite lookup_insert_ne in Hm by done. by exists sm. }
    destruct (Hinv _ _ Hso Hmr) as (k & Hk & Hkle). exists k. split; [|done].
    eapply reach_same_parent; eauto.
Qed.

Lemma history_inv (P : queues -> Prop) c :
  (forall Q r, P Q -> P (apply_if_admitted c Q r)) ->
  forall rs Q0, P Q0 -> P (run_history c Q0 rs).
Proof.
  intros Hstep rs. unfold run_history. induction rs as [|r rs IH]; intros Q0 H0; simpl; [done|].
  apply IH. by apply Hstep.
Qed.



Lemma reach_no_self_parent Q n s k :
  reach Q n k -> Q !! n = Some s -> n <> root -> qparent s <> Some n.
Proof.
  intros H Hn Hr Hp. inversion H as [? s2 Hn2 Ht|? s2 p k' Hn2 Hp2 Hr2 H']; subst;
    rewrite Hn in Hn2; inversion Hn2; subst.
  - rewrite Hp in Ht. by apply is_top_some in Ht.
  - rewrite Hp in Hp2. inversion Hp2; subst. pose proof (reach_fun _ _ _ _ H H'). lia.
Qed.

(* proper ancestors (below root) and acyclicity *)
Inductive anc (Q : queues) : positive -> positive -> Prop :=
| anc_parent m s p : Q !! m = Some s -> qparent s = Some p -> p <> root -> anc Q m p
| anc_trans m a b : anc Q m a -> anc Q a b -> anc Q m b.

Lemma anc_reach Q m a : anc Q m a -> forall k, reach Q m k -> exists k', reach Q a k' /\ (k' < k)%nat.
Proof.
  induction 1 as [m s p Hm Hp Hr|m a b H1 IH1 H2 IH2]; intros k Hk.
  - inversion Hk as [? s2 Hn2 Ht|? s2 p2 k' Hn2 Hp2 Hr2 H']; subst;
      rewrite Hm in Hn2; inversion Hn2; subst.
    + rewrite Hp in Ht. by apply is_top_some in Ht.
    + rewrite Hp in Hp2. inversion Hp2; subst. exists k'. split; [done|lia].
  - destruct (IH1 _ Hk) as (k1 & Hk1 & Hlt1). destruct (IH2 _ Hk1) as (k2 & Hk2 & Hlt2).
    exists k2. split; [done|lia].
Qed.

Theorem shape_acyclic c Q n s :
  ShapeInv c Q -> Q !! n = Some s -> n <> root -> ~ anc Q n n.
Proof.
  intros [_ Hinv] Hn Hr Hanc. destruct (Hinv _ _ Hn Hr) as (k & Hk & _).
  destruct (anc_reach _ _ _ Hanc _ Hk) as (k' & Hk' & Hlt).
  pose proof (reach_fun _ _ _ _ Hk Hk'). lia.
Qed.

(* every parent named by a non-root queue exists (or is the root) *)
Theorem shape_parent_exists c Q n s :
  ShapeInv c Q -> Q !! n = Some s -> n <> root ->
  is_top (qparent s) = true \/ exists p ps, qparent s = Some p /\ p <> root /\ Q !! p = Some ps.
Proof.
  intros [_ Hinv] Hn Hr. destruct (Hinv _ _ Hn Hr) as (k & Hk & _).
  inversion Hk as [? s2 Hn2 Ht|? s2 p k' Hn2 Hp2 Hr2 H']; subst;
    rewrite Hn in Hn2; inversion Hn2; subst; [by left|].
  right. inversion H'; subst; eauto 6.
Qed.

(* hence the capacity plugin's hierarchy build does not abort on it *)
Theorem shape_capacity_ready c Q : ShapeInv c Q -> capacity_ready Q = true.
Proof.
  intros Hs. unfold capacity_ready. apply map_allb_spec. intros n s Hn.
  destruct (decide (n = root)) as [->|Hr]; [by rewrite bool_decide_eq_true_2|].
  rewrite (bool_decide_eq_false_2 (n = root)) by done. simpl. apply bool_decide_eq_true.
  destruct (shape_parent_exists c Q n s Hs Hn Hr) as [Ht|(p & ps & Hp & _ & Hq)].
  - destruct Hs as [(sr & Hsr & _) _].
    destruct (qparent s) as [p|]; simpl; [apply is_top_some in Ht; subst|]; rewrite Hsr; eauto.
  - rewrite Hp. simpl. eauto.
Qed.

(* ================= per-queue resources ================= *)

Definition QueueOk (s : qspec) : Prop :=
  (forall d v, qcap s !! d = Some v -> 0 <= v) /\
  (forall d v, qdes s !! d = Some v -> 0 <= v /\ forall c, qcap s !! d = Some c -> v <= c) /\
  (forall d g, qguar s !! d = Some g -> 0 <= g /\ exists x, qdes s !! d = Some x /\ g <= x).

Definition PerQueueInv (Q : queues) : Prop := forall n s, Q !! n = Some s -> QueueOk s.

Lemma spec_ok_QueueOk s : spec_ok s = true -> QueueOk s.
Proof.
  unfold spec_ok. rewrite !andb_true_iff, !map_allb_spec. intros [[[Hc Hd] Hg] Hdc].
  repeat split.
  - intros d v Hv. specialize (Hc _ _ Hv). unfold qty_ok in Hc.
    apply andb_true_iff in Hc as [Hc _]. by apply bool_decide_eq_true in Hc.
  - specialize (Hd _ _ H). unfold qty_ok in Hd.
    apply andb_true_iff in Hd as [Hd _]. by apply bool_decide_eq_true in Hd.
  - intros cv Hcv. specialize (Hdc _ _ H). rewrite Hcv in Hdc. by apply bool_decide_eq_true in Hdc.
  - specialize (Hg _ _ H). apply andb_true_iff in Hg as [Hg _]. unfold qty_ok in Hg.
    apply andb_true_iff in Hg as [Hg _]. by apply bool_decide_eq_true in Hg.
  - specialize (Hg _ _ H). apply andb_true_iff in Hg as [_ Hg].
    destruct (qdes s !! d) as [x|]; [|done]. apply bool_decide_eq_true in Hg. eauto.
Qed.

Lemma QueueOk_with_alloc a st t s : QueueOk s -> QueueOk (with_status a st t s).
Proof. done. Qed.

Lemma per_queue_step c Q r : PerQueueInv Q -> PerQueueInv (apply_if_admitted c Q r).
Proof.
  intros Hinv. unfold apply_if_admitted.
  destruct (allowed (verdict_of c Q r)) eqn:Hv; [|done]. apply allowed_eq in Hv.
  destruct r as [n s|n s|n|n|n|n a st]; simpl in *.
  - destruct (Q !! n) eqn:Hn; [done|]. apply admit_cu_allowed in Hv as (Hs & _).
    intros m sm Hm. apply lookup_insert_Some in Hm as [[_ <-]|[_ Hm]]; [|by eapply Hinv].
    by apply QueueOk_with_alloc, spec_ok_QueueOk.
  - destruct (Q !! n) eqn:Hn; [|done]. apply admit_cu_allowed in Hv as (Hs & _).
    intros m sm Hm. apply lookup_insert_Some in Hm as [[_ <-]|[_ Hm]]; [|by eapply Hinv].
    by apply QueueOk_with_alloc, spec_ok_QueueOk.
  - intros m sm Hm. apply lookup_delete_Some in Hm as [_ Hm]. by eapply Hinv.
  - destruct (Q !! n) as [o|] eqn:Hn; [|done].
    intros m sm Hm. apply lookup_insert_Some in Hm as [[_ <-]|[_ Hm]]; [|by eapply Hinv].
    apply QueueOk_with_alloc. by eapply Hinv.
  - destruct (Q !! n) as [o|] eqn:Hn; [|done]. destruct (qterm o && negb (bool_decide (n = root)) && negb (bool_decide (n = default_q))); [|done].
    intros m sm Hm. apply lookup_delete_Some in Hm as [_ Hm]. by eapply Hinv.
  - destruct (Q !! n) as [o|] eqn:Hn; [|done].
    intros m sm Hm. apply lookup_insert_Some in Hm as [[_ <-]|[_ Hm]]; [|by eapply Hinv].
    apply QueueOk_with_alloc. by eapply Hinv.
Qed.

Lemma QueueOk_nonneg s : QueueOk s ->
  forall d, 0 <= amount (qcap s) d /\ 0 <= amount (qdes s) d /\ 0 <= amount (qguar s) d.
Proof.
  intros (Hc & Hd & Hg) d. unfold amount. repeat split.
  - destruct (qcap s !! d) eqn:E; simpl; [by eapply Hc|lia].
  - destruct (qdes s !! d) eqn:E; simpl; [by destruct (Hd _ _ E)|lia].
  - destruct (qguar s !! d) eqn:E; simpl; [by destruct (Hg _ _ E)|lia].
Qed.

(* guarantee <= deserved <= capability on every dimension set on both sides *)
Lemma QueueOk_order s d : QueueOk s ->
  amount (qguar s) d <= amount (qdes s) d /\
  (is_Some (qcap s !! d) -> amount (qdes s) d <= amount (qcap s) d).
Proof.
  intros (Hc & Hd & Hg). unfold amount. split.
  - destruct (qguar s !! d) as [g|] eqn:E; simpl.
    + destruct (Hg _ _ E) as (_ & x & -> & Hx). done.
    + destruct (qdes s !! d) eqn:E2; simpl; [by destruct (Hd _ _ E2)|lia].
  - intros [cv Hcv]. rewrite Hcv. simpl.
    destruct (qdes s !! d) as [x|] eqn:E; simpl; [|by eapply Hc].
    destruct (Hd _ _ E) as [_ Hx]. by apply Hx.
Qed.

(* ================= sums of the children's guarantee / deserved ================= *)

Lemma map_anyb_false {A} (p : positive -> A -> bool) (m : gmap positive A) :
  map_anyb p m = false <-> forall k v, m !! k = Some v -> p k v = false.
Proof.
  rewrite <- not_true_iff_false, map_anyb_spec. split.
  - intros H k v Hk. destruct (p k v) eqn:E; [|done]. exfalso. apply H. eauto.
  - intros H (k & v & Hk & Hp). rewrite (H _ _ Hk) in Hp. done.
Qed.

(* limit.LessPartly(total, Zero) = false means total <= limit on every dimension *)
Lemma less_partly_false lim tot d :
  less_partly lim tot DZero = false -> rget tot d <= rget lim d.
Proof.
  unfold less_partly. rewrite !orb_false_iff. intros [[[Hc Hm] Hmiss] Hany].
  unfold lt in Hc, Hm. apply bool_decide_eq_false in Hc, Hm.
  unfold rget. repeat case_bool_decide; [lia|lia|].
  rewrite has_missing_false in Hmiss. unfold any_sc in Hany. rewrite map_anyb_false in Hany.
  unfold sget. destruct (scm tot !! d) as [v|] eqn:Ht; simpl.
  - destruct (Hmiss d (mk_is_Some _ _ Ht)) as [w Hw]. rewrite Hw. simpl.
    specialize (Hany _ _ Hw). unfold cmp_at in Hany. rewrite Ht in Hany.
    unfold lt in Hany. apply bool_decide_eq_false in Hany. lia.
  - destruct (scm lim !! d) as [w|] eqn:Hw; simpl; [|lia].
    specialize (Hany _ _ Hw). unfold cmp_at in Hany. rewrite Ht in Hany.
    unfold lt in Hany. apply bool_decide_eq_false in Hany. lia.
Qed.

Lemma rget_add r x d : rget (add r x) d = rget r d + rget x d.
Proof. unfold rget. repeat case_bool_decide; [done|done|apply add_sget]. Qed.

Lemma rget_empty d : rget empty_res d = 0.
Proof. unfold rget. repeat case_bool_decide; done. Qed.

Definition rsuml (items : list res) (d : positive) : Z := foldr (fun x acc => rget x d + acc) 0 items.

Lemma rget_fold_add items : forall tot d, rget (fold_left add items tot) d = rget tot d + rsuml items d.
Proof.
  induction items as [|x r IH]; intros tot d; simpl; [lia|]. rewrite IH, rget_add. lia.
Qed.

Lemma sum_check_from_true lim items : forall tot,
  sum_check_from lim tot items = true -> items <> [] ->
  less_partly lim (fold_left add items tot) DZero = false.
Proof.
  induction items as [|x r IH]; intros tot H Hne; [done|]. simpl in H.
  apply andb_true_iff in H as [H1 H2]. apply negb_true_iff in H1.
  destruct r as [|y r]; [done|]. simpl. apply (IH (add tot x)); done.
Qed.

Lemma sum_check_le lim items d :
  sum_check lim items = true -> items <> [] -> rsuml items d <= rget lim d.
Proof.
  intros H Hne. apply sum_check_from_true in H; [|done].
  apply (less_partly_false _ _ d) in H. rewrite rget_fold_add, rget_empty in H. lia.
Qed.

Lemma scalar_filter_lookup (m : rlist) d :
  (filter (fun kv : positive * Z => scalar_dim (fst kv) = true) m) !! d = if scalar_dim d then m !! d else None.
Proof.
  destruct (scalar_dim d) eqn:E.
  - destruct (m !! d) eqn:Hm.
    + by apply map_filter_lookup_Some.
    + apply map_filter_lookup_None. by left.
  - apply map_filter_lookup_None. right. intros x _. simpl. congruence.
Qed.

Lemma rget_new_resource m d : rget (new_resource m) d = if vis d then amount m d else 0.
Proof.
  unfold rget, new_resource, vis. simpl.
  case_bool_decide as H2; [subst; done|]. case_bool_decide as H3; [subst; done|].
  unfold sget, scm. simpl.
  set (f := filter _ m).
  assert (default ∅ (if bool_decide (f = ∅) then None else Some f) = f) as ->.
  { case_bool_decide as E; simpl; [by rewrite E|done]. }
  subst f. rewrite scalar_filter_lookup. unfold scalar_dim.
  rewrite (bool_decide_eq_false_2 (d = cpu_d)), (bool_decide_eq_false_2 (d = mem_d)) by done. simpl.
  case_bool_decide; simpl; done.
Qed.

Definition lsum (f : qspec -> rlist) (l : list qspec) (d : positive) : Z :=
  foldr (fun s acc => amount (f s) d + acc) 0 l.

Lemma rsuml_new_resource f l d :
  vis d = true -> rsuml (map (fun x => new_resource (f x)) l) d = lsum f l d.
Proof.
  intros Hv. induction l as [|x l IH]; simpl; [done|]. rewrite IH, rget_new_resource, Hv. done.
Qed.

Lemma lsum_app f l1 l2 d : lsum f (l1 ++ l2) d = lsum f l1 d + lsum f l2 d.
Proof. induction l1 as [|x l IH]; simpl; [done|]. rewrite IH. lia. Qed.

Lemma lsum_perm f l1 l2 d : l1 ≡ₚ l2 -> lsum f l1 d = lsum f l2 d.
Proof. induction 1; simpl; lia. Qed.

Lemma map_fmap {A B} (g : A -> B) (l : list A) : map g l = g <$> l.
Proof. induction l as [|x l IH]; simpl; [done|]. by rewrite IH. Qed.

Lemma csum_lsum f Q p d : csum f Q p d = lsum f (snd <$> children_of Q p) d.
Proof. unfold csum. induction (children_of Q p) as [|x l IH]; simpl; [done|]. by rewrite IH. Qed.

(* the sum check of the code, on lists of queue specs *)
Lemma sum_check_specs f lim l d :
  sum_check (new_resource (f lim)) (map (fun x => new_resource (f x)) l) = true ->
  l <> [] -> vis d = true -> lsum f l d <= amount (f lim) d.
Proof.
  intros H Hne Hv. apply (sum_check_le _ _ d) in H; [|by destruct l].
  rewrite rsuml_new_resource, rget_new_resource, Hv in H by done. done.
Qed.

(* children of p after an insertion / seen from a member *)
Lemma children_insert Q n s p :
  children_of (<[n := s]> Q) p ≡ₚ
  (if bool_decide (qparent s = Some p) then [(n, s)] else []) ++ children_of (delete n Q) p.
Proof.
  unfold children_of. rewrite <- insert_delete_insert.
  rewrite map_to_list_insert by apply lookup_delete.
  rewrite filter_cons. simpl. case_decide as E.
  - rewrite bool_decide_eq_true_2 by done. done.
  - rewrite bool_decide_eq_false_2 by done. done.
Qed.

Lemma children_member Q n o p :
  Q !! n = Some o ->
  children_of Q p ≡ₚ
  (if bool_decide (qparent o = Some p) then [(n, o)] else []) ++ children_of (delete n Q) p.
Proof. intros Hn. rewrite <- children_insert. by rewrite insert_id. Qed.

Definition contrib (f : qspec -> rlist) (s : qspec) (p d : positive) : Z :=
  if bool_decide (qparent s = Some p) then amount (f s) d else 0.

Lemma csum_insert f Q n s p d :
  csum f (<[n := s]> Q) p d = contrib f s p d + csum f (delete n Q) p d.
Proof.
  rewrite !csum_lsum. rewrite (lsum_perm _ _ _ _ (fmap_Permutation snd _ _ (children_insert Q n s p))).
  rewrite fmap_app, lsum_app. unfold contrib. case_bool_decide; simpl; lia.
Qed.

Lemma csum_member f Q n o p d :
  Q !! n = Some o -> csum f Q p d = contrib f o p d + csum f (delete n Q) p d.
Proof.
  intros Hn. rewrite !csum_lsum. rewrite (lsum_perm _ _ _ _ (fmap_Permutation snd _ _ (children_member Q n o p Hn))).
  rewrite fmap_app, lsum_app. unfold contrib. case_bool_decide; simpl; lia.
Qed.

Lemma filter_all {A} (P : A -> Prop) `{forall x, Decision (P x)} (l : list A) :
  Forall P l -> filter P l = l.
Proof.
  induction 1 as [|x l Hx Hl IH]; [done|]. rewrite filter_cons, decide_True by done. by rewrite IH.
Qed.

Lemma children_delete_names Q n p : Forall (fun c : positive * qspec => fst c <> n) (children_of (delete n Q) p).
Proof.
  apply Forall_forall. intros [m sm] Hin. apply elem_children in Hin as [Hm _].
  apply lookup_delete_Some in Hm as [Hne _]. simpl. congruence.
Qed.

Lemma children_delete_self Q n p :
  filter (fun c : positive * qspec => fst c <> n) (children_of Q p) ≡ₚ children_of (delete n Q) p.
Proof.
  destruct (Q !! n) as [o|] eqn:Hn.
  - rewrite (children_member Q n o p Hn). rewrite filter_app.
    assert (filter (fun c : positive * qspec => fst c <> n)
              (if bool_decide (qparent o = Some p) then [(n, o)] else []) = []) as ->.
    { case_bool_decide; [|done]. rewrite filter_cons. simpl. rewrite decide_False; [done|]. intros H'. by apply H'. }
    simpl. rewrite filter_all; [done|]. apply children_delete_names.
  - rewrite delete_notin by done. rewrite filter_all; [done|].
    rewrite <- (delete_notin Q n) by done. apply children_delete_names.
Qed.

Definition SumF (f : qspec -> rlist) (Q : queues) : Prop :=
  forall p sp, Q !! p = Some sp -> p <> root -> forall d, vis d = true ->
    csum f Q p d <= amount (f sp) d.

(* the children's guarantees and deserved amounts sum to at most their (non-root) parent's *)
Definition SumInv (Q : queues) : Prop := SumF qguar Q /\ SumF qdes Q.

Lemma csum_delete_notin f Q n p d : Q !! n = None -> csum f (delete n Q) p d = csum f Q p d.
Proof. intros H. by rewrite delete_notin. Qed.

Lemma contrib_nonneg f s p d : 0 <= amount (f s) d -> 0 <= contrib f s p d.
Proof. unfold contrib. case_bool_decide; lia. Qed.

Lemma sumF_insert f Q n s :
  SumF f Q ->
  (forall m sm d, Q !! m = Some sm -> 0 <= amount (f sm) d) ->
  (n <> root -> qparent s <> Some n) ->
  (n <> root -> forall o, Q !! n = Some o -> qparent o <> Some n) ->
  ((n <> root -> forall d, vis d = true -> csum f Q n d <= amount (f s) d) /\
   (forall p ps d, qparent s = Some p -> p <> root -> p <> n -> Q !! p = Some ps -> vis d = true ->
       amount (f s) d + csum f (delete n Q) p d <= amount (f ps) d)
   \/ exists o, Q !! n = Some o /\ qparent o = qparent s /\ f o = f s) ->
  SumF f (<[n := s]> Q).
Proof.
  intros Hinv Hnn Hself Hoself Hcase p sp Hp Hpr d Hv. rewrite csum_insert.
  assert (forall q, csum f (delete n Q) q d <= csum f Q q d) as Hmono.
  { intros q. destruct (Q !! n) as [o|] eqn:Hn; [|by rewrite csum_delete_notin].
    rewrite (csum_member f Q n o q d Hn). pose proof (contrib_nonneg f o q d (Hnn _ _ d Hn)). lia. }
  destruct (decide (p = n)) as [->|Hne].
  - rewrite lookup_insert in Hp. inversion Hp; subst sp.
    assert (csum f (delete n Q) n d = csum f Q n d) as Hn_kids.
    { destruct (Q !! n) as [o|] eqn:Hn; [|by apply csum_delete_notin].
      rewrite (csum_member f Q n o n d Hn). unfold contrib.
      rewrite bool_decide_eq_false_2 by by apply Hoself. lia. }
    unfold contrib. rewrite bool_decide_eq_false_2 by by apply Hself. rewrite Hn_kids.
    destruct Hcase as [[Hk _]|(o & Ho & Hpo & Hfo)]; [by apply Hk|].
    rewrite <- Hfo. by apply (Hinv n o Ho Hpr d Hv).
  - rewrite lookup_insert_ne in Hp by done. unfold contrib. case_bool_decide as Hps.
    + destruct Hcase as [[_ Hs]|(o & Ho & Hpo & Hfo)]; [by eapply Hs|].
      pose proof (Hinv p sp Hp Hpr d Hv) as Hold.
      rewrite (csum_member f Q n o p d Ho) in Hold. unfold contrib in Hold.
      rewrite bool_decide_eq_true_2 in Hold by congruence. rewrite <- Hfo. done.
    + pose proof (Hinv p sp Hp Hpr d Hv). pose proof (Hmono p). lia.
Qed.

Lemma sumF_delete f Q n :
  SumF f Q -> (forall m sm d, Q !! m = Some sm -> 0 <= amount (f sm) d) -> SumF f (delete n Q).
Proof.
  intros Hinv Hnn p sp Hp Hpr d Hv. apply lookup_delete_Some in Hp as [Hne Hp].
  pose proof (Hinv p sp Hp Hpr d Hv).
  destruct (Q !! n) as [o|] eqn:Hn; [|by rewrite csum_delete_notin].
  rewrite (csum_member f Q n o p d Hn) in H. pose proof (contrib_nonneg f o p d (Hnn _ _ d Hn)). lia.
Qed.

Lemma siblings_sum_allowed Q n s ps p d :
  siblings_sum Q n s ps p = VAllowed -> vis d = true ->
  amount (qguar s) d + csum qguar (delete n Q) p d <= amount (qguar ps) d /\
  amount (qdes s) d + csum qdes (delete n Q) p d <= amount (qdes ps) d.
Proof.
  unfold siblings_sum. intros H Hv.
  destruct (sum_check _ _ && sum_check _ _) eqn:E; [|done]. apply andb_true_iff in E as [Eg Ed].
  set (sibs := map snd (filter (fun c : positive * qspec => fst c <> n) (children_of Q p))) in *.
  assert (forall f, lsum f (sibs ++ [s]) d = amount (f s) d + csum f (delete n Q) p d) as Hl.
  { intros f. rewrite lsum_app. simpl. subst sibs. rewrite map_fmap, csum_lsum.
    rewrite (lsum_perm f _ _ d (fmap_Permutation snd _ _ (children_delete_self Q n p))). lia. }
  split.
  - rewrite <- Hl. apply (sum_check_specs qguar ps); [done| |done]. by destruct sibs.
  - rewrite <- Hl. apply (sum_check_specs qdes ps); [done| |done]. by destruct sibs.
Qed.

Lemma children_sum_allowed Q s kids d :
  children_constraints Q s kids = VAllowed -> kids <> [] -> vis d = true ->
  lsum qguar (snd <$> kids) d <= amount (qguar s) d /\ lsum qdes (snd <$> kids) d <= amount (qdes s) d.
Proof.
  unfold children_constraints. intros H Hne Hv.
  destruct (first_bad _); try done.
  destruct (sum_check _ _ && sum_check _ _) eqn:E; [|done]. apply andb_true_iff in E as [Eg Ed].
  rewrite <- (map_map snd (fun x => new_resource (qguar x))) in Eg.
  rewrite <- (map_map snd (fun x => new_resource (qdes x))) in Ed.
  rewrite <- !map_fmap.
  split; [apply (sum_check_specs qguar s)|apply (sum_check_specs qdes s)]; try done; by destruct kids.
Qed.

Lemma validate_resources_allowed Q n s :
  validate_resources Q n s = VAllowed ->
  (forall p, qparent s = Some p -> p <> root ->
     exists ps, Q !! p = Some ps /\ child_vs_ancestor Q n s = VAllowed /\ siblings_sum Q n s ps p = VAllowed) /\
  (children_of Q n = [] \/
   (children_of Q n <> [] /\ children_constraints Q s (children_of Q n) = VAllowed)).
Proof.
  unfold validate_resources, validate_resources_with. intros H. split.
  - intros p Hp Hr. rewrite Hp in H. rewrite bool_decide_eq_false_2 in H by done.
    destruct (Q !! p) as [ps|]; [|done]. exists ps. split; [done|].
    destruct (child_vs_ancestor Q n s); try done. split; [done|].
    destruct (siblings_sum Q n s ps p); done.
  - destruct (match qparent s with None => VAllowed | Some p => _ end); try done.
    destruct (children_of Q n) eqn:E; [by left|right; by split].
Qed.

Lemma same_resources_eq o s : same_resources o s = true -> qguar o = qguar s /\ qdes o = qdes s.
Proof.
  unfold same_resources. rewrite !andb_true_iff, !bool_decide_eq_true. tauto.
Qed.

(* CREATE / UPDATE: n := s2 where s2 carries the parent and resources of the admitted s *)
Lemma cu_sum c Q n s s2 old :
  Q !! n = old -> admit_cu c Q n s old = VAllowed -> (n = root -> qparent s = None) ->
  qparent s2 = qparent s -> qguar s2 = qguar s -> qdes s2 = qdes s ->
  ShapeInv c Q -> ShapeInv c (<[n := s2]> Q) -> PerQueueInv Q -> SumInv Q ->
  SumInv (<[n := s2]> Q).
Proof.
  intros Hold Hadm Hwfn Hp2 Hg2 Hd2 Hshape Hsh' Hper [Hg Hd].
  apply admit_cu_allowed in Hadm as (Hspec & _ & Hres).
  pose proof (QueueOk_nonneg s (spec_ok_QueueOk s Hspec)) as Hnns.
  assert (forall m sm d, Q !! m = Some sm -> 0 <= amount (qguar sm) d) as Hnng.
  { intros m sm d Hm. by destruct (QueueOk_nonneg sm (Hper _ _ Hm) d) as (_ & _ & ?). }
  assert (forall m sm d, Q !! m = Some sm -> 0 <= amount (qdes sm) d) as Hnnd.
  { intros m sm d Hm. by destruct (QueueOk_nonneg sm (Hper _ _ Hm) d) as (_ & ? & _). }
  assert (n <> root -> qparent s2 <> Some n) as Hself.
  { intros Hr. destruct Hsh' as [_ Hs]. destruct (Hs n s2 (lookup_insert _ _ _) Hr) as (k & Hk & _).
    eapply reach_no_self_parent; eauto. apply lookup_insert. }
  assert (n <> root -> forall o, Q !! n = Some o -> qparent o <> Some n) as Hoself.
  { intros Hr o Ho. destruct Hshape as [_ Hs]. destruct (Hs _ _ Ho Hr) as (k & Hk & _).
    by eapply reach_no_self_parent. }
  (* either the hierarchical resource validation ran, or parent and resources are unchanged *)
  assert (n = root \/ validate_resources Q n s = VAllowed \/
          exists o, Q !! n = Some o /\ qparent o = qparent s /\ qguar o = qguar s /\ qdes o = qdes s) as Hcase.
  { destruct (decide (n = root)) as [|Hr]; [by left|right].
    destruct old as [o|]; [|left; by apply Hres].
    destruct (decide (qparent o = qparent s)) as [Hpe|Hpne]; [|left; apply Hres; [done|by left]].
    destruct (same_resources o s) eqn:Hsr; [|left; apply Hres; [done|by right]].
    right. exists o. apply same_resources_eq in Hsr as [? ?]. done. }
  assert (forall f : qspec -> rlist,
    (f = qguar \/ f = qdes) -> f s2 = f s ->
    (forall m sm d, Q !! m = Some sm -> 0 <= amount (f sm) d) -> (forall d, 0 <= amount (f s) d) ->
    SumF f Q -> SumF f (<[n := s2]> Q)) as Hf.
  { intros f Hfe Hf2 Hnn Hnnf HF. apply sumF_insert; try done.
    destruct Hcase as [Hroot|[Hval|(o & Ho & Hpo & Hgo & Hdo)]].
    - left. split; [done|]. intros p ps d Hp. rewrite Hp2, (Hwfn Hroot) in Hp. done.
    - left. apply validate_resources_allowed in Hval as [Hpar Hkids]. split.
      + intros _ d Hv. rewrite Hf2. destruct Hkids as [Hnil|[Hne Hkids]].
        * unfold csum. rewrite Hnil. simpl. apply Hnnf.
        * rewrite csum_lsum.
          destruct (children_sum_allowed _ _ _ d Hkids Hne Hv) as [? ?].
          destruct Hfe as [-> | ->]; done.
      + intros p ps d Hp Hpr Hpn Hps Hv. rewrite Hp2 in Hp.
        destruct (Hpar p Hp Hpr) as (ps' & Hps' & _ & Hsib). rewrite Hps in Hps'. inversion Hps'; subst ps'.
        destruct (siblings_sum_allowed _ _ _ _ _ d Hsib Hv) as [? ?]. rewrite Hf2.
        destruct Hfe as [-> | ->]; done.
    - right. exists o. split; [done|]. split; [congruence|]. rewrite Hf2. destruct Hfe as [-> | ->]; done. }
  split.
  - apply Hf; try done; [by left|]. intros d. by destruct (Hnns d) as (_ & _ & ?).
  - apply Hf; try done; [by right|]. intros d. by destruct (Hnns d) as (_ & ? & _).
Qed.

Lemma root_parent_none c Q n s old :
  ShapeInv c Q -> Q !! n = old -> admit_cu c Q n s old = VAllowed -> n = root -> qparent s = None.
Proof.
  intros [(sr & Hsr & Hpr) _] Hold Hadm ->. apply admit_cu_allowed in Hadm as (_ & Hh & _).
  rewrite Hsr in Hold. subst old.
  destruct (decide (qparent sr = qparent s)) as [Heq|Hne]; [congruence|].
  by apply (hier_root c Q), Hh.
Qed.

(* a status-only change of a stored queue (allocated pods, state, terminating flag) *)
Lemma sum_status_insert c Q n o a st t :
  ShapeInv c Q -> PerQueueInv Q -> SumInv Q -> Q !! n = Some o ->
  SumInv (<[n := with_status a st t o]> Q).
Proof.
  intros Hshape Hper [Hg Hd] Hn.
  assert (n <> root -> forall o, Q !! n = Some o -> qparent o <> Some n) as Hoself.
  { intros Hr o' Ho. destruct Hshape as [_ Hs]. destruct (Hs _ _ Ho Hr) as (k & Hk & _).
    by eapply reach_no_self_parent. }
  split; apply sumF_insert; try done.
  + intros m sm d Hm. by destruct (QueueOk_nonneg sm (Hper _ _ Hm) d) as (_ & _ & ?).
  + intros Hr. simpl. by apply Hoself.
  + right. by exists o.
  + intros m sm d Hm. by destruct (QueueOk_nonneg sm (Hper _ _ Hm) d) as (_ & ? & _).
  + intros Hr. simpl. by apply Hoself.
  + right. by exists o.
Qed.

Lemma sum_step c Q r :
  1 <= max_depth c -> TermInv Q -> ShapeInv c Q -> PerQueueInv Q -> SumInv Q ->
  SumInv (apply_if_admitted c Q r).
Proof.
  intros Hmax Hterm Hshape Hper Hsum.
  pose proof (shape_step c Q r Hmax Hterm Hshape) as Hshape'.
  unfold apply_if_admitted in *.
  destruct (allowed (verdict_of c Q r)) eqn:Hv; [|done]. apply allowed_eq in Hv.
  destruct r as [n s|n s|n|n|n|n a st]; simpl in *.
  - destruct (Q !! n) as [o|] eqn:Hn; [done|].
    eapply (cu_sum c Q n s (with_status 0 0 false s) None); eauto.
    exact (root_parent_none c Q n s None Hshape Hn Hv).
  - destruct (Q !! n) as [o|] eqn:Hn; [|done].
    eapply (cu_sum c Q n s (with_status (qalloc o) (qstate o) (qterm o) s) (Some o)); eauto.
    exact (root_parent_none c Q n s (Some o) Hshape Hn Hv).
  - destruct Hsum as [Hg Hd]. split; apply sumF_delete; try done.
    + intros m sm d Hm. by destruct (QueueOk_nonneg sm (Hper _ _ Hm) d) as (_ & _ & ?).
    + intros m sm d Hm. by destruct (QueueOk_nonneg sm (Hper _ _ Hm) d) as (_ & ? & _).
  - destruct (Q !! n) as [o|] eqn:Hn; [|done]. by eapply sum_status_insert.
  - destruct (Q !! n) as [o|] eqn:Hn; [|done]. destruct (qterm o && negb (bool_decide (n = root)) && negb (bool_decide (n = default_q))); [|done].
    destruct Hsum as [Hg Hd]. split; apply sumF_delete; try done.
    + intros m sm d Hm. by destruct (QueueOk_nonneg sm (Hper _ _ Hm) d) as (_ & _ & ?).
    + intros m sm d Hm. by destruct (QueueOk_nonneg sm (Hper _ _ Hm) d) as (_ & ? & _).
  - destruct (Q !! n) as [o|] eqn:Hn; [|done]. by eapply sum_status_insert.
Qed.

(* ---------- deletion ---------- *)

Theorem delete_guard c Q n :
  verdict_of c Q (Delete n) = VAllowed ->
  n <> root /\ n <> default_q /\
  exists s, Q !! n = Some s /\ (alloc_check c = true -> qalloc s = 0) /\
            forall m sm, Q !! m = Some sm -> qparent sm <> Some n.
Proof.
  simpl. intros H. apply admit_delete_allowed in H as (Hr & Hd & s & Hn & Ha & Hk).
  repeat split; try done. exists s. repeat split; try done. intros m sm Hm. by eapply children_nil.
Qed.

(* the executable delete guard of law 105 means the clause *)
Lemma delete_guardb_sound c Q n :
  delete_guardb c Q (Delete n) = true ->
  n <> root /\ n <> default_q /\
  exists s, Q !! n = Some s /\ (alloc_check c = true -> qalloc s = 0) /\
            forall m sm, Q !! m = Some sm -> qparent sm <> Some n.
Proof.
  unfold delete_guardb. rewrite !andb_true_iff, !negb_true_iff, !bool_decide_eq_false.
  intros [[Hr Hd] H]. split; [done|]. split; [done|].
  destruct (Q !! n) as [s|]; [|done]. apply andb_true_iff in H as [Ha Hk].
  exists s. split; [done|]. split.
  - intros Hf. rewrite Hf in Ha. simpl in Ha. by apply bool_decide_eq_true in Ha.
  - intros m sm Hm Hp. rewrite forallb_forall in Hk.
    assert (In (m, sm) (map_to_list Q)) as Hin by by apply elem_of_list_In, elem_of_map_to_list.
    specialize (Hk _ Hin). simpl in Hk. apply negb_true_iff, bool_decide_eq_false in Hk. done.
Qed.

(* ... and the admitted DELETE satisfies it (completeness of the guard on the model's verdict) *)
Lemma delete_guardb_complete c Q n :
  verdict_of c Q (Delete n) = VAllowed -> delete_guardb c Q (Delete n) = true.
Proof.
  intros H. apply delete_guard in H as (Hr & Hd & s & Hn & Ha & Hk).
  unfold delete_guardb. rewrite Hn.
  rewrite (bool_decide_eq_false_2 (n = root)), (bool_decide_eq_false_2 (n = default_q)) by done. simpl.
  apply andb_true_iff. split.
  - destruct (alloc_check c); simpl; [|done]. apply bool_decide_eq_true. by apply Ha.
  - apply forallb_forall. intros [m sm] Hin. simpl.
    apply negb_true_iff, bool_decide_eq_false.
    apply elem_of_list_In, elem_of_map_to_list in Hin. by apply (Hk m sm).
Qed.

Lemma protected_step c Q r n :
  n = root \/ n = default_q -> is_Some (Q !! n) -> is_Some (apply_if_admitted c Q r !! n).
Proof.
  intros Hn Hin. unfold apply_if_admitted.
  destruct (allowed (verdict_of c Q r)) eqn:Hv; [|done]. apply allowed_eq in Hv.
  destruct r as [m s|m s|m|m|m|m a]; simpl in *.
  - destruct (Q !! m); [done|]. apply lookup_insert_is_Some'. by right.
  - destruct (Q !! m); [|done]. apply lookup_insert_is_Some'. by right.
  - apply admit_delete_allowed in Hv as (Hr & Hd & _). rewrite lookup_delete_ne; [done|].
    destruct Hn as [-> | ->]; done.
  - destruct (Q !! m); [|done]. apply lookup_insert_is_Some'. by right.
  - destruct (Q !! m) as [o|]; [|done].
    destruct (qterm o && negb (bool_decide (m = root)) && negb (bool_decide (m = default_q))) eqn:Hg; [|done].
    apply andb_true_iff in Hg as [Hg Hgd]. apply andb_true_iff in Hg as [_ Hgr].
    apply negb_true_iff, bool_decide_eq_false in Hgr, Hgd.
    rewrite lookup_delete_ne; [done|]. destruct Hn as [-> | ->]; done.
  - destruct (Q !! m); [|done]. apply lookup_insert_is_Some'. by right.
Qed.

Theorem protected_history c rs n : forall Q0,
  n = root \/ n = default_q -> is_Some (Q0 !! n) -> is_Some (run_history c Q0 rs !! n).
Proof.
  unfold run_history. induction rs as [|r rs IH]; intros Q0 Hn H0; simpl; [done|].
  apply IH; [done|]. by apply protected_step.
Qed.

(* ================= the executable checkers are sound ================= *)

Lemma reach_in_sound k : forall Q n s,
  Q !! n = Some s -> reach_in k Q (qparent s) = true -> exists j, reach Q n j /\ (j <= k)%nat.
Proof.
  induction k as [|k IH]; intros Q n s Hn H; simpl in H; [done|].
  destruct (qparent s) as [p|] eqn:Hp.
  - case_bool_decide as Hr.
    + exists 1%nat. split; [|lia]. eapply reach_top; [done|]. rewrite Hp. by apply is_top_some.
    + destruct (Q !! p) as [ps|] eqn:Hq; [|done].
      destruct (IH _ _ _ Hq H) as (j & Hj & Hle). exists (S j). split; [|lia]. eapply reach_up; eauto.
  - exists 1%nat. split; [|lia]. eapply reach_top; [done|]. by rewrite Hp.
Qed.

Lemma shape_okb_sound c Q : shape_okb c Q = true -> ShapeInv c Q.
Proof.
  unfold shape_okb, root_okb. rewrite andb_true_iff, map_allb_spec. intros [Hr H].
  split; [destruct (Q !! root) as [sr|]; [|done]; apply bool_decide_eq_true in Hr; eauto|]. intros n s Hn Hnr. specialize (H _ _ Hn).
  rewrite (bool_decide_eq_false_2 (n = root)) in H by done. simpl in H.
  destruct (reach_in_sound _ _ _ _ Hn H) as (j & Hj & Hle). exists j. split; [done|].
  destruct (decide (0 <= max_depth c)); [|rewrite Z2Nat.nonpos in Hle by lia; pose proof (reach_pos _ _ _ Hj); lia].
  lia.
Qed.

Lemma per_okb_sound Q : per_okb Q = true -> PerQueueInv Q.
Proof.
  unfold per_okb. rewrite map_allb_spec. intros H n s Hn. specialize (H _ _ Hn).
  unfold queue_okb, nonneg_l in H. rewrite !andb_true_iff, !map_allb_spec in H.
  destruct H as [[[[Hc Hd] Hg] Hgd] Hdc]. repeat split.
  - intros d v Hv. specialize (Hc _ _ Hv). by apply bool_decide_eq_true in Hc.
  - specialize (Hd _ _ H). by apply bool_decide_eq_true in Hd.
  - intros cv Hcv. specialize (Hdc _ _ H). rewrite Hcv in Hdc. by apply bool_decide_eq_true in Hdc.
  - specialize (Hg _ _ H). by apply bool_decide_eq_true in Hg.
  - specialize (Hgd _ _ H). destruct (qdes s !! d) as [x|]; [|done].
    apply bool_decide_eq_true in Hgd. eauto.
Qed.

Lemma amount_not_dim (f : qspec -> rlist) Q n s d :
  (f = qcap \/ f = qdes \/ f = qguar) -> Q !! n = Some s -> d ∉ dims_of Q -> amount (f s) d = 0.
Proof.
  intros Hf Hn Hd. unfold amount. destruct (f s !! d) as [v|] eqn:E; [|done]. exfalso. apply Hd.
  unfold dims_of. apply elem_of_list_In, in_flat_map. exists (n, s). split.
  - apply elem_of_list_In. by apply elem_of_map_to_list.
  - apply elem_of_list_In. simpl. unfold keys_l. rewrite !elem_of_app.
    assert (d ∈ map fst (map_to_list (f s))) as Hin.
    { apply elem_of_list_In, in_map_iff. exists (d, v). split; [done|].
      apply elem_of_list_In. by apply elem_of_map_to_list. }
    destruct Hf as [->|[->| ->]]; auto.
Qed.

Lemma csum_not_dim (f : qspec -> rlist) Q p d :
  (f = qcap \/ f = qdes \/ f = qguar) -> d ∉ dims_of Q -> csum f Q p d = 0.
Proof.
  intros Hf Hd. unfold csum.
  assert (Forall (fun ns : positive * qspec => Q !! fst ns = Some (snd ns)) (children_of Q p)) as Hall.
  { apply Forall_forall. intros [m sm] Hin. apply elem_children in Hin as [? _]. done. }
  induction Hall as [|[m sm] l Hm Hl IH]; simpl; [done|].
  rewrite IH. simpl in Hm. rewrite (amount_not_dim f Q m sm d Hf Hm Hd). done.
Qed.

Lemma sums_okb_sound Q : sums_okb Q = true -> SumInv Q.
Proof.
  unfold sums_okb. rewrite map_allb_spec. intros H.
  assert (forall p sp d, Q !! p = Some sp -> p <> root -> vis d = true ->
            csum qguar Q p d <= amount (qguar sp) d /\ csum qdes Q p d <= amount (qdes sp) d) as Hboth.
  { intros p sp d Hp Hr Hv. specialize (H _ _ Hp).
    rewrite (bool_decide_eq_false_2 (p = root)) in H by done. simpl in H.
    destruct (decide (d ∈ dims_of Q)) as [Hin|Hnin].
    - rewrite forallb_forall in H. specialize (H d (proj1 (elem_of_list_In _ _) Hin)).
      rewrite Hv in H. simpl in H. apply andb_true_iff in H as [H1 H2].
      apply bool_decide_eq_true in H1, H2. done.
    - rewrite !csum_not_dim, !(amount_not_dim _ Q p sp d) by auto. done. }
  split; intros p sp Hp Hr d Hv; by destruct (Hboth p sp d Hp Hr Hv).
Qed.

(* ================= capability against the nearest ancestor ================= *)

Definition capd (s : qspec) (d : positive) : Z := amount (qcap s) d.

(* the capability (dimension d) of the nearest proper ancestor below root that sets it *)
Inductive nearest (Q : queues) (d : positive) : option positive -> Z -> Prop :=
| nearest_here p ps : p <> root -> Q !! p = Some ps -> 0 < capd ps d -> nearest Q d (Some p) (capd ps d)
| nearest_up p ps v : p <> root -> Q !! p = Some ps -> ~ 0 < capd ps d ->
                      nearest Q d (qparent ps) v -> nearest Q d (Some p) v.

Definition CapInv (Q : queues) : Prop :=
  forall n s d v, Q !! n = Some s -> n <> root -> vis d = true -> 0 < capd s d ->
    nearest Q d (qparent s) v -> capd s d <= v.

Lemma rget_cap s d : vis d = true -> rget (new_resource (qcap s)) d = capd s d.
Proof. intros Hv. by rewrite rget_new_resource, Hv. Qed.

Lemma nearest_cap_sound Q d : vis d = true -> forall par v, nearest Q d par v ->
  forall fuel r, nearest_cap fuel Q par d = Some r -> r = Some v.
Proof.
  intros Hv par v H. induction H as [p ps Hr Hp Hpos|p ps v Hr Hp Hpos H IH]; intros fuel r Hf.
  - destruct fuel; simpl in Hf; rewrite bool_decide_eq_false_2 in Hf by done; [done|].
    rewrite Hp, rget_cap in Hf by done. rewrite bool_decide_eq_true_2 in Hf by done. congruence.
  - destruct fuel; simpl in Hf; rewrite bool_decide_eq_false_2 in Hf by done; [done|].
    rewrite Hp, rget_cap in Hf by done. rewrite bool_decide_eq_false_2 in Hf by done. by eapply IH.
Qed.

Lemma scm_new_resource m : scm (new_resource m) = filter (fun kv : positive * Z => scalar_dim (fst kv) = true) m.
Proof. unfold scm, new_resource. simpl. case_bool_decide as E; simpl; [by rewrite E|done]. Qed.

Lemma res_names_in m d : vis d = true -> 0 < amount m d -> d ∈ res_names (new_resource m).
Proof.
  intros Hv Hpos. unfold res_names, names_of.
  destruct (decide (d = cpu_d)) as [->|H2].
  { simpl. rewrite bool_decide_eq_true_2 by lia. apply elem_of_app. left. apply elem_of_list_singleton. done. }
  destruct (decide (d = mem_d)) as [->|H3].
  { simpl. apply elem_of_app. right. apply elem_of_app. left.
    rewrite bool_decide_eq_true_2 by lia. apply elem_of_list_singleton. done. }
  apply elem_of_app. right. apply elem_of_app. right.
  apply elem_of_keys_where. unfold amount in Hpos.
  destruct (m !! d) as [v|] eqn:Hm; simpl in Hpos; [|lia].
  exists v. split; [|apply bool_decide_eq_true; lia].
  rewrite scm_new_resource, scalar_filter_lookup. unfold scalar_dim.
  rewrite (bool_decide_eq_false_2 (d = cpu_d)), (bool_decide_eq_false_2 (d = mem_d)) by done.
  unfold vis in Hv. apply negb_true_iff in Hv. rewrite Hv. done.
Qed.

Lemma child_own_allowed Q s d v :
  child_vs_ancestor_own Q s = VAllowed -> vis d = true -> 0 < capd s d ->
  nearest Q d (qparent s) v -> capd s d <= v.
Proof.
  unfold child_vs_ancestor_own. intros H Hv Hpos Hn.
  pose proof (first_bad_allowed _ H) as Hall.
  pose proof (res_names_in (qcap s) d Hv Hpos) as Hin.
  pose proof (Hall _ (proj2 (elem_of_list_In _ _) (in_map _ _ _ (proj1 (elem_of_list_In _ _) Hin)))) as Hg.
  cbv beta in Hg.
  destruct (nearest_cap (fuel_of Q) Q (qparent s) d) as [r|] eqn:Hnc; [|done].
  rewrite (nearest_cap_sound Q d Hv _ _ Hn _ _ Hnc) in Hg.
  case_bool_decide as Hlt; [done|]. rewrite rget_cap in Hlt by done. lia.
Qed.

Lemma foldr_opt_max_ge {A} (g : A -> option Z) (l : list A) m :
  foldr (fun c acc => opt_max (g c) acc) (Some 0) l = Some m ->
  0 <= m /\ forall x, x ∈ l -> exists m', g x = Some m' /\ m' <= m.
Proof.
  revert m. induction l as [|a l IH]; intros m H; simpl in H.
  - inversion H; subst. split; [lia|]. intros x Hx. by apply elem_of_nil in Hx.
  - destruct (g a) as [y|] eqn:Hy; [|done].
    destruct (foldr _ _ l) as [z|] eqn:Hz; [|done]. simpl in H. inversion H; subst.
    destruct (IH z eq_refl) as [Hz0 Hall]. split; [lia|].
    intros x Hx. apply elem_of_cons in Hx as [->|Hx].
    + exists y. split; [done|lia].
    + destruct (Hall x Hx) as (m' & Hm' & Hle). exists m'. split; [done|lia].
Qed.

(* x is a first queue with a positive capability d on a downward path from c *)
Inductive firstpos (Q : queues) (d : positive) : positive -> positive * qspec -> Prop :=
| fp_self c sc : Q !! c = Some sc -> 0 < capd sc d -> firstpos Q d c (c, sc)
| fp_down c sc c' sc' x : Q !! c = Some sc -> ~ 0 < capd sc d -> Q !! c' = Some sc' ->
                          qparent sc' = Some c -> firstpos Q d c' x -> firstpos Q d c x.

Lemma subtree_max_ge Q d : vis d = true -> forall c x, firstpos Q d c x ->
  forall fuel sc m, Q !! c = Some sc -> subtree_max fuel Q c sc d = Some m -> capd (snd x) d <= m.
Proof.
  intros Hv c x H. induction H as [c sc Hc Hpos|c sc c' sc' x Hc Hpos Hc' Hp H IH]; intros fuel sc0 m Hc0 Hm.
  - rewrite Hc in Hc0. inversion Hc0; subst sc0. destruct fuel; simpl in Hm; [done|].
    rewrite rget_cap in Hm by done. rewrite bool_decide_eq_true_2 in Hm by done. inversion Hm; subst. simpl. lia.
  - rewrite Hc in Hc0. inversion Hc0; subst sc0. destruct fuel; simpl in Hm; [done|].
    rewrite rget_cap in Hm by done. rewrite bool_decide_eq_false_2 in Hm by done.
    apply (foldr_opt_max_ge (fun c0 : positive * qspec => subtree_max fuel Q (fst c0) (snd c0) d)) in Hm as [_ Hall].
    destruct (Hall (c', sc')) as (m' & Hm' & Hle); [by apply elem_children|].
    simpl in Hm'. specialize (IH _ _ _ Hc' Hm'). lia.
Qed.

(* the chain of parent links from par reaches n through queues (other than n) that do not set d *)
Inductive path_nocap (Q : queues) (d : positive) (n : positive) : option positive -> Prop :=
| pn_here : path_nocap Q d n (Some n)
| pn_up p ps : p <> n -> p <> root -> Q !! p = Some ps -> ~ 0 < capd ps d ->
               path_nocap Q d n (qparent ps) -> path_nocap Q d n (Some p).

Lemma pn_firstpos Q d n x : forall par, path_nocap Q d n par ->
  forall y sy, Q !! y = Some sy -> qparent sy = par -> firstpos Q d y x ->
  exists c sc, Q !! c = Some sc /\ qparent sc = Some n /\ firstpos Q d c x.
Proof.
  intros par H. induction H as [|p ps Hpn Hpr Hp Hpos H IH]; intros y sy Hy Hpy Hf.
  - eauto.
  - apply (IH p ps Hp eq_refl). eapply fp_down; eauto.
Qed.

Lemma pn_nearest Q d n o : Q !! n = Some o -> n <> root -> forall par, path_nocap Q d n par ->
  (0 < capd o d -> nearest Q d par (capd o d)) /\
  (~ 0 < capd o d -> forall v, nearest Q d (qparent o) v -> nearest Q d par v).
Proof.
  intros Hn Hr par H. induction H as [|p ps Hpn Hpr Hp Hpos H IH].
  - split; [intros; by apply nearest_here|intros; by eapply nearest_up].
  - destruct IH as [IH1 IH2]. split.
    + intros Ho. eapply nearest_up; eauto.
    + intros Ho v Hv. eapply nearest_up; eauto.
Qed.

Lemma pn_end_exists c Q d n : ShapeInv c Q -> n <> root -> forall par, path_nocap Q d n par ->
  forall y sy, Q !! y = Some sy -> y <> root -> qparent sy = par -> is_Some (Q !! n).
Proof.
  intros Hs Hnr par H. induction H as [|p ps Hpn Hpr Hp Hpos H IH]; intros y sy Hy Hyr Hpy.
  - destruct (shape_parent_exists c Q y sy Hs Hy Hyr) as [Ht|(p & ps & Hp & _ & Hq)].
    + rewrite Hpy in Ht. by apply is_top_some in Ht.
    + rewrite Hpy in Hp. inversion Hp; subst. eauto.
  - by apply (IH p ps).
Qed.

Lemma cap_chain Q n s2 d : forall par v, nearest (<[n := s2]> Q) d par v ->
  nearest Q d par v \/
  (path_nocap Q d n par /\
   ((0 < capd s2 d /\ v = capd s2 d) \/ (~ 0 < capd s2 d /\ nearest (<[n := s2]> Q) d (qparent s2) v))).
Proof.
  intros par v H. induction H as [p ps Hr Hp Hpos|p ps v Hr Hp Hpos H IH].
  - destruct (decide (p = n)) as [->|Hne].
    + rewrite lookup_insert in Hp. inversion Hp; subst ps. right. split; [constructor|by left].
    + rewrite lookup_insert_ne in Hp by done. left. by apply nearest_here.
  - destruct (decide (p = n)) as [->|Hne].
    + rewrite lookup_insert in Hp. inversion Hp; subst ps. right. split; [constructor|by right].
    + rewrite lookup_insert_ne in Hp by done. destruct IH as [IH|[Hpath Hcase]].
      * left. by eapply nearest_up.
      * right. split; [by eapply pn_up|done].
Qed.

(* above n nothing changed *)
Lemma nearest_above Q n s2 d kn : reach (<[n := s2]> Q) n kn ->
  forall par v, nearest (<[n := s2]> Q) d par v ->
  (forall p, par = Some p -> p <> root -> exists kp, reach (<[n := s2]> Q) p kp /\ (kp < kn)%nat) ->
  nearest Q d par v.
Proof.
  intros Hkn par v H. induction H as [p ps Hr Hp Hpos|p ps v Hr Hp Hpos H IH]; intros Hab.
  - destruct (Hab p eq_refl Hr) as (kp & Hkp & Hlt).
    assert (p <> n) as Hne. { intros ->. pose proof (reach_fun _ _ _ _ Hkn Hkp). lia. }
    rewrite lookup_insert_ne in Hp by done. by apply nearest_here.
  - destruct (Hab p eq_refl Hr) as (kp & Hkp & Hlt).
    assert (p <> n) as Hne. { intros ->. pose proof (reach_fun _ _ _ _ Hkn Hkp). lia. }
    pose proof Hp as Hp'. rewrite lookup_insert_ne in Hp' by done.
    eapply nearest_up; eauto. apply IH. intros p2 Hp2 Hr2.
    inversion Hkp as [? s3 Hn3 Ht|? s3 p3 k' Hn3 Hp3 Hr3 H']; subst;
      rewrite Hp in Hn3; inversion Hn3; subst s3.
    + rewrite Hp2 in Ht. by apply is_top_some in Ht.
    + rewrite Hp2 in Hp3. inversion Hp3; subst p3. exists k'. split; [done|lia].
Qed.

Lemma nearest_above_n c Q n s2 d v :
  ShapeInv c (<[n := s2]> Q) -> n <> root ->
  nearest (<[n := s2]> Q) d (qparent s2) v -> nearest Q d (qparent s2) v.
Proof.
  intros [_ Hs] Hr H. destruct (Hs n s2 (lookup_insert _ _ _) Hr) as (kn & Hkn & _).
  eapply nearest_above; eauto. intros p Hp Hpr.
  inversion Hkn as [? s3 Hn3 Ht|? s3 p3 k' Hn3 Hp3 Hr3 H']; subst;
    rewrite lookup_insert in Hn3; inversion Hn3; subst s3.
  - rewrite Hp in Ht. by apply is_top_some in Ht.
  - rewrite Hp in Hp3. inversion Hp3; subst p3. exists k'. split; [done|lia].
Qed.

Lemma nearest_insert_root Q s d : forall par v,
  nearest (<[root := s]> Q) d par v -> nearest Q d par v.
Proof.
  intros par v H. induction H as [p ps Hr Hp Hpos|p ps v Hr Hp Hpos H IH];
    rewrite lookup_insert_ne in Hp by done; [by apply nearest_here|by eapply nearest_up].
Qed.

(* parent links and capabilities unchanged: nothing to show *)
Lemma nearest_agree Q n o s2 d : Q !! n = Some o -> qparent s2 = qparent o -> qcap s2 = qcap o ->
  forall par v, nearest (<[n := s2]> Q) d par v -> nearest Q d par v.
Proof.
  intros Hn Hp Hc par v H. induction H as [p ps Hr Hq Hpos|p ps v Hr Hq Hpos H IH].
  - destruct (decide (p = n)) as [->|Hne].
    + rewrite lookup_insert in Hq. inversion Hq; subst ps. unfold capd. rewrite Hc.
      apply nearest_here; [done..|]. unfold capd in *. by rewrite <- Hc.
    + rewrite lookup_insert_ne in Hq by done. by apply nearest_here.
  - destruct (decide (p = n)) as [->|Hne].
    + rewrite lookup_insert in Hq. inversion Hq; subst ps. rewrite Hp in IH.
      eapply nearest_up; eauto. unfold capd in *. by rewrite <- Hc.
    + rewrite lookup_insert_ne in Hq by done. by eapply nearest_up.
Qed.

Lemma cap_agree Q n o s2 : Q !! n = Some o -> qparent s2 = qparent o -> qcap s2 = qcap o ->
  CapInv Q -> CapInv (<[n := s2]> Q).
Proof.
  intros Hn Hp Hc Hinv x sx d v Hx Hxr Hv Hpos Hnear.
  apply (nearest_agree Q n o s2 d Hn Hp Hc) in Hnear.
  destruct (decide (x = n)) as [->|Hne].
  - rewrite lookup_insert in Hx. inversion Hx; subst sx. unfold capd in *. rewrite Hc in *. rewrite Hp in Hnear.
    by apply (Hinv n o d v).
  - rewrite lookup_insert_ne in Hx by done. by apply (Hinv x sx d v).
Qed.

Lemma path_has_child Q d n : forall par, path_nocap Q d n par ->
  forall y sy, Q !! y = Some sy -> qparent sy = par ->
  exists c sc, Q !! c = Some sc /\ qparent sc = Some n.
Proof.
  intros par H. induction H as [|p ps Hpn Hpr Hp Hpos H IH]; intros y sy Hy Hpy; [eauto|].
  by apply (IH p ps).
Qed.

(* n := s2 after the hierarchical resource validation *)
Lemma cap_insert c Q n s2 :
  CapInv Q -> ShapeInv c (<[n := s2]> Q) -> n <> root ->
  (forall d v, vis d = true -> 0 < capd s2 d -> nearest Q d (qparent s2) v -> capd s2 d <= v) ->
  (forall d x, vis d = true -> 0 < capd s2 d ->
     (exists k sk, Q !! k = Some sk /\ qparent sk = Some n /\ firstpos Q d k x) -> capd (snd x) d <= capd s2 d) ->
  (forall d x v, vis d = true -> ~ 0 < capd s2 d ->
     (exists k sk, Q !! k = Some sk /\ qparent sk = Some n /\ firstpos Q d k x) ->
     nearest Q d (qparent s2) v -> capd (snd x) d <= v) ->
  CapInv (<[n := s2]> Q).
Proof.
  intros Hinv Hsh' Hnr Hc1 Hc2 Hc3 x sx d v Hx Hxr Hv Hpos Hnear.
  destruct (decide (x = n)) as [->|Hne].
  { rewrite lookup_insert in Hx. inversion Hx; subst sx.
    apply (nearest_above_n c) in Hnear; [|done..]. by apply Hc1. }
  rewrite lookup_insert_ne in Hx by done.
  destruct (cap_chain _ _ _ _ _ _ Hnear) as [Hq|[Hpath Hcase]]; [by apply (Hinv x sx d v)|].
  assert (exists k sk, Q !! k = Some sk /\ qparent sk = Some n /\ firstpos Q d k (x, sx)) as Hfp.
  { apply (pn_firstpos Q d n (x, sx) _ Hpath x sx Hx eq_refl). by apply fp_self. }
  destruct Hcase as [[Hpos2 ->]|[Hnpos2 Hnear2]].
  - by apply (Hc2 d (x, sx) Hv Hpos2).
  - apply (nearest_above_n c) in Hnear2; [|done..]. by apply (Hc3 d (x, sx) v).
Qed.

Lemma children_cap_allowed Q s kids d x k sk :
  children_constraints Q s kids = VAllowed -> vis d = true -> 0 < capd s d ->
  (k, sk) ∈ kids -> Q !! k = Some sk -> firstpos Q d k x -> capd (snd x) d <= capd s d.
Proof.
  unfold children_constraints. intros H Hv Hpos Hin Hk Hf.
  destruct (first_bad _) eqn:Hfb; try done.
  pose proof (first_bad_allowed _ Hfb) as Hall.
  pose proof (res_names_in (qcap s) d Hv Hpos) as Hd.
  pose proof (Hall _ (proj2 (elem_of_list_In _ _) (in_map _ _ _ (proj1 (elem_of_list_In _ _) Hd)))) as Hg.
  cbv beta in Hg.
  destruct (foldr _ _ kids) as [cm|] eqn:Hcm; [|done].
  case_bool_decide as Hlt; [done|]. rewrite rget_cap in Hlt by done.
  apply (foldr_opt_max_ge (fun c0 : positive * qspec => subtree_max (fuel_of Q) Q (fst c0) (snd c0) d)) in Hcm as [_ Hge].
  destruct (Hge (k, sk) Hin) as (m' & Hm' & Hle). cbn [fst snd] in Hm'.
  pose proof (subtree_max_ge Q d Hv k x Hf _ _ _ Hk Hm'). lia.
Qed.

Lemma foldr_names_spec (g : positive * qspec -> option (list positive)) (h : positive * qspec -> list positive)
      (kids : list (positive * qspec)) l :
  foldr (fun c acc => match g c, acc with
                      | Some a, Some b => Some (h c ++ a ++ b)
                      | _, _ => None
                      end) (Some []) kids = Some l ->
  forall c, c ∈ kids -> exists a, g c = Some a /\ (forall d, d ∈ h c \/ d ∈ a -> d ∈ l).
Proof.
  revert l. induction kids as [|k kids IH]; intros l H c Hc; [by apply elem_of_nil in Hc|].
  simpl in H. destruct (g k) as [a|] eqn:Hg; [|done].
  destruct (foldr _ _ kids) as [b|] eqn:Hb; [|done]. inversion H; subst l.
  apply elem_of_cons in Hc as [->|Hc].
  - exists a. split; [done|]. intros d [Hd|Hd]; rewrite !elem_of_app; auto.
  - destruct (IH b eq_refl c Hc) as (a' & Ha' & Hin). exists a'. split; [done|].
    intros d Hd. rewrite !elem_of_app. right. right. by apply Hin.
Qed.

(* every name with a first positive capability below k is collected *)
Lemma desc_names_in Q d : vis d = true -> forall k x, firstpos Q d k x ->
  forall fuel n sk l, Q !! k = Some sk -> qparent sk = Some n ->
  desc_names fuel Q n = Some l -> d ∈ l.
Proof.
  intros Hv k x H. induction H as [c sc Hc Hpos|c sc c' sc' x Hc Hpos Hc' Hp H IH]; intros fuel n sk l Hk Hpk Hl.
  - rewrite Hc in Hk. inversion Hk; subst sk. destruct fuel; simpl in Hl; [done|].
    destruct (foldr_names_spec (fun c0 => desc_names fuel Q (fst c0))
                (fun c0 => res_names (new_resource (qcap (snd c0)))) _ _ Hl (c, sc)) as (a & _ & Hin);
      [by apply elem_children|].
    apply Hin. left. simpl. by apply res_names_in.
  - rewrite Hc in Hk. inversion Hk; subst sk. destruct fuel; simpl in Hl; [done|].
    destruct (foldr_names_spec (fun c0 => desc_names fuel Q (fst c0))
                (fun c0 => res_names (new_resource (qcap (snd c0)))) _ _ Hl (c, sc)) as (a & Ha & Hin);
      [by apply elem_children|].
    apply Hin. right. simpl in Ha. by apply (IH fuel c sc' a).
Qed.

Lemma child_desc_allowed Q n s d x v k sk :
  child_vs_ancestor_desc Q n s = VAllowed -> vis d = true -> ~ 0 < capd s d ->
  Q !! k = Some sk -> qparent sk = Some n -> firstpos Q d k x ->
  nearest Q d (qparent s) v -> capd (snd x) d <= v.
Proof.
  unfold child_vs_ancestor_desc. intros H Hv Hnpos Hk Hpk Hf Hn.
  destruct (desc_names (fuel_of Q) Q n) as [names|] eqn:Hnames; [|done].
  pose proof (desc_names_in Q d Hv k x Hf _ _ _ _ Hk Hpk Hnames) as Hd.
  pose proof (first_bad_allowed _ H) as Hall.
  pose proof (Hall _ (proj2 (elem_of_list_In _ _) (in_map _ _ _ (proj1 (elem_of_list_In _ _) Hd)))) as Hg.
  cbv beta in Hg.
  destruct (subtree_max (fuel_of Q) Q n s d) as [my|] eqn:Hmy; [|done].
  destruct (nearest_cap (fuel_of Q) Q (qparent s) d) as [r|] eqn:Hnc; [|done].
  rewrite (nearest_cap_sound Q d Hv _ _ Hn _ _ Hnc) in Hg.
  case_bool_decide as Hlt; [done|].
  unfold fuel_of in Hmy. simpl in Hmy. rewrite rget_cap in Hmy by done.
  rewrite bool_decide_eq_false_2 in Hmy by done.
  apply (foldr_opt_max_ge (fun c0 : positive * qspec => subtree_max (size Q) Q (fst c0) (snd c0) d)) in Hmy as [_ Hge].
  destruct (Hge (k, sk)) as (m' & Hm' & Hle); [by apply elem_children|]. cbn [fst snd] in Hm'.
  pose proof (subtree_max_ge Q d Hv k x Hf _ _ _ Hk Hm'). lia.
Qed.

Lemma nearest_top_none Q d par v : is_top par = true -> ~ nearest Q d par v.
Proof.
  intros Ht H. inversion H; subst; apply is_top_some in Ht; done.
Qed.

Lemma cu_cap c Q n s s2 old :
  Q !! n = old -> admit_cu c Q n s old = VAllowed ->
  qparent s2 = qparent s -> qcap s2 = qcap s ->
  ShapeInv c (<[n := s2]> Q) -> CapInv Q -> CapInv (<[n := s2]> Q).
Proof.
  intros Hold Hadm Hp2 Hc2 Hsh' Hinv.
  apply admit_cu_allowed in Hadm as (_ & _ & Hres).
  destruct (decide (n = root)) as [->|Hnr].
  { intros x sx d v Hx Hxr Hv Hpos Hnear. rewrite lookup_insert_ne in Hx by done.
    apply nearest_insert_root in Hnear. by apply (Hinv x sx d v). }
  assert (validate_resources Q n s = VAllowed \/
          exists o, Q !! n = Some o /\ qparent o = qparent s /\ qcap o = qcap s) as [Hval|(o & Ho & Hpo & Hco)].
  { destruct old as [o|]; [|left; by apply Hres].
    destruct (decide (qparent o = qparent s)) as [Hpe|Hpne]; [|left; apply Hres; [done|by left]].
    destruct (same_resources o s) eqn:Hsr; [|left; apply Hres; [done|by right]].
    right. exists o. unfold same_resources in Hsr. rewrite !andb_true_iff, !bool_decide_eq_true in Hsr.
    destruct Hsr as [[? ?] ?]. done. }
  2:{ eapply cap_agree; eauto; congruence. }
  apply validate_resources_allowed in Hval as [Hpar Hkids].
  assert (forall d v, nearest Q d (qparent s) v ->
            exists p, qparent s = Some p /\ p <> root /\ child_vs_ancestor Q n s = VAllowed) as Hcva.
  { intros d v Hnear. destruct (qparent s) as [p|] eqn:Hp; [|by apply nearest_top_none in Hnear].
    destruct (decide (p = root)) as [->|Hpr]; [apply nearest_top_none in Hnear; [done|by apply is_top_some]|].
    destruct (Hpar p eq_refl Hpr) as (ps & _ & H & _). eauto. }
  apply (cap_insert c); try done.
  - intros d v Hv Hpos Hnear. unfold capd in *. rewrite Hc2 in *. rewrite Hp2 in Hnear.
    destruct (Hcva d v Hnear) as (p & _ & _ & H). unfold child_vs_ancestor in H.
    destruct (child_vs_ancestor_own Q s) eqn:Hown; try done.
    by apply (child_own_allowed Q s d v).
  - intros d x Hv Hpos (k & sk & Hk & Hpk & Hf). unfold capd in Hpos |- *. rewrite Hc2 in *.
    assert ((k, sk) ∈ children_of Q n) as Hin by by apply elem_children.
    destruct Hkids as [Hnil|[_ Hkids]]; [rewrite Hnil in Hin; by apply elem_of_nil in Hin|].
    eapply children_cap_allowed; eauto.
  - intros d x v Hv Hnpos (k & sk & Hk & Hpk & Hf) Hnear. unfold capd in Hnpos. rewrite Hc2 in Hnpos.
    rewrite Hp2 in Hnear. destruct (Hcva d v Hnear) as (p & _ & _ & H). unfold child_vs_ancestor in H.
    destruct (child_vs_ancestor_own Q s) eqn:Hown; try done.
    by apply (child_desc_allowed Q n s d x v k sk).
Qed.

Lemma cap_delete Q n : CapInv Q -> CapInv (delete n Q).
Proof.
  intros Hinv x sx d v Hx Hxr Hv Hpos Hnear. apply lookup_delete_Some in Hx as [_ Hx].
  apply (Hinv x sx d v); try done. clear -Hnear.
  induction Hnear as [p ps Hr Hp Hpos|p ps v Hr Hp Hpos H IH];
    apply lookup_delete_Some in Hp as [_ Hp]; [by apply nearest_here|by eapply nearest_up].
Qed.

Theorem cap_step c Q r :
  1 <= max_depth c -> TermInv Q -> ShapeInv c Q -> CapInv Q -> CapInv (apply_if_admitted c Q r).
Proof.
  intros Hmax Hterm Hshape Hinv.
  pose proof (shape_step c Q r Hmax Hterm Hshape) as Hshape'.
  unfold apply_if_admitted in *.
  destruct (allowed (verdict_of c Q r)) eqn:Hv; [|done]. apply allowed_eq in Hv.
  destruct r as [n s|n s|n|n|n|n a st]; simpl in *.
  - destruct (Q !! n) as [o|] eqn:Hn; [done|].
    eapply (cu_cap c Q n s (with_status 0 0 false s) None); eauto.
  - destruct (Q !! n) as [o|] eqn:Hn; [|done].
    eapply (cu_cap c Q n s (with_status (qalloc o) (qstate o) (qterm o) s) (Some o)); eauto.
  - by apply cap_delete.
  - destruct (Q !! n) as [o|] eqn:Hn; [|done]. eapply cap_agree; eauto.
  - destruct (Q !! n) as [o|] eqn:Hn; [|done]. destruct (qterm o && negb (bool_decide (n = root)) && negb (bool_decide (n = default_q))); [|done]. by apply cap_delete.
  - destruct (Q !! n) as [o|] eqn:Hn; [|done]. eapply cap_agree; eauto.
Qed.

Lemma nearest_anc_sound Q d : forall par v, nearest Q d par v ->
  forall fuel r, nearest_anc fuel Q par d = Some r -> r = Some v.
Proof.
  intros par v H. induction H as [p ps Hr Hp Hpos|p ps v Hr Hp Hpos H IH]; intros fuel r Hf.
  - destruct fuel; simpl in Hf; [done|]. rewrite bool_decide_eq_false_2 in Hf by done.
    rewrite Hp in Hf. fold (capd ps d) in Hf. rewrite bool_decide_eq_true_2 in Hf by done. congruence.
  - destruct fuel; simpl in Hf; [done|]. rewrite bool_decide_eq_false_2 in Hf by done.
    rewrite Hp in Hf. fold (capd ps d) in Hf. rewrite bool_decide_eq_false_2 in Hf by done. by eapply IH.
Qed.

Lemma caps_okb_sound Q : caps_okb Q = true -> CapInv Q.
Proof.
  unfold caps_okb. rewrite map_allb_spec. intros H n s d v Hn Hr Hv Hpos Hnear.
  specialize (H _ _ Hn). apply orb_true_iff in H as [H|H]; [by apply bool_decide_eq_true in H|].
  rewrite map_allb_spec in H. unfold capd, amount in Hpos |- *.
  destruct (qcap s !! d) as [cv|] eqn:Hc; [|by cbn in Hpos].
  change (0 < cv) in Hpos. change (cv <= v).
  specialize (H _ _ Hc). apply orb_true_iff in H as [H|H].
  { apply orb_true_iff in H as [H|H]; [by rewrite Hv in H|].
    apply negb_true_iff, bool_decide_eq_false in H. done. }
  destruct (nearest_anc (S (S (size Q))) Q (qparent s) d) as [r|] eqn:Hu; [|done].
  rewrite (nearest_anc_sound Q d _ _ Hnear _ _ Hu) in H. by apply bool_decide_eq_true in H.
Qed.

(* ================= the fuel of the modelled recursions suffices ================= *)
(* VFuel is the model's answer where the Go code would not return.  On a queue set satisfying
   ShapeInv it never occurs: fuel_of Q = S (size Q) exceeds every chain of parent links. *)

Lemma reach_set Q n k : reach Q n k ->
  exists X : gset positive, size X = k /\
    forall x, x ∈ X -> is_Some (Q !! x) /\ exists j, reach Q x j /\ (j <= k)%nat.
Proof.
  induction 1 as [n s Hn Ht|n s p k Hn Hp Hr H IH].
  - exists {[n]}. split; [by rewrite size_singleton|]. intros x Hx. apply elem_of_singleton in Hx as ->.
    split; [eauto|]. exists 1%nat. split; [by eapply reach_top|lia].
  - destruct IH as (X & Hsz & HX). exists ({[n]} ∪ X). split.
    + rewrite size_union, size_singleton; [lia|]. apply disjoint_singleton_l. intros Hin.
      destruct (HX _ Hin) as (_ & j & Hj & Hle).
      assert (reach Q n (S k)) as Hn' by by eapply reach_up.
      pose proof (reach_fun _ _ _ _ Hj Hn'). lia.
    + intros x Hx. apply elem_of_union in Hx as [Hx|Hx].
      * apply elem_of_singleton in Hx as ->. split; [eauto|]. exists (S k). split; [by eapply reach_up|lia].
      * destruct (HX _ Hx) as (Hs & j & Hj & Hle). split; [done|]. exists j. split; [done|lia].
Qed.

Lemma reach_size Q n k : reach Q n k -> (k <= size Q)%nat.
Proof.
  intros H. destruct (reach_set _ _ _ H) as (X & <- & HX).
  rewrite <- (size_dom (D := gset positive) Q). apply subseteq_size.
  intros x Hx. apply elem_of_dom. by destruct (HX _ Hx).
Qed.

Lemma nearest_cap_some Q d p k : reach Q p k -> p <> root ->
  forall fuel, (k <= fuel)%nat -> nearest_cap fuel Q (Some p) d <> None.
Proof.
  induction 1 as [n s Hn Ht|n s p2 k Hn Hp Hr H IH]; intros Hnr fuel Hle.
  - destruct fuel; [lia|]. simpl. rewrite bool_decide_eq_false_2 by done. rewrite Hn.
    case_bool_decide; [done|]. destruct (qparent s) as [p2|]; [|by destruct fuel].
    apply is_top_some in Ht as ->. by destruct fuel.
  - destruct fuel; [lia|]. simpl. rewrite bool_decide_eq_false_2 by done. rewrite Hn.
    case_bool_decide; [done|]. rewrite Hp. apply IH; [done|lia].
Qed.

Lemma foldr_opt_max_some {A} (g : A -> option Z) (l : list A) :
  (forall x, x ∈ l -> g x <> None) -> foldr (fun c acc => opt_max (g c) acc) (Some 0) l <> None.
Proof.
  induction l as [|a l IH]; intros H; simpl; [done|].
  destruct (g a) eqn:Ha; [|by exfalso; apply (H a); [left|]].
  destruct (foldr _ _ l) eqn:Hf; [done|]. exfalso. apply IH; [|done]. intros x Hx. apply H. by right.
Qed.

Lemma foldr_names_some (g : positive * qspec -> option (list positive)) (h : positive * qspec -> list positive)
      (kids : list (positive * qspec)) :
  (forall c, c ∈ kids -> g c <> None) ->
  foldr (fun c acc => match g c, acc with
                      | Some a, Some b => Some (h c ++ a ++ b)
                      | _, _ => None
                      end) (Some []) kids <> None.
Proof.
  induction kids as [|k kids IH]; intros H; simpl; [done|].
  destruct (g k) eqn:Hk; [|by exfalso; apply (H k); [left|]].
  destruct (foldr _ _ kids) eqn:Hf; [done|]. exfalso. apply IH; [|done]. intros x Hx. apply H. by right.
Qed.

Section Fuel.
Context (c : cfg) (Q : queues) (Hshape : ShapeInv c Q).

Lemma kid_reach x k cn sc : reach Q x k -> x <> root -> (cn, sc) ∈ children_of Q x ->
  cn <> root /\ reach Q cn (S k).
Proof.
  intros Hx Hxr Hin. apply elem_children in Hin as [Hc Hp].
  destruct Hshape as [(sr & Hsr & Hpr) _]. split.
  - intros ->. rewrite Hsr in Hc. inversion Hc; subst. congruence.
  - by eapply reach_up.
Qed.

Lemma subtree_max_some d : forall fuel x k s, reach Q x k -> x <> root -> (size Q < fuel + k)%nat ->
  subtree_max fuel Q x s d <> None.
Proof.
  induction fuel as [|f IH]; intros x k s Hx Hxr Hlt.
  - pose proof (reach_size _ _ _ Hx). lia.
  - simpl. case_bool_decide; [done|]. apply foldr_opt_max_some. intros [cn sc] Hin. simpl.
    destruct (kid_reach _ _ _ _ Hx Hxr Hin) as [Hcr Hck]. apply (IH cn (S k)); [done..|lia].
Qed.

Lemma desc_names_some : forall fuel x k, reach Q x k -> x <> root -> (size Q < fuel + k)%nat ->
  desc_names fuel Q x <> None.
Proof.
  induction fuel as [|f IH]; intros x k Hx Hxr Hlt.
  - pose proof (reach_size _ _ _ Hx). lia.
  - simpl. apply (foldr_names_some (fun c0 => desc_names f Q (fst c0))). intros [cn sc] Hin. simpl.
    destruct (kid_reach _ _ _ _ Hx Hxr Hin) as [Hcr Hck]. apply (IH cn (S k)); [done..|lia].
Qed.

(* a queue of Q other than root, or a name not in Q (which then has no children) *)
Lemma kid_top n cn sc : n <> root -> (cn, sc) ∈ children_of Q n -> cn <> root /\ exists k, reach Q cn k.
Proof.
  intros Hnr Hin. apply elem_children in Hin as [Hc Hp].
  destruct Hshape as [(sr & Hsr & Hpr) Hall].
  assert (cn <> root) as Hcr. { intros ->. rewrite Hsr in Hc. inversion Hc; subst. congruence. }
  split; [done|]. destruct (Hall _ _ Hc Hcr) as (k & Hk & _). eauto.
Qed.

Lemma subtree_max_top n s d : n <> root -> subtree_max (fuel_of Q) Q n s d <> None.
Proof.
  intros Hnr. unfold fuel_of. simpl. case_bool_decide; [done|]. apply foldr_opt_max_some.
  intros [cn sc] Hin. simpl. destruct (kid_top _ _ _ Hnr Hin) as (Hcr & k & Hk).
  apply (subtree_max_some d _ cn k); [done..|]. pose proof (reach_pos _ _ _ Hk). lia.
Qed.

Lemma desc_names_top n : n <> root -> desc_names (fuel_of Q) Q n <> None.
Proof.
  intros Hnr. unfold fuel_of. simpl. apply (foldr_names_some (fun c0 => desc_names (size Q) Q (fst c0))).
  intros [cn sc] Hin. simpl. destruct (kid_top _ _ _ Hnr Hin) as (Hcr & k & Hk).
  apply (desc_names_some _ cn k); [done..|]. pose proof (reach_pos _ _ _ Hk). lia.
Qed.

Lemma nearest_cap_top p ps d : p <> root -> Q !! p = Some ps -> nearest_cap (fuel_of Q) Q (Some p) d <> None.
Proof.
  intros Hpr Hp. destruct Hshape as [_ Hall]. destruct (Hall _ _ Hp Hpr) as (k & Hk & _).
  apply (nearest_cap_some _ _ _ k); [done..|]. pose proof (reach_size _ _ _ Hk). unfold fuel_of. lia.
Qed.

Lemma first_bad_in l : first_bad l = VAllowed \/ first_bad l ∈ l.
Proof.
  induction l as [|v l IH]; simpl; [by left|]. destruct (allowed v); [|right; by left].
  destruct IH as [IH|IH]; [by left|right; by right].
Qed.

Lemma first_bad_no_fuel {A} (f : A -> verdict) (l : list A) :
  (forall x, f x <> VFuel) -> first_bad (map f l) <> VFuel.
Proof.
  intros H. destruct (first_bad_in (map f l)) as [E|E]; [by rewrite E|].
  intros Hf. rewrite Hf in E. apply elem_of_list_In, in_map_iff in E as (x & Hx & _). by apply (H x).
Qed.

Lemma validate_resources_no_fuel n s : n <> root -> validate_resources Q n s <> VFuel.
Proof.
  intros Hnr. unfold validate_resources, validate_resources_with.
  assert (children_constraints Q s (children_of Q n) <> VFuel) as Hkc.
  { unfold children_constraints.
    destruct (first_bad _) eqn:E; try done.
    - by destruct (sum_check _ _ && sum_check _ _).
    - exfalso. revert E. apply first_bad_no_fuel. intros d.
      destruct (foldr _ _ (children_of Q n)) eqn:Hf; [by case_bool_decide|]. exfalso. revert Hf.
      apply (foldr_opt_max_some (fun c0 : positive * qspec => subtree_max (fuel_of Q) Q (fst c0) (snd c0) d)).
      intros [cn sc] Hin. cbn [fst snd]. destruct (kid_top _ _ _ Hnr Hin) as (Hcr & k & Hk).
      apply (subtree_max_some d _ cn k); [done..|]. unfold fuel_of. lia. }
  assert (forall p ps, qparent s = Some p -> p <> root -> Q !! p = Some ps -> child_vs_ancestor Q n s <> VFuel) as Hcva.
  { intros p ps Hp Hpr Hps. unfold child_vs_ancestor.
    assert (child_vs_ancestor_own Q s <> VFuel) as Hown.
    { unfold child_vs_ancestor_own. apply first_bad_no_fuel. intros d. rewrite Hp.
      pose proof (nearest_cap_top p ps d Hpr Hps).
      destruct (nearest_cap _ Q (Some p) d) as [[up|]|]; [by case_bool_decide|done|done]. }
    destruct (child_vs_ancestor_own Q s) eqn:E; try done.
    unfold child_vs_ancestor_desc. pose proof (desc_names_top n Hnr).
    destruct (desc_names _ Q n) as [names|]; [|done].
    apply first_bad_no_fuel. intros d. rewrite Hp.
    pose proof (nearest_cap_top p ps d Hpr Hps). pose proof (subtree_max_top n s d Hnr).
    destruct (subtree_max _ Q n s d); [|done].
    destruct (nearest_cap _ Q (Some p) d) as [[up|]|]; [by case_bool_decide|done|done]. }
  destruct (qparent s) as [p|] eqn:Hp.
  - case_bool_decide as Hpr.
    + destruct (children_of Q n) eqn:E; [done|]. exact Hkc.
    + destruct (Q !! p) as [ps|] eqn:Hps; [|done].
      pose proof (Hcva p ps eq_refl Hpr Hps) as Hc.
      destruct (child_vs_ancestor Q n s) eqn:Ec; try done.
      unfold siblings_sum. destruct (sum_check _ _ && sum_check _ _); [|done].
      destruct (children_of Q n) eqn:E; [done|]. exact Hkc.
  - destruct (children_of Q n) eqn:E; [done|]. exact Hkc.
Qed.

Lemma depth_walk_no_fuel rem : forall self parent, depth_walk rem Q self parent <> inl VFuel.
Proof.
  induction rem as [|r IH]; intros self [p|]; simpl; try done.
  - case_bool_decide; [done|]. by case_bool_decide.
  - case_bool_decide; [done|]. case_bool_decide; [done|]. destruct (Q !! p); [apply IH|done].
Qed.

Lemma validate_hier_no_fuel n s : validate_hier c Q n s <> VFuel.
Proof.
  unfold validate_hier, validate_hier_with. destruct (qparent s) as [p|]; [|done].
  case_bool_decide; [done|]. case_bool_decide; [done|]. case_bool_decide; [done|].
  pose proof (depth_walk_no_fuel (Z.to_nat (max_depth c - 1)) n (Some p)).
  destruct (depth_walk _ Q n (Some p)) as [v|rem]; [by intros ->|].
  destruct (_ <? _)%nat; [done|]. destruct (Q !! p) as [ps|]; [|done].
  destruct (true && qterm ps); [done|]. by destruct (_ && _).
Qed.

Theorem no_fuel_verdict r : verdict_of c Q r <> VFuel.
Proof.
  assert (forall n s old, admit_cu c Q n s old <> VFuel) as Hcu.
  { intros n s old. unfold admit_cu, admit_cu_with. destruct (negb _); [done|].
    set (pc := match old with None => true | Some o => negb (bool_decide (qparent o = qparent s)) end).
    pose proof (validate_hier_no_fuel n s) as Hh.
    assert ((if pc then validate_hier c Q n s else VAllowed) <> VFuel) as Hh2 by (by destruct pc).
    destruct (if pc then validate_hier c Q n s else VAllowed) eqn:E; try done.
    destruct (root_prot c && bool_decide (n = root) && _); [done|].
    destruct (decide (n = root)) as [->|Hnr]; [by rewrite bool_decide_eq_true_2|].
    rewrite (bool_decide_eq_false_2 (n = root)) by done. simpl.
    destruct (_ || _); [by apply validate_resources_no_fuel|done]. }
  destruct r as [n s|n s|n|n|n|n a st]; simpl.
  - apply Hcu.
  - destruct (Q !! n); [apply Hcu|done].
  - unfold admit_delete. destruct (_ || _); [done|]. destruct (Q !! n); [|done].
    destruct (_ && _); [done|]. by destruct (negb _).
  - unfold admit_delete. destruct (_ || _); [done|]. destruct (Q !! n); [|done].
    destruct (_ && _); [done|]. by destruct (negb _).
  - by destruct (Q !! n).
  - by destruct (Q !! n).
Qed.
End Fuel.

(* ================= the invariant along histories ================= *)

(* ---------- a terminating queue has no children ---------- *)

Lemma hier_parent_not_term c Q n s p :
  validate_hier c Q n s = VAllowed -> qparent s = Some p -> p <> root ->
  p <> n /\ exists ps, Q !! p = Some ps /\ qterm ps = false.
Proof.
  unfold validate_hier, validate_hier_with. intros H Hp Hpr. rewrite Hp in H.
  case_bool_decide; [done|]. rewrite (bool_decide_eq_false_2 (p = root)) in H by done.
  case_bool_decide as Hpn; [done|]. split; [done|].
  destruct (depth_walk _ Q n (Some p)) as [v|rem] eqn:Hw; [subst; by apply depth_walk_not_allowed in Hw|].
  destruct (_ <? _)%nat; [done|]. destruct (Q !! p) as [ps|]; [|done]. exists ps. split; [done|].
  destruct (qterm ps); [done|done].
Qed.

Lemma term_insert Q n s2 :
  TermInv Q ->
  (forall t st, Q !! t = Some st -> t <> root -> qterm st = true -> t <> n -> qparent s2 <> Some t) ->
  (qterm s2 = true -> n <> root ->
     qparent s2 <> Some n /\ forall m sm, Q !! m = Some sm -> m <> n -> qparent sm <> Some n) ->
  TermInv (<[n := s2]> Q).
Proof.
  intros Hinv Hnew Hself t st Ht Htr Htt m sm Hm.
  destruct (decide (t = n)) as [->|Htn].
  - rewrite lookup_insert in Ht. inversion Ht; subst st. destruct (Hself Htt Htr) as [Hs Hk].
    destruct (decide (m = n)) as [->|Hmn].
    + rewrite lookup_insert in Hm. by inversion Hm; subst.
    + rewrite lookup_insert_ne in Hm by done. by apply (Hk m sm).
  - rewrite lookup_insert_ne in Ht by done.
    destruct (decide (m = n)) as [->|Hmn].
    + rewrite lookup_insert in Hm. inversion Hm; subst sm. by apply (Hnew t st).
    + rewrite lookup_insert_ne in Hm by done. by apply (Hinv t st Ht Htr Htt m sm).
Qed.

Lemma term_delete Q n : TermInv Q -> TermInv (delete n Q).
Proof.
  intros Hinv t st Ht Htr Htt m sm Hm. apply lookup_delete_Some in Ht as [_ Ht], Hm as [_ Hm].
  by apply (Hinv t st Ht Htr Htt m sm).
Qed.

Lemma term_step c Q r : TermInv Q -> TermInv (apply_if_admitted c Q r).
Proof.
  intros Hinv. unfold apply_if_admitted.
  destruct (allowed (verdict_of c Q r)) eqn:Hv; [|done]. apply allowed_eq in Hv.
  destruct r as [n s|n s|n|n|n|n a st]; simpl in *.
  - (* CREATE: the stored object is not terminating; its parent is not terminating *)
    destruct (Q !! n) as [o|] eqn:Hn; [done|]. apply admit_cu_allowed in Hv as (_ & Hh & _). specialize (Hh I).
    apply term_insert; [done| |done]. simpl. intros t st Ht Htr Htt Htn Hp.
    destruct (hier_parent_not_term c Q n s t Hh Hp Htr) as (_ & ps & Hps & Hf). congruence.
  - (* UPDATE: keeps the flag; a new parent is not terminating *)
    destruct (Q !! n) as [o|] eqn:Hn; [|done]. apply admit_cu_allowed in Hv as (_ & Hh & _).
    apply term_insert; [done| |]; simpl.
    + intros t st Ht Htr Htt Htn Hp.
      destruct (decide (qparent o = qparent s)) as [Heq|Hne].
      * apply (Hinv t st Ht Htr Htt n o Hn). congruence.
      * destruct (hier_parent_not_term c Q n s t (Hh Hne) Hp Htr) as (_ & ps & Hps & Hf). congruence.
    + intros Hto Hnr. split; [|intros m sm Hm _; by apply (Hinv n o Hn Hnr Hto m sm)].
      intros Hp. destruct (decide (qparent o = qparent s)) as [Heq|Hne].
      * apply (Hinv n o Hn Hnr Hto n o Hn). congruence.
      * by destruct (hier_parent_not_term c Q n s n (Hh Hne) Hp Hnr) as (? & _).
  - by apply term_delete.
  - (* DELETE held by a finalizer: admitted only for a queue without children *)
    destruct (Q !! n) as [o|] eqn:Hn; [|done].
    apply admit_delete_allowed in Hv as (Hnr & _ & s & Hs & _ & Hkids).
    apply term_insert; [done| |]; simpl.
    + intros t st Ht Htr Htt Htn. by apply (Hinv t st Ht Htr Htt n o Hn).
    + intros _ _. split; [by eapply children_nil|]. intros m sm Hm _. by eapply children_nil.
  - destruct (Q !! n) as [o|] eqn:Hn; [|done]. destruct (_ && _); [|done]. by apply term_delete.
  - destruct (Q !! n) as [o|] eqn:Hn; [|done].
    apply term_insert; [done| |]; simpl.
    + intros t st' Ht Htr Htt Htn. by apply (Hinv t st' Ht Htr Htt n o Hn).
    + intros Hto Hnr. split; [by apply (Hinv n o Hn Hnr Hto n o Hn)|].
      intros m sm Hm _. by apply (Hinv n o Hn Hnr Hto m sm).
Qed.

Definition TreeInv (c : cfg) (Q : queues) : Prop :=
  ShapeInv c Q /\ PerQueueInv Q /\ SumInv Q /\ CapInv Q /\ TermInv Q.

Lemma tree_step c Q r :
  1 <= max_depth c -> TreeInv c Q -> TreeInv c (apply_if_admitted c Q r).
Proof.
  intros Hmax (Hs & Hp & Hsum & Hcap & Hterm). split; [|split; [|split; [|split]]].
  - by apply shape_step.
  - by apply per_queue_step.
  - by apply sum_step.
  - by apply cap_step.
  - by apply term_step.
Qed.

Theorem tree_history c rs : forall Q0,
  1 <= max_depth c -> TreeInv c Q0 -> TreeInv c (run_history c Q0 rs).
Proof.
  unfold run_history. induction rs as [|r rs IH]; intros Q0 Hmax H0; simpl; [done|].
  apply IH; [done|]. by apply tree_step.
Qed.

Theorem shape_history c rs : forall Q0,
  1 <= max_depth c -> TermInv Q0 -> ShapeInv c Q0 -> ShapeInv c (run_history c Q0 rs).
Proof.
  unfold run_history. induction rs as [|r rs IH]; intros Q0 Hmax Ht H0; simpl; [done|].
  apply IH; [done|by apply term_step|by apply shape_step].
Qed.

(* Status (allocated pods, state Open / Closed / Closing / Unknown) is no part of any clause:
   whatever a status update writes, the invariant stays (children count in the sums whatever
   their state) *)
Corollary tree_status_update c Q n a st :
  1 <= max_depth c -> TreeInv c Q -> TreeInv c (apply_req Q (EnvStatus n a st)).
Proof.
  intros Hmax H. pose proof (tree_step c Q (EnvStatus n a st) Hmax H) as Hs.
  unfold apply_if_admitted in Hs. simpl in *. destruct (Q !! n); simpl in Hs; done.
Qed.

Lemma term_okb_sound Q : term_okb Q = true -> TermInv Q.
Proof.
  unfold term_okb. rewrite map_allb_spec. intros H n s Hn Hr Ht m sm Hm Hp.
  specialize (H _ _ Hn). rewrite (bool_decide_eq_false_2 (n = root)), Ht in H by done. simpl in H.
  rewrite forallb_forall in H.
  assert (In (m, sm) (map_to_list Q)) as Hin by by apply elem_of_list_In, elem_of_map_to_list.
  specialize (H _ Hin). simpl in H. apply negb_true_iff, bool_decide_eq_false in H. done.
Qed.

Lemma tree_okb_sound c Q : tree_okb c Q = true -> TreeInv c Q.
Proof.
  unfold tree_okb. rewrite !andb_true_iff. intros [[[[Hs Hp] Hsum] Hcap] Hterm].
  split; [by apply shape_okb_sound|]. split; [by apply per_okb_sound|].
  split; [by apply sums_okb_sound|]. split; [by apply caps_okb_sound|by apply term_okb_sound].
Qed.

(* ================= non-vacuity and the record of the defects ================= *)

Definition cpu_l (v : Z) : list (positive * Z) := [(cpu_d, v)].
Definition q_ (p : option positive) (c d g : list (positive * Z)) : qspec :=
  mkQ p 0 0 false (list_to_map c) (list_to_map d) (list_to_map g).

(* root <- 3 (cpu cap 8000, deserved 6000, guarantee 4000) <- 4 <- 5 ; default *)
Definition ex_cfg : cfg := mkCfg 5 true true.
Definition ex_Q : queues :=
  list_to_map [(1, q_ None [] [] []); (2, q_ (Some 1) [] [] []);
               (3, q_ (Some 1) (cpu_l 8000%Z) (cpu_l 6000%Z) (cpu_l 4000%Z));
               (4, q_ (Some 3) (cpu_l 4000%Z) (cpu_l 3000%Z) (cpu_l 2000%Z));
               (5, q_ (Some 4) [] (cpu_l 1000%Z) (cpu_l 1000%Z))]%positive.

Example ex_tree_inv : TreeInv ex_cfg ex_Q.
Proof. apply tree_okb_sound. by vm_compute. Qed.

(* a history over it in which requests of every kind are admitted and others are refused *)
Definition ex_history : list req :=
  [Create 6 (q_ (Some 3) (cpu_l 2000%Z) (cpu_l 2000%Z) (cpu_l 2000%Z));     (* fits exactly next to 4 *)
   EnvStatus 4 (-1)%Z 2%Z;                                           (* the queue controller closes 4 *)
   Create 7 (q_ (Some 3) [] (cpu_l 1000%Z) (cpu_l 1000%Z));              (* refused: guarantee sum 5000 > 4000, closed or not *)
   EnvStatus 4 (-1)%Z 3%Z;                                           (* ... 4 is Closing *)
   Update 4 (q_ (Some 3) (cpu_l 4000%Z) (cpu_l 3000%Z) (cpu_l 1000%Z));    (* refused: the object carries state Closing *)
   EnvStatus 4 (-1)%Z 1%Z;                                           (* open again *)
   Update 5 (q_ (Some 6) [] (cpu_l 1000%Z) (cpu_l 1000%Z));              (* re-parent the leaf 5 under 6 *)
   Update 3 (q_ (Some 5) (cpu_l 8000%Z) (cpu_l 6000%Z) (cpu_l 4000%Z));     (* refused: under its own descendant *)
   Update 1 (q_ (Some 3) [] [] []);                                 (* refused: root cannot have a parent *)
   Create 8 (q_ (Some 2) [] [] []);                                 (* a queue without capability under default *)
   Create 9 (q_ (Some 8) (cpu_l 3000%Z) [] []);                        (* ... with a child of capability 3000 *)
   Update 8 (q_ (Some 6) [] [] []);                                 (* refused: 9 would end under 6 (2000) *)
   Delete 4;                                                        (* 4 has no children any more *)
   Delete 3]%positive.                                              (* refused: 3 has children *)

Example ex_history_verdicts :
  verdicts ex_cfg ex_Q ex_history =
  [VAllowed; VAllowed; VSiblingSum; VAllowed; VSpec; VAllowed; VAllowed; VCycle; VRootParent; VAllowed; VAllowed;
   VCapAncestor; VAllowed; VDelChildren].
Proof. by vm_compute. Qed.

(* the deletion clause "a queue that has allocated pods is not deleted" in the DEFAULT configuration
   (EnableQueueAllocatedPodsCheck = false, options.go): refuted on the current code — queue 5 of
   ex_Q with 3 allocated pods is deleted (known finding C10-delete-allocated-pods-flag-off) *)
Definition default_cfg : cfg := mkCfg 5 false true.

Theorem delete_allocated_without_flag_refuted :
  exists c Q n s, TreeInv c Q /\ alloc_check c = false /\ Q !! n = Some s /\ qalloc s <> 0 /\
                  verdict_of c Q (Delete n) = VAllowed /\ (apply_if_admitted c Q (Delete n)) !! n = None.
Proof.
  exists default_cfg, (apply_req ex_Q (EnvStatus 5%positive 3 (-1))), 5%positive,
         (with_status 3 0 false (q_ (Some 4%positive) [] (cpu_l 1000) (cpu_l 1000))).
  split; [apply tree_okb_sound; by vm_compute|]. split; [done|]. split; [by vm_compute|].
  split; [done|]. split; by vm_compute.
Qed.

(* with the flag on it is refused *)
Example delete_allocated_with_flag_refused :
  verdict_of ex_cfg (apply_req ex_Q (EnvStatus 5%positive 3 (-1))) (Delete 5%positive) = VDelAllocated.
Proof. by vm_compute. Qed.

(* the bootstrap queue set {root, default} of a fresh cluster satisfies the invariant *)
Example bootstrap_tree_inv :
  TreeInv default_cfg (list_to_map [(root, q_ None [] [] []); (default_q, q_ (Some root) [] [] [])]) /\
  TreeInv default_cfg (list_to_map [(root, q_ None [] [] []); (default_q, q_ None [] [] [])]).
Proof. split; apply tree_okb_sound; by vm_compute. Qed.

(* the root queue is carved out of the sums and of the capability bound BY THE CODE
   (validateHierarchicalQueueResources skips a parent named root; findNearestAncestorCapability
   stops below root; root's own updates are never validated against its children): with explicit
   amounts on root, top-level queues may exceed them.  (The scheduler overwrites root's guarantee
   and deserved with the sums of its children and treats an unset root capability as infinite,
   capacity.go 1331-1348, 1528-1530.) *)
Definition rootx_Q : queues :=
  list_to_map [(root, q_ None (cpu_l 1000) (cpu_l 1000) (cpu_l 1000)); (default_q, q_ (Some root) [] [] [])].

Theorem root_not_enforced_refuted :
  exists c Q n s sr d, TreeInv c Q /\ Q !! root = Some sr /\ qparent s = Some root /\
    verdict_of c Q (Create n s) = VAllowed /\
    amount (qguar sr) d < csum qguar (apply_if_admitted c Q (Create n s)) root d /\
    amount (qdes sr) d < csum qdes (apply_if_admitted c Q (Create n s)) root d /\
    0 < capd sr d /\ capd sr d < capd s d.
Proof.
  exists default_cfg, rootx_Q, 3%positive, (q_ (Some root) (cpu_l 5000) (cpu_l 5000) (cpu_l 5000)),
         (q_ None (cpu_l 1000) (cpu_l 1000) (cpu_l 1000)), cpu_d.
  split; [apply tree_okb_sound; by vm_compute|]. repeat split; by vm_compute.
Qed.

(* Serialised admission is a hypothesis of every history theorem: [run_history] validates each
   request against the set produced by the previous ones.  Two requests validated against the SAME
   set (concurrent admissions / a lister that lags) are both admitted and break the invariant:
   a cycle, an over-subscribed parent, a dangling parent. *)
Definition conc_Q : queues :=
  list_to_map [(1, q_ None [] [] []); (3, q_ (Some 1) [] [] []); (4, q_ (Some 1) [] [] []);
               (7, q_ (Some 1) [] (cpu_l 10000%Z) (cpu_l 10000%Z))]%positive.

Theorem concurrent_cycle_refuted :
  exists c Q r1 r2, TreeInv c Q /\ 1 <= max_depth c /\ verdict_of c Q r1 = VAllowed /\
    verdict_of c Q r2 = VAllowed /\ ~ ShapeInv c (apply_req (apply_req Q r1) r2).
Proof.
  exists default_cfg, conc_Q, (Update 3 (q_ (Some 4) [] [] []))%positive,
         (Update 4 (q_ (Some 3) [] [] []))%positive.
  split; [apply tree_okb_sound; by vm_compute|]. split; [done|]. split; [by vm_compute|]. split; [by vm_compute|].
  intros Hs. eapply (shape_acyclic _ _ 3%positive); [exact Hs|by vm_compute|done|].
  eapply anc_trans; [eapply (anc_parent _ 3 _ 4)%positive; [by vm_compute|done|done]|].
  eapply (anc_parent _ 4 _ 3)%positive; [by vm_compute|done|done].
Qed.

Theorem concurrent_sums_refuted :
  exists c Q r1 r2, TreeInv c Q /\ 1 <= max_depth c /\ verdict_of c Q r1 = VAllowed /\
    verdict_of c Q r2 = VAllowed /\ ~ SumInv (apply_req (apply_req Q r1) r2).
Proof.
  exists default_cfg, conc_Q, (Create 5 (q_ (Some 7) [] (cpu_l 6000%Z) (cpu_l 6000%Z)))%positive,
         (Create 6 (q_ (Some 7) [] (cpu_l 6000%Z) (cpu_l 6000%Z)))%positive.
  split; [apply tree_okb_sound; by vm_compute|]. split; [done|]. split; [by vm_compute|]. split; [by vm_compute|].
  intros [Hg _].
  specialize (Hg 7%positive (q_ (Some 1%positive) [] (cpu_l 10000) (cpu_l 10000))).
  assert (12000 <= 10000) as Habs; [|lia].
  assert (csum qguar (apply_req (apply_req conc_Q (Create 5 (q_ (Some 7) [] (cpu_l 6000%Z) (cpu_l 6000%Z)))%positive)
                        (Create 6 (q_ (Some 7) [] (cpu_l 6000%Z) (cpu_l 6000%Z)))%positive) 7%positive cpu_d = 12000) as <- by by vm_compute.
  change 10000 with (amount (qguar (q_ (Some 1%positive) [] (cpu_l 10000) (cpu_l 10000))) cpu_d).
  apply Hg; [by vm_compute|done|done].
Qed.

Theorem concurrent_dangling_refuted :
  exists c Q r1 r2, TreeInv c Q /\ 1 <= max_depth c /\ verdict_of c Q r1 = VAllowed /\
    verdict_of c Q r2 = VAllowed /\ ~ ShapeInv c (apply_req (apply_req Q r1) r2) /\
    capacity_ready (apply_req (apply_req Q r1) r2) = false.
Proof.
  exists default_cfg, conc_Q, (Delete 4)%positive, (Create 5 (q_ (Some 4) [] [] []))%positive.
  split; [apply tree_okb_sound; by vm_compute|]. split; [done|]. split; [by vm_compute|]. split; [by vm_compute|].
  split; [|by vm_compute].
  intros Hs. pose proof (shape_capacity_ready _ _ Hs) as Hr. by vm_compute in Hr.
Qed.

(* The fourth defect, repaired by the fourth fix (a terminating queue takes no new children): the
   validation as it was admits a CREATE under a queue whose DELETE was admitted and whose finalizer is
   pending; when the finalizer is removed the child's parent is gone. *)
Definition term_Q : queues :=
  list_to_map [(1, q_ None [] [] []); (3, with_status 0 0 true (q_ (Some 1) [] [] []))]%positive.
Definition term_history : list req :=
  [DeleteFin 3; Create 4 (q_ (Some 3) [] [] []); EnvGone 3]%positive.

Theorem terminating_parent_dangling_refuted :
  exists c Q n s p ps, TreeInv c Q /\ 1 <= max_depth c /\ Q !! p = Some ps /\ qterm ps = true /\
    qparent s = Some p /\ validate_hier_preterm c Q n s = VAllowed /\
    ~ ShapeInv c (delete p (<[n := s]> Q)) /\ capacity_ready (delete p (<[n := s]> Q)) = false.
Proof.
  exists default_cfg, term_Q, 4%positive, (q_ (Some 3%positive) [] [] []), 3%positive,
         (with_status 0 0 true (q_ (Some 1%positive) [] [] [])).
  split; [apply tree_okb_sound; by vm_compute|]. split; [done|]. split; [by vm_compute|]. split; [done|].
  split; [done|]. split; [by vm_compute|]. split; [|by vm_compute].
  intros Hs. pose proof (shape_capacity_ready _ _ Hs) as Hr. by vm_compute in Hr.
Qed.

(* the current code refuses the CREATE, and the whole history keeps the tree *)
Example postfix_terminating_parent_refused :
  verdicts default_cfg (list_to_map [(1, q_ None [] [] []); (3, q_ (Some 1) [] [] [])])%positive term_history
  = [VAllowed; VParentTerminating; VAllowed].
Proof. by vm_compute. Qed.

(* DELETE of a queue that carries a finalizer is validated exactly like DELETE *)
Lemma delete_fin_guard c Q n :
  verdict_of c Q (DeleteFin n) = VAllowed ->
  n <> root /\ n <> default_q /\
  exists s, Q !! n = Some s /\ (alloc_check c = true -> qalloc s = 0) /\
            forall m sm, Q !! m = Some sm -> qparent sm <> Some n.
Proof. exact (delete_guard c Q n). Qed.

Lemma delete_fin_guardb_sound c Q n :
  delete_guardb c Q (DeleteFin n) = true ->
  n <> root /\ n <> default_q /\
  exists s, Q !! n = Some s /\ (alloc_check c = true -> qalloc s = 0) /\
            forall m sm, Q !! m = Some sm -> qparent sm <> Some n.
Proof. exact (delete_guardb_sound c Q n). Qed.

(* law 107's guard means: the queue an admitted DELETE (either kind) targets has no allocated pods *)
Lemma delete_allocb_sound Q n s :
  (delete_allocb Q (Delete n) = true \/ delete_allocb Q (DeleteFin n) = true) -> Q !! n = Some s -> qalloc s = 0.
Proof.
  unfold delete_allocb. intros [H|H] Hn; rewrite Hn in H; by apply bool_decide_eq_true in H.
Qed.

(* ... and with the flag on every admitted DELETE passes it *)
Lemma delete_allocb_flag_on c Q n :
  alloc_check c = true -> verdict_of c Q (Delete n) = VAllowed ->
  delete_allocb Q (Delete n) = true /\ delete_allocb Q (DeleteFin n) = true.
Proof.
  intros Hf H. apply delete_guard in H as (_ & _ & s & Hn & Ha & _).
  unfold delete_allocb. rewrite Hn. split; apply bool_decide_eq_true; by apply Ha.
Qed.

(* F3, first half: the validation as it was before the fix admits a.parent := c on
   root <- a <- b <- c, and the result is not a tree *)
Definition f3_Q : queues :=
  list_to_map [(1, q_ None [] [] []); (3, q_ (Some 1) [] [] []); (4, q_ (Some 3) [] [] []);
               (5, q_ (Some 4) [] [] [])]%positive.

Theorem prefix_cycle_refuted :
  exists c Q n s, TreeInv c Q /\ 1 <= max_depth c /\ validate_hier_prefix c Q n s = VAllowed /\
                  ~ ShapeInv c (<[n := s]> Q).
Proof.
  exists ex_cfg, f3_Q, 3%positive, (q_ (Some 5%positive) [] [] []).
  split; [apply tree_okb_sound; by vm_compute|]. split; [done|]. split; [by vm_compute|].
  intros Hs. eapply (shape_acyclic _ _ 3%positive); [exact Hs|by vm_compute|done|].
  eapply anc_trans; [eapply (anc_parent _ 3 _ 5)%positive; [by vm_compute|done|done]|].
  eapply anc_trans; [eapply (anc_parent _ 5 _ 4)%positive; [by vm_compute|done|done]|].
  eapply (anc_parent _ 4 _ 3)%positive; [by vm_compute|done|done].
Qed.

Example postfix_cycle_rejected :
  validate_hier ex_cfg f3_Q 3%positive (q_ (Some 5%positive) [] [] []) = VCycle.
Proof. by vm_compute. Qed.

(* F3, second half: before the fix the depth of a moved subtree was not checked:
   max depth 3, root <- 3 <- 4 <- 5 and root <- 6 <- 7; 3.parent := 7 puts 5 at depth 5 *)
Definition f3b_cfg : cfg := mkCfg 3 false false.
Definition f3b_Q : queues :=
  list_to_map [(1, q_ None [] [] []); (3, q_ None [] [] []); (4, q_ (Some 3) [] [] []);
               (5, q_ (Some 4) [] [] []); (6, q_ (Some 1) [] [] []); (7, q_ (Some 6) [] [] [])]%positive.

Theorem prefix_depth_refuted :
  exists c Q n s, TreeInv c Q /\ 1 <= max_depth c /\ validate_hier_prefix c Q n s = VAllowed /\
                  ~ ShapeInv c (<[n := s]> Q).
Proof.
  exists f3b_cfg, f3b_Q, 3%positive, (q_ (Some 7%positive) [] [] []).
  split; [apply tree_okb_sound; by vm_compute|]. split; [done|]. split; [by vm_compute|].
  intros [_ Hs]. destruct (Hs 5%positive (q_ (Some 4%positive) [] [] [])) as (k & Hk & Hle); [by vm_compute|done|].
  assert (reach (<[3%positive := q_ (Some 7%positive) [] [] []]> f3b_Q) 5%positive 5) as H5.
  { eapply (reach_up _ 5 _ 4)%positive; [by vm_compute|done|done|].
    eapply (reach_up _ 4 _ 3)%positive; [by vm_compute|done|done|].
    eapply (reach_up _ 3 _ 7)%positive; [by vm_compute|done|done|].
    eapply (reach_up _ 7 _ 6)%positive; [by vm_compute|done|done|].
    eapply (reach_top _ 6)%positive; [by vm_compute|done]. }
  pose proof (reach_fun _ _ _ _ Hk H5). subst k. simpl in Hle. lia.
Qed.

Example postfix_depth_rejected :
  validate_hier f3b_cfg f3b_Q 3%positive (q_ (Some 7%positive) [] [] []) = VSubtreeDepth.
Proof. by vm_compute. Qed.

(* the second defect, repaired by the second fix: validateChildAgainstAncestor with its first
   loop only admits a re-parenting that puts a descendant under an ancestor with a smaller capability *)
Definition capx_Q : queues :=
  list_to_map [(1, q_ None [] [] []); (3, q_ (Some 1) (cpu_l 100000%Z) [] []); (4, q_ (Some 3) [] [] []);
               (5, q_ (Some 4) (cpu_l 50000%Z) [] []); (6, q_ (Some 1) (cpu_l 10000%Z) [] [])]%positive.

Theorem precap_reparent_refuted :
  exists c Q n s o, TreeInv c Q /\ 1 <= max_depth c /\ Q !! n = Some o /\
                    admit_cu_precap c Q n s (Some o) = VAllowed /\ ~ CapInv (<[n := s]> Q).
Proof.
  exists ex_cfg, capx_Q, 4%positive, (q_ (Some 6%positive) [] [] []), (q_ (Some 3%positive) [] [] []).
  split; [apply tree_okb_sound; by vm_compute|]. split; [done|]. split; [by vm_compute|].
  split; [by vm_compute|].
  intros H.
  specialize (H 5%positive (q_ (Some 4%positive) (cpu_l 50000) [] []) 2%positive 10000).
  assert (50000 <= 10000) as Habs; [|lia].
  apply H; [by vm_compute|done|done|by vm_compute|].
  eapply (nearest_up _ _ 4%positive); [done|by vm_compute|by vm_compute|].
  change 10000 with (capd (q_ (Some 1%positive) (cpu_l 10000) [] []) 2%positive).
  eapply (nearest_here _ _ 6%positive); [done|by vm_compute|by vm_compute].
Qed.

Example postfix_capability_rejected :
  admit_cu ex_cfg capx_Q 4%positive (q_ (Some 6%positive) [] [] []) (Some (q_ (Some 3%positive) [] [] [])) = VCapAncestor.
Proof. by vm_compute. Qed.

(* the third defect, repaired by the third fix: the root queue could be given a parent *)
Example root_parent_rejected :
  validate_hier ex_cfg ex_Q root (q_ (Some 3%positive) [] [] []) = VRootParent.
Proof. by vm_compute. Qed.
