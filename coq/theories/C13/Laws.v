(* C13 — executable forms of the property, evaluated on what the IMPLEMENTATION did:
   each law takes the state before an event, the event, and the state / outcome the
   real controller produced.  None of them calls the model's step function; they are
   declarative tables and quantified checks over the observed objects.  Lemmas.v
   proves every one of them of the model's own step, for all states and events. *)
From stdpp Require Import gmap.
From Coq Require Import ZArith List.
From V Require Import C13.Model.
Import ListNotations.
Open Scope Z_scope.

Definition sst (m : qmap) (q : positive) : option qstate := q_state <$> m !! q.
Definition scbp (m : qmap) (q : positive) : option bool :=
  match m !! q with Some o => cbp_of (q_ann o) | None => None end.
Definition names (s s' : st) : list positive :=
  map fst (map_to_list (srv s)) ++ map fst (map_to_list (srv s')) ++ map fst (map_to_list (lst s)).

(* the request a processing event (with or without an injected API fault) processes, with
   the lister's object for its queue *)
Definition proc_of (s : st) (e : ev) : option (req * qobj) :=
  match e with
  | EProc i | EProcF i _ =>
      match nth_error (wq s) i with
      | Some r => match lst s !! r_q r with Some v => Some (r, v) | None => None end
      | None => None end
  | _ => None
  end.
(* the same for a step WITHOUT an injected fault (the laws that promise a result) *)
Definition proc_of_clean (s : st) (e : ev) : option (req * qobj) :=
  match e with
  | EProc _ => proc_of s e
  | _ => None
  end.

(* the state/*.go tables read as "target state": Open/Close/other action on a queue
   whose lister state is x and whose PodGroup index holds n keys *)
Definition target (x : qstate) (a : act) (n : nat) : qstate :=
  match a with
  | AOpen => SOpen
  | AClose => match x with SClosed => SClosed | _ => closeish n end
  | _ => match x with
         | SEmpty | SOpen => SOpen
         | SClosing => closeish n
         | other => other
         end
  end.

(* a server-side state change of an existing queue *)
Definition changed (s s' : st) (q : positive) : bool :=
  match sst (srv s) q, sst (srv s') q with
  | Some a, Some b => negb (bool_decide (a = b))
  | _, _ => false
  end.

Definition fresh (s : st) (q : positive) : bool := bool_decide (lst s !! q = srv s !! q).

(* L1: the state of a queue changes only while a request FOR THAT QUEUE is processed,
   and then to the table's target; an Open/Close target needs an Open/Close request,
   a Sync request only completes "" -> Open and Closing -> Closed (empty index) or
   re-asserts the state the lister shows *)
Definition law_only_by_request (s : st) (e : ev) (s' : st) : bool :=
  forallb (fun q =>
    implb (changed s s' q)
      match proc_of s e with
      | Some (r, v) =>
          bool_decide (r_q r = q) &&
          bool_decide (sst (srv s') q = Some (target (q_state v) (r_act r) (length (pgs_of (idx s) q))))
      | None => false
      end) (names s s').

(* L1 under freshness: with an up-to-date lister, a request that is not an Open/Close
   request only moves "" -> Open and Closing -> Closed *)
Definition law_sync_moves (s : st) (e : ev) (s' : st) : bool :=
  forallb (fun q =>
    implb (changed s s' q && fresh s q)
      match proc_of s e with
      | Some (r, v) =>
          match r_act r with
          | AOpen | AClose => true
          | _ => (bool_decide (sst (srv s) q = Some SEmpty) && bool_decide (sst (srv s') q = Some SOpen)) ||
                 (bool_decide (sst (srv s) q = Some SClosing) && bool_decide (sst (srv s') q = Some SClosed))
          end
      | None => false
      end) (names s s').

(* L2: processing a Close request on an up-to-date, not yet closed, non-root queue
   without error leaves it Closing when the index has PodGroups, Closed when empty *)
Definition law_close_result (s : st) (e : ev) (s' : st) (o : outcome) : bool :=
  match proc_of_clean s e with
  | Some (r, v) =>
      let q := r_q r in
      implb (bool_decide (r_act r = AClose) && bool_decide (o = OOk) && negb (bool_decide (q = root)) &&
             negb (bool_decide (q_state v = SClosed)) && negb (bool_decide (q_state v = SInvalid)) &&
             bool_decide (sst (lst s) q = sst (srv s) q))
            (bool_decide (sst (srv s') q = Some (closeish (length (pgs_of (idx s) q)))))
  | None => true
  end.

(* L3: Closed is entered only with an empty PodGroup index (full strength: no
   freshness precondition since the repair of syncQueue) *)
Definition law_closed_only_when_empty (s : st) (e : ev) (s' : st) : bool :=
  forallb (fun q =>
    implb (changed s s' q && bool_decide (sst (srv s') q = Some SClosed))
          (bool_decide (pgs_of (idx s) q = []))) (names s s').

Definition emitted (s s' : st) : list req := skipn (length (wq s) - 1) (wq s').

(* L4: closing a parent marks and closes its (lister) children that are not closed *)
Definition law_close_propagates (s : st) (e : ev) (s' : st) (o : outcome) : bool :=
  match proc_of_clean s e with
  | Some (r, v) =>
      let q := r_q r in
      implb (bool_decide (r_act r = AClose) && bool_decide (o = OOk) && negb (bool_decide (q = root)) &&
             negb (is_closedish (q_state v)) && negb (bool_decide (q_state v = SInvalid)))
        (forallb (fun cco =>
           implb (bool_decide (q_parent (snd cco) = Some q) && negb (is_closedish (q_state (snd cco))))
                 ((cbp_true (q_ann (snd cco)) || bool_decide (scbp (srv s') (fst cco) = Some true)) &&
                  bool_decide (mkReq (fst cco) AClose EvNone 0 ∈ emitted s s')))
           (map_to_list (lst s)))
  | None => true
  end.

(* L5: re-opening enqueues Open for exactly the (lister) children marked
   closed-by-parent, opens the queue and clears its own marker *)
Definition law_reopen_exact (s : st) (e : ev) (s' : st) (o : outcome) : bool :=
  match proc_of_clean s e with
  | Some (r, v) =>
      let q := r_q r in
      implb (bool_decide (r_act r = AOpen) && bool_decide (o = OOk) &&
             (is_closedish (q_state v) || bool_decide (q_state v = SUnknown)))
        (forallb (fun cco =>
           bool_decide (bool_decide (mkReq (fst cco) AOpen EvNone 0 ∈ emitted s s') =
                        (bool_decide (q_parent (snd cco) = Some q) && cbp_true (q_ann (snd cco)))))
           (map_to_list (lst s)) &&
         forallb (fun x => bool_decide (r_act x = AOpen) && bool_decide (r_ev x = EvNone) &&
                           bool_decide (is_Some (lst s !! r_q x))) (emitted s s') &&
         bool_decide (sst (srv s') q = Some SOpen) &&
         (bool_decide (cbp_of (q_ann v) = Some false) || bool_decide (scbp (srv s') q = Some false)))
  | None => true
  end.

(* L5b: the closed-by-parent marker is written only by propagation (true: on a
   lister-child of a queue being closed, or on the queue itself when the lister shows
   its parent closed/closing) and cleared only by an Open request for the queue *)
Definition law_marker_discipline (s : st) (e : ev) (s' : st) : bool :=
  forallb (fun c =>
    implb (bool_decide (is_Some (srv s !! c)) && bool_decide (is_Some (srv s' !! c)) &&
           negb (bool_decide (scbp (srv s) c = scbp (srv s') c)))
      match proc_of s e with
      | Some (r, v) =>
          (bool_decide (scbp (srv s') c = Some false) && bool_decide (r_q r = c) && bool_decide (r_act r = AOpen)) ||
          (bool_decide (scbp (srv s') c = Some true) &&
           ((bool_decide (r_q r = c) && negb (bool_decide (r_act r = AOpen) && negb (bool_decide (q_state v = SOpen)) && negb (bool_decide (q_state v = SEmpty)))) ||
            (bool_decide (r_act r = AClose) &&
             (* only a child the lister shows as NOT closed / closing is marked by its parent's close *)
             match lst s !! c with
             | Some co => bool_decide (q_parent co = Some (r_q r)) && negb (is_closedish (q_state co))
             | None => false end)))
      | None => false
      end) (names s s').

(* L6: the root queue is never closed or closing *)
Definition root_ok (s : st) : bool :=
  match sst (srv s) root with Some x => negb (is_closedish x) | None => true end &&
  match sst (lst s) root with Some x => negb (is_closedish x) | None => true end.
Definition law_root_never_closed (s : st) (e : ev) (s' : st) : bool :=
  implb (root_ok s) (root_ok s').

(* L7: a closed / closing / unknown queue is not opened while the lister shows its
   parent (other than root) closed or closing, or shows no such parent *)
Definition parent_blocks (s : st) (v : qobj) : bool :=
  match q_parent v with
  | None => false
  | Some p => if bool_decide (p = root) then false else
              match lst s !! p with Some po => is_closedish (q_state po) | None => true end
  end.
Definition law_no_open_under_closed_parent (s : st) (e : ev) (s' : st) (o : outcome) : bool :=
  match proc_of_clean s e with
  | Some (r, v) =>
      implb (bool_decide (r_act r = AOpen) && parent_blocks s v &&
             negb (bool_decide (q_state v = SOpen)) && negb (bool_decide (q_state v = SEmpty)))
            (bool_decide (o = OErr) && bool_decide (srv s' = srv s))
  | None => true
  end.

(* L8: work-queue discipline and provenance of requests: informer handlers enqueue
   only Sync requests, a command enqueues exactly its own request, and processing
   appends only propagation requests (Event "", Open/Close, for the queue itself or a
   lister-child) followed by at most the retry of the processed request *)
Definition law_workqueue (s : st) (e : ev) (s' : st) (o : outcome) : bool :=
  match e with
  | EProc i | EProcF i _ =>
      match nth_error (wq s) i with
      | None => bool_decide (wq s' = wq s) && bool_decide (o = OIdle)
      | Some r =>
          bool_decide (firstn (length (wq s) - 1) (wq s') = remove_nth i (wq s)) &&
          forallb (fun x =>
            (bool_decide (x = retry r) && bool_decide (o = OErr)) ||
            (bool_decide (r_ev x = EvNone) && bool_decide (r_tries x = 0%nat) &&
             (bool_decide (r_act x = AOpen) || bool_decide (r_act x = AClose)) &&
             ((bool_decide (r_q x = r_q r) &&
               (* the queue re-opens itself only when it carries the marker *)
               (negb (bool_decide (r_act x = AOpen)) ||
                match lst s !! r_q r with Some v => cbp_true (q_ann v) | None => false end ||
                bool_decide (scbp (srv s) (r_q r) = Some true))) ||
              (* a child gets a Close only if the lister shows it not closed / closing, an Open
                 only if the lister shows its marker *)
              match lst s !! r_q x with
              | Some co => bool_decide (q_parent co = Some (r_q r)) &&
                           (if bool_decide (r_act x = AClose) then negb (is_closedish (q_state co))
                            else cbp_true (q_ann co))
              | None => false end)))
            (emitted s s')
      end
  | ECmd q a => bool_decide (wq s' = wq s ++ [mkReq q a EvCmd 0])
  | _ => bool_decide (wq s' = wq s) ||
         match wq s' with
         | [] => false
         | _ => bool_decide (firstn (length (wq s)) (wq s') = wq s) &&
                forallb (fun x => bool_decide (r_act x = ASync) && bool_decide (r_ev x = EvOutOfSync))
                        (skipn (length (wq s)) (wq s')) &&
                bool_decide (length (wq s') = S (length (wq s)))
         end
  end.

(* ---------- FULL-STRENGTH forms (no freshness precondition), evaluated on the
   stale-lister stream, and the exact shapes of the known lag races.  For a law F and
   a race shape R the check evaluates  X = (F \/ R)  without a signature (every other
   failure is reported) and  Y = ~(R /\ ~F)  with the finding's signature. ---------- *)
Definition sync_like (a : act) : bool := match a with ASync | AOther => true | _ => false end.

(* race B: a request that is not Open, on a queue the lister shows Closed with
   spec.parent unset, while the index holds PodGroups *)
Definition shape_B (s : st) (e : ev) (q : positive) : bool :=
  match proc_of s e with
  | Some (r, v) =>
      bool_decide (r_q r = q) && negb (bool_decide (r_act r = AOpen)) &&
      bool_decide (q_state v = SClosed) && bool_decide (q_parent v = None) &&
      negb (bool_decide (q = root)) && negb (bool_decide (pgs_of (idx s) q = []))
  | None => false
  end.
(* race A and its mirror images (finding C13-stale-lister-sync-overwrites-open): a request
   that is neither Open nor Close is processed for a queue whose lister object is NOT the
   server's object — the state computed from the stale view is applied without any
   precondition (Closing+empty index -> Closed over an Open; "" -> Open over a Closed; ...).
   With an up-to-date lister F_A cannot fail (theorem sync_moves), so this is exactly the
   mechanism *)
Definition shape_A (s : st) (e : ev) (q : positive) : bool :=
  match proc_of s e with
  | Some (r, v) =>
      bool_decide (r_q r = q) && sync_like (r_act r) && negb (bool_decide (lst s !! q = srv s !! q))
  | None => false
  end.

(* F_B: Closed is entered only with an empty PodGroup index *)
Definition full_closed_empty_at (s s' : st) (q : positive) : bool :=
  implb (changed s s' q && bool_decide (sst (srv s') q = Some SClosed))
        (bool_decide (pgs_of (idx s) q = [])).
(* F_A: a request that is neither Open nor Close moves the SERVER's state only
   "" -> Open and Closing -> Closed (so it never undoes a processed Open command) *)
Definition full_sync_moves_at (s : st) (e : ev) (s' : st) (q : positive) : bool :=
  implb (changed s s' q)
    match proc_of s e with
    | Some (r, v) =>
        negb (sync_like (r_act r)) ||
        (bool_decide (sst (srv s) q = Some SEmpty) && bool_decide (sst (srv s') q = Some SOpen)) ||
        (bool_decide (sst (srv s) q = Some SClosing) && bool_decide (sst (srv s') q = Some SClosed))
    | None => true
    end.

Definition law_full_closed_empty_X (s : st) (e : ev) (s' : st) : bool :=
  forallb (fun q => full_closed_empty_at s s' q || shape_B s e q) (names s s').
Definition law_full_closed_empty_Y (s : st) (e : ev) (s' : st) : bool :=
  forallb (fun q => negb (shape_B s e q && negb (full_closed_empty_at s s' q))) (names s s').
Definition law_full_sync_moves_X (s : st) (e : ev) (s' : st) : bool :=
  forallb (fun q => full_sync_moves_at s e s' q || shape_A s e q || shape_B s e q) (names s s').
Definition law_full_sync_moves_Y (s : st) (e : ev) (s' : st) : bool :=
  forallb (fun q => negb (shape_A s e q && negb (full_sync_moves_at s e s' q))) (names s s').

(* F_C: once the lister has caught up and nothing is pending, no child is left closed
   with closed-by-parent=true under an Open parent (the parent's re-open reached it) *)
Definition stuck_child (s : st) (c : positive) : bool :=
  match srv s !! c with
  | Some co =>
      is_closedish (q_state co) && cbp_true (q_ann co) &&
      match q_parent co with
      | Some p => bool_decide (sst (srv s) p = Some SOpen)
      | None => false
      end
  | None => false
  end.
Definition caught_up (s : st) : bool :=
  bool_decide (wq s = []) && forallb (fun q => bool_decide (lst s !! q = srv s !! q)) (names s s).
Definition law_no_stuck_child (s' : st) : bool :=
  implb (caught_up s') (forallb (fun c => negb (stuck_child s' c)) (map fst (map_to_list (srv s')))).

(* ---------- laws against the PodGroups that REALLY exist (the PodGroup objects, [pgl]),
   not the controller's index; evaluated on the directed family "PodGroup events before
   the queue is in the lister", whose histories keep the index complete (no queue
   deletion, no PodGroup moved between queues without an event the handlers act on) ---------- *)
Definition real_pgs (s : st) (q : positive) : list positive :=
  map fst (filter (fun x : positive * (positive * Z) => bool_decide (fst (snd x) = q)) (map_to_list (pgl s))).

(* Closed is entered only when no PodGroup of the queue exists *)
Definition law_closed_only_when_really_empty (s : st) (e : ev) (s' : st) : bool :=
  forallb (fun q =>
    implb (changed s s' q && bool_decide (sst (srv s') q = Some SClosed))
          (bool_decide (real_pgs s q = []))) (names s s').

(* closing an up-to-date, not yet closed, non-root queue that still has PodGroups yields Closing *)
Definition law_close_with_real_pgs (s : st) (e : ev) (s' : st) (o : outcome) : bool :=
  match proc_of_clean s e with
  | Some (r, v) =>
      let q := r_q r in
      implb (bool_decide (r_act r = AClose) && bool_decide (o = OOk) && negb (bool_decide (q = root)) &&
             negb (bool_decide (q_state v = SClosed)) && negb (bool_decide (q_state v = SInvalid)) &&
             bool_decide (sst (lst s) q = sst (srv s) q) && negb (bool_decide (real_pgs s q = [])))
            (bool_decide (sst (srv s') q = Some SClosing))
  | None => true
  end.

(* ---------- quiescent end states: the lister has caught up and nothing is pending ---------- *)
(* a child that is not closed / closing although its parent (on the server) is *)
Definition open_child_under_closed_parent (s : st) (c : positive) : bool :=
  match srv s !! c with
  | Some co =>
      negb (is_closedish (q_state co)) &&
      match q_parent co with
      | Some p => match sst (srv s) p with Some x => is_closedish x | None => false end
      | None => false
      end
  | None => false
  end.
(* "closing a parent closes its children" / "a child cannot be opened under a closed or
   closing parent", as a statement about every quiescent state *)
Definition law_children_follow_closed_parent (s' : st) : bool :=
  implb (caught_up s')
        (forallb (fun c => negb (open_child_under_closed_parent s' c)) (map fst (map_to_list (srv s')))).

(* ---------- which quiescent failures belong to the two KNOWN classes ----------
   A quiescent failure is attributed to a known finding only if the history contains the
   step that is the finding's mechanism; every other quiescent failure is reported. *)
Definition mem_pos (c : positive) (l : list positive) : bool := existsb (Pos.eqb c) l.

(* C13-quiescent-marked-child-stuck — the steps that are its mechanism, per child:
   (a) a propagated Open for c is processed while the lister shows c open (plain sync:
       nothing written, marker kept);
   (b) the Sync that should heal c (enqueued when c's marker / parent changed) is processed
       while the lister shows c closed and marked but still shows the re-opened parent closed /
       closing: nothing happens and nothing re-syncs c later;
   (c) c's Open is refused because the lister still shows the re-opened parent closed /
       closing (retried; given up when the retry budget is exhausted).
   "p re-opened before the lister shows c's marker" alone is NOT an excuse: since b628b4b the
   delivery of the marker re-syncs c, so a stuck child after that shape alone is a regression. *)
Definition stale_closed_parent (s : st) (v : qobj) : bool :=
  match q_parent v with
  | Some p => match sst (lst s) p with Some x => is_closedish x | None => false end &&
              negb (match sst (srv s) p with Some x => is_closedish x | None => true end)
  | None => false
  end.
Definition exc_stuck (s : st) (e : ev) : list positive :=
  match proc_of s e with
  | Some (r, v) =>
      match r_act r with
      | AOpen =>
          if (bool_decide (r_ev r = EvNone) && (bool_decide (q_state v = SOpen) || bool_decide (q_state v = SEmpty))) ||
             stale_closed_parent s v
          then [r_q r] else []
      | AClose => []
      | _ => if is_closedish (q_state v) && cbp_true (q_ann v) && stale_closed_parent s v then [r_q r] else []
      end
  | None => []
  end.

(* C13-quiescent-open-child-under-closed-parent: (D) c is really opened while the server
   shows its parent closed / closing but the lister does not; (E) p is closed while a
   server-child is not closed but the lister shows it closed / closing (or not at all) *)
Definition exc_open (s : st) (e : ev) : list positive :=
  match proc_of s e with
  | Some (r, v) =>
      match r_act r with
      | AOpen =>
          if negb (bool_decide (q_state v = SOpen)) && negb (bool_decide (q_state v = SEmpty)) &&
             match q_parent v with
             | Some p => match sst (srv s) p with Some x => is_closedish x | None => false end &&
                         negb (match sst (lst s) p with Some x => is_closedish x | None => false end)
             | None => false
             end
          then [r_q r] else []
      | AClose =>
          if is_closedish (q_state v) then [] else
          flat_map (fun cco : positive * qobj =>
                      if bool_decide (q_parent (snd cco) = Some (r_q r)) && negb (is_closedish (q_state (snd cco))) &&
                         match lst s !! fst cco with Some lo => is_closedish (q_state lo) | None => true end
                      then [fst cco] else [])
                   (map_to_list (srv s))
      | _ => []
      end
  | None => []
  end.

(* an excuse expires: once a caught-up state is reached in which the child is NOT in the bad
   shape, the mechanism that occurred earlier no longer explains anything *)
Definition prune_stuck (exc : list positive) (s' : st) : list positive :=
  if caught_up s' then filter (stuck_child s') exc else exc.
Definition prune_open (exc : list positive) (s' : st) : list positive :=
  if caught_up s' then filter (open_child_under_closed_parent s') exc else exc.

(* X = every quiescent failure is one of the known class; Y = no quiescent failure of the known class *)
Definition law_stuck_X (exc : list positive) (s' : st) : bool :=
  implb (caught_up s') (forallb (fun c => negb (stuck_child s' c) || mem_pos c exc) (map fst (map_to_list (srv s')))).
Definition law_stuck_Y (exc : list positive) (s' : st) : bool :=
  implb (caught_up s') (forallb (fun c => negb (stuck_child s' c && mem_pos c exc)) (map fst (map_to_list (srv s')))).
Definition law_openchild_X (exc : list positive) (s' : st) : bool :=
  implb (caught_up s') (forallb (fun c => negb (open_child_under_closed_parent s' c) || mem_pos c exc) (map fst (map_to_list (srv s')))).
Definition law_openchild_Y (exc : list positive) (s' : st) : bool :=
  implb (caught_up s') (forallb (fun c => negb (open_child_under_closed_parent s' c && mem_pos c exc)) (map fst (map_to_list (srv s')))).

(* liveness half of "becomes Closed only when none remain", at the END of a caught-up history
   whose PodGroup events have all been handled: no queue is left Closing although no PodGroup
   object names it and nothing is pending *)
Definition law_no_idle_closing (s' : st) : bool :=
  implb (caught_up s')
        (forallb (fun q => negb (bool_decide (sst (srv s') q = Some SClosing) && bool_decide (real_pgs s' q = [])))
                 (map fst (map_to_list (srv s')))).
