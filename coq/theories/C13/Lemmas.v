(* C13 — proofs about the model of the queue controller.  Every statement is about
   [step] from an ARBITRARY state (any forest, any lister view, any index, any work
   queue), hence about every step of every history from every initial state; the
   history forms ([run]) are derived at the end. *)
From stdpp Require Import gmap.
From Coq Require Import ZArith List Lia.
From V Require Import C13.Model C13.Laws.
Import ListNotations.
Open Scope Z_scope.

(* ---------- elementary facts about the server-side writes ---------- *)

Lemma sst_insert m q o c :
  sst (<[q:=o]> m) c = if decide (c = q) then Some (q_state o) else sst m c.
Proof.
  unfold sst. destruct (decide (c = q)) as [->|].
  - by rewrite lookup_insert.
  - by rewrite lookup_insert_ne.
Qed.

Lemma scbp_insert m q o c :
  scbp (<[q:=o]> m) c = if decide (c = q) then cbp_of (q_ann o) else scbp m c.
Proof.
  unfold scbp. destruct (decide (c = q)) as [->|].
  - by rewrite lookup_insert.
  - by rewrite lookup_insert_ne.
Qed.

Lemma patch_ann_sst m q view v m' :
  patch_ann m q view v = Some m' -> forall c, sst m' c = sst m c.
Proof.
  unfold patch_ann. intros H c. repeat case_match; simplify_eq; try done;
  rewrite sst_insert; destruct (decide (c = q)); subst; unfold sst; simplify_map_eq; done.
Qed.

Lemma patch_ann_dom m q view v m' :
  patch_ann m q view v = Some m' -> forall c, is_Some (m' !! c) <-> is_Some (m !! c).
Proof.
  unfold patch_ann. intros H c. repeat case_match; simplify_eq; try done;
  destruct (decide (c = q)); subst; simplify_map_eq; split; eauto.
Qed.

Lemma patch_ann_scbp m q view v m' :
  patch_ann m q view v = Some m' ->
  forall c, scbp m' c = scbp m c \/ (c = q /\ scbp m' c = Some v /\ cbp_of view <> Some v).
Proof.
  unfold patch_ann. intros H c.
  destruct (bool_decide (cbp_of view = Some v)) eqn:E; simplify_eq; [by left|].
  apply bool_decide_eq_false in E.
  repeat case_match; simplify_eq; rewrite scbp_insert;
  (destruct (decide (c = q)); [right|left]; done).
Qed.

Lemma patch_ann_done m q view v m' :
  patch_ann m q view v = Some m' -> cbp_of view = Some v \/ scbp m' q = Some v.
Proof.
  unfold patch_ann. intros H.
  destruct (bool_decide (cbp_of view = Some v)) eqn:E; [apply bool_decide_eq_true in E; by left|].
  right. repeat case_match; simplify_eq; rewrite scbp_insert; destruct (decide (q = q)); done.
Qed.

Lemma apply_state_spec m q x m' o' :
  apply_state m q x = Some (m', o') ->
  is_Some (m !! q) /\ q_state o' = x /\
  (forall c, sst m' c = if decide (c = q) then Some x else sst m c) /\
  (forall c, scbp m' c = scbp m c) /\
  (forall c, is_Some (m' !! c) <-> is_Some (m !! c)).
Proof.
  unfold apply_state. intros H. destruct (m !! q) as [o|] eqn:E; simplify_eq.
  split; [eauto|]. split; [done|]. split; [|split].
  - intros c. rewrite sst_insert. done.
  - intros c. rewrite scbp_insert. destruct (decide (c = q)); subst; unfold scbp; rewrite ?E; done.
  - intros c. destruct (decide (c = q)); subst; simplify_map_eq; split; eauto.
Qed.

(* ---------- frame conditions of the handlers ---------- *)

(* what a handler never touches, and that the work queue only grows *)
Definition frame (s s' : st) : Prop :=
  lst s' = lst s /\ pgl s' = pgl s /\ maxrq s' = maxrq s /\ (exists l, wq s' = wq s ++ l).

Lemma frame_refl s : frame s s.
Proof. repeat split; exists []; by rewrite app_nil_r. Qed.
Lemma frame_trans a b c : frame a b -> frame b c -> frame a c.
Proof.
  intros (?&?&?&l1&?) (?&?&?&l2&?). repeat split; try congruence.
  exists (l1 ++ l2). rewrite app_assoc. congruence.
Qed.
Lemma frame_push s r : frame s (push s r).
Proof. repeat split. by exists [r]. Qed.
Lemma frame_set_srv s m : frame s (set_srv s m).
Proof. repeat split. exists []. by rewrite app_nil_r. Qed.
Lemma frame_set_idx s l : frame s (set_idx s l).
Proof. repeat split. exists []. by rewrite app_nil_r. Qed.
Local Hint Resolve frame_refl frame_push frame_set_srv frame_set_idx : core.

(* states of all queues unchanged *)
Definition same_states (s s' : st) : Prop := forall c, sst (srv s') c = sst (srv s) c.

Lemma sync_hier_spec s q view s' ok :
  sync_hier s q view = (s', ok) ->
  frame s s' /\ same_states s s' /\ idx s' = idx s.
Proof.
  unfold sync_hier. intros H.
  repeat case_match; simplify_eq; try (split; [eauto|split; [by intros c|done]]).
  all: split; [eapply frame_trans; [apply frame_set_srv|apply frame_push]|].
  all: split; [|done]; intros c; simpl; eapply patch_ann_sst; eauto.
Qed.

Lemma fold_open_frame (l : list (positive * qobj)) : forall s,
  let s' := fold_left (fun s' cc => if cbp_true (q_ann (snd cc)) then push s' (mkReq (fst cc) AOpen EvNone 0) else s') l s in
  frame s s' /\ srv s' = srv s /\ idx s' = idx s.
Proof.
  induction l as [|cc l IH]; intros s; simpl; [eauto|].
  destruct (cbp_true (q_ann cc.2)).
  - destruct (IH (push s (mkReq cc.1 AOpen EvNone 0))) as (F&?&?). split; [|done].
    eapply frame_trans; [apply frame_push|done].
  - apply IH.
Qed.

Lemma open_hier_spec s q view s' ok :
  open_hier s q view = (s', ok) -> frame s s' /\ srv s' = srv s /\ idx s' = idx s.
Proof.
  unfold open_hier. intros H. case_match; simplify_eq; [eauto|].
  apply fold_open_frame.
Qed.

Lemma close_children_spec l : forall s s' ok,
  close_children s l = (s', ok) -> frame s s' /\ same_states s s' /\ idx s' = idx s.
Proof.
  induction l as [|[c co] l IH]; intros s s' ok H; simpl in H; simplify_eq; [by eauto|].
  destruct (is_closedish (q_state co)); [by eapply IH|].
  destruct (patch_ann (srv s) c (q_ann co) true) as [m|] eqn:E; simplify_eq; [|by eauto].
  apply IH in H as (F&S&I). split; [|split].
  - eapply frame_trans; [|exact F]. eapply frame_trans; [apply frame_set_srv|apply frame_push].
  - intros x. rewrite S. simpl. eapply patch_ann_sst; eauto.
  - rewrite I. done.
Qed.

(* the state of q after a handler: untouched, or the value [x] the table prescribes *)
Definition q_effect (s s' : st) (q : positive) (x : qstate) : Prop :=
  (forall c, c <> q -> sst (srv s') c = sst (srv s) c) /\
  (sst (srv s') q = sst (srv s) q \/ (is_Some (sst (srv s) q) /\ sst (srv s') q = Some x)).

Lemma q_effect_same s s' q x : same_states s s' -> q_effect s s' q x.
Proof. intros H. split; [by intros|by left]. Qed.

Lemma is_Some_sst m q : is_Some (m !! q) -> is_Some (sst m q).
Proof. unfold sst. intros [o ->]. by eexists. Qed.

Lemma sync_queue_spec s q view fn s' ok :
  sync_queue s q view fn = (s', ok) ->
  frame s s' /\ q_effect s s' q (fn (length (pgs_of (idx s) q))).
Proof.
  unfold sync_queue. intros H.
  destruct (bool_decide (q = root) || bool_decide (is_Some (q_parent view))) eqn:E0.
  - (* no parent patch *)
    cbn zeta in H. simpl in H.
    destruct (bool_decide (fn (length (pgs_of (idx s) q)) = q_state view)) eqn:E1.
    + apply sync_hier_spec in H as (F&S&_). split.
      * eapply frame_trans; [apply frame_set_idx|done].
      * apply q_effect_same. intros c. rewrite S. done.
    + destruct (apply_state _ _ _) as [[m o']|] eqn:E2; simplify_eq.
      * apply sync_hier_spec in H as (F&S&_). apply apply_state_spec in E2 as (I&_&A&_).
        simpl in *. split.
        { eapply frame_trans; [apply frame_set_idx|]. eapply frame_trans; [apply frame_set_srv|done]. }
        split.
        { intros c Hc. rewrite S. simpl. rewrite A. destruct (decide (c = q)); done. }
        right. split; [by apply is_Some_sst|]. rewrite S. simpl. rewrite A.
        destruct (decide (q = q)); done.
      * split; [apply frame_set_idx|]. apply q_effect_same. by intros c.
  - destruct (srv s !! q) as [o|] eqn:E3; simplify_eq; [|split; [eauto|apply q_effect_same; by intros c]].
    cbn zeta in H. simpl in H.
    assert (Hp : forall c, sst (<[q:=with_parent o (Some root)]> (srv s)) c = sst (srv s) c).
    { intros c. rewrite sst_insert. destruct (decide (c = q)); subst; [|done]. unfold sst. by rewrite E3. }
    destruct (bool_decide (fn (length (pgs_of (idx s) q)) = q_state view)) eqn:E1.
    + apply sync_hier_spec in H as (F&S&_). split.
      * eapply frame_trans; [apply frame_set_srv|]. eapply frame_trans; [apply frame_set_idx|done].
      * apply q_effect_same. intros c. rewrite S. simpl. apply Hp.
    + destruct (apply_state _ _ _) as [[m o']|] eqn:E2; simplify_eq.
      * apply sync_hier_spec in H as (F&S&_). apply apply_state_spec in E2 as (I&_&A&_).
        simpl in *. split.
        { eapply frame_trans; [apply frame_set_srv|]. eapply frame_trans; [apply frame_set_idx|].
          eapply frame_trans; [apply frame_set_srv|done]. }
        split.
        { intros c Hc. rewrite S. simpl. rewrite A. destruct (decide (c = q)); [done|]. apply Hp. }
        right. split; [unfold sst; rewrite E3; by eexists|]. rewrite S. simpl. rewrite A.
        destruct (decide (q = q)); done.
      * split.
        { eapply frame_trans; [apply frame_set_srv|apply frame_set_idx]. }
        apply q_effect_same. intros c. simpl. apply Hp.
Qed.

Lemma open_queue_spec s q view s' ok :
  open_queue s q view = (s', ok) -> frame s s' /\ q_effect s s' q SOpen /\ idx s' = idx s.
Proof.
  unfold open_queue. intros H.
  destruct (bool_decide (q_state view = SOpen)) eqn:E0.
  - simpl in H. destruct (patch_ann (srv s) q (q_ann view) false) as [m|] eqn:E1; simplify_eq.
    + split; [apply frame_set_srv|]. split; [|done]. apply q_effect_same. intros c. simpl.
      eapply patch_ann_sst; eauto.
    + split; [eauto|]. split; [|done]. apply q_effect_same. by intros c.
  - destruct (open_hier s q view) as [s1 ok1] eqn:E1. apply open_hier_spec in E1 as (F1&S1&I1).
    destruct ok1; simpl in H; simplify_eq.
    2:{ split; [done|]. split; [|done]. apply q_effect_same. intros c. by rewrite S1. }
    destruct (apply_state (srv s1) q SOpen) as [[m o']|] eqn:E2; simplify_eq.
    2:{ split; [done|]. split; [|done]. apply q_effect_same. intros c. by rewrite S1. }
    apply apply_state_spec in E2 as (I&_&A&_).
    destruct (patch_ann (srv (set_srv s1 m)) q (q_ann view) false) as [m2|] eqn:E3; simplify_eq; simpl in *.
    + split; [eapply frame_trans; [exact F1|]; eapply frame_trans; apply frame_set_srv|].
      split; [|done]. split.
      * intros c Hc. rewrite (patch_ann_sst _ _ _ _ _ E3). rewrite A. destruct (decide (c = q)); [done|by rewrite S1].
      * right. split; [rewrite <- S1; by apply is_Some_sst|].
        rewrite (patch_ann_sst _ _ _ _ _ E3). rewrite A. destruct (decide (q = q)); done.
    + split; [eapply frame_trans; [exact F1|apply frame_set_srv]|].
      split; [|done]. split.
      * intros c Hc. rewrite A. destruct (decide (c = q)); [done|by rewrite S1].
      * right. split; [rewrite <- S1; by apply is_Some_sst|]. rewrite A. destruct (decide (q = q)); done.
Qed.

Lemma close_queue_spec s q view fn s' ok :
  close_queue s q view fn = (s', ok) ->
  frame s s' /\ q_effect s s' q (fn (length (pgs_of (idx s) q))) /\ idx s' = idx s /\
  (q = root -> is_closedish (q_state view) = false -> same_states s s').
Proof.
  unfold close_queue. intros H.
  destruct (negb (is_closedish (q_state view)) && bool_decide (q = root)) eqn:E0; simplify_eq.
  { split; [done|]. split; [apply q_effect_same; by intros c|]. split; [done|]. by intros _ _ c. }
  assert (Hroot : q = root -> is_closedish (q_state view) = false -> False).
  { intros Hq Hc. rewrite Hc in E0. rewrite bool_decide_true in E0 by done. done. }
  destruct (if is_closedish (q_state view) then (s, true) else close_children s (children s q)) as [s1 ok1] eqn:E1.
  assert (F1 : frame s s1 /\ same_states s s1 /\ idx s1 = idx s).
  { destruct (is_closedish (q_state view)); simplify_eq.
    - split; [done|]. split; [by intros c|done].
    - eapply close_children_spec; eauto. }
  destruct F1 as (F1&S1&I1).
  destruct ok1; simpl in H; simplify_eq.
  2:{ split; [done|]. split; [apply q_effect_same; done|]. split; [done|]. intros; exfalso; eauto. }
  rewrite I1 in H.
  destruct (bool_decide (fn (length (pgs_of (idx s) q)) = q_state view)) eqn:E2; simplify_eq.
  { split; [done|]. split; [apply q_effect_same; done|]. split; [done|]. intros; exfalso; eauto. }
  destruct (apply_state (srv s1) q _) as [[m o']|] eqn:E3; simplify_eq.
  2:{ split; [done|]. split; [apply q_effect_same; done|]. split; [done|]. intros; exfalso; eauto. }
  apply apply_state_spec in E3 as (I&_&A&_). simpl.
  split; [eapply frame_trans; [exact F1|apply frame_set_srv]|].
  split; [|split; [done|intros; exfalso; eauto]]. split.
  - intros c Hc. simpl. rewrite A. destruct (decide (c = q)); [done|apply S1].
  - right. split; [rewrite <- S1; by apply is_Some_sst|]. simpl. rewrite A. destruct (decide (q = q)); done.
Qed.

Lemma exec_spec s q view a s' ok :
  exec s q view a = (s', ok) ->
  frame s s' /\ q_effect s s' q (target (q_state view) a (length (pgs_of (idx s) q))) /\
  (q = root -> a = AClose -> is_closedish (q_state view) = false -> same_states s s').
Proof.
  unfold exec. intros H.
  destruct (q_state view) eqn:Ex; destruct a; simpl;
  try (apply sync_queue_spec in H as (F&Q); split; [done|]; split; [exact Q|]; by intros);
  try (apply open_queue_spec in H as (F&Q&_); split; [done|]; split; [exact Q|]; by intros);
  try (apply close_queue_spec in H as (F&Q&_&R); rewrite Ex in R; split; [done|]; split; [exact Q|]; by intros; apply R);
  simplify_eq; (split; [done|]; split; [apply q_effect_same; by intros c|]; by intros _ _ _ c).
Qed.

Lemma srv_set_wq s l : srv (set_wq s l) = srv s. Proof. done. Qed.

(* the processed request and what the step did to the server *)
Lemma proc_spec s i :
  let s' := (proc s i).1 in
  lst s' = lst s /\
  match nth_error (wq s) i with
  | None => s' = s
  | Some r =>
    match lst s !! r_q r with
    | None => srv s' = srv s
    | Some v =>
      q_effect s s' (r_q r) (target (q_state v) (r_act r) (length (pgs_of (idx s) (r_q r)))) /\
      (r_q r = root -> r_act r = AClose -> is_closedish (q_state v) = false -> same_states s s')
    end
  end.
Proof.
  unfold proc. destruct (nth_error (wq s) i) as [r|] eqn:E; simpl; [|done].
  destruct (lst s !! r_q r) as [v|] eqn:E1; simpl; [|done].
  destruct (exec _ _ _ _) as [s1 ok] eqn:E2.
  apply exec_spec in E2 as ((L&_)&Q&R). simpl in *.
  assert (lst (if ok then (s1, OOk) else
     if bool_decide (maxrq s = -1) || bool_decide (Z.of_nat (r_tries r) < maxrq s)
     then (push s1 (retry r), OErr) else (s1, OErr)).1 = lst s /\
     srv (if ok then (s1, OOk) else
     if bool_decide (maxrq s = -1) || bool_decide (Z.of_nat (r_tries r) < maxrq s)
     then (push s1 (retry r), OErr) else (s1, OErr)).1 = srv s1) as [-> Hs].
  { destruct ok; [done|]. destruct (_ || _); done. }
  split; [done|]. unfold q_effect, same_states in *. rewrite Hs. done.
Qed.

(* events other than EProc never change the state of an existing queue *)
Lemma step_nonproc_sst s e c a b :
  (forall i, e <> EProc i) -> (forall i c, e <> EProcF i c) ->
  sst (srv s) c = Some a -> sst (srv (step s e).1) c = Some b -> a = b.
Proof.
  intros He He2 Ha Hb. destruct e; simpl in Hb; try congruence.
  - repeat case_match; simpl in Hb; congruence.
  - repeat case_match; simpl in Hb; congruence.
  - destruct (srv s !! q) eqn:E; simpl in Hb; [congruence|].
    rewrite sst_insert in Hb. destruct (decide (c = q)); subst; [|congruence].
    unfold sst in Ha. rewrite E in Ha. done.
  - destruct (srv s !! q) eqn:E; simpl in Hb; [|congruence].
    rewrite sst_insert in Hb. destruct (decide (c = q)); subst; [|congruence].
    unfold sst in Ha. rewrite E in Ha. simpl in *. congruence.
  - unfold sst in Hb. destruct (decide (c = q)); subst.
    + by rewrite lookup_delete in Hb.
    + rewrite lookup_delete_ne in Hb by done. unfold sst in Ha. congruence.
  - repeat case_match; simpl in Hb; congruence.
  - repeat case_match; simpl in Hb; congruence.
  - by destruct (He i).
  - by destruct (He2 i c0).
Qed.

(* ---------- an injected API fault: the step on the state that hides the queue ---------- *)
Lemma sst_hide s c q : sst (srv (hide s c)) q = if decide (q = c) then None else sst (srv s) q.
Proof.
  unfold hide, sst. simpl. destruct (decide (q = c)) as [->|].
  - by rewrite lookup_delete.
  - by rewrite lookup_delete_ne.
Qed.

Lemma hide_absent s c : srv s !! c = None -> srv (hide s c) = srv s.
Proof. intros H. unfold hide. simpl. by apply delete_notin. Qed.

Lemma procF_fst s i c : (proc_f s i c).1 = restore s c (proc (hide s c) i).1.
Proof. unfold proc_f. by destruct (proc (hide s c) i). Qed.
Lemma procF_snd s i c : (proc_f s i c).2 = (proc (hide s c) i).2.
Proof. unfold proc_f. by destruct (proc (hide s c) i). Qed.

Lemma restore_fields s c s1 :
  lst (restore s c s1) = lst s1 /\ pgl (restore s c s1) = pgl s1 /\ idx (restore s c s1) = idx s1 /\
  wq (restore s c s1) = wq s1 /\ maxrq (restore s c s1) = maxrq s1.
Proof. unfold restore. by destruct (srv s !! c). Qed.

(* the server states after a faulted step: c keeps its state, every other queue has the
   state the step on the hiding state gives it *)
Lemma procF_sst s i c q :
  sst (srv (proc_f s i c).1) q =
  if decide (q = c) then (match srv s !! c with Some o => Some (q_state o) | None => sst (srv (proc (hide s c) i).1) q end)
  else sst (srv (proc (hide s c) i).1) q.
Proof.
  rewrite procF_fst. unfold restore. destruct (srv s !! c) as [o|] eqn:E; simpl.
  - rewrite sst_insert. destruct (decide (q = c)); done.
  - by destruct (decide (q = c)).
Qed.

(* a queue that is not on the server is not created by a processing step *)
Lemma proc_absent s i q : sst (srv s) q = None -> sst (srv (proc s i).1) q = None.
Proof.
  intros H. pose proof (proc_spec s i) as (_&P). simpl in P.
  destruct (nth_error (wq s) i) as [r|]; [|by rewrite P].
  destruct (lst s !! r_q r) as [v|]; [|unfold sst in *; by rewrite P].
  destruct P as ((Q1&Q2)&_). destruct (decide (q = r_q r)) as [->|Hne].
  - destruct Q2 as [Q2|[[x Hx] _]]; congruence.
  - by rewrite Q1.
Qed.

(* transfer of "no state changes" from the hiding state *)
Lemma same_states_procF s i c :
  same_states (hide s c) (proc (hide s c) i).1 -> same_states s (proc_f s i c).1.
Proof.
  intros H q. rewrite procF_sst. destruct (decide (q = c)) as [->|Hne].
  - destruct (srv s !! c) as [o|] eqn:E; [unfold sst; by rewrite E|].
    rewrite H. rewrite sst_hide. destruct (decide (c = c)); [|done]. unfold sst. by rewrite E.
  - rewrite H, sst_hide. by destruct (decide (q = c)).
Qed.

(* ---------- T1: state changes only by a request for that queue, to the table's target ---------- *)
Lemma only_by_request_proc s i q a b :
  sst (srv s) q = Some a -> sst (srv (proc s i).1) q = Some b -> a <> b ->
  exists r v, proc_of s (EProc i) = Some (r, v) /\ r_q r = q /\
              b = target (q_state v) (r_act r) (length (pgs_of (idx s) q)).
Proof.
  intros Ha Hb Hab.
  simpl in *. pose proof (proc_spec s i) as (_&P). simpl in P.
  destruct (nth_error (wq s) i) as [r|] eqn:E; [|rewrite P in Hb; congruence].
  destruct (lst s !! r_q r) as [v|] eqn:E1; [|unfold sst in *; rewrite P in Hb; congruence].
  destruct P as ((Q1&Q2)&_). exists r, v. split; [done|].
  destruct (decide (q = r_q r)) as [->|Hne].
  - split; [done|]. destruct Q2 as [Q2|[_ Q2]]; congruence.
  - rewrite Q1 in Hb by done. congruence.
Qed.

Theorem only_by_request s e q a b :
  sst (srv s) q = Some a -> sst (srv (step s e).1) q = Some b -> a <> b ->
  exists r v, proc_of s e = Some (r, v) /\ r_q r = q /\
              b = target (q_state v) (r_act r) (length (pgs_of (idx s) q)).
Proof.
  intros Ha Hb Hab. destruct e; try (exfalso; apply Hab; eapply (step_nonproc_sst s); eauto; done).
  - by apply (only_by_request_proc s i q a b).
  - simpl in Hb. rewrite procF_sst in Hb. destruct (decide (q = c)) as [->|Hne].
    + destruct (srv s !! c) as [o|] eqn:E.
      * unfold sst in Ha. rewrite E in Ha. simpl in Ha. congruence.
      * unfold sst in Ha. rewrite E in Ha. done.
    + apply (only_by_request_proc (hide s c) i q a b); [|done|done].
      rewrite sst_hide. by destruct (decide (q = c)).
Qed.

Lemma proc_of_inv s e r v :
  proc_of s e = Some (r, v) ->
  exists i, (e = EProc i \/ exists c, e = EProcF i c) /\ nth_error (wq s) i = Some r /\ lst s !! r_q r = Some v.
Proof.
  unfold proc_of. intros H. destruct e; try done;
  (destruct (nth_error (wq s) i) as [r'|] eqn:E; [|done];
   destruct (lst s !! r_q r') as [v'|] eqn:E1; [|done]; simplify_eq; eauto 6).
Qed.

Lemma proc_of_clean_inv s e r v :
  proc_of_clean s e = Some (r, v) ->
  exists i, e = EProc i /\ nth_error (wq s) i = Some r /\ lst s !! r_q r = Some v.
Proof.
  unfold proc_of_clean. intros H. destruct e; try done.
  apply proc_of_inv in H as (j&[[= ->]|[c [=]]]&?&?). eauto.
Qed.

Lemma closeish_closed n : closeish n = SClosed -> n = 0%nat.
Proof. by destruct n. Qed.

(* ---------- T3: Closed is entered only with an empty PodGroup index.  Since the
   repair of syncQueue (compare with the state the update function was chosen for)
   this holds WITHOUT any freshness hypothesis on the lister. ---------- *)
Lemma sync_queue_noop s q view fn s' ok :
  sync_queue s q view fn = (s', ok) -> fn (length (pgs_of (idx s) q)) = q_state view ->
  same_states s s'.
Proof.
  unfold sync_queue. intros H Hfn.
  destruct (bool_decide (q = root) || bool_decide (is_Some (q_parent view))) eqn:E0.
  - cbn zeta in H. simpl in H. rewrite bool_decide_true in H by done.
    apply sync_hier_spec in H as (_&S&_). intros c. rewrite S. done.
  - destruct (srv s !! q) as [o|] eqn:E3; simplify_eq; [|by intros c].
    cbn zeta in H. simpl in H. rewrite bool_decide_true in H by done.
    apply sync_hier_spec in H as (_&S&_). intros c. rewrite S. simpl.
    rewrite sst_insert. destruct (decide (c = q)); subst; [|done]. unfold sst. by rewrite E3.
Qed.

Lemma proc_closed_noop s i r v :
  nth_error (wq s) i = Some r -> lst s !! r_q r = Some v -> q_state v = SClosed -> r_act r <> AOpen ->
  same_states s (proc s i).1.
Proof.
  intros Hn Hv Hx Ha. unfold proc. rewrite Hn, Hv.
  destruct (exec _ _ _ _) as [s1 ok] eqn:E.
  assert (S : same_states s s1).
  { unfold exec in E. rewrite Hx in E.
    destruct (r_act r); try done; eapply sync_queue_noop in E; try done. }
  destruct ok; [done|]. destruct (_ || _); done.
Qed.

Lemma step_closed_noop s e r v :
  proc_of s e = Some (r, v) -> q_state v = SClosed -> r_act r <> AOpen -> same_states s (step s e).1.
Proof.
  intros P Hx Ha. apply proc_of_inv in P as (i&[->|[c ->]]&Hn&Hv); simpl.
  - by apply (proc_closed_noop s i r v).
  - apply same_states_procF. by apply (proc_closed_noop (hide s c) i r v).
Qed.

Theorem closed_only_when_empty s e q a :
  sst (srv s) q = Some a -> a <> SClosed -> sst (srv (step s e).1) q = Some SClosed ->
  pgs_of (idx s) q = [].
Proof.
  intros Ha Hne Hb.
  destruct (only_by_request s e q a SClosed) as (r&v&P&<-&T); try done.
  destruct (decide (q_state v = SClosed)) as [Hx|Hx].
  { destruct (decide (r_act r = AOpen)) as [Ho|Ho]; [rewrite Ho in T; done|].
    exfalso. rewrite (step_closed_noop s e r v) in Hb by done. congruence. }
  destruct (r_act r), (q_state v); simpl in T; try done;
  symmetry in T; apply closeish_closed in T; by apply nil_length_inv.
Qed.

(* ---------- T1': with an up-to-date lister a Sync request only completes
   "" -> Open and Closing -> Closed ---------- *)
Theorem sync_moves s e q a b :
  lst s !! q = srv s !! q ->
  sst (srv s) q = Some a -> sst (srv (step s e).1) q = Some b -> a <> b ->
  exists r v, proc_of s e = Some (r, v) /\ r_q r = q /\
    (r_act r = AOpen \/ r_act r = AClose \/ (a = SEmpty /\ b = SOpen) \/ (a = SClosing /\ b = SClosed)).
Proof.
  intros F Ha Hb Hab.
  destruct (only_by_request s e q a b) as (r&v&P&<-&T); try done.
  exists r, v. split; [done|]. split; [done|].
  apply proc_of_inv in P as (i&_&_&Hv).
  assert (q_state v = a) as <-. { unfold sst in Ha. rewrite <- F, Hv in Ha. simpl in Ha. congruence. }
  destruct (r_act r); [by left|by right; left| |];
  (destruct (q_state v); simpl in T; subst; try done; try (right; right; by left);
   destruct (length _); simpl in *; try done; right; right; right; done).
Qed.

(* ---------- T6: the root queue is never closed ---------- *)
Definition root_okP (s : st) : Prop :=
  (forall x, sst (srv s) root = Some x -> is_closedish x = false) /\
  (forall x, sst (lst s) root = Some x -> is_closedish x = false).

Lemma root_ok_iff s : root_ok s = true <-> root_okP s.
Proof.
  unfold root_ok, root_okP. split.
  - intros [H1 H2]%andb_true_iff. split; intros x Hx; rewrite Hx in *; by apply negb_true_iff.
  - intros [H1 H2]. apply andb_true_iff. split.
    + destruct (sst (srv s) root) as [x|]; [|done]. apply negb_true_iff. by apply H1.
    + destruct (sst (lst s) root) as [x|]; [|done]. apply negb_true_iff. by apply H2.
Qed.

Lemma step_nonproc_new s e c b :
  (forall i, e <> EProc i) -> (forall i c, e <> EProcF i c) ->
  sst (srv s) c = None -> sst (srv (step s e).1) c = Some b -> b = SEmpty.
Proof.
  intros He He2 Ha Hb. destruct e; simpl in Hb; try congruence.
  - repeat case_match; simpl in Hb; congruence.
  - repeat case_match; simpl in Hb; congruence.
  - destruct (srv s !! q) eqn:E; simpl in Hb; [congruence|].
    rewrite sst_insert in Hb. destruct (decide (c = q)); subst; [|congruence]. simpl in Hb. congruence.
  - destruct (srv s !! q) eqn:E; simpl in Hb; [|congruence].
    rewrite sst_insert in Hb. destruct (decide (c = q)); subst; [|congruence].
    unfold sst in Ha. rewrite E in Ha. done.
  - unfold sst in Hb. destruct (decide (c = q)); subst.
    + by rewrite lookup_delete in Hb.
    + rewrite lookup_delete_ne in Hb by done. unfold sst in Ha. congruence.
  - repeat case_match; simpl in Hb; congruence.
  - repeat case_match; simpl in Hb; congruence.
  - by destruct (He i).
  - by destruct (He2 i c0).
Qed.

Lemma step_lst s e x :
  sst (lst (step s e).1) root = Some x ->
  sst (lst s) root = Some x \/ sst (srv s) root = Some x.
Proof.
  destruct e as [q a|pg q ph|pg q ph|pg|pg|pg q|q p|q p|q|q|q|i|i c]; simpl.
  - by left.
  - by left.
  - repeat case_match; simpl; by left.
  - repeat case_match; simpl; by left.
  - by left.
  - by left.
  - repeat case_match; simpl; by left.
  - repeat case_match; simpl; by left.
  - by left.
  - destruct (srv s !! q) as [o|] eqn:E, (lst s !! q) as [o0|] eqn:E0; simpl.
    + destruct (_ && _); simpl; rewrite sst_insert; destruct (decide (root = q)); subst; try (by left);
      intros; right; unfold sst; rewrite E; done.
    + rewrite sst_insert; destruct (decide (root = q)); subst; try (by left).
      intros; right; unfold sst; rewrite E; done.
    + unfold sst. destruct (decide (root = q)); subst.
      * by rewrite lookup_delete.
      * rewrite lookup_delete_ne by done. by left.
    + by left.
  - repeat case_match; simpl; by left.
  - pose proof (proc_spec s i) as (->&_). by left.
  - rewrite procF_fst. destruct (restore_fields s c (proc (hide s c) i).1) as (->&_).
    pose proof (proc_spec (hide s c) i) as (->&_). by left.
Qed.

(* closing the root (lister state not closed / closing) writes nothing, with or without a fault *)
Lemma step_root_close_noop s e r v :
  proc_of s e = Some (r, v) -> r_q r = root -> r_act r = AClose -> is_closedish (q_state v) = false ->
  same_states s (step s e).1.
Proof.
  intros P Hr Ha Hc. apply proc_of_inv in P as (i&[->|[c ->]]&Hn&Hv); simpl.
  - pose proof (proc_spec s i) as (_&P). simpl in P. rewrite Hn, Hv in P. destruct P as (_&R). by apply R.
  - apply same_states_procF.
    pose proof (proc_spec (hide s c) i) as (_&P). simpl in P. rewrite Hn, Hv in P. destruct P as (_&R). by apply R.
Qed.

Lemma step_absent s e q x :
  sst (srv s) q = None -> sst (srv (step s e).1) q = Some x -> x = SEmpty.
Proof.
  intros Ha Hx. destruct e as [q0 a|pg q0 ph|pg q0 ph|pg|pg|pg q0|q0 p|q0 p|q0|q0|q0|i|i c];
    try (eapply (step_nonproc_new s); [| |exact Ha|exact Hx]; done).
  - simpl in Hx. rewrite proc_absent in Hx by done. done.
  - simpl in Hx. rewrite procF_sst in Hx. destruct (decide (q = c)) as [->|Hne].
    + destruct (srv s !! c) as [o|] eqn:E; [unfold sst in Ha; by rewrite E in Ha|].
      rewrite proc_absent in Hx; [done|]. rewrite sst_hide. by destruct (decide (c = c)).
    + rewrite proc_absent in Hx; [done|]. rewrite sst_hide. by destruct (decide (q = c)).
Qed.

Theorem root_never_closed_step s e : root_okP s -> root_okP (step s e).1.
Proof.
  intros [Hs Hl]. split.
  2:{ intros x Hx. apply step_lst in Hx as [?|?]; eauto. }
  intros x Hx.
  destruct (sst (srv s) root) as [a|] eqn:Ha.
  2:{ assert (x = SEmpty) as -> by (eapply step_absent; eauto). done. }
  destruct (decide (a = x)) as [->|Hax]; [by apply Hs|].
  destruct (only_by_request s e root a x) as (r&v&P&Hr&T); try done.
  assert (Hc : is_closedish (q_state v) = false).
  { apply proc_of_inv in P as (i&_&Hn&Hv). apply Hl. unfold sst. rewrite <- Hr, Hv. done. }
  destruct (r_act r) eqn:Ea.
  - by subst.
  - rewrite (step_root_close_noop s e r v) in Hx by done. apply Hs. congruence.
  - subst. destruct (q_state v); simpl in *; done.
  - subst. destruct (q_state v); simpl in *; done.
Qed.

Theorem root_never_closed s h : root_okP s -> root_okP (run s h).
Proof.
  unfold run. revert s. induction h as [|e h IH]; intros s H; simpl; [done|].
  apply IH. by apply root_never_closed_step.
Qed.

(* ---------- T7: no open under a closed / closing parent (as the lister shows it) ---------- *)
Theorem no_open_under_closed_parent s i r v :
  nth_error (wq s) i = Some r -> lst s !! r_q r = Some v -> r_act r = AOpen ->
  parent_blocks s v = true -> q_state v <> SOpen -> q_state v <> SEmpty ->
  (proc s i).2 = OErr /\ srv (proc s i).1 = srv s.
Proof.
  intros Hn Hv Ha Hp H1 H2. unfold proc. rewrite Hn, Hv, Ha.
  assert (Hoh : forall s0, lst s0 = lst s -> open_hier s0 (r_q r) v = (s0, false)).
  { intros s0 Hl. unfold open_hier. unfold parent_blocks in Hp. rewrite Hl.
    destruct (q_parent v) as [p|]; [|done].
    destruct (bool_decide (p = root)); [done|].
    destruct (lst s !! p) as [po|]; [|done]. rewrite Hp. done. }
  unfold exec, open_queue.
  destruct (q_state v) eqn:Ex; try done;
  try (rewrite bool_decide_false by done; rewrite Hoh by done; simpl;
       destruct (_ || _); done).
  simpl. destruct (_ || _); done.
Qed.

(* ---------- T2: closing a queue that has PodGroups yields Closing, Closed when empty ---------- *)
Lemma sync_queue_ok s q view fn s' :
  sync_queue s q view fn = (s', true) -> sst (srv s) q = Some (q_state view) ->
  sst (srv s') q = Some (fn (length (pgs_of (idx s) q))).
Proof.
  unfold sync_queue. intros H Hf.
  destruct (bool_decide (q = root) || bool_decide (is_Some (q_parent view))) eqn:E0.
  - cbn zeta in H. simpl in H.
    destruct (bool_decide (fn (length (pgs_of (idx s) q)) = q_state view)) eqn:E1.
    + apply bool_decide_eq_true in E1. apply sync_hier_spec in H as (_&S&_). rewrite S. simpl. congruence.
    + destruct (apply_state _ _ _) as [[m o']|] eqn:E2; simplify_eq.
      apply sync_hier_spec in H as (_&S&_). apply apply_state_spec in E2 as (_&_&A&_).
      rewrite S. simpl. rewrite A. destruct (decide (q = q)); done.
  - destruct (srv s !! q) as [o|] eqn:E3; simplify_eq.
    cbn zeta in H. simpl in H.
    assert (q_state o = q_state view) as Ho. { unfold sst in Hf. rewrite E3 in Hf. simpl in Hf. congruence. }
    destruct (bool_decide (fn (length (pgs_of (idx s) q)) = q_state view)) eqn:E1.
    + apply bool_decide_eq_true in E1. apply sync_hier_spec in H as (_&S&_). rewrite S. simpl.
      rewrite sst_insert. destruct (decide (q = q)); [|done]. simpl. congruence.
    + destruct (apply_state _ _ _) as [[m o']|] eqn:E2; simplify_eq.
      apply sync_hier_spec in H as (_&S&_). apply apply_state_spec in E2 as (_&_&A&_).
      rewrite S. simpl. rewrite A. destruct (decide (q = q)); done.
Qed.

Lemma close_queue_ok s q view fn s' :
  close_queue s q view fn = (s', true) -> q <> root -> sst (srv s) q = Some (q_state view) ->
  sst (srv s') q = Some (fn (length (pgs_of (idx s) q))).
Proof.
  unfold close_queue. intros H Hr Hf.
  rewrite (bool_decide_false (q = root)) in H by done. rewrite andb_false_r in H.
  destruct (if is_closedish (q_state view) then (s, true) else close_children s (children s q)) as [s1 ok1] eqn:E1.
  assert (F1 : same_states s s1 /\ idx s1 = idx s).
  { destruct (is_closedish (q_state view)); simplify_eq.
    - split; [by intros c|done].
    - eapply close_children_spec in E1 as (_&?&?); eauto. }
  destruct F1 as (S1&I1). destruct ok1; simpl in H; simplify_eq. rewrite I1 in H.
  destruct (bool_decide (fn (length (pgs_of (idx s) q)) = q_state view)) eqn:E2; simplify_eq.
  { apply bool_decide_eq_true in E2. rewrite S1. congruence. }
  destruct (apply_state (srv s1) q _) as [[m o']|] eqn:E3; simplify_eq.
  apply apply_state_spec in E3 as (_&_&A&_). simpl. rewrite A. destruct (decide (q = q)); done.
Qed.

Theorem close_result s i r v :
  nth_error (wq s) i = Some r -> lst s !! r_q r = Some v -> r_act r = AClose ->
  (proc s i).2 = OOk -> r_q r <> root -> q_state v <> SClosed -> q_state v <> SInvalid ->
  sst (srv s) (r_q r) = Some (q_state v) ->
  sst (srv (proc s i).1) (r_q r) = Some (closeish (length (pgs_of (idx s) (r_q r)))).
Proof.
  intros Hn Hv Ha Ho Hr H1 H2 Hf. unfold proc in *. rewrite Hn, Hv, Ha in *.
  destruct (exec _ _ _ _) as [s1 ok] eqn:E.
  destruct ok; simpl in *.
  2:{ destruct (_ || _); simpl in Ho; done. }
  unfold exec in E. destruct (q_state v) eqn:Ex; try done.
  - eapply close_queue_ok in E; eauto. rewrite Ex. done.
  - eapply close_queue_ok in E; eauto. rewrite Ex. done.
  - eapply sync_queue_ok in E; eauto. rewrite Ex. done.
  - eapply close_queue_ok in E; eauto. rewrite Ex. done.
Qed.

(* ---------- T5: re-opening enqueues Open for exactly the marked children ---------- *)
Lemma fold_open_wq (l : list (positive * qobj)) : forall s,
  wq (fold_left (fun s' cc => if cbp_true (q_ann (snd cc)) then push s' (mkReq (fst cc) AOpen EvNone 0) else s') l s) =
  wq s ++ map (fun cc => mkReq (fst cc) AOpen EvNone 0) (filter (fun cc => cbp_true (q_ann (snd cc))) l).
Proof.
  induction l as [|cc l IH]; intros s; simpl; [by rewrite app_nil_r|].
  rewrite IH. destruct (cbp_true (q_ann cc.2)) eqn:E; [|done].
  simpl. by rewrite <- app_assoc.
Qed.

Definition reopen_reqs (s : st) (q : positive) : list req :=
  map (fun cc => mkReq (fst cc) AOpen EvNone 0)
      (filter (fun cc : positive * qobj => cbp_true (q_ann (snd cc))) (children s q)).

Theorem reopen_exact s i r v :
  nth_error (wq s) i = Some r -> lst s !! r_q r = Some v -> r_act r = AOpen ->
  q_state v = SClosed \/ q_state v = SClosing \/ q_state v = SUnknown ->
  (proc s i).2 = OOk ->
  wq (proc s i).1 = remove_nth i (wq s) ++ reopen_reqs s (r_q r) /\
  sst (srv (proc s i).1) (r_q r) = Some SOpen /\
  (cbp_of (q_ann v) = Some false \/ scbp (srv (proc s i).1) (r_q r) = Some false).
Proof.
  intros Hn Hv Ha Hx Ho. unfold proc in *. rewrite Hn, Hv, Ha in *.
  destruct (exec _ _ _ _) as [s1 ok] eqn:E.
  destruct ok; simpl in *.
  2:{ destruct (_ || _); simpl in Ho; done. }
  assert (E' : open_queue (set_wq s (remove_nth i (wq s))) (r_q r) v = (s1, true)).
  { unfold exec in E. destruct Hx as [Hx|[Hx|Hx]]; rewrite Hx in E; done. }
  clear E. unfold open_queue in E'.
  rewrite (bool_decide_false (q_state v = SOpen)) in E' by (destruct Hx as [Hx|[Hx|Hx]]; rewrite Hx; done).
  destruct (open_hier _ _ _) as [s2 ok2] eqn:E2.
  destruct ok2; simpl in E'; [|done].
  destruct (apply_state (srv s2) (r_q r) SOpen) as [[m o']|] eqn:E3; [|done].
  destruct (patch_ann _ _ _ _) as [m2|] eqn:E4; simplify_eq. simpl.
  apply apply_state_spec in E3 as (_&_&A&_).
  unfold open_hier in E2. destruct (negb _); [done|]. simplify_eq.
  split; [|split].
  - rewrite fold_open_wq. done.
  - rewrite (patch_ann_sst _ _ _ _ _ E4). simpl. rewrite A. destruct (decide (r_q r = r_q r)); done.
  - eapply patch_ann_done; eauto.
Qed.

Lemma ins_pos_In k l x : In x (ins_pos k l) <-> x = k \/ In x l.
Proof.
  induction l as [|k' l IH]; simpl; [naive_solver|].
  destruct (Pos.leb k k'); simpl; [naive_solver|]. rewrite IH. naive_solver.
Qed.
Lemma sort_pos_In l x : In x (sort_pos l) <-> In x l.
Proof.
  induction l as [|k l IH]; simpl; [done|]. rewrite ins_pos_In, IH. naive_solver.
Qed.

Lemma children_In s q c co :
  In (c, co) (children s q) <-> lst s !! c = Some co /\ q_parent co = Some q.
Proof.
  unfold children. rewrite in_flat_map. split.
  - intros (x&_&Hx). destruct (lst s !! x) as [o|] eqn:E; [|done].
    destruct (bool_decide (q_parent o = Some q)) eqn:E1; [|done].
    apply bool_decide_eq_true in E1. destruct Hx as [Hx|[]]. by simplify_eq.
  - intros [Hc Hp]. exists c. split.
    + unfold lister_names. rewrite sort_pos_In. apply in_map_iff. exists (c, co). split; [done|].
      apply elem_of_list_In, elem_of_map_to_list. done.
    + rewrite Hc. rewrite bool_decide_true by done. by left.
Qed.

(* the requests a re-open enqueues name exactly the lister's children of q whose
   closed-by-parent marker is "true" *)
Theorem reopen_reqs_exact s q x :
  In x (reopen_reqs s q) <->
  exists c co, x = mkReq c AOpen EvNone 0 /\ lst s !! c = Some co /\
               q_parent co = Some q /\ cbp_of (q_ann co) = Some true.
Proof.
  unfold reopen_reqs. rewrite in_map_iff. split.
  - intros ([c co]&<-&Hin). apply filter_In in Hin as [Hin Hc].
    apply children_In in Hin as [? ?]. exists c, co. simpl in *.
    unfold cbp_true in Hc. apply bool_decide_eq_true in Hc. done.
  - intros (c&co&->&Hl&Hp&Hc). exists (c, co). split; [done|].
    apply filter_In. split.
    + apply children_In. done.
    + simpl. unfold cbp_true. by apply bool_decide_eq_true.
Qed.

(* ---------- T4: closing a parent marks and closes its open children ---------- *)
Lemma close_children_keeps_true l : forall s s' ok c,
  close_children s l = (s', ok) -> scbp (srv s) c = Some true -> scbp (srv s') c = Some true.
Proof.
  induction l as [|[c1 co1] l IH]; intros s s' ok c H Hs; simpl in H; [by simplify_eq|].
  destruct (is_closedish (q_state co1)); [by eapply IH|].
  destruct (patch_ann (srv s) c1 (q_ann co1) true) as [m1|] eqn:E; [|by simplify_eq].
  eapply IH; [exact H|]. simpl.
  destruct (patch_ann_scbp _ _ _ _ _ E c) as [->|(_&->&_)]; done.
Qed.

Lemma close_children_ok l : forall s s',
  close_children s l = (s', true) ->
  forall c co, In (c, co) l -> is_closedish (q_state co) = false ->
    (cbp_of (q_ann co) = Some true \/ scbp (srv s') c = Some true) /\
    In (mkReq c AClose EvNone 0) (wq s').
Proof.
  induction l as [|[c0 co0] l IH]; intros s s' H c co Hin Hc; simpl in *; [done|].
  destruct (is_closedish (q_state co0)) eqn:E0.
  - destruct Hin as [Heq|Hin]; [simplify_eq; congruence|]. eapply IH; eauto.
  - destruct (patch_ann (srv s) c0 (q_ann co0) true) as [m|] eqn:E1; [|done].
    destruct Hin as [Heq|Hin]; [|eapply IH; eauto]. simplify_eq.
    pose proof (close_children_spec _ _ _ _ H) as ((_&_&_&l'&Hw)&_&_).
    split.
    + destruct (patch_ann_done _ _ _ _ _ E1) as [?|Hm]; [by left|]. right.
      eapply close_children_keeps_true; [exact H|]. done.
    + rewrite Hw. simpl. apply in_or_app. left. apply in_or_app. right. by left.
Qed.

Theorem close_propagates s i r v :
  nth_error (wq s) i = Some r -> lst s !! r_q r = Some v -> r_act r = AClose ->
  (proc s i).2 = OOk -> r_q r <> root ->
  is_closedish (q_state v) = false -> q_state v <> SInvalid ->
  forall c co, lst s !! c = Some co -> q_parent co = Some (r_q r) -> is_closedish (q_state co) = false ->
    (cbp_of (q_ann co) = Some true \/ scbp (srv (proc s i).1) c = Some true) /\
    In (mkReq c AClose EvNone 0) (wq (proc s i).1).
Proof.
  intros Hn Hv Ha Ho Hr Hx Hinv c co Hc Hp Hcc. unfold proc in *. rewrite Hn, Hv, Ha in *.
  destruct (exec _ _ _ _) as [s1 ok] eqn:E.
  destruct ok; simpl in *.
  2:{ destruct (_ || _); simpl in Ho; done. }
  assert (E' : close_queue (set_wq s (remove_nth i (wq s))) (r_q r) v closeish = (s1, true)).
  { unfold exec in E. destruct (q_state v); simpl in *; done. }
  clear E. unfold close_queue in E'.
  rewrite (bool_decide_false (r_q r = root)) in E' by done. rewrite andb_false_r, Hx in E'.
  destruct (close_children _ _) as [s2 ok2] eqn:E2.
  destruct ok2; simpl in E'; [|done].
  assert (Hin : In (c, co) (children (set_wq s (remove_nth i (wq s))) (r_q r))).
  { apply children_In. done. }
  destruct (close_children_ok _ _ _ E2 c co Hin Hcc) as [H1 H2].
  destruct (bool_decide _); simplify_eq; [done|].
  destruct (apply_state (srv s2) (r_q r) _) as [[m o']|] eqn:E3; simplify_eq.
  apply apply_state_spec in E3 as (_&_&_&B&_). simpl. rewrite B. done.
Qed.

(* ---------- the executable laws accept the model's own steps ---------- *)
Lemma law_only_by_request_holds s e : law_only_by_request s e (step s e).1 = true.
Proof.
  unfold law_only_by_request. apply forallb_forall. intros q _. unfold changed.
  destruct (sst (srv s) q) as [a|] eqn:Ha; [|done].
  destruct (sst (srv (step s e).1) q) as [b|] eqn:Hb; [|done].
  destruct (decide (a = b)); [by rewrite bool_decide_true|].
  rewrite bool_decide_false by done. simpl.
  destruct (only_by_request s e q a b) as (r&v&->&<-&->); try done.
  rewrite !bool_decide_true; done.
Qed.

Lemma law_closed_only_when_empty_holds s e : law_closed_only_when_empty s e (step s e).1 = true.
Proof.
  unfold law_closed_only_when_empty. apply forallb_forall. intros q _. unfold changed.
  destruct (sst (srv s) q) as [a|] eqn:Ha; [|done].
  destruct (sst (srv (step s e).1) q) as [b|] eqn:Hb; [|done].
  destruct (decide (a = b)); [by rewrite bool_decide_true|].
  rewrite bool_decide_false by done. simpl.
  destruct (decide (b = SClosed)) as [->|]; [|by rewrite bool_decide_false by congruence].
  rewrite bool_decide_true by done. simpl.
  rewrite bool_decide_true; [done|]. by apply (closed_only_when_empty s e q a).
Qed.

Lemma law_root_never_closed_holds s e : law_root_never_closed s e (step s e).1 = true.
Proof.
  unfold law_root_never_closed. destruct (root_ok s) eqn:E; [|done]. simpl.
  apply root_ok_iff, root_never_closed_step, root_ok_iff. done.
Qed.

Lemma law_no_open_under_closed_parent_holds s e :
  law_no_open_under_closed_parent s e (step s e).1 (step s e).2 = true.
Proof.
  unfold law_no_open_under_closed_parent. destruct (proc_of_clean s e) as [[r v]|] eqn:P; [|done].
  apply proc_of_clean_inv in P as (i&->&Hn&Hv). simpl.
  destruct (bool_decide (r_act r = AOpen)) eqn:E1; [|done]. apply bool_decide_eq_true in E1.
  destruct (parent_blocks s v) eqn:E2; [|done].
  destruct (bool_decide (q_state v = SOpen)) eqn:E3; [done|]. apply bool_decide_eq_false in E3.
  destruct (bool_decide (q_state v = SEmpty)) eqn:E4; [done|]. apply bool_decide_eq_false in E4.
  simpl. destruct (no_open_under_closed_parent s i r v) as [-> ->]; try done.
  rewrite !bool_decide_true; done.
Qed.

Lemma law_close_result_holds s e : law_close_result s e (step s e).1 (step s e).2 = true.
Proof.
  unfold law_close_result. destruct (proc_of_clean s e) as [[r v]|] eqn:P; [|done].
  apply proc_of_clean_inv in P as (i&->&Hn&Hv). simpl.
  destruct (bool_decide (r_act r = AClose)) eqn:E1; [|done]. apply bool_decide_eq_true in E1.
  destruct (bool_decide ((proc s i).2 = OOk)) eqn:E2; [|done]. apply bool_decide_eq_true in E2.
  destruct (bool_decide (r_q r = root)) eqn:E3; [done|]. apply bool_decide_eq_false in E3.
  destruct (bool_decide (q_state v = SClosed)) eqn:E4; [done|]. apply bool_decide_eq_false in E4.
  destruct (bool_decide (q_state v = SInvalid)) eqn:E5; [done|]. apply bool_decide_eq_false in E5.
  destruct (bool_decide (sst (lst s) (r_q r) = sst (srv s) (r_q r))) eqn:E6; [|done].
  apply bool_decide_eq_true in E6. simpl.
  rewrite bool_decide_true; [done|]. apply (close_result s i r v); try done.
  rewrite <- E6. unfold sst. by rewrite Hv.
Qed.

(* ---------- non-vacuity: a forest on which the hypotheses of the theorems hold ---------- *)
Definition ex_state : st :=
  mkSt (list_to_map [(1%positive, mkQ None SOpen None); (2%positive, mkQ (Some 1%positive) SOpen None);
                     (3%positive, mkQ (Some 2%positive) SOpen None); (4%positive, mkQ (Some 2%positive) SClosed None)])
       (list_to_map [(1%positive, mkQ None SOpen None); (2%positive, mkQ (Some 1%positive) SOpen None);
                     (3%positive, mkQ (Some 2%positive) SOpen None); (4%positive, mkQ (Some 2%positive) SClosed None)])
       (list_to_map [(1%positive, (2%positive, 1))]) [(2%positive, 1%positive)] [] 3.

(* close q2 (one PodGroup): Closing, child q3 marked and closed, q4 (closed by hand)
   untouched; delete the PodGroup: Closed; re-open: q3 re-opened, q4 stays closed.
   After every processed request the informer delivers all queues. *)
Definition sync_all : list ev := [ELSync 1; ELSync 2; ELSync 3; ELSync 4].
Definition drain1 : list ev := EProc 0 :: sync_all.
Definition ex_phase1 : list ev := [ECmd 2 AClose] ++ drain1 ++ drain1 ++ drain1 ++ drain1.
Definition ex_phase2 : list ev := ex_phase1 ++ [EPgDel 1] ++ drain1 ++ drain1 ++ drain1.
Definition ex_history : list ev := ex_phase2 ++ [ECmd 2 AOpen] ++ drain1 ++ drain1 ++ drain1 ++ drain1.

Example ex_nonvacuous :
  root_okP ex_state /\
  (let s := run ex_state ex_phase1 in
   sst (srv s) 2 = Some SClosing /\ sst (srv s) 3 = Some SClosed /\ scbp (srv s) 3 = Some true /\
   scbp (srv s) 4 = None /\ wq s = []) /\
  sst (srv (run ex_state ex_phase2)) 2 = Some SClosed /\
  let s := run ex_state ex_history in
  sst (srv s) 2 = Some SOpen /\ sst (srv s) 3 = Some SOpen /\ sst (srv s) 4 = Some SClosed /\
  scbp (srv s) 3 = Some false /\ wq s = [].
Proof. split; [split; intros x Hx; vm_compute in Hx; by simplify_eq|]. vm_compute. repeat split. Qed.

(* ---------- the lag races: what a lagging lister still breaks, and what was repaired ---------- *)
Definition q2 : positive := 2%positive.
Definition q3 : positive := 3%positive.

(* race A (known finding C13-stale-lister-sync-overwrites-open): q2 Closing with one
   PodGroup; Open processed; lister not delivered; PodGroup deleted; Sync processed *)
Definition raceA_init : st :=
  let m : qmap := list_to_map [(1%positive, mkQ None SOpen None); (q2, mkQ (Some 1%positive) SClosing None)] in
  mkSt m m (list_to_map [(1%positive, (q2, 1))]) [(q2, 1%positive)] [] 3.
Definition raceA_state : st := run raceA_init [ECmd q2 AOpen; EProc 0; EPgDel 1].

(* the full-strength form of [sync_moves] (no freshness hypothesis) is FALSE: the Sync
   moves the server's state Open -> Closed *)
Theorem sync_moves_full_refuted :
  ~ (forall s e q a b,
       sst (srv s) q = Some a -> sst (srv (step s e).1) q = Some b -> a <> b ->
       exists r v, proc_of s e = Some (r, v) /\ r_q r = q /\
         (r_act r = AOpen \/ r_act r = AClose \/ (a = SEmpty /\ b = SOpen) \/ (a = SClosing /\ b = SClosed))).
Proof.
  intros H.
  destruct (H raceA_state (EProc 0) q2 SOpen SClosed) as (r&v&P&_&D);
    [vm_compute; reflexivity|vm_compute; reflexivity|discriminate|].
  vm_compute in P. simplify_eq. simpl in D. naive_solver.
Qed.

(* race C: parent q2 closed and re-opened before the lister shows q3's marker *)
Definition raceC_init : st :=
  let m : qmap := list_to_map [(1%positive, mkQ None SOpen None); (q2, mkQ (Some 1%positive) SOpen None);
                               (q3, mkQ (Some q2) SOpen None)] in
  mkSt m m ∅ [] [] 3.
Definition raceC_history : list ev := [ECmd q2 AClose; EProc 0; ELSync q2; ECmd q2 AOpen; EProc 0].
Definition raceC_state : st := run raceC_init raceC_history.

(* the full-strength, step-level form of [reopen_exact] ("the re-open enqueues an Open for
   every child the SERVER shows marked") is FALSE with a lagging lister *)
Theorem reopen_server_marked_children_refuted :
  ~ (forall s i r v,
       nth_error (wq s) i = Some r -> lst s !! r_q r = Some v -> r_act r = AOpen ->
       is_closedish (q_state v) = true -> (proc s i).2 = OOk ->
       forall c co, srv s !! c = Some co -> q_parent co = Some (r_q r) -> cbp_of (q_ann co) = Some true ->
       In (mkReq c AOpen EvNone 0) (wq (proc s i).1)).
Proof.
  intros H.
  assert (X := H raceC_state 0%nat (mkReq q2 AOpen EvCmd 0) (mkQ (Some 1%positive) SClosed None)).
  specialize (X ltac:(vm_compute; reflexivity) ltac:(vm_compute; reflexivity) eq_refl eq_refl
                ltac:(vm_compute; reflexivity) q3 (mkQ (Some q2) SClosed (Some (false, Some true)))
                ltac:(vm_compute; reflexivity) eq_refl eq_refl).
  vm_compute in X. done.
Qed.

(* ... but since the repair b628b4b (updateQueue re-syncs on a marker change) the child is
   re-opened as soon as the lister shows its marker: the delivery enqueues a Sync, and
   that Sync enqueues the Open *)
Lemma sync_hier_reopens s q view p po :
  q <> root -> q_parent view = Some p -> lst s !! p = Some po -> q_state po = SOpen ->
  is_closedish (q_state view) = true -> cbp_true (q_ann view) = true ->
  sync_hier s q view = (push s (mkReq q AOpen EvNone 0), true).
Proof.
  intros Hr Hp Hl Ho Hc Hm. unfold sync_hier. rewrite bool_decide_false by done.
  rewrite Hp, Hl, Ho, Hc, Hm. done.
Qed.

Lemma sync_queue_reopens s q view fn p po :
  q <> root -> q_parent view = Some p -> lst s !! p = Some po -> q_state po = SOpen ->
  srv s !! q = Some view -> cbp_true (q_ann view) = true -> is_closedish (q_state view) = true ->
  (forall n, is_closedish (fn n) = true) ->
  exists s', sync_queue s q view fn = (s', true) /\ In (mkReq q AOpen EvNone 0) (wq s').
Proof.
  intros Hr Hp Hl Ho Hs Hm Hc Hfn. unfold sync_queue.
  rewrite (bool_decide_true (is_Some (q_parent view))) by (rewrite Hp; eauto). rewrite orb_true_r.
  cbn zeta. destruct (bool_decide _) eqn:E.
  - rewrite (sync_hier_reopens _ q view p po) by done.
    eexists. split; [reflexivity|]. simpl. apply in_or_app. right. by left.
  - unfold apply_state. simpl. rewrite Hs.
    rewrite (sync_hier_reopens _ q _ p po) by (try done; simpl; apply Hfn).
    eexists. split; [reflexivity|]. simpl. apply in_or_app. right. by left.
Qed.

Theorem marked_child_heals s c co lo p po :
  srv s !! c = Some co -> lst s !! c = Some lo ->
  cbp_of (q_ann co) = Some true -> cbp_of (q_ann lo) <> Some true ->
  is_closedish (q_state co) = true -> q_parent co = Some p -> c <> root -> p <> c ->
  lst s !! p = Some po -> q_state po = SOpen ->
  let s1 := (step s (ELSync c)).1 in
  wq s1 = wq s ++ [sync_req c] /\
  (proc s1 (length (wq s))).2 = OOk /\
  In (mkReq c AOpen EvNone 0) (wq (proc s1 (length (wq s))).1).
Proof.
  intros Hs Hl Hm Hlm Hc Hp Hroot Hpc Hpl Hpo. simpl. rewrite Hs, Hl.
  assert (E : bool_decide (q_parent lo = q_parent co) && bool_decide (cbp_of (q_ann lo) = cbp_of (q_ann co)) = false).
  { apply andb_false_iff. right. apply bool_decide_eq_false. congruence. }
  rewrite E. simpl. split; [done|].
  unfold proc. simpl. rewrite nth_error_app2 by lia. rewrite Nat.sub_diag. simpl.
  rewrite lookup_insert.
  set (s0 := set_wq _ _).
  assert (Hm' : cbp_true (q_ann co) = true) by (unfold cbp_true; by apply bool_decide_eq_true).
  assert (Hl0 : lst s0 !! p = Some po) by (simpl; rewrite lookup_insert_ne by done; done).
  assert (Hs0 : srv s0 !! c = Some co) by done.
  assert (X : exists s', exec s0 c co ASync = (s', true) /\ In (mkReq c AOpen EvNone 0) (wq s')).
  { unfold exec. destruct (q_state co) eqn:Ex; try done.
    - eapply sync_queue_reopens; eauto. by rewrite Ex.
    - eapply sync_queue_reopens; eauto; [by rewrite Ex|]. by intros []. }
  destruct X as (s'&->&Hin). done.
Qed.

(* ---------- the PodGroups that REALLY exist: completeness of the controller's index ---------- *)
(* every PodGroup object of the PodGroup lister is indexed under its queue *)
Definition idx_complete (s : st) : Prop :=
  forall pg q ph, pgl s !! pg = Some (q, ph) -> In (q, pg) (idx s).

(* events under which completeness is kept: everything except a PodGroup that changes its
   queue (updatePodGroup: "we have no use case update PodGroup.Spec.Queue") and the delivery
   of a queue DELETION (deleteQueue drops the queue's index) *)
Definition benign (s : st) (e : ev) : Prop :=
  match e with
  | EPgUpd pg q _ => forall q0 ph0, pgl s !! pg = Some (q0, ph0) -> q0 = q
  | ELSync q => is_Some (srv s !! q) \/ lst s !! q = None
  | EPgDelLate pg q => forall ph, pgl s !! pg <> Some (q, ph)   (* the store really dropped it *)
  | _ => True
  end.
Fixpoint benign_hist (s : st) (h : list ev) : Prop :=
  match h with
  | [] => True
  | e :: r => benign s e /\ benign_hist (step s e).1 r
  end.

Lemma sync_queue_idx s q view fn s' ok :
  sync_queue s q view fn = (s', ok) ->
  pgl s' = pgl s /\ forall x, In x (idx s) -> is_Some (pgl s !! snd x) -> In x (idx s').
Proof.
  unfold sync_queue. intros H.
  assert (K : forall (s1 : st) v1 s'' ok',
            pgl s1 = pgl s -> idx s1 = idx s ->
            (let n := length (pgs_of (idx s1) q) in
             let s2 := set_idx s1 (filter (fun qp => negb (bool_decide (fst qp = q) && bool_decide (pgl s1 !! snd qp = None))) (idx s1)) in
             let new := fn n in
             if bool_decide (new = q_state view) then sync_hier s2 q v1
             else match apply_state (srv s2) q new with
                  | None => (s2, false)
                  | Some (m, o') => sync_hier (set_srv s2 m) q o'
                  end) = (s'', ok') ->
            pgl s'' = pgl s /\ forall x, In x (idx s) -> is_Some (pgl s !! snd x) -> In x (idx s'')).
  { intros s1 v1 s'' ok' Hp Hi HH. cbn zeta in HH.
    assert (Hf : forall x, In x (idx s) -> is_Some (pgl s !! snd x) ->
              In x (filter (fun qp => negb (bool_decide (fst qp = q) && bool_decide (pgl s1 !! snd qp = None))) (idx s1))).
    { intros x Hx [y Hy]. apply filter_In. rewrite Hi. split; [done|]. rewrite Hp, Hy.
      rewrite (bool_decide_false (Some y = None)) by done. by rewrite andb_false_r. }
    destruct (bool_decide (fn (length (pgs_of (idx s1) q)) = q_state view)).
    - apply sync_hier_spec in HH as ((_&P&_)&_&I). simpl in *. split; [congruence|]. intros x Hx Hs. rewrite I. auto.
    - destruct (apply_state _ _ _) as [[m o']|]; simplify_eq.
      + apply sync_hier_spec in HH as ((_&P&_)&_&I). simpl in *. split; [congruence|]. intros x Hx Hs. rewrite I. auto.
      + simpl. split; [done|]. auto. }
  destruct (bool_decide (q = root) || bool_decide (is_Some (q_parent view))).
  - eapply K; eauto.
  - destruct (srv s !! q) as [o|]; simplify_eq; [|split; [done|auto]].
    eapply (K (set_srv s _)); eauto.
Qed.

Lemma exec_idx s q view a s' ok :
  exec s q view a = (s', ok) ->
  pgl s' = pgl s /\ forall x, In x (idx s) -> is_Some (pgl s !! snd x) -> In x (idx s').
Proof.
  unfold exec. intros H.
  destruct (q_state view), a;
  try (by eapply sync_queue_idx; eauto);
  try (apply open_queue_spec in H as ((_&P&_)&_&I); split; [done|]; intros; by rewrite I);
  try (apply close_queue_spec in H as ((_&P&_)&_&I&_); split; [done|]; intros; by rewrite I);
  simplify_eq; (split; [done|auto]).
Qed.

Lemma pgs_of_In l q pg : In (q, pg) l -> In pg (pgs_of l q).
Proof.
  intros H. unfold pgs_of. apply in_map_iff. exists (q, pg). split; [done|].
  apply filter_In. split; [done|]. simpl. by apply bool_decide_eq_true.
Qed.

Lemma idx_add_In l q pg x : In x (idx_add l q pg) <-> In x l \/ x = (q, pg).
Proof.
  unfold idx_add. destruct (bool_decide ((q, pg) ∈ l)) eqn:E.
  - apply bool_decide_eq_true in E. apply elem_of_list_In in E. split; [by left|]. intros [?| ->]; done.
  - rewrite in_app_iff. simpl. naive_solver.
Qed.

Lemma idx_complete_proc s i : idx_complete s -> idx_complete (proc s i).1.
Proof.
  intros C. unfold proc. destruct (nth_error (wq s) i) as [r|]; [|exact C].
  destruct (lst s !! r_q r) as [v|]; [|exact C].
  destruct (exec _ _ _ _) as [s1 ok] eqn:E. apply exec_idx in E as (P&I). simpl in *.
  assert (C1 : idx_complete s1).
  { intros pg q ph H. rewrite P in H. apply I; [eauto|]. simpl. rewrite H. eauto. }
  destruct ok; [exact C1|]. destruct (_ || _); exact C1.
Qed.

Lemma idx_complete_step s e : idx_complete s -> benign s e -> idx_complete (step s e).1.
Proof.
  intros C B. destruct e as [q a|pg q ph|pg q ph|pg|pg|pg q|q p|q p|q|q|q|i|i c]; simpl in *.
  - exact C.
  - intros pg' q' ph' H. simpl in *. apply idx_add_In.
    destruct (decide (pg' = pg)) as [->|Hne].
    + rewrite lookup_insert in H. simplify_eq. by right.
    + rewrite lookup_insert_ne in H by done. left. eauto.
  - destruct (pgl s !! pg) as [[q0 ph0]|] eqn:E; [|exact C].
    assert (q0 = q) as -> by (eapply B; eauto).
    assert (X : forall l, (forall x, In x (idx s) -> In x l) ->
              forall pg' q' ph', <[pg:=(q, ph)]> (pgl s) !! pg' = Some (q', ph') -> In (q', pg') l).
    { intros l Hl pg' q' ph' H. apply Hl. destruct (decide (pg' = pg)) as [->|Hne].
      - rewrite lookup_insert in H. simplify_eq. eauto.
      - rewrite lookup_insert_ne in H by done. eauto. }
    destruct (bool_decide (ph0 = ph)); simpl; intros pg' q' ph' H; simpl in *.
    + eapply X; eauto.
    + eapply (X (idx_add (idx s) q pg)); eauto. intros x Hx. apply idx_add_In. by left.
  - destruct (pgl s !! pg) as [[q0 ph0]|] eqn:E; [|exact C].
    intros pg' q' ph' H. simpl in *. destruct (decide (pg' = pg)) as [->|Hne].
    + by rewrite lookup_delete in H.
    + rewrite lookup_delete_ne in H by done. unfold idx_del. apply filter_In. split; [eauto|].
      rewrite bool_decide_false; [done|]. congruence.
  - intros pg' q' ph' H. simpl in *. destruct (decide (pg' = pg)) as [->|Hne].
    + by rewrite lookup_delete in H.
    + rewrite lookup_delete_ne in H by done. eauto.
  - intros pg' q' ph' H. simpl in *. unfold idx_del. apply filter_In. split; [eauto|].
    rewrite bool_decide_false; [done|]. intros [= -> ->]. by apply (B ph').
  - destruct (srv s !! q); exact C.
  - destruct (srv s !! q); exact C.
  - exact C.
  - destruct (srv s !! q) as [o|] eqn:E1, (lst s !! q) as [o0|] eqn:E2; simpl; try exact C.
    + destruct (_ && _); exact C.
    + destruct B as [[? ?]|?]; congruence.
  - destruct (lst s !! q); exact C.
  - by apply idx_complete_proc.
  - rewrite procF_fst. destruct (restore_fields s c (proc (hide s c) i).1) as (_&Hp&Hi&_).
    assert (C1 : idx_complete (proc (hide s c) i).1) by (apply idx_complete_proc; exact C).
    intros pg q ph H. rewrite Hp in H. rewrite Hi. by eapply C1.
Qed.

Theorem idx_complete_run h : forall s, idx_complete s -> benign_hist s h -> idx_complete (run s h).
Proof.
  unfold run. induction h as [|e h IH]; intros s C B; simpl in *; [done|].
  destruct B as [B1 B2]. apply IH; [by apply idx_complete_step|done].
Qed.

(* Closed is entered only when no PodGroup of the queue exists (not merely: when the
   controller's index is empty), and a close with existing PodGroups yields Closing *)
Theorem closed_only_when_really_empty s e q a :
  idx_complete s ->
  sst (srv s) q = Some a -> a <> SClosed -> sst (srv (step s e).1) q = Some SClosed ->
  forall pg ph, pgl s !! pg <> Some (q, ph).
Proof.
  intros C Ha Hne Hb pg ph H. apply C in H. apply pgs_of_In in H.
  rewrite (closed_only_when_empty s e q a) in H by done. done.
Qed.

Theorem close_with_real_pgs s i r v pg ph :
  idx_complete s -> pgl s !! pg = Some (r_q r, ph) ->
  nth_error (wq s) i = Some r -> lst s !! r_q r = Some v -> r_act r = AClose ->
  (proc s i).2 = OOk -> r_q r <> root -> q_state v <> SClosed -> q_state v <> SInvalid ->
  sst (srv s) (r_q r) = Some (q_state v) ->
  sst (srv (proc s i).1) (r_q r) = Some SClosing.
Proof.
  intros C Hpg Hn Hv Ha Ho Hr H1 H2 Hf.
  rewrite (close_result s i r v) by done.
  apply C, pgs_of_In in Hpg. destruct (pgs_of (idx s) (r_q r)); [done|]. done.
Qed.

Theorem closed_only_when_really_empty_hist s0 h e q a : let s := run s0 h in
  idx_complete s0 -> benign_hist s0 h ->
  sst (srv s) q = Some a -> a <> SClosed -> sst (srv (step s e).1) q = Some SClosed ->
  forall pg ph, pgl s !! pg <> Some (q, ph).
Proof. intros s C B. apply closed_only_when_really_empty. by apply idx_complete_run. Qed.

(* ---------- provenance of requests (clause "only in response to commands or the parent's state") ---------- *)
(* a request born of parent/child propagation while a request for queue q is processed
   (L = the lister at that moment): Event "", Open / Close, no retries yet, and its target
   is q itself (q's own sync reacting to the state the lister shows for q's parent) or a
   queue the lister shows as a CHILD of q (q's close / re-open propagating downwards) *)
Definition prop_req_at (L : qmap) (q : positive) (x : req) : Prop :=
  r_ev x = EvNone /\ r_tries x = 0%nat /\ (r_act x = AOpen \/ r_act x = AClose) /\
  (r_q x = q \/ exists co, L !! r_q x = Some co /\ q_parent co = Some q).
Definition emits (L : qmap) (q : positive) (s s' : st) : Prop :=
  exists l, wq s' = wq s ++ l /\ Forall (prop_req_at L q) l.

Lemma emits_refl L q s : emits L q s s.
Proof. exists []. split; [by rewrite app_nil_r|constructor]. Qed.
Lemma emits_trans L q a b c : emits L q a b -> emits L q b c -> emits L q a c.
Proof.
  intros (l1&H1&F1) (l2&H2&F2). exists (l1 ++ l2). split; [rewrite H2, H1; by rewrite app_assoc|].
  apply Forall_app. done.
Qed.
Lemma emits_same_wq L q s s' : wq s' = wq s -> emits L q s s'.
Proof. intros H. exists []. split; [by rewrite app_nil_r|constructor]. Qed.
Lemma emits_push_srv L q s m c a :
  a = AOpen \/ a = AClose -> (c = q \/ exists co, L !! c = Some co /\ q_parent co = Some q) ->
  emits L q s (push (set_srv s m) (mkReq c a EvNone 0)).
Proof. intros Ha Hc. exists [mkReq c a EvNone 0]. split; [done|]. constructor; [|constructor]. repeat split; done. Qed.
Lemma emits_push L q s c a :
  a = AOpen \/ a = AClose -> (c = q \/ exists co, L !! c = Some co /\ q_parent co = Some q) ->
  emits L q s (push s (mkReq c a EvNone 0)).
Proof. intros Ha Hc. exists [mkReq c a EvNone 0]. split; [done|]. constructor; [|constructor]. repeat split; done. Qed.

Lemma sync_hier_emits L s q view s' ok : sync_hier s q view = (s', ok) -> emits L q s s'.
Proof.
  unfold sync_hier. intros H.
  repeat case_match; simplify_eq; try apply emits_refl;
  first [apply emits_push_srv; [auto|by left] | apply emits_push; [auto|by left]].
Qed.

Definition child_list (L : qmap) (q : positive) (l : list (positive * qobj)) : Prop :=
  forall cc, In cc l -> L !! fst cc = Some (snd cc) /\ q_parent (snd cc) = Some q.

Lemma fold_open_emits L q (l : list (positive * qobj)) : child_list L q l -> forall s,
  emits L q s (fold_left (fun s' cc => if cbp_true (q_ann (snd cc)) then push s' (mkReq (fst cc) AOpen EvNone 0) else s') l s).
Proof.
  induction l as [|cc l IH]; intros Hl s; cbn [fold_left]; [apply emits_refl|].
  assert (Hl' : child_list L q l) by (intros x Hx; apply Hl; by right).
  destruct (cbp_true (q_ann cc.2)); [|by apply IH].
  eapply emits_trans; [apply (emits_push L q s (fst cc) AOpen); [auto|]|by apply IH].
  right. exists (snd cc). apply Hl. by left.
Qed.

Lemma children_child_list s q : child_list (lst s) q (children s q).
Proof. intros [c co] H. apply children_In in H. done. Qed.

Lemma open_hier_emits s q view s' ok : open_hier s q view = (s', ok) -> emits (lst s) q s s'.
Proof.
  unfold open_hier. intros H. case_match; simplify_eq; [apply emits_refl|].
  apply fold_open_emits, children_child_list.
Qed.

Lemma close_children_emits L q l : child_list L q l -> forall s s' ok, close_children s l = (s', ok) -> emits L q s s'.
Proof.
  induction l as [|[c co] l IH]; intros Hl s s' ok H; simpl in H; simplify_eq; [apply emits_refl|].
  assert (Hl' : child_list L q l) by (intros x Hx; apply Hl; by right).
  destruct (is_closedish (q_state co)); [by eapply IH|].
  destruct (patch_ann (srv s) c (q_ann co) true) as [m|] eqn:E; simplify_eq; [|apply emits_refl].
  apply IH in H; [|done]. eapply emits_trans; [|exact H]. apply emits_push_srv; [auto|].
  right. exists co. apply (Hl (c, co)). by left.
Qed.

Lemma sync_queue_emits L s q view fn s' ok : sync_queue s q view fn = (s', ok) -> emits L q s s'.
Proof.
  unfold sync_queue. intros H.
  assert (K : forall (s1 : st) v1 s'' ok', wq s1 = wq s ->
            (let n := length (pgs_of (idx s1) q) in
             let s2 := set_idx s1 (filter (fun qp => negb (bool_decide (fst qp = q) && bool_decide (pgl s1 !! snd qp = None))) (idx s1)) in
             let new := fn n in
             if bool_decide (new = q_state view) then sync_hier s2 q v1
             else match apply_state (srv s2) q new with
                  | None => (s2, false)
                  | Some (m, o') => sync_hier (set_srv s2 m) q o'
                  end) = (s'', ok') -> emits L q s s'').
  { intros s1 v1 s'' ok' Hw HH. cbn zeta in HH.
    destruct (bool_decide (fn (length (pgs_of (idx s1) q)) = q_state view)).
    - apply (sync_hier_emits L) in HH. eapply emits_trans; [|exact HH]. by apply emits_same_wq.
    - destruct (apply_state _ _ _) as [[m o']|]; simplify_eq.
      + apply (sync_hier_emits L) in HH. eapply emits_trans; [|exact HH]. by apply emits_same_wq.
      + by apply emits_same_wq. }
  destruct (bool_decide (q = root) || bool_decide (is_Some (q_parent view))).
  - eapply K; eauto.
  - destruct (srv s !! q) as [o|]; simplify_eq; [|apply emits_refl].
    eapply (K (set_srv s _)); eauto.
Qed.

Lemma open_queue_emits s q view s' ok : open_queue s q view = (s', ok) -> emits (lst s) q s s'.
Proof.
  unfold open_queue. intros H.
  destruct (bool_decide (q_state view = SOpen)).
  - simpl in H. destruct (patch_ann _ _ _ _); simplify_eq; [by apply emits_same_wq|apply emits_refl].
  - destruct (open_hier s q view) as [s1 ok1] eqn:E1. apply open_hier_emits in E1.
    destruct ok1; simpl in H; simplify_eq; [|done].
    destruct (apply_state (srv s1) q SOpen) as [[m o']|]; simplify_eq; [|done].
    destruct (patch_ann _ _ _ _); simplify_eq; (eapply emits_trans; [exact E1|by apply emits_same_wq]).
Qed.

Lemma close_queue_emits s q view fn s' ok : close_queue s q view fn = (s', ok) -> emits (lst s) q s s'.
Proof.
  unfold close_queue. intros H.
  destruct (negb (is_closedish (q_state view)) && bool_decide (q = root)); simplify_eq; [apply emits_refl|].
  destruct (if is_closedish (q_state view) then (s, true) else close_children s (children s q)) as [s1 ok1] eqn:E1.
  assert (F1 : emits (lst s) q s s1).
  { destruct (is_closedish (q_state view)); simplify_eq; [apply emits_refl|].
    eapply close_children_emits; [apply children_child_list|exact E1]. }
  destruct ok1; simpl in H; simplify_eq; [|done].
  destruct (bool_decide _); simplify_eq; [done|].
  destruct (apply_state (srv s1) q _) as [[m o']|]; simplify_eq; [|done].
  eapply emits_trans; [exact F1|by apply emits_same_wq].
Qed.

Lemma exec_emits s q view a s' ok : exec s q view a = (s', ok) -> emits (lst s) q s s'.
Proof.
  unfold exec. intros H.
  destruct (q_state view), a;
  try (by eapply sync_queue_emits; eauto);
  try (by eapply open_queue_emits; eauto);
  try (by eapply close_queue_emits; eauto);
  simplify_eq; apply emits_refl.
Qed.

(* what a processing step appends to the work queue (the Prop form of law 108): propagation
   requests for the processed queue itself or for its lister-children, then at most the
   retry of the processed request *)
Theorem proc_emits s i r :
  nth_error (wq s) i = Some r ->
  exists l t, wq (proc s i).1 = remove_nth i (wq s) ++ l ++ t /\
              Forall (prop_req_at (lst s) (r_q r)) l /\ (t = [] \/ t = [retry r]) /\
              (l = [] \/ is_Some (lst s !! r_q r)).
Proof.
  intros Hn. unfold proc. rewrite Hn.
  destruct (lst s !! r_q r) as [v|]; simpl.
  2:{ exists [], []. rewrite !app_nil_r. split; [done|]. split; [constructor|]. split; by left. }
  destruct (exec _ _ _ _) as [s1 ok] eqn:E. apply exec_emits in E as (l&Hw&Hl). simpl in Hw, Hl.
  destruct ok; simpl.
  - exists l, []. rewrite app_nil_r. split; [done|]. split; [done|]. split; [by left|right; eauto].
  - destruct (_ || _); simpl.
    + exists l, [retry r]. rewrite Hw. rewrite <- app_assoc. split; [done|]. split; [done|]. split; [by right|right; eauto].
    + exists l, []. rewrite app_nil_r. split; [done|]. split; [done|]. split; [by left|right; eauto].
Qed.

(* handler-born requests (Event OutOfSync) are Sync requests: an invariant of every history *)
Definition wq_wf (s : st) : Prop := Forall (fun r => r_ev r = EvOutOfSync -> r_act r = ASync) (wq s).

Lemma Forall_remove_nth {A} (P : A -> Prop) i : forall l, Forall P l -> Forall P (remove_nth i l).
Proof.
  induction i as [|i IH]; intros [|x l] H; simpl; try done; inversion H; subst; [done|].
  constructor; [done|by apply IH].
Qed.

Lemma wq_wf_push s r : wq_wf s -> (r_ev r = EvOutOfSync -> r_act r = ASync) -> wq_wf (push s r).
Proof. intros H Hr. unfold wq_wf, push. simpl. apply Forall_app. split; [done|]. by constructor. Qed.

Lemma wq_wf_proc s i : wq_wf s -> wq_wf (proc s i).1.
Proof.
  intros W.
  destruct (nth_error (wq s) i) as [r|] eqn:Hn; [|unfold proc; by rewrite Hn].
  destruct (proc_emits s i r Hn) as (l&t&Hw&Hl&Ht&_). unfold wq_wf. rewrite Hw.
  assert (Hr : r_ev r = EvOutOfSync -> r_act r = ASync).
  { unfold wq_wf in W. rewrite Forall_forall in W. apply W. eapply nth_error_In; eauto. }
  apply Forall_app. split; [by apply Forall_remove_nth|]. apply Forall_app. split.
  + eapply Forall_impl; [|exact Hl]. intros x (Hx&_). simpl. congruence.
  + destruct Ht as [->| ->]; [constructor|]. constructor; [done|constructor].
Qed.

Lemma wq_wf_step s e : wq_wf s -> wq_wf (step s e).1.
Proof.
  intros W. destruct e as [q a|pg q ph|pg q ph|pg|pg|pg q|q p|q p|q|q|q|i|i c]; simpl.
  - apply wq_wf_push; [done|]. simpl. done.
  - apply wq_wf_push; [done|]. done.
  - repeat case_match; simpl; try done; apply wq_wf_push; done.
  - repeat case_match; simpl; try done; apply wq_wf_push; done.
  - done.
  - apply wq_wf_push; done.
  - repeat case_match; simpl; done.
  - repeat case_match; simpl; done.
  - done.
  - repeat case_match; simpl; try done; apply wq_wf_push; done.
  - repeat case_match; simpl; try done; apply wq_wf_push; done.
  - by apply wq_wf_proc.
  - rewrite procF_fst. unfold wq_wf. destruct (restore_fields s c (proc (hide s c) i).1) as (_&_&_&->&_).
    apply (wq_wf_proc (hide s c) i). exact W.
Qed.

Lemma wq_wf_run h : forall s, wq_wf s -> wq_wf (run s h).
Proof.
  unfold run. induction h as [|e h IH]; intros s W; simpl; [done|]. apply IH. by apply wq_wf_step.
Qed.

(* HISTORY THEOREM (induction over the event list): along every history from a start
   state whose pending handler-born requests are Syncs, a queue's state moves only while
   a request for it is processed that stems from a command (Event CommandIssued), from
   parent/child propagation (Event ""), or is a handler's Sync — and a handler's Sync moves
   the state only to the Sync target of the state tables ("" -> Open, Closing -> Closed
   when the index is empty, otherwise the state the lister shows) *)
Theorem moves_only_on_command_or_parent s0 h e q a b : let s := run s0 h in
  wq_wf s0 ->
  sst (srv s) q = Some a -> sst (srv (step s e).1) q = Some b -> a <> b ->
  exists r v, proc_of s e = Some (r, v) /\ r_q r = q /\
    b = target (q_state v) (r_act r) (length (pgs_of (idx s) q)) /\
    (r_ev r = EvCmd \/ r_ev r = EvNone \/ (r_ev r = EvOutOfSync /\ r_act r = ASync)).
Proof.
  intros s W Ha Hb Hab. destruct (only_by_request s e q a b) as (r&v&P&Hq&T); try done.
  exists r, v. repeat split; try done.
  pose proof (wq_wf_run h s0 W) as Wf. fold s in Wf.
  apply proc_of_inv in P as (i&_&Hn&_).
  unfold wq_wf in Wf. rewrite Forall_forall in Wf. specialize (Wf r (nth_error_In _ _ Hn)).
  destruct (r_ev r); auto.
Qed.

(* ---------- clause 1 as a HISTORY theorem: every state move has a cause in the history ---------- *)
Lemma run_snoc s h e : run s (h ++ [e]) = (step (run s h) e).1.
Proof. unfold run. by rewrite fold_left_app. Qed.

(* x was appended while event e (a processing step) was handled in state s: the processed
   request was for x's own queue, or for the queue the lister then showed as its parent *)
Definition from_step (s : st) (e : ev) (x : req) : Prop :=
  exists r v, proc_of s e = Some (r, v) /\
    (r_q x = r_q r \/ exists co, lst s !! r_q x = Some co /\ q_parent co = Some (r_q r)).

(* where a pending request comes from, in terms of the history h from s0:
   - Event CommandIssued: an [ECmd] for that queue with that action occurs in h;
   - Event OutOfSync (informer handler): it is a Sync;
   - Event "" (propagation): it is an Open / Close that was appended at some earlier point
     of h while a request for the queue itself (its own sync reacting to the parent's state in
     the lister) or for its lister-parent (the parent's close / re-open) was being processed *)
Definition origin (s0 : st) (h : list ev) (x : req) : Prop :=
  match r_ev x with
  | EvCmd => In (ECmd (r_q x) (r_act x)) h
  | EvOutOfSync => r_act x = ASync
  | EvNone => (r_act x = AOpen \/ r_act x = AClose) /\
              exists h1 e h2, h = h1 ++ e :: h2 /\ from_step (run s0 h1) e x
  end.

Lemma origin_mono s0 h e x : origin s0 h x -> origin s0 (h ++ [e]) x.
Proof.
  unfold origin. destruct (r_ev x); [|done|].
  - intros H. apply in_or_app. by left.
  - intros (Ha&h1&e1&h2&->&F). split; [done|]. exists h1, e1, (h2 ++ [e]). split; [|done].
    by rewrite <- app_assoc.
Qed.

Lemma origin_retry s0 h r : origin s0 h r -> origin s0 h (retry r).
Proof. unfold origin, from_step, retry. simpl. done. Qed.

Lemma In_remove_nth {A} (x : A) i : forall l, In x (remove_nth i l) -> In x l.
Proof.
  induction i as [|i IH]; intros [|y l] H; simpl in *; try done; [by right|].
  destruct H as [->|H]; [by left|right; by apply IH].
Qed.

(* what is in the work queue after a step: what was there, a retry of what was there, or
   something born in this step *)
Definition born (s : st) (e : ev) (x : req) : Prop :=
  (exists q a, e = ECmd q a /\ x = mkReq q a EvCmd 0) \/
  (r_ev x = EvOutOfSync /\ r_act x = ASync) \/
  (r_ev x = EvNone /\ (r_act x = AOpen \/ r_act x = AClose) /\ from_step s e x).

Lemma proc_wq_in s i x :
  In x (wq (proc s i).1) ->
  In x (wq s) \/ (exists r, In r (wq s) /\ x = retry r) \/
  (r_ev x = EvNone /\ (r_act x = AOpen \/ r_act x = AClose) /\ from_step s (EProc i) x).
Proof.
  intros H. destruct (nth_error (wq s) i) as [r|] eqn:Hn.
  2:{ unfold proc in H. rewrite Hn in H. by left. }
  destruct (proc_emits s i r Hn) as (l&t&Hw&Hl&Ht&Hv). rewrite Hw in H.
  apply in_app_or in H as [H|H]; [left; by eapply In_remove_nth|].
  apply in_app_or in H as [H|H].
  - right. right. rewrite Forall_forall in Hl. destruct (Hl x H) as (E&_&A&T).
    split; [done|]. split; [done|].
    destruct Hv as [->|[v Hv]]; [done|]. exists r, v. split; [|done]. simpl. by rewrite Hn, Hv.
  - destruct Ht as [->| ->]; [done|]. destruct H as [<-|[]]. right. left. exists r. split; [|done].
    eapply nth_error_In; eauto.
Qed.

Lemma step_wq_in s e x :
  In x (wq (step s e).1) ->
  In x (wq s) \/ (exists r, In r (wq s) /\ x = retry r) \/ born s e x.
Proof.
  intros H. destruct e as [q a|pg q ph|pg q ph|pg|pg|pg q|q p|q p|q|q|q|i|i c]; simpl in H.
  - apply in_app_or in H as [H|H]; [by left|]. destruct H as [<-|[]]. right. right. left. eauto.
  - apply in_app_or in H as [H|H]; [by left|]. destruct H as [<-|[]]. right. right. right. by left.
  - repeat case_match; simpl in H;
    first [by left | (apply in_app_or in H as [H|H]; [by left|]; destruct H as [<-|[]]; right; right; right; by left)].
  - repeat case_match; simpl in H;
    first [by left | (apply in_app_or in H as [H|H]; [by left|]; destruct H as [<-|[]]; right; right; right; by left)].
  - by left.
  - apply in_app_or in H as [H|H]; [by left|]. destruct H as [<-|[]]. right. right. right. by left.
  - repeat case_match; simpl in H; by left.
  - repeat case_match; simpl in H; by left.
  - by left.
  - repeat case_match; simpl in H;
    first [by left | (apply in_app_or in H as [H|H]; [by left|]; destruct H as [<-|[]]; right; right; right; by left)].
  - repeat case_match; simpl in H;
    first [by left | (apply in_app_or in H as [H|H]; [by left|]; destruct H as [<-|[]]; right; right; right; by left)].
  - apply proc_wq_in in H as [?|[?|(E&A&F)]]; [by left|by right; left|]. right. right. right. right. done.
  - rewrite procF_fst in H. destruct (restore_fields s c (proc (hide s c) i).1) as (_&_&_&Hw&_). rewrite Hw in H.
    apply proc_wq_in in H as [?|[?|(E&A&F)]]; [by left|by right; left|]. right. right. right. right.
    split; [done|]. split; [done|]. exact F.
Qed.

Lemma origin_inv s0 h : wq s0 = [] -> Forall (origin s0 h) (wq (run s0 h)).
Proof.
  intros H0. induction h as [|e h IH] using rev_ind.
  - unfold run. simpl. rewrite H0. constructor.
  - rewrite run_snoc. apply Forall_forall. intros x Hx. rewrite Forall_forall in IH.
    apply step_wq_in in Hx as [Hx|[(r&Hr&->)|B]].
    + apply origin_mono. by apply IH.
    + apply origin_mono, origin_retry. by apply IH.
    + destruct B as [(q&a&->&->)|[[E A]|(E&A&F)]]; unfold origin.
      * simpl. apply in_or_app. right. by left.
      * rewrite E. done.
      * rewrite E. split; [done|]. exists h, e, []. done.
Qed.

(* HISTORY THEOREM for clause 1.  From a start state with an EMPTY work queue, after any
   history h: whenever the state of queue q moves (a -> b), a request r for q is being
   processed, b is the target the state tables give for the lister's state, r's action and
   q's PodGroup count, and r has a cause in h:
   (a) r carries Event CommandIssued and h contains the command [ECmd q (r_act r)], or
   (b) r is a propagated Open / Close that was appended earlier in h while a request for q's
       lister-parent (the parent's close / re-open) or for q itself (q's own sync reacting to
       the parent's state in the lister) was processed, or
   (c) r is an informer handler's Sync, whose effect is then the Sync target: "" -> Open,
       Closing -> Closed iff q's index is empty, otherwise the state the lister shows. *)
Theorem state_moves_have_a_cause s0 h e q a b : let s := run s0 h in
  wq s0 = [] ->
  sst (srv s) q = Some a -> sst (srv (step s e).1) q = Some b -> a <> b ->
  exists r v, proc_of s e = Some (r, v) /\ r_q r = q /\
    b = target (q_state v) (r_act r) (length (pgs_of (idx s) q)) /\
    origin s0 h r.
Proof.
  intros s H0 Ha Hb Hab. destruct (only_by_request s e q a b) as (r&v&P&Hq&T); try done.
  exists r, v. repeat split; try done.
  pose proof (origin_inv s0 h H0) as Inv. fold s in Inv. rewrite Forall_forall in Inv.
  apply proc_of_inv in P as (i&_&Hn&_). apply Inv. eapply nth_error_In; eauto.
Qed.

(* ---------- quiescent end states: what is FALSE (findings) ---------- *)
Definition open3_init (st3 : qstate) (ann3 : ann) : st :=
  let m : qmap := list_to_map [(1%positive, mkQ None SOpen None); (q2, mkQ (Some 1%positive) SOpen None);
                               (q3, mkQ (Some q2) st3 ann3)] in
  mkSt m m ∅ [] [] 3.
(* close the parent and re-open it at once; strictly FIFO; the child's Open is processed
   while the lister still shows the child Open *)
Definition stuckW1_history : list ev :=
  [ECmd q2 AClose; ECmd q2 AOpen; EProc 0; ELSync q3; ELSync q2; EProc 0; ELSync q2;
   EProc 0; EProc 0; EProc 0; EProc 0; ELSync q3; ELSync q2; ELSync 1].
(* the same without any lag, two workers: the child's Open overtakes its Close *)
Definition stuckW1_nolag_history : list ev :=
  let S := [ELSync 1; ELSync q2; ELSync q3] in
  [ECmd q2 AClose; EProc 0] ++ S ++ [ECmd q2 AOpen; EProc 2] ++ S ++ [EProc 2] ++ S ++ [EProc 1] ++ S ++
  [EProc 0] ++ S ++ [EProc 0] ++ S.
(* D: the child is opened while the lister still shows its just-closed parent Open;
   E: the parent is closed while the lister still shows the just-opened child Closed *)
Definition openD_history : list ev :=
  [ECmd q2 AClose; EProc 0; ECmd q3 AOpen; EProc 0; ELSync q3; ELSync q2; ELSync 1].
Definition openE_history : list ev :=
  [ECmd q3 AOpen; EProc 0; ECmd q2 AClose; EProc 0; ELSync q3; ELSync q2; ELSync 1].

(* KNOWN FINDING C13-quiescent-marked-child-stuck: "re-opening a parent re-opens the
   children it had closed" is FALSE as a statement about quiescent end states *)
Theorem quiescent_no_stuck_child_refuted :
  ~ (forall h, let s := run (open3_init SOpen None) h in caught_up s = true -> law_no_stuck_child s = true).
Proof. intros H. specialize (H stuckW1_history eq_refl). vm_compute in H. done. Qed.

Example quiescent_stuck_child_without_lag :
  let s := run (open3_init SOpen None) stuckW1_nolag_history in
  caught_up s = true /\ law_no_stuck_child s = false /\
  sst (srv s) q2 = Some SOpen /\ sst (srv s) q3 = Some SClosed /\ scbp (srv s) q3 = Some true.
Proof. vm_compute. repeat split. Qed.

(* KNOWN FINDING C13-quiescent-open-child-under-closed-parent: "closing a parent closes
   its children" / "a child cannot be opened under a closed parent" are FALSE as statements
   about quiescent end states (the code checks the parent / the child as the lister shows them) *)
Theorem quiescent_children_follow_closed_parent_refuted :
  ~ (forall h, let s := run (open3_init SClosed (Some (false, Some false))) h in
               caught_up s = true -> law_children_follow_closed_parent s = true).
Proof. intros H. specialize (H openD_history eq_refl). vm_compute in H. done. Qed.

Example quiescent_open_child_both_orders :
  let sD := run (open3_init SClosed (Some (false, Some false))) openD_history in
  let sE := run (open3_init SClosed (Some (false, Some false))) openE_history in
  caught_up sD = true /\ sst (srv sD) q2 = Some SClosed /\ sst (srv sD) q3 = Some SOpen /\
  caught_up sE = true /\ sst (srv sE) q2 = Some SClosed /\ sst (srv sE) q3 = Some SOpen /\
  law_children_follow_closed_parent sE = false.
Proof. vm_compute. repeat split. Qed.

(* the start-state hypothesis cannot be dropped: a pending propagation request of unknown
   origin closes an unrelated queue *)
Example cause_needs_empty_start :
  let s0 := mkSt (srv (open3_init SOpen None)) (lst (open3_init SOpen None)) ∅ [] [mkReq q3 AClose EvNone 0] 3 in
  sst (srv (run s0 [EProc 0])) q3 = Some SClosed.
Proof. vm_compute. reflexivity. Qed.

(* non-vacuity: the three kinds of cause occur (command on q2; propagated Close of q3 born
   while q2's close was processed; a handler's Sync completing Closing -> Closed is in ex_nonvacuous) *)
Example causes_occur :
  let s0 := open3_init SOpen None in
  origin s0 [ECmd q2 AClose] (mkReq q2 AClose EvCmd 0) /\
  wq (run s0 [ECmd q2 AClose; EProc 0]) = [mkReq q3 AClose EvNone 0] /\
  origin s0 [ECmd q2 AClose; EProc 0] (mkReq q3 AClose EvNone 0).
Proof.
  split; [by left|]. split; [vm_compute; reflexivity|].
  split; [by right|]. exists [ECmd q2 AClose], (EProc 0), []. split; [done|].
  exists (mkReq q2 AClose EvCmd 0), (mkQ (Some 1%positive) SOpen None). split; [vm_compute; reflexivity|].
  right. exists (mkQ (Some q2) SOpen None). split; [vm_compute; reflexivity|done].
Qed.

(* ---------- transient API faults ---------- *)
(* a fault on queue c during a processing step leaves c's server object untouched and the
   request is retried unless its budget is exhausted *)
Theorem fault_keeps_queue s i c o :
  srv s !! c = Some o -> srv (step s (EProcF i c)).1 !! c = Some o.
Proof.
  intros H. simpl. rewrite procF_fst. unfold restore. rewrite H. simpl. by rewrite lookup_insert.
Qed.

(* non-vacuity for faults: closing q2 fails twice at the patch of its only open child q3
   (q4 was closed by hand); the request is retried, the third attempt succeeds: q2 Closed,
   q3 Closed and marked, caught up, no quiescent law violated *)
Definition fault_init : st :=
  let m : qmap := list_to_map [(1%positive, mkQ None SOpen None); (q2, mkQ (Some 1%positive) SOpen None);
                               (q3, mkQ (Some q2) SOpen None); (4%positive, mkQ (Some q2) SClosed None)] in
  mkSt m m ∅ [] [] (-1).
Definition fault_history : list ev :=
  let S := [ELSync 1; ELSync q2; ELSync q3; ELSync 4] in
  [ECmd q2 AClose; EProcF 0 q3] ++ S ++ [EProcF 0 q3] ++ S ++ [EProc 0] ++ S ++ [EProc 0] ++ S ++ [EProc 0] ++ S ++ [EProc 0] ++ S.
Example fault_retried_then_consistent :
  let s1 := run fault_init (firstn 2 fault_history) in
  let s := run fault_init fault_history in
  sst (srv s1) q2 = Some SOpen /\ scbp (srv s1) q3 = None /\ wq s1 = [mkReq q2 AClose EvCmd 1] /\
  caught_up s = true /\ sst (srv s) q2 = Some SClosed /\ sst (srv s) q3 = Some SClosed /\ scbp (srv s) q3 = Some true /\
  law_no_stuck_child s = true /\ law_children_follow_closed_parent s = true.
Proof. vm_compute. repeat split. Qed.

(* the premises of the history theorems hold of a controller that starts with nothing:
   no PodGroups known, an Open root *)
Example start_state_premises :
  let s0 := open3_init SOpen None in
  idx_complete s0 /\ root_okP s0 /\ wq s0 = [].
Proof.
  split; [|split; [|done]].
  - intros pg q ph H. vm_compute in H. done.
  - split; intros x Hx; vm_compute in Hx; by simplify_eq.
Qed.

Lemma laws_accept_model s e :
  law_only_by_request s e (step s e).1 = true /\
  law_closed_only_when_empty s e (step s e).1 = true /\
  law_root_never_closed s e (step s e).1 = true /\
  law_no_open_under_closed_parent s e (step s e).1 (step s e).2 = true /\
  law_close_result s e (step s e).1 (step s e).2 = true.
Proof.
  repeat split; [apply law_only_by_request_holds|apply law_closed_only_when_empty_holds|
    apply law_root_never_closed_holds|apply law_no_open_under_closed_parent_holds|apply law_close_result_holds].
Qed.
