(* C13 — model of the queue controller (pkg/controllers/queue):
   state/{open,closing,closed,unknown,factory}.go, queue_controller_action.go 48-336,
   queue_controller.go 209-268 (work item + retry), queue_controller_handler.go (informer handlers).

   Two views of the Queue objects are carried: [srv] (API server: what clients write
   to) and [lst] (the lister the controller reads).  They are synchronised only by
   explicit [ELSync] events, so informer lag is part of the model.  The work queue is a
   list; [EProc i] processes the i-th pending request (any processing order, which
   covers several workers).  Executable definitions only. *)
From stdpp Require Import gmap.
From Coq Require Import ZArith List.
Import ListNotations.
Open Scope Z_scope.

(* Queue.Status.State: "", Open, Closed, Closing, Unknown, anything else *)
Inductive qstate := SEmpty | SOpen | SClosed | SClosing | SUnknown | SInvalid.
(* Request.Action: OpenQueue, CloseQueue, SyncQueue, any other string (default branch) *)
Inductive act := AOpen | AClose | ASync | AOther.
(* Request.Event: CommandIssued (from a bus Command), OutOfSync (informer handler),
   "" (parent/child propagation inside the controller) *)
Inductive revent := EvCmd | EvOutOfSync | EvNone.

Global Instance qstate_eq_dec : EqDecision qstate. Proof. solve_decision. Defined.
Global Instance act_eq_dec : EqDecision act. Proof. solve_decision. Defined.
Global Instance revent_eq_dec : EqDecision revent. Proof. solve_decision. Defined.

(* metadata.annotations: None = nil map; Some (other, cbp): a non-nil map that has
   other keys iff [other], and volcano.sh/closed-by-parent = "true"/"false" iff
   cbp = Some true / Some false *)
Definition ann := option (bool * option bool).

Record qobj := mkQ { q_parent : option positive; q_state : qstate; q_ann : ann }.
Record req := mkReq { r_q : positive; r_act : act; r_ev : revent; r_tries : nat }.

Global Instance qobj_eq_dec : EqDecision qobj. Proof. solve_decision. Defined.
Global Instance req_eq_dec : EqDecision req. Proof. solve_decision. Defined.

Notation qmap := (gmap positive qobj).

Record st := mkSt {
  srv : qmap;                              (* Queue objects in the API server *)
  lst : qmap;                              (* Queue objects in the controller's lister *)
  pgl : gmap positive (positive * Z);      (* PodGroup lister: pg -> (spec.queue, phase) *)
  idx : list (positive * positive);        (* queuecontroller.podGroups: (queue, pg key) *)
  wq : list req;                           (* queuecontroller.queue *)
  maxrq : Z                                (* maxRequeueNum, -1 = unlimited *)
}.

Definition root : positive := 1%positive.   (* the queue named "root" *)

Definition set_srv (s : st) (m : qmap) := mkSt m (lst s) (pgl s) (idx s) (wq s) (maxrq s).
Definition set_lst (s : st) (m : qmap) := mkSt (srv s) m (pgl s) (idx s) (wq s) (maxrq s).
Definition set_pgl (s : st) m := mkSt (srv s) (lst s) m (idx s) (wq s) (maxrq s).
Definition set_idx (s : st) l := mkSt (srv s) (lst s) (pgl s) l (wq s) (maxrq s).
Definition set_wq (s : st) l := mkSt (srv s) (lst s) (pgl s) (idx s) l (maxrq s).
Definition push (s : st) (r : req) := set_wq s (wq s ++ [r]).

Definition is_closedish (x : qstate) : bool :=
  match x with SClosed | SClosing => true | _ => false end.
(* the update function of every close branch: len(podGroupList) == 0 ? Closed : Closing *)
Definition closeish (n : nat) : qstate := match n with O => SClosed | S _ => SClosing end.

Definition cbp_of (a : ann) : option bool := match a with Some (_, c) => c | None => None end.
Definition cbp_true (a : ann) : bool := bool_decide (cbp_of a = Some true).
(* does the JSON form of the object have /metadata/annotations (omitempty drops an empty map) *)
Definition ann_has_map (a : ann) : bool :=
  match a with Some (_, Some _) => true | Some (true, None) => true | _ => false end.
Definition ann_other (a : ann) : bool := match a with Some (o, _) => o | None => false end.

Definition with_state (o : qobj) (x : qstate) := mkQ (q_parent o) x (q_ann o).
Definition with_ann (o : qobj) (a : ann) := mkQ (q_parent o) (q_state o) a.
Definition with_parent (o : qobj) (p : option positive) := mkQ p (q_state o) (q_ann o).

(* updateQueueAnnotation (action.go 308-336): decided on the caller's VIEW of the
   annotations, applied as a JSON patch to the server object.  None = the Patch failed. *)
Definition patch_ann (m : qmap) (q : positive) (view : ann) (v : bool) : option qmap :=
  if bool_decide (cbp_of view = Some v) then Some m            (* already set: no call *)
  else match m !! q with
       | None => None                                          (* NotFound *)
       | Some o =>
         match view with
         | None => Some (<[q := with_ann o (Some (false, Some v))]> m)   (* add /metadata/annotations {k:v}: replaces the map *)
         | Some _ =>
           if ann_has_map (q_ann o)
           then Some (<[q := with_ann o (Some (ann_other (q_ann o), Some v))]> m)
           else None                                           (* add below a missing path *)
         end
       end.

(* ApplyStatus().WithState(x): merge of status.state; NotFound when the object is gone *)
Definition apply_state (m : qmap) (q : positive) (x : qstate) : option (qmap * qobj) :=
  match m !! q with
  | None => None
  | Some o => let o' := with_state o x in Some (<[q := o']> m, o')
  end.

Definition pgs_of (l : list (positive * positive)) (q : positive) : list positive :=
  map snd (filter (fun qp => bool_decide (fst qp = q)) l).
Definition idx_add (l : list (positive * positive)) (q pg : positive) :=
  if bool_decide ((q, pg) ∈ l) then l else l ++ [(q, pg)].
Definition idx_del (l : list (positive * positive)) (q pg : positive) :=
  filter (fun qp => negb (bool_decide (qp = (q, pg)))) l.

(* ascending list of the lister's queues (List() iterates a Go map: the harness
   canonicalises the order of each batch of enqueued siblings by name) *)
Fixpoint ins_pos (k : positive) (l : list positive) : list positive :=
  match l with
  | [] => [k]
  | k' :: r => if Pos.leb k k' then k :: l else k' :: ins_pos k r
  end.
Definition sort_pos (l : list positive) : list positive := fold_right ins_pos [] l.
Definition lister_names (s : st) : list positive := sort_pos (map fst (map_to_list (lst s))).

(* syncHierarchicalQueue (action.go 176-221) *)
Definition sync_hier (s : st) (q : positive) (view : qobj) : st * bool :=
  if bool_decide (q = root) then (s, true) else
  match q_parent view with
  | None => (s, false)                        (* lister.Get("") *)
  | Some p =>
    match lst s !! p with
    | None => (s, false)
    | Some po =>
      match q_state po with
      | SClosed | SClosing =>
        if is_closedish (q_state view) then (s, true) else
        match patch_ann (srv s) q (q_ann view) true with
        | None => (s, false)
        | Some m => (push (set_srv s m) (mkReq q AClose EvNone 0), true)
        end
      | SOpen =>
        if is_closedish (q_state view) && cbp_true (q_ann view)
        then (push s (mkReq q AOpen EvNone 0), true) else (s, true)
      | _ => (s, true)
      end
    end
  end.

(* syncQueue (action.go 48-113) with update function fn (applied to the number of
   PodGroup keys in the index, stale ones included) *)
Definition sync_queue (s : st) (q : positive) (view : qobj) (fn : nat -> qstate) : st * bool :=
  let r1 :=
    if bool_decide (q = root) || bool_decide (is_Some (q_parent view)) then Some (s, view)
    else match srv s !! q with                  (* updateQueueParent: patch spec.parent=root *)
         | None => None
         | Some o => let o' := with_parent o (Some root) in
                     Some (set_srv s (<[q := o']> (srv s)), o')   (* continues with the SERVER's object *)
         end in
  match r1 with
  | None => (s, false)
  | Some (s1, v1) =>
    let n := length (pgs_of (idx s1) q) in
    let s2 := set_idx s1 (filter (fun qp => negb (bool_decide (fst qp = q) &&
                                                    bool_decide (pgl s1 !! snd qp = None))) (idx s1)) in
    let new := fn n in
    (* compared with the state of the object the update function was chosen for (the
       lister's), not with the object updateQueueParent handed back *)
    if bool_decide (new = q_state view) then sync_hier s2 q v1
    else match apply_state (srv s2) q new with
         | None => (s2, false)
         | Some (m, o') => sync_hier (set_srv s2 m) q o'
         end
  end.

(* children of q in the lister, ascending *)
Definition children (s : st) (q : positive) : list (positive * qobj) :=
  flat_map (fun c => match lst s !! c with
                     | Some co => if bool_decide (q_parent co = Some q) then [(c, co)] else []
                     | None => [] end) (lister_names s).

(* openHierarchicalQueue (action.go 223-252) *)
Definition open_hier (s : st) (q : positive) (view : qobj) : st * bool :=
  let parent_ok :=
    match q_parent view with
    | None => true
    | Some p => if bool_decide (p = root) then true else
                match lst s !! p with
                | None => false
                | Some po => negb (is_closedish (q_state po))
                end
    end in
  if negb parent_ok then (s, false) else
  (fold_left (fun s' cc => if cbp_true (q_ann (snd cc)) then push s' (mkReq (fst cc) AOpen EvNone 0) else s')
             (children s q) s, true).

(* openQueue (action.go 115-143); the update function always answers Open *)
Definition open_queue (s : st) (q : positive) (view : qobj) : st * bool :=
  let '(s1, ok) := if bool_decide (q_state view = SOpen) then (s, true) else open_hier s q view in
  if negb ok then (s1, false) else
  let r2 := if bool_decide (q_state view = SOpen) then Some s1
            else match apply_state (srv s1) q SOpen with
                 | None => None | Some (m, _) => Some (set_srv s1 m) end in
  match r2 with
  | None => (s1, false)
  | Some s2 => match patch_ann (srv s2) q (q_ann view) false with
               | None => (s2, false)
               | Some m => (set_srv s2 m, true)
               end
  end.

(* closeHierarchicalQueue (action.go 254-285): None = "not continued" (root) *)
Fixpoint close_children (s : st) (l : list (positive * qobj)) : st * bool :=
  match l with
  | [] => (s, true)
  | (c, co) :: r =>
    if is_closedish (q_state co) then close_children s r else
    match patch_ann (srv s) c (q_ann co) true with
    | None => (s, false)
    | Some m => close_children (push (set_srv s m) (mkReq c AClose EvNone 0)) r
    end
  end.

(* closeQueue (action.go 145-173) *)
Definition close_queue (s : st) (q : positive) (view : qobj) (fn : nat -> qstate) : st * bool :=
  if negb (is_closedish (q_state view)) && bool_decide (q = root) then (s, true) else
  let '(s1, ok) := if is_closedish (q_state view) then (s, true) else close_children s (children s q) in
  if negb ok then (s1, false) else
  let new := fn (length (pgs_of (idx s1) q)) in
  if bool_decide (new = q_state view) then (s1, true)
  else match apply_state (srv s1) q new with
       | None => (s1, false)
       | Some (m, _) => (set_srv s1 m, true)
       end.

(* state.NewState(queue).Execute(action): the four tables of state/*.go *)
Definition exec (s : st) (q : positive) (view : qobj) (a : act) : st * bool :=
  match q_state view, a with
  | (SEmpty | SOpen), AOpen => sync_queue s q view (fun _ => SOpen)
  | (SEmpty | SOpen), AClose => close_queue s q view closeish
  | (SEmpty | SOpen), _ => sync_queue s q view (fun _ => SOpen)
  | SClosing, AOpen => open_queue s q view
  | SClosing, _ => sync_queue s q view closeish
  | SClosed, AOpen => open_queue s q view
  | SClosed, _ => sync_queue s q view (fun _ => SClosed)
  | SUnknown, AOpen => open_queue s q view
  | SUnknown, AClose => close_queue s q view closeish
  | SUnknown, _ => sync_queue s q view (fun _ => SUnknown)
  | SInvalid, _ => (s, false)                  (* NewState returns nil *)
  end.

Inductive outcome := ONone | OIdle | OGone | OOk | OErr.
Global Instance outcome_eq_dec : EqDecision outcome. Proof. solve_decision. Defined.

Fixpoint remove_nth {A} (i : nat) (l : list A) : list A :=
  match l, i with
  | [], _ => []
  | _ :: r, O => r
  | x :: r, S k => x :: remove_nth k r
  end.

Definition retry (r : req) := mkReq (r_q r) (r_act r) (r_ev r) (S (r_tries r)).

(* processNextWorkItem + handleQueue + handleQueueErr (queue_controller.go 209-268) *)
Definition proc (s : st) (i : nat) : st * outcome :=
  match nth_error (wq s) i with
  | None => (s, OIdle)
  | Some r =>
    let s0 := set_wq s (remove_nth i (wq s)) in
    match lst s !! r_q r with
    | None => (s0, OGone)                     (* deleted queue: request forgotten *)
    | Some view =>
      let '(s1, ok) := exec s0 (r_q r) view (r_act r) in
      if ok then (s1, OOk)
      else if bool_decide (maxrq s = -1) || bool_decide (Z.of_nat (r_tries r) < maxrq s)
           then (push s1 (retry r), OErr)
           else (s1, OErr)                     (* dropped *)
    end
  end.

Inductive ev :=
| ECmd (q : positive) (a : act)                       (* handleCommand after a successful delete *)
| EPgAdd (pg q : positive) (ph : Z)                   (* informer: PodGroup add *)
| EPgUpd (pg q : positive) (ph : Z)                   (* informer: PodGroup update *)
| EPgDel (pg : positive)                              (* informer: PodGroup delete *)
| EPgGone (pg : positive)                             (* the informer's store dropped the PodGroup; the delete
                                                         handler has not run yet *)
| EPgDelLate (pg q : positive)                        (* ... now deletePodGroup runs for that PodGroup of queue q *)
| EQCreate (q : positive) (p : option positive)       (* a user creates a Queue (status empty) *)
| EQReparent (q : positive) (p : option positive)     (* a user edits spec.parent *)
| EQDelete (q : positive)                             (* a user deletes a Queue *)
| ELSync (q : positive)                               (* informer delivers q's current object *)
| EResync (q : positive)                              (* informer add notification (controller start) *)
| EProc (i : nat)                                     (* a worker processes the i-th pending request *)
| EProcF (i : nat) (c : positive).                    (* the same while every API call that addresses queue c
                                                         (annotation patch, spec.parent patch, ApplyStatus) FAILS *)

Definition sync_req (q : positive) := mkReq q ASync EvOutOfSync 0.

(* A transient API fault on queue c during one processing step.  Every call of the
   controller that addresses a queue fails exactly like a call on a queue that is gone
   (the handlers only test err != nil), so the step is the ordinary one on the state in
   which c is hidden from the server; afterwards c is there again, untouched. *)
Definition hide (s : st) (c : positive) : st := set_srv s (delete c (srv s)).
Definition restore (s : st) (c : positive) (s1 : st) : st :=
  match srv s !! c with
  | Some o => set_srv s1 (<[c := o]> (srv s1))
  | None => s1
  end.
Definition proc_f (s : st) (i : nat) (c : positive) : st * outcome :=
  let '(s1, o) := proc (hide s c) i in (restore s c s1, o).

Definition step (s : st) (e : ev) : st * outcome :=
  match e with
  | ECmd q a => (push s (mkReq q a EvCmd 0), ONone)
  | EPgAdd pg q ph =>
      (push (set_idx (set_pgl s (<[pg := (q, ph)]> (pgl s))) (idx_add (idx s) q pg)) (sync_req q), ONone)
  | EPgUpd pg q ph =>
      match pgl s !! pg with
      | None => (s, ONone)
      | Some (_, ph0) =>
        let s1 := set_pgl s (<[pg := (q, ph)]> (pgl s)) in
        if bool_decide (ph0 = ph) then (s1, ONone)
        else (push (set_idx s1 (idx_add (idx s) q pg)) (sync_req q), ONone)
      end
  | EPgDel pg =>
      match pgl s !! pg with
      | None => (s, ONone)
      | Some (q0, _) =>
        (push (set_idx (set_pgl s (delete pg (pgl s))) (idx_del (idx s) q0 pg)) (sync_req q0), ONone)
      end
  | EPgGone pg => (set_pgl s (delete pg (pgl s)), ONone)
  | EPgDelLate pg q => (push (set_idx s (idx_del (idx s) q pg)) (sync_req q), ONone)
  | EQCreate q p =>
      match srv s !! q with
      | Some _ => (s, ONone)
      | None => (set_srv s (<[q := mkQ p SEmpty None]> (srv s)), ONone)
      end
  | EQReparent q p =>
      match srv s !! q with
      | None => (s, ONone)
      | Some o => (set_srv s (<[q := with_parent o p]> (srv s)), ONone)
      end
  | EQDelete q => (set_srv s (delete q (srv s)), ONone)
  | ELSync q =>
      match srv s !! q, lst s !! q with
      | Some o, None => (push (set_lst s (<[q := o]> (lst s))) (sync_req q), ONone)          (* addQueue *)
      | Some o, Some o0 =>
          let s1 := set_lst s (<[q := o]> (lst s)) in
          (* updateQueue: re-sync on a parent change or a change of the closed-by-parent marker *)
          if bool_decide (q_parent o0 = q_parent o) && bool_decide (cbp_of (q_ann o0) = cbp_of (q_ann o))
          then (s1, ONone) else (push s1 (sync_req q), ONone)
      | None, Some _ =>
          (set_idx (set_lst s (delete q (lst s))) (filter (fun qp => negb (bool_decide (fst qp = q))) (idx s)), ONone) (* deleteQueue *)
      | None, None => (s, ONone)
      end
  | EResync q =>
      match lst s !! q with
      | Some _ => (push s (sync_req q), ONone)
      | None => (s, ONone)
      end
  | EProc i => proc s i
  | EProcF i c => proc_f s i c
  end.

Definition run (s : st) (h : list ev) : st := fold_left (fun s e => fst (step s e)) h s.
