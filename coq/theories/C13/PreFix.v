(* C13 — the model of the queue controller BEFORE the two repairs committed in /repo
   (5018129 "fix: syncQueue compares the computed queue state with the state its update
   function was chosen for", b628b4b "fix: re-sync a queue when its closed-by-parent
   marker changes"), kept for the record together with the witnesses that refuted the
   full-strength statements on that code.  Only [sync_queue] (comparison against the
   object returned by updateQueueParent) and the ELSync case of [step] (updateQueue
   re-syncs on a parent change only) differ from Model.v. *)
From stdpp Require Import gmap.
From Coq Require Import ZArith List.
From V Require Import C13.Model C13.Laws C13.Lemmas.
Import ListNotations.
Open Scope Z_scope.

Definition sync_queue0 (s : st) (q : positive) (view : qobj) (fn : nat -> qstate) : st * bool :=
  let r1 :=
    if bool_decide (q = root) || bool_decide (is_Some (q_parent view)) then Some (s, view)
    else match srv s !! q with                  (* updateQueueParent: patch spec.parent=root *)
         | None => None
         | Some o => let o' := with_parent o (Some root) in
                     Some (set_srv s (<[q := o']> (srv s)), o')   (* continues with the SERVER's object *)
         end in
  match r1 with
  | None => (s, false)
  | Some (s1, v1) =>
    let n := length (pgs_of (idx s1) q) in
    let s2 := set_idx s1 (filter (fun qp => negb (bool_decide (fst qp = q) &&
                                                    bool_decide (pgl s1 !! snd qp = None))) (idx s1)) in
    let new := fn n in
    if bool_decide (new = q_state v1) then sync_hier s2 q v1
    else match apply_state (srv s2) q new with
         | None => (s2, false)
         | Some (m, o') => sync_hier (set_srv s2 m) q o'
         end
  end.

Definition exec0 (s : st) (q : positive) (view : qobj) (a : act) : st * bool :=
  match q_state view, a with
  | (SEmpty | SOpen), AOpen => sync_queue0 s q view (fun _ => SOpen)
  | (SEmpty | SOpen), AClose => close_queue s q view closeish
  | (SEmpty | SOpen), _ => sync_queue0 s q view (fun _ => SOpen)
  | SClosing, AOpen => open_queue s q view
  | SClosing, _ => sync_queue0 s q view closeish
  | SClosed, AOpen => open_queue s q view
  | SClosed, _ => sync_queue0 s q view (fun _ => SClosed)
  | SUnknown, AOpen => open_queue s q view
  | SUnknown, AClose => close_queue s q view closeish
  | SUnknown, _ => sync_queue0 s q view (fun _ => SUnknown)
  | SInvalid, _ => (s, false)                  (* NewState returns nil *)
  end.

Definition proc0 (s : st) (i : nat) : st * outcome :=
  match nth_error (wq s) i with
  | None => (s, OIdle)
  | Some r =>
    let s0 := set_wq s (remove_nth i (wq s)) in
    match lst s !! r_q r with
    | None => (s0, OGone)                     (* deleted queue: request forgotten *)
    | Some view =>
      let '(s1, ok) := exec0 s0 (r_q r) view (r_act r) in
      if ok then (s1, OOk)
      else if bool_decide (maxrq s = -1) || bool_decide (Z.of_nat (r_tries r) < maxrq s)
           then (push s1 (retry r), OErr)
           else (s1, OErr)                     (* dropped *)
    end
  end.

Definition step0 (s : st) (e : ev) : st * outcome :=
  match e with
  | ECmd q a => (push s (mkReq q a EvCmd 0), ONone)
  | EPgAdd pg q ph =>
      (push (set_idx (set_pgl s (<[pg := (q, ph)]> (pgl s))) (idx_add (idx s) q pg)) (sync_req q), ONone)
  | EPgUpd pg q ph =>
      match pgl s !! pg with
      | None => (s, ONone)
      | Some (_, ph0) =>
        let s1 := set_pgl s (<[pg := (q, ph)]> (pgl s)) in
        if bool_decide (ph0 = ph) then (s1, ONone)
        else (push (set_idx s1 (idx_add (idx s) q pg)) (sync_req q), ONone)
      end
  | EPgDel pg =>
      match pgl s !! pg with
      | None => (s, ONone)
      | Some (q0, _) =>
        (push (set_idx (set_pgl s (delete pg (pgl s))) (idx_del (idx s) q0 pg)) (sync_req q0), ONone)
      end
  | EPgGone pg => (set_pgl s (delete pg (pgl s)), ONone)
  | EPgDelLate pg q => (push (set_idx s (idx_del (idx s) q pg)) (sync_req q), ONone)
  | EQCreate q p =>
      match srv s !! q with
      | Some _ => (s, ONone)
      | None => (set_srv s (<[q := mkQ p SEmpty None]> (srv s)), ONone)
      end
  | EQReparent q p =>
      match srv s !! q with
      | None => (s, ONone)
      | Some o => (set_srv s (<[q := with_parent o p]> (srv s)), ONone)
      end
  | EQDelete q => (set_srv s (delete q (srv s)), ONone)
  | ELSync q =>
      match srv s !! q, lst s !! q with
      | Some o, None => (push (set_lst s (<[q := o]> (lst s))) (sync_req q), ONone)          (* addQueue *)
      | Some o, Some o0 =>
          let s1 := set_lst s (<[q := o]> (lst s)) in
          if bool_decide (q_parent o0 = q_parent o) then (s1, ONone) else (push s1 (sync_req q), ONone)  (* updateQueue *)
      | None, Some _ =>
          (set_idx (set_lst s (delete q (lst s))) (filter (fun qp => negb (bool_decide (fst qp = q))) (idx s)), ONone) (* deleteQueue *)
      | None, None => (s, ONone)
      end
  | EResync q =>
      match lst s !! q with
      | Some _ => (push s (sync_req q), ONone)
      | None => (s, ONone)
      end
  | EProc i => proc0 s i
  | EProcF i _ => proc0 s i      (* API faults are not part of the pre-fix record *)
  end.

Definition run0 (s : st) (h : list ev) : st := fold_left (fun s e => fst (step0 s e)) h s.

(* ---------- race B (finding C13-stale-lister-closed-with-podgroups, FIXED by 5018129) ---------- *)
Definition raceB_init : st :=
  let m : qmap := list_to_map [(1%positive, mkQ None SOpen None); (q2, mkQ None SClosed None)] in
  mkSt m m ∅ [] [] 3.
Definition raceB_history : list ev := [ECmd q2 AOpen; EProc 0; EPgAdd 1 q2 1].

(* on the code before the repair, "Closed is entered only with an empty index" was FALSE *)
Theorem prefix_closed_with_podgroups_refuted :
  ~ (forall s e q a,
       sst (srv s) q = Some a -> a <> SClosed -> sst (srv (step0 s e).1) q = Some SClosed ->
       pgs_of (idx s) q = []).
Proof.
  intros H.
  specialize (H (run0 raceB_init raceB_history) (EProc 0) q2 SOpen
                ltac:(vm_compute; reflexivity) ltac:(discriminate) ltac:(vm_compute; reflexivity)).
  vm_compute in H. done.
Qed.

(* the same history on the repaired code: the queue stays Open *)
Example raceB_repaired :
  sst (srv (run raceB_init (raceB_history ++ [EProc 0]))) q2 = Some SOpen.
Proof. vm_compute. reflexivity. Qed.

(* ---------- race C (finding C13-marked-child-not-reopened, FIXED by b628b4b) ---------- *)
Definition sync3 : list ev := [ELSync 1; ELSync q2; ELSync q3].
Definition raceC_full : list ev :=
  raceC_history ++ [EProc 0] ++ sync3 ++ [EProc 0; EProc 0] ++ sync3 ++ [EProc 0; EProc 0] ++ sync3 ++ [EProc 0; EProc 0].

(* before the repair the lister catches up, nothing is pending, and the child is stuck
   closed with closed-by-parent=true under its Open parent *)
Theorem prefix_marked_child_not_reopened_refuted :
  exists h, let s := run0 raceC_init h in
    caught_up s = true /\ law_no_stuck_child s = false /\
    sst (srv s) q2 = Some SOpen /\ sst (srv s) q3 = Some SClosed /\ scbp (srv s) q3 = Some true.
Proof. exists raceC_full. vm_compute. repeat split. Qed.

Example raceC_prefix_outcome :
  let s := run0 raceC_init raceC_full in
  caught_up s = true /\ sst (srv s) q2 = Some SOpen /\ sst (srv s) q3 = Some SClosed /\ scbp (srv s) q3 = Some true.
Proof. vm_compute. repeat split. Qed.

(* the same history on the repaired code: the child is re-opened *)
Example raceC_repaired :
  let s := run raceC_init raceC_full in
  caught_up s = true /\ law_no_stuck_child s = true /\
  sst (srv s) q2 = Some SOpen /\ sst (srv s) q3 = Some SOpen /\ scbp (srv s) q3 = Some false.
Proof. vm_compute. repeat split. Qed.
