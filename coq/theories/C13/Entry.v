(* C13 entry point: selector + tokens -> tokens.
   sel 1   : initial state + history -> per step [tag k; outcome; state dump]
   sel 101+: the same input followed by the IMPLEMENTATION's per-step dumps; answers
             whether law (sel-100) holds on every observed step. *)
From stdpp Require Import gmap.
From Coq Require Import ZArith List.
From V Require Import Base.Codec C13.Model C13.Laws.
Import ListNotations.
Open Scope Z_scope.

Definition dState : dec qstate :=
  let* x := dZ in
  match x with 0 => ret SEmpty | 1 => ret SOpen | 2 => ret SClosed | 3 => ret SClosing | 4 => ret SUnknown | 5 => ret SInvalid | _ => fail end.
Definition eState (x : qstate) : Z :=
  match x with SEmpty => 0 | SOpen => 1 | SClosed => 2 | SClosing => 3 | SUnknown => 4 | SInvalid => 5 end.
Definition dAct : dec act :=
  let* x := dZ in match x with 1 => ret AOpen | 2 => ret AClose | 3 => ret ASync | 4 => ret AOther | _ => fail end.
Definition eAct (a : act) : Z := match a with AOpen => 1 | AClose => 2 | ASync => 3 | AOther => 4 end.
Definition dEv : dec revent :=
  let* x := dZ in match x with 0 => ret EvNone | 1 => ret EvCmd | 2 => ret EvOutOfSync | _ => fail end.
Definition eEv (a : revent) : Z := match a with EvNone => 0 | EvCmd => 1 | EvOutOfSync => 2 end.
(* annotations: 0 = nil; 1 + 3*other + (0 no key | 1 "false" | 2 "true") *)
Definition dAnn : dec ann :=
  let* x := dZ in
  match x with
  | 0 => ret None
  | 1 => ret (Some (false, None)) | 2 => ret (Some (false, Some false)) | 3 => ret (Some (false, Some true))
  | 4 => ret (Some (true, None)) | 5 => ret (Some (true, Some false)) | 6 => ret (Some (true, Some true))
  | _ => fail end.
Definition eAnn (a : ann) : Z :=
  match a with
  | None => 0
  | Some (o, c) => 1 + (if o then 3 else 0) + match c with None => 0 | Some false => 1 | Some true => 2 end
  end.
Definition dParent : dec (option positive) :=
  let* x := dZ in if x <? 0 then fail else if x =? 0 then ret None else ret (Some (Z.to_pos x)).
Definition eParent (p : option positive) : Z := match p with None => 0 | Some x => Zpos x end.

Definition dQ : dec (positive * qobj) :=
  let* q := dPos in let* p := dParent in let* x := dState in let* a := dAnn in ret (q, mkQ p x a).
Definition dPg : dec (positive * (positive * Z)) :=
  let* g := dPos in let* q := dPos in let* ph := dZ in ret (g, (q, ph)).
Definition dReq : dec req :=
  let* q := dPos in let* a := dAct in let* e := dEv in let* n := dNat in ret (mkReq q a e n).

Definition dSt (mx : Z) : dec st :=
  let* sv := dList dQ in let* ls := dList dQ in let* pg := dList dPg in
  let* ix := dList (dPair dPos dPos) in let* w := dList dReq in
  ret (mkSt (list_to_map sv) (list_to_map ls) (list_to_map pg) ix w mx).

Definition dEvent : dec ev :=
  let* c := dZ in let* a := dZ in let* b := dZ in let* d := dZ in
  let pa := Z.to_pos a in let pb := Z.to_pos b in
  let par := if b =? 0 then None else Some (Z.to_pos b) in
  if (a <? 0) || (b <? 0) then fail else
  match c with
  | 1 => match b with 1 => ret (ECmd pa AOpen) | 2 => ret (ECmd pa AClose) | 3 => ret (ECmd pa ASync) | 4 => ret (ECmd pa AOther) | _ => fail end
  | 2 => ret (EPgAdd pa pb d)
  | 3 => ret (EPgUpd pa pb d)
  | 4 => ret (EPgDel pa)
  | 13 => ret (EPgGone pa)
  | 14 => if b =? 0 then fail else ret (EPgDelLate pa pb)
  | 6 => ret (EQCreate pa par)
  | 7 => ret (EQReparent pa par)
  | 8 => ret (EQDelete pa)
  | 9 => ret (ELSync pa)
  | 10 => ret (EResync pa)
  | 11 => ret (EProc (Z.to_nat a))
  | 12 => if b =? 0 then fail else ret (EProcF (Z.to_nat a) pb)
  | _ => fail
  end.

Definition eQ (qo : positive * qobj) : list Z :=
  [Zpos (fst qo); eParent (q_parent (snd qo)); eState (q_state (snd qo)); eAnn (q_ann (snd qo))].
Definition eReq (r : req) : list Z := [Zpos (r_q r); eAct (r_act r); eEv (r_ev r); Z.of_nat (r_tries r)].
Definition pair_key (qp : positive * positive) : positive := (fst qp * 4096 + snd qp)%positive.
Definition eOutcome (o : outcome) : Z :=
  match o with ONone => 0 | OIdle => 1 | OGone => 2 | OOk => 3 | OErr => 4 end.
Definition dOutcome : dec outcome :=
  let* x := dZ in match x with 0 => ret ONone | 1 => ret OIdle | 2 => ret OGone | 3 => ret OOk | 4 => ret OErr | _ => fail end.

Definition eSt (s : st) : list Z :=
  eList eQ (sort_kv (map_to_list (srv s))) ++
  eList eQ (sort_kv (map_to_list (lst s))) ++
  eList (fun x : positive * (positive * Z) => [Zpos (fst x); Zpos (fst (snd x)); snd (snd x)]) (sort_kv (map_to_list (pgl s))) ++
  eList (fun x : positive * (positive * positive) => [Zpos (fst (snd x)); Zpos (snd (snd x))])
        (sort_kv (map (fun qp => (pair_key qp, qp)) (idx s))) ++
  eList eReq (wq s).

Fixpoint trace (s : st) (h : list ev) (k : Z) : list Z :=
  match h with
  | [] => []
  | e :: r => let '(s', o) := step s e in
              [-100 - k; eOutcome o] ++ eSt s' ++ trace s' r (k + 1)
  end.

Definition dInput : dec (st * list ev) :=
  let* mx := dZ in let* s := dSt mx in let* h := dList dEvent in ret (s, h).

(* the implementation's per-step dumps *)
Fixpoint dObs (mx : Z) (n : nat) : dec (list (outcome * st)) :=
  match n with
  | O => ret []
  | S k => let* _ := dZ in let* o := dOutcome in let* s := dSt mx in
           let* r := dObs mx k in ret ((o, s) :: r)
  end.

Fixpoint check_all (law : st -> ev -> st -> outcome -> bool) (s : st) (h : list ev) (obs : list (outcome * st)) : bool :=
  match h, obs with
  | [], [] => true
  | e :: h', (o, s') :: obs' => law s e s' o && check_all law s' h' obs'
  | _, _ => false
  end.

(* quiescent laws with attribution to the known classes: the excuses collected so far *)
Fixpoint check_exc (exc_of : st -> ev -> list positive) (prune : list positive -> st -> list positive)
         (law : list positive -> st -> bool)
         (exc : list positive) (s : st) (h : list ev) (obs : list (outcome * st)) : bool :=
  match h, obs with
  | [], [] => true
  | e :: h', (o, s') :: obs' =>
      let exc' := exc_of s e ++ exc in
      law exc' s' && check_exc exc_of prune law (prune exc' s') s' h' obs'
  | _, _ => false
  end.

Definition law_entry_exc (exc_of : st -> ev -> list positive) (prune : list positive -> st -> list positive)
           (law : list positive -> st -> bool) (toks : list Z) : list Z :=
  match run_dec (let* mx := dZ in let* s := dSt mx in let* h := dList dEvent in
                 let* obs := dObs mx (length h) in ret (s, h, obs)) toks with
  | Some (s, h, obs) => eBool (check_exc exc_of prune law [] s h obs)
  | None => bad_input
  end.

Definition law_entry (law : st -> ev -> st -> outcome -> bool) (toks : list Z) : list Z :=
  match run_dec (let* mx := dZ in let* s := dSt mx in let* h := dList dEvent in
                 let* obs := dObs mx (length h) in ret (s, h, obs)) toks with
  | Some (s, h, obs) => eBool (check_all law s h obs)
  | None => bad_input
  end.

(* a law about the END state of the history only *)
Definition law_entry_last (law : st -> bool) (toks : list Z) : list Z :=
  match run_dec (let* mx := dZ in let* s := dSt mx in let* h := dList dEvent in
                 let* obs := dObs mx (length h) in ret (s, h, obs)) toks with
  | Some (s, h, obs) => eBool (law (last (map snd obs) s))
  | None => bad_input
  end.

Definition entry (sel : Z) (toks : list Z) : list Z :=
  match sel with
  | 1 | 2 | 3 | 4 | 5 | 6 => match run_dec dInput toks with
         | Some (s, h) => trace s h 1
         | None => bad_input end
  | 101 => law_entry (fun s e s' _ => law_only_by_request s e s') toks
  | 102 => law_entry law_close_result toks
  | 103 => law_entry (fun s e s' _ => law_closed_only_when_empty s e s') toks
  | 104 => law_entry law_close_propagates toks
  | 105 => law_entry law_reopen_exact toks
  | 106 => law_entry (fun s e s' _ => law_root_never_closed s e s') toks
  | 107 => law_entry law_no_open_under_closed_parent toks
  | 108 => law_entry law_workqueue toks
  | 109 => law_entry (fun s e s' _ => law_marker_discipline s e s') toks
  | 110 => law_entry (fun s e s' _ => law_sync_moves s e s') toks
  (* full-strength laws of the stale-lister stream (selector 2) *)
  | 111 => law_entry (fun s e s' _ => law_full_closed_empty_X s e s') toks
  | 112 => law_entry (fun s e s' _ => law_full_sync_moves_X s e s') toks
  | 121 => law_entry (fun s e s' _ => law_full_closed_empty_Y s e s') toks
  | 122 => law_entry (fun s e s' _ => law_full_sync_moves_Y s e s') toks
  | 123 => law_entry (fun _ _ s' _ => law_no_stuck_child s') toks
  (* laws against the PodGroups that really exist (selector 3: PodGroup events before the queue is listed) *)
  | 131 => law_entry (fun s e s' _ => law_closed_only_when_really_empty s e s') toks
  | 132 => law_entry law_close_with_real_pgs toks
  (* quiescent end states (selector 4) *)
  | 141 => law_entry_exc exc_stuck prune_stuck law_stuck_X toks       (* unsigned: any other stuck child *)
  | 142 => law_entry_exc exc_open prune_open law_openchild_X toks     (* unsigned: any other open child under a closed parent *)
  | 145 => law_entry_last law_no_idle_closing toks         (* unsigned: a queue left Closing with no PodGroup *)
  (* unsigned: the catch-up really drained everything.  Only for retry budgets the catch-up is long
     enough to exhaust (maxRequeueNum <= 3, or unlimited in the scripted shapes): with budget 15 several
     never-succeeding requests share the processing steps and are legitimately still retrying *)
  | 146 => law_entry_last (fun s => (3 <? maxrq s) || caught_up s) toks
  | 143 => law_entry_exc exc_stuck prune_stuck law_stuck_Y toks       (* signed: the known class *)
  | 144 => law_entry_exc exc_open prune_open law_openchild_Y toks     (* signed: the known class *)
  | _ => bad_input
  end.
