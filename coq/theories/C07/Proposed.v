(* PROPOSED model change for the repair of known finding
   C07-session-allocate-dispatch-refused-keeps-allocation (not yet applied to Sched/StmtModel.v,
   which other proofs still read; see docs/notes/C07.md "Prepared repair").

   Go (docs/notes/C07-session-allocate-dispatch.patch): in Session.Allocate, when ssn.dispatch(task)
   fails, the task's placement is undone the way Statement.Commit does it (UpdateTaskStatus
   Pending, node.RemoveTask, Deallocate handlers, NodeName cleared) before the error is returned.

   Model: dispatch_all unallocates the task whose dispatch failed.  Everything else is unchanged;
   [step_fixed] is [step] with this one difference, and the invariant theorem carries over. *)
From stdpp Require Import gmap.
From Coq Require Import ZArith List.
From V Require Import Base.Res Sched.LedgerModel Sched.StmtModel Sched.LedgerInvP Sched.LedgerInv
  Sched.LedgerLemmasSess Sched.LedgerLemmasSound C07.Example C07.Refuted.
Import ListNotations.
Open Scope Z_scope.

Section WithEps.
Variable eps : Z.

Fixpoint dispatch_all_fixed (s : sess) (l : list positive) : sess * bool :=
  match l with
  | [] => (s, true)
  | t :: r =>
    let '(s1, ok) := dispatch s t in
    if ok then dispatch_all_fixed s1 r
    else (match heap s1 !! t with Some p => unallocate_with s1 p | None => s1 end, false)
  end.

Definition ssn_place_with_fixed (jr : sess -> job -> bool) (s : sess) (k : opkind) (tid nid : positive) : sess * result :=
  match heap s !! tid with
  | None => (s, RNoTask)
  | Some p =>
    let st := match k with KAllocate => Allocated | _ => Pipelined end in
    let '(found, s1, p1) := ssn_update_status s p st in
    if negb found then (s, RErr) else
    let p2 := set_node p1 (Some nid) in
    let s2 := put_task s1 p2 in
    let revert :=
      let '(_, sr, pr) := ssn_update_status s2 p2 Pending in
      put_task sr (set_node pr None) in
    match nodes s2 !! nid with
    | None => (revert, RErr)
    | Some n =>
      match node_add eps n p2 with
      | inr _ => (revert, RErr)
      | inl (n', p3) =>
        let s3 := put_task (upd_nodes s2 (<[nid := n']> (nodes s2))) p3 in
        let '(_, s4) := h_alloc s3 p3 in
        match k with
        | KAllocate =>
          match jobs s4 !! t_job p with
          | Some j =>
            if jr s4 j then
              let '(s5, ok) := dispatch_all_fixed s4 (elements (default ∅ (j_index j !! skey Allocated))) in
              (s5, if ok then ROk else RErr)
            else (s4, ROk)
          | None => (s4, ROk)
          end
        | _ => (s4, ROk)
        end
      end
    end
  end.

Definition ssn_place_fixed := ssn_place_with_fixed (fun s _ => job_ready s).

Definition step_fixed (s : sess) (o : op) : sess * result :=
  match o with
  | OSsnAllocate tid nid => ssn_place_fixed s KAllocate tid nid
  | _ => step eps s o
  end.

Definition run_fixed (s : sess) (ops : list op) : sess := fold_left (fun s o => fst (step_fixed s o)) ops s.

(* the invariant theorem carries over *)
Section Typed.
Variable T : gmap positive (positive * res).

Lemma good_dispatch_all_fixed l s : good T s -> good T (fst (dispatch_all_fixed s l)).
Proof.
  revert s. induction l as [|t r IH]; intros s Hg; [exact Hg|]. simpl.
  destruct (dispatch s t) as [s1 ok] eqn:E.
  assert (Hg1 : good T s1) by (change s1 with (fst (s1, ok)); rewrite <- E; apply good_dispatch; exact Hg).
  destruct ok; [apply IH; exact Hg1|]. simpl.
  destruct (heap s1 !! t) as [p|] eqn:Ep; [|exact Hg1].
  apply good_unallocate; [exact Hg1|]. eapply good_heap_pok; eauto.
Qed.

Lemma good_ssn_place_fixed jr s k tid nid : good T s -> good T (fst (ssn_place_with_fixed jr s k tid nid)).
Proof.
  intros Hg. unfold ssn_place_with_fixed. destruct (heap s !! tid) as [p|] eqn:E; [|exact Hg].
  pose proof (good_heap_pok _ _ _ _ Hg E) as Hp.
  destruct (ssn_update_status s p _) as [[f s1] p1] eqn:E1.
  destruct (good_update _ _ _ _ _ _ _ Hg Hp E1) as (Hc & _).
  destruct f; cbn [negb]; [|exact Hg].
  apply (ctx_put _ _ _ (Some nid)) in Hc.
  set (p2 := set_node p1 (Some nid)) in *. set (s2 := put_task s1 p2) in *.
  assert (Hrev : good T (let '(_, sr, pr) := ssn_update_status s2 p2 Pending in put_task sr (set_node pr None))).
  { destruct (ssn_update_status s2 p2 Pending) as [[fr sr] pr] eqn:Er.
    destruct (good_update _ _ _ _ _ _ _ (proj1 Hc) (proj1 (proj2 Hc)) Er) as (Hcr & _).
    exact (proj1 (ctx_put _ _ _ None Hcr)). }
  destruct (nodes s2 !! nid) as [n|] eqn:En; [|exact Hrev].
  destruct (node_add eps n p2) as [[n' p3]|e] eqn:Ea; [|exact Hrev].
  pose proof (ctx_node_add eps _ _ _ _ _ _ _ Hc En Ea) as Hc3.
  destruct (h_alloc _ p3) as [b s4] eqn:E4. pose proof (ctx_h_alloc _ _ _ _ _ _ Hc3 E4) as Hc4.
  destruct k; try exact (proj1 Hc4).
  destruct (jobs s4 !! t_job p) as [j|]; [|exact (proj1 Hc4)].
  destruct (jr s4 j); [|exact (proj1 Hc4)].
  destruct (dispatch_all_fixed s4 _) as [s5 ok] eqn:E5. simpl.
  change s5 with (fst (s5, ok)). rewrite <- E5. apply good_dispatch_all_fixed. exact (proj1 Hc4).
Qed.

Lemma good_step_fixed s o : good T s -> good T (fst (step_fixed s o)).
Proof.
  intros Hg. destruct o; try (apply (good_step eps T); exact Hg).
  apply good_ssn_place_fixed. exact Hg.
Qed.

Lemma good_run_fixed ops s : good T s -> good T (run_fixed s ops).
Proof.
  revert s. induction ops as [|o r IH]; intros s Hg; [exact Hg|].
  unfold run_fixed. simpl. apply IH. apply good_step_fixed, Hg.
Qed.
End Typed.

Theorem ledger_inv_preserved_fixed s ops :
  ledger_inv s -> sess_wf s -> saved_ok s ->
  ledger_inv (run_fixed s ops) /\ sess_wf (run_fixed s ops) /\ saved_ok (run_fixed s ops).
Proof.
  intros Hl Hw Hs. pose proof (good_run_fixed _ ops s (good_init s Hl Hw Hs)) as Hg.
  split; [exact (proj1 Hg)|]. split; [exact (proj1 (proj2 Hg))|]. eapply good_saved_ok; eauto.
Qed.

End WithEps.

(* on the witness of the finding the repaired Session.Allocate leaves no trace *)
Example ssn_allocate_dispatch_refused_fixed :
  snd (ssn_place_fixed ex_eps d_sess KAllocate 1 1) = RErr /\
  sess_sameb d_sess (fst (ssn_place_fixed ex_eps d_sess KAllocate 1 1)) = true /\
  binds (fst (ssn_place_fixed ex_eps d_sess KAllocate 1 1)) = [].
Proof. vm_compute. repeat split. Qed.
