(* C07: a concrete session and a mixed history of statement / session
   operations, evaluated by vm_compute.  The invariant checker ledger_okb holds
   initially, after every prefix of the history and at the end; a discarded
   transaction restores the session exactly (the *sameb comparisons). *)
From stdpp Require Import gmap.
From Coq Require Import ZArith List.
From V Require Import Base.Res Sched.LedgerModel Sched.StmtModel Sched.LedgerInv Sched.LedgerCodec.
Import ListNotations.
Open Scope Z_scope.

(* minResource on the grid: harness/cmd/c07/main.go, const epsUnits = 2 *)
Definition ex_eps : Z := 2.

(* two ready nodes (node 2 has 2 gpus), two jobs, four tasks:
     t1 (job 1) Pending, off-node            1000m / 1000
     t2 (job 1) Running on node 1            2000m / 2000
     t3 (job 2) Bound   on node 2            1000m / 1000
     t4 (job 2) Pending, off-node, 1 gpu     1000m / 1000 / gpu 1 *)
Definition ex_nodes : list node_spec :=
  [mkNodeSpec 1 true 8000 16000 10 0; mkNodeSpec 2 true 8000 16000 10 2].
Definition ex_jobs : list job_spec :=
  [mkJobSpec 1 1 1 []; mkJobSpec 2 1 1 []].
Definition ex_tasks : list task_spec :=
  [mkTaskSpec 1 1 1 0 1000 1000 0 Pending None true;
   mkTaskSpec 2 1 1 0 2000 2000 0 Running (Some 1%positive) true;
   mkTaskSpec 3 2 1 0 1000 1000 0 Bound (Some 2%positive) true;
   mkTaskSpec 4 2 1 0 1000 1000 1 Pending None true].

Definition ex_sess : sess := build ex_eps ex_nodes ex_jobs ex_tasks.

(* the history (17 operations):
    1- 4  statement 1: Allocate t1 on n1, Pipeline t4 on n2, Evict the Running t2 (canonical
          object), Evict the Bound t3 (clone of the node's copy, as preempt/reclaim do)
    5- 7  SaveOperations(stmt 1) into slot 1; Discard stmt 1; RecoverOperations into stmt 2
    8     Merge stmt 2 into stmt 3
    9-10  faults: handler error for t1, AddBindTask refuses t1, cache.Evict refuses t3;
          Commit stmt 3: t1 is un-allocated, t4 stays Pipelined, t2 is evicted, t3 is un-evicted
   11     Allocate t1 on the unknown node 9            -> RErr
   12     Allocate t1 on n1 with the handler error     -> RErr
   13-15  clear the faults; Session.Allocate t1 on n1 (job ready: dispatched, Binding);
          Session.Evict t3
   16-17  drop job 2 from the session; UnPipeline t4 (a task of the dropped job) *)
Definition ex_hist : list op := [
  OAllocate 1 1 1; OPipeline 1 4 2; OEvict 1 2; OEvictClone 1 3;
  OSave 1 1; ODiscard 1; ORecover 2 1;
  OMerge 3 2;
  OSetFaults [1%positive] [1%positive] [3%positive] true; OCommit 3;
  OAllocate 1 1 9;
  OAllocate 1 1 1;
  OSetFaults [] [] [] true; OSsnAllocate 1 1; OSsnEvict 3;
  ODropJob 2; OUnPipeline 4 ].

(* the results of the steps of a history *)
Fixpoint run_results (eps : Z) (s : sess) (ops : list op) : list result :=
  match ops with
  | [] => []
  | o :: r => let '(s', res) := step eps s o in res :: run_results eps s' r
  end.

(* "restored exactly" on the four ledgers of a session *)
Definition sess_sameb (a b : sess) : bool :=
  map_sameb task_sameb (heap a) (heap b) &&
  map_sameb job_sameb (jobs a) (jobs b) &&
  map_sameb node_sameb (nodes a) (nodes b) &&
  share_sameb (hshare a) (hshare b).

(* status and node name of the canonical object of a task; the status of the node's copy *)
Definition task_view (s : sess) (tid : positive) : option (status * option positive) :=
  (fun t => (t_status t, t_node t)) <$> heap s !! tid.
Definition copy_status (s : sess) (nid tid : positive) : option status :=
  n ← nodes s !! nid; t_status <$> n_tasks n !! tid.

Definition okb (s : sess) : bool := ledger_okb (heap s) (jobs s) (nodes s).

(* ---------- the invariant ---------- *)

Example ex_sess_okb : ledger_okb (heap ex_sess) (jobs ex_sess) (nodes ex_sess) = true.
Proof. vm_compute. reflexivity. Qed.

Example ex_run_okb :
  let s := run ex_eps ex_sess ex_hist in ledger_okb (heap s) (jobs s) (nodes s) = true.
Proof. vm_compute. reflexivity. Qed.

Example ex_prefix_okb :
  forallb (fun k => let s := run ex_eps ex_sess (firstn k ex_hist) in
                    ledger_okb (heap s) (jobs s) (nodes s))
          (seq 0 (S (length ex_hist))) = true.
Proof. vm_compute. reflexivity. Qed.

(* ---------- the history is not trivial ---------- *)

Example ex_hist_length : length ex_hist = 17%nat.
Proof. reflexivity. Qed.

Example ex_results :
  run_results ex_eps ex_sess ex_hist =
  [ROk; ROk; ROk; ROk; ROk; ROk; ROk; ROk; ROk; ROk; RErr; RErr; ROk; ROk; ROk; ROk; ROk].
Proof. vm_compute. reflexivity. Qed.

Example ex_initial_views :
  map (task_view ex_sess) [1; 2; 3; 4]%positive =
  [Some (Pending, None); Some (Running, Some 1%positive);
   Some (Bound, Some 2%positive); Some (Pending, None)].
Proof. vm_compute. reflexivity. Qed.

(* after the four operations of statement 1 *)
Example ex_after_stmt1 :
  let s := run ex_eps ex_sess (firstn 4 ex_hist) in
  map (task_view s) [1; 2; 3; 4]%positive =
  [Some (Allocated, Some 1%positive); Some (Releasing, Some 1%positive);
   Some (Releasing, Some 2%positive); Some (Pipelined, Some 2%positive)] /\
  (copy_status s 1 1, copy_status s 1 2, copy_status s 2 3, copy_status s 2 4) =
  (Some Allocated, Some Releasing, Some Releasing, Some Pipelined) /\
  map (fun o => (op_kind o, op_task o, op_prev o)) (default [] (stmts s !! 1%positive)) =
  [(KAllocate, 1%positive, Pending); (KPipeline, 4%positive, Pending);
   (KEvict, 2%positive, Running); (KEvict, 3%positive, Bound)] /\
  sess_sameb ex_sess s = false.
Proof. vm_compute. repeat split; reflexivity. Qed.

(* Save; Discard restores the initial session exactly (operation 6) *)
Example ex_after_discard_same :
  sess_sameb ex_sess (run ex_eps ex_sess (firstn 6 ex_hist)) = true.
Proof. vm_compute. reflexivity. Qed.

(* Recover replays the saved clones: the session is again as after statement 1,
   the operations now belonging to statement 2 with the recorded pre-eviction statuses *)
Example ex_after_recover_same :
  let a := run ex_eps ex_sess (firstn 4 ex_hist) in
  let b := run ex_eps ex_sess (firstn 7 ex_hist) in
  sess_sameb a b = true /\
  map (fun o => (op_kind o, op_task o, op_prev o)) (default [] (stmts b !! 2%positive)) =
  [(KAllocate, 1%positive, Pending); (KPipeline, 4%positive, Pending);
   (KEvict, 2%positive, Running); (KEvict, 3%positive, Bound)] /\
  stmts b !! 1%positive = Some [] /\ saved b !! 1%positive = None.
Proof. vm_compute. repeat split; reflexivity. Qed.

(* Commit with a refused bind (t1) and a refused eviction (t3): operation 10 *)
Example ex_after_commit :
  let s := run ex_eps ex_sess (firstn 10 ex_hist) in
  map (task_view s) [1; 2; 3; 4]%positive =
  [Some (Pending, None); Some (Releasing, Some 1%positive);
   Some (Bound, Some 2%positive); Some (Pipelined, Some 2%positive)] /\
  (copy_status s 1 1, copy_status s 1 2, copy_status s 2 3, copy_status s 2 4) =
  (None, Some Releasing, Some Bound, Some Pipelined) /\
  binds s = [] /\ evicts s = [2%positive] /\ stmts s !! 3%positive = Some [].
Proof. vm_compute. repeat split; reflexivity. Qed.

(* the two refused Allocates (operations 11, 12) leave no trace *)
Example ex_refused_allocates_same :
  let a := run ex_eps ex_sess (firstn 10 ex_hist) in
  sess_sameb a (run ex_eps ex_sess (firstn 11 ex_hist)) = true /\
  sess_sameb a (run ex_eps ex_sess (firstn 12 ex_hist)) = true /\
  stmts (run ex_eps ex_sess (firstn 12 ex_hist)) !! 1%positive = Some [].
Proof. vm_compute. repeat split; reflexivity. Qed.

(* the final state *)
Example ex_final :
  let s := run ex_eps ex_sess ex_hist in
  binds s = [(1%positive, Some 1%positive)] /\
  evicts s = [3%positive; 2%positive] /\
  map (task_view s) [1; 2; 3; 4]%positive =
  [Some (Binding, Some 1%positive); Some (Releasing, Some 1%positive);
   Some (Releasing, Some 2%positive); Some (Pipelined, None)] /\
  (copy_status s 1 1, copy_status s 1 2, copy_status s 2 3, copy_status s 2 4) =
  (Some Allocated, Some Releasing, Some Releasing, None) /\
  map fst (map_to_list (jobs s)) = [1%positive] /\
  length (hlog s) = 21%nat /\
  sess_sameb ex_sess s = false.
Proof. vm_compute. repeat split; reflexivity. Qed.

(* ---------- a discarded transaction ---------- *)

Definition ex_discard_hist : list op :=
  [OAllocate 1 1 1; OPipeline 1 4 2; OEvict 1 2; OEvictClone 1 3; ODiscard 1].

Example ex_discard_results :
  run_results ex_eps ex_sess ex_discard_hist = [ROk; ROk; ROk; ROk; ROk].
Proof. vm_compute. reflexivity. Qed.

Example ex_discard_same :
  let s := run ex_eps ex_sess ex_discard_hist in
  map_sameb task_sameb (heap ex_sess) (heap s) &&
  map_sameb job_sameb (jobs ex_sess) (jobs s) &&
  map_sameb node_sameb (nodes ex_sess) (nodes s) &&
  share_sameb (hshare ex_sess) (hshare s) = true.
Proof. vm_compute. reflexivity. Qed.

(* ... and it undid real work: before the Discard nothing was the same *)
Example ex_discard_nontrivial :
  let s := run ex_eps ex_sess (firstn 4 ex_discard_hist) in
  map_sameb task_sameb (heap ex_sess) (heap s) = false /\
  map_sameb job_sameb (jobs ex_sess) (jobs s) = false /\
  map_sameb node_sameb (nodes ex_sess) (nodes s) = false /\
  share_sameb (hshare ex_sess) (hshare s) = false /\
  length (hlog (run ex_eps ex_sess ex_discard_hist)) = 8%nat.
Proof. vm_compute. repeat split; reflexivity. Qed.

Print Assumptions ex_sess_okb.
Print Assumptions ex_run_okb.
Print Assumptions ex_prefix_okb.
Print Assumptions ex_results.
Print Assumptions ex_final.
Print Assumptions ex_discard_same.
