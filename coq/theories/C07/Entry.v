(* C07 entry: selector 1 = run a history of statement/session operations on a
   session built from a cluster spec, dumping the whole projected state after
   every operation; selectors >= 100 = laws on the implementation's dumps. *)
From stdpp Require Import gmap.
From Coq Require Import ZArith List.
From V Require Import Base.Codec Base.Res Base.ResCodec Sched.LedgerModel Sched.StmtModel Sched.LedgerCodec Sched.LedgerInv Sched.DumpCodec.
Import ListNotations.
Open Scope Z_scope.

Definition new_prefix {A} (newl oldl : list A) : list A := firstn (length newl - length oldl) newl.

Definition eStep (s s' : sess) (r : result) : list Z :=
  [-101; eResult r] ++
  eList (fun e : hev => [if he_alloc e then 1 else 0; Zpos (he_task e); Zpos (skey (he_status e))] ++ eNodeRef (he_node e))
        (rev (new_prefix (hlog s') (hlog s))) ++
  eList (fun b : positive * option positive => Zpos (fst b) :: eNodeRef (snd b))
        (sort_kv (new_prefix (binds s') (binds s))) ++
  eList ePos (sort_pos (new_prefix (evicts s') (evicts s))) ++
  eState s'.

Fixpoint run_dump (eps : Z) (s : sess) (ops : list op) : list Z :=
  match ops with
  | [] => []
  | o :: r => let '(s', res) := step eps s o in eStep s s' res ++ run_dump eps s' r
  end.

Definition dCase : dec (Z * list node_spec * list job_spec * list task_spec * list op) :=
  let* e := dZ in let* ns := dList dNodeSpec in let* js := dList dJobSpec in
  let* ts := dList dTaskSpec in let* ops := dList dOp in ret (e, ns, js, ts, ops).

Definition pending_off_node (d : dump) (tid : Z) : bool :=
  match d_heap d !! Z.to_pos tid with
  | Some t => bool_decide (t_status t = Pending) && bool_decide (t_node t = None) &&
              gmap_allb (fun _ n => bool_decide (n_tasks n !! Z.to_pos tid = None)) (d_nodes d)
  | None => false
  end.

(* [tid]: the task the operation was applied to (0 if none).  The no-trace
   clause is stated, like the theorem, under the call sites' precondition:
   Allocate / Pipeline are applied to a Pending task that is on no node. *)
Definition law_step (opc res tid : Z) (before after : dump) (nbinds nevicts : Z) : bool :=
  ledger_okb (d_heap after) (d_jobs after) (d_nodes after) &&
  (if (res =? 1) && (((opc =? 1) || (opc =? 2) || (opc =? 11) || (opc =? 12)) && pending_off_node before tid
                     || (opc =? 13))
   then dump_sameb before after else true) &&
  (if (opc =? 7) || (opc =? 11) || (opc =? 13) then true else (nbinds =? 0) && (nevicts =? 0)).

(* law of a discarded transaction: everything is back to the values before its first operation *)
Definition law_discard (before after : dump) : bool := dump_sameb before after.

(* law of a Commit step (theorem 6 on the dumps).  Per operation recorded in the committed
   statement: kind (0 evict, 1 pipeline, 2 allocate), task, whether the cache refused it,
   the pre-eviction status, and whether the placement met the call sites' precondition
   (Pending task on no node).  A refused bind leaves the task Pending, NodeName empty, off the
   node it was placed on (off every node under the precondition); an accepted one is Binding,
   still on its node and logged; a refused eviction leaves the victim in its pre-eviction
   status on its node and is not logged; an accepted one is logged and the task unchanged;
   a pipeline is left alone; the binder / evictor saw exactly the accepted operations; the
   handler shares moved by exactly the requests of the rolled-back operations. *)
Record cop := mkCop { c_kind : Z; c_tid : positive; c_refused : bool; c_prev : status; c_pre : bool }.
Definition dCop : dec cop :=
  let* k := dZ in let* t := dPos in let* r := dBool in let* p := dStatus in let* q := dBool in ret (mkCop k t r p q).

Definition job_known (d : dump) (t : task) : bool := bool_decide (is_Some (d_jobs d !! t_job t)).
Definition held_or_gone (d : dump) (nid tid : positive) (want : option status) : bool :=
  match d_nodes d !! nid with
  | Some n => match n_tasks n !! tid, want with
              | Some c, Some st => bool_decide (t_status c = st)
              | Some _, None => true
              | None, _ => false
              end
  | None => true
  end.
Definition not_held (d : dump) (nid tid : positive) : bool :=
  match d_nodes d !! nid with Some n => bool_decide (n_tasks n !! tid = None) | None => true end.
Definition on_none (d : dump) (tid : positive) : bool :=
  gmap_allb (fun _ n => bool_decide (n_tasks n !! tid = None)) (d_nodes d).

Definition law_commit_op (b a : dump) (binds : list (positive * option positive)) (evs : list positive) (o : cop) : bool :=
  match d_heap b !! c_tid o, d_heap a !! c_tid o with
  | Some tb, Some ta =>
    if c_kind o =? 2 then
      if c_refused o then
        bool_decide (t_node ta = None) &&
        (if job_known a ta then bool_decide (t_status ta = Pending) else true) &&
        match t_node tb with Some nid => not_held a nid (c_tid o) | None => true end &&
        (if c_pre o then on_none a (c_tid o) else true)
      else
        bool_decide ((c_tid o, t_node tb) ∈ binds) &&
        (if job_known a ta then
           bool_decide (t_status ta = Binding) && bool_decide (t_node ta = t_node tb) &&
           match t_node tb with Some nid => held_or_gone a nid (c_tid o) None | None => true end
         else bool_decide (t_node ta = None))
    else if c_kind o =? 0 then
      if c_refused o then
        negb (bool_decide (c_tid o ∈ evs)) && bool_decide (t_node ta = t_node tb) &&
        (if job_known a ta then bool_decide (t_status ta = restore_status (c_prev o)) else true) &&
        match t_node tb with Some nid => held_or_gone a nid (c_tid o) (Some (t_status ta)) | None => true end
      else bool_decide (c_tid o ∈ evs) && task_sameb tb ta
    else task_sameb tb ta
  | _, _ => false
  end.

(* requests of the operations of job k that Commit rolled back: refused ones, and accepted binds
   whose job the session no longer knows (Statement.allocate fails after AddBindTask) *)
Definition cop_req (b a : dump) (k : positive) (want_kind : Z) (ops : list cop) : res :=
  sum_req (omap (fun o => match d_heap b !! c_tid o with
                          | Some t =>
                            if (c_kind o =? want_kind) && bool_decide (t_job t = k) &&
                               (c_refused o || ((want_kind =? 2) && negb (job_known a t)))
                            then Some t else None
                          | None => None end) ops).

Definition law_commit (ops : list cop) (b a : dump) (binds : list (positive * option positive)) (evs : list positive) : bool :=
  forallb (law_commit_op b a binds evs) ops &&
  Nat.eqb (length binds) (length (List.filter (fun o => (c_kind o =? 2) && negb (c_refused o)) ops)) &&
  Nat.eqb (length evs) (length (List.filter (fun o => (c_kind o =? 0) && negb (c_refused o)) ops)) &&
  forallb (fun k => res_eqvb (add (default empty_res (d_share a !! k)) (cop_req b a k 2 ops))
                             (add (default empty_res (d_share b !! k)) (cop_req b a k 0 ops)))
          (elements (dom (d_share a) ∪ dom (d_share b))).

(* ---- the dispatch loop of Session.Allocate (directed "gang" family, selector 2 / law 105) ----
   Go ranges over the map TaskStatusIndex[Allocated] in random order and returns at the first
   refused bind, so WHICH members were dispatched before the refused one is order dependent.
   Selector 2 therefore compares the history exactly up to its last operation and only the
   result code of the last one; the last step is judged by the order-insensitive law below. *)
Fixpoint run_dump_last (eps : Z) (s : sess) (ops : list op) : list Z :=
  match ops with
  | [] => []
  | [o] => let '(_, res) := step eps s o in [-101; eResult res]
  | o :: r => let '(s', res) := step eps s o in eStep s s' res ++ run_dump_last eps s' r
  end.

Definition held_on (d : dump) (nd : option positive) (tid : positive) : bool :=
  match nd with
  | Some nid => match d_nodes d !! nid with Some n => bool_decide (is_Some (n_tasks n !! tid)) | None => false end
  | None => false
  end.

(* outcome of one member of the dispatched set: 0 = left Allocated where it was (not attempted),
   1 = handed to the binder (Binding, same node, still held, logged), 2 = its placement undone
   (Pending, NodeName empty, off the node); 3 = anything else *)
Definition member_outcome (a : dump) (binds : list (positive * option positive)) (tid : positive) (nd : option positive) : Z :=
  match d_heap a !! tid with
  | Some ta =>
    let logged := bool_decide ((tid, nd) ∈ binds) in
    if bool_decide (t_status ta = Allocated) && bool_decide (t_node ta = nd) && held_on a nd tid && negb logged then 0
    else if bool_decide (t_status ta = Binding) && bool_decide (t_node ta = nd) && held_on a nd tid && logged then 1
    else if bool_decide (t_status ta = Pending) && bool_decide (t_node ta = None) && negb (held_on a nd tid) && negb logged then 2
    else 3
  | None => 3
  end.

(* [arg] was Pending off-node and is placed on [nid] by the call; the members are [arg] and the
   tasks the job's Allocated index held before the call.
   - the invariant holds afterwards;
   - a refused member is either not attempted (still Allocated on its node) or undone, never bound;
   - an accepted member is either bound and logged or not attempted, never undone;
   - if some member is refused exactly one (refused) member is undone and the call fails, otherwise
     every member is bound and the call succeeds;
   - the binder saw exactly the bound members; every other task is unchanged;
   - the handler shares moved by the request of [arg] minus the requests of the undone member. *)
Definition law_dispatch (arg nid : positive) (res : Z) (rb : list positive) (b a : dump)
    (binds : list (positive * option positive)) : bool :=
  match d_heap b !! arg with
  | Some targ =>
    match d_jobs b !! t_job targ with
    | Some j =>
      let others := List.filter (fun i => negb (Pos.eqb i arg)) (elements (default ∅ (j_index j !! skey Allocated))) in
      let node_of i := match d_heap b !! i with Some t => t_node t | None => None end in
      let outs := (arg, member_outcome a binds arg (Some nid)) ::
                  map (fun i => (i, member_outcome a binds i (node_of i))) others in
      let refused i := bool_decide (i ∈ rb) in
      let undone := List.filter (fun io => snd io =? 2) outs in
      let bound := List.filter (fun io => snd io =? 1) outs in
      ledger_okb (d_heap a) (d_jobs a) (d_nodes a) &&
      forallb (fun io => if refused (fst io) then (snd io =? 0) || (snd io =? 2)
                         else (snd io =? 0) || (snd io =? 1)) outs &&
      (if existsb (fun io => refused (fst io)) outs
       then Nat.eqb (length undone) 1 && (res =? 1)
       else Nat.eqb (length undone) 0 && forallb (fun io => snd io =? 1) outs && (res =? 0)) &&
      Nat.eqb (length binds) (length bound) &&
      gmap_allb (fun i tb => if existsb (fun io => Pos.eqb (fst io) i) outs then true
                             else match d_heap a !! i with Some ta => task_sameb tb ta | None => false end) (d_heap b) &&
      forallb (fun k =>
         let req_of l := sum_req (omap (fun io => match d_heap b !! fst io with
                                                  | Some t => if bool_decide (t_job t = k) then Some t else None
                                                  | None => None end) l) in
         res_eqvb (add (default empty_res (d_share a !! k)) (req_of undone))
                  (add (default empty_res (d_share b !! k)) (req_of [(arg, 0)])))
        (elements (dom (d_share a) ∪ dom (d_share b)))
    | None => false
    end
  | None => false
  end.

(* ---- audit round: three clauses of the property text evaluated at FULL strength; the failing
        classes are documented known findings (the harness attaches the sig) ---- *)

(* "nothing of an undecided transaction reaches the binder": no task handed to the binder by a
   Session.Allocate is recorded in a statement that is still open at that moment *)
Definition law_undecided (recorded : list positive) (binds : list (positive * option positive)) : bool :=
  forallb (fun b => negb (bool_decide (fst b ∈ recorded))) binds.

(* "a failed operation leaves no trace" for the task the failed Session.Allocate was called with:
   it is Pending again, NodeName empty, off the node *)
Definition law_arg_restored (arg nid : positive) (a : dump) : bool :=
  match d_heap a !! arg with
  | Some ta => bool_decide (t_status ta = Pending) && bool_decide (t_node ta = None) &&
               negb (held_on a (Some nid) arg)
  | None => false
  end.

(* ---- second audit round ---- *)

(* the dumps agree on everything that does not concern task [tid]: every other task, every
   node-held copy keyed otherwise, the task sets / TaskToSubJob of every job, the handler shares.
   Together with ledger_okb of law 101 (the ledgers are functions of this skeleton) a failed
   placement outside the call sites' precondition may only have moved task [tid] itself. *)
Definition law_same_except (tid : positive) (b a : dump) : bool :=
  map_sameb task_sameb (delete tid (d_heap b)) (delete tid (d_heap a)) &&
  map_sameb (fun x y => map_sameb task_sameb (delete tid (n_tasks x)) (delete tid (n_tasks y))) (d_nodes b) (d_nodes a) &&
  map_sameb (fun x y => bool_decide (j_tasks x = j_tasks y) && bool_decide (j_task_sub x = j_task_sub y)) (d_jobs b) (d_jobs a) &&
  share_sameb (d_share b) (d_share a).

(* base case: the model's own initial session of a generated case satisfies the hypotheses of
   the history theorem (ledger_okb, non-negative requests, idle ledgers with a scalar map, empty
   save area): see init_okb_sess_ok in Sched/LedgerLemmasEx.v *)
Definition res_nonnegb' (r : res) : bool :=
  bool_decide (0 <= cpu r) && bool_decide (0 <= mem r) && gmap_allb (fun _ v => bool_decide (0 <= v)) (scm r).
Definition init_okb (s : sess) : bool :=
  gmap_allb (fun _ t => res_nonnegb' (t_req t)) (heap s) &&
  ledger_okb (heap s) (jobs s) (nodes s) &&
  gmap_allb (fun _ n => negb (n_has_node n) || negb (bool_decide (sc (n_idle n) = None))) (nodes s) &&
  bool_decide (saved s = ∅).

(* ---- Session.Evict (directed "evict" family, law 113) ----
   the recorder's per-job ledger equals the requests of the job's tasks that hold resources
   (allocated statuses and Pipelined), for every job the session knows *)
Definition holds_share (t : task) : bool :=
  allocated_status (t_status t) || bool_decide (t_status t = Pipelined).
Definition share_okb (d : dump) : bool :=
  gmap_allb (fun k _ =>
      res_eqvb (default empty_res (d_share d !! k))
               (sum_req (List.filter (fun t => holds_share t && bool_decide (t_job t = k))
                                     (map snd (map_to_list (d_heap d)))))) (d_jobs d).

(* after every Session.Evict, whatever it returns: the invariant; the handler ledger still equals
   the sum over the job's tasks (if it did before); an Evict that RETURNS an error changed nothing
   in the session; a successful one left the task Releasing and reached the evictor exactly once *)
Definition law_ssn_evict (tid : positive) (res : Z) (b a : dump) (evs : list positive) : bool :=
  ledger_okb (d_heap a) (d_jobs a) (d_nodes a) &&
  (if share_okb b then share_okb a else true) &&
  (if res =? 0 then
     match d_heap a !! tid with Some ta => bool_decide (t_status ta = Releasing) | None => false end &&
     bool_decide (evs = [tid])
   else dump_sameb b a).

Definition entry (sel : Z) (toks : list Z) : list Z :=
  match sel with
  | 1 => match run_dec dCase toks with
         | Some (e, ns, js, ts, ops) =>
           let s0 := build e ns js ts in
           [-100] ++ eState s0 ++ run_dump e s0 ops
         | None => bad_input end
  | 2 => match run_dec dCase toks with
         | Some (e, ns, js, ts, ops) =>
           let s0 := build e ns js ts in
           [-100] ++ eState s0 ++ run_dump_last e s0 ops
         | None => bad_input end
  | 105 => match run_dec (let* ar := dPos in let* nd := dPos in let* r := dZ in let* rb := dList dPos in
                          let* b := dDump in let* a := dDump in let* bs := dList (dPair dPos dNodeRef) in
                          ret (ar, nd, r, rb, b, a, bs)) toks with
           | Some (ar, nd, r, rb, b, a, bs) => eBool (law_dispatch ar nd r rb b a bs)
           | None => bad_input end
  | 106 => match run_dec (let* rec := dList dPos in let* bs := dList (dPair dPos dNodeRef) in ret (rec, bs)) toks with
           | Some (rec, bs) => eBool (law_undecided rec bs)
           | None => bad_input end
  (* a failed Allocate / Pipeline (Statement or Session) on a task OUTSIDE the call sites'
     precondition (not Pending, or already on a node): no trace either *)
  | 107 => match run_dec (dPair dDump dDump) toks with
           | Some (b, a) => eBool (law_discard b a)
           | None => bad_input end
  | 108 => match run_dec (let* ar := dPos in let* nd := dPos in let* a := dDump in ret (ar, nd, a)) toks with
           | Some (ar, nd, a) => eBool (law_arg_restored ar nd a)
           | None => bad_input end
  | 109 => match run_dec (let* t := dPos in let* b := dDump in let* a := dDump in ret (t, b, a)) toks with
           | Some (t, b, a) => eBool (law_same_except t b a)
           | None => bad_input end
  (* a value a failed / discarded operation must leave as it was (Pod.Spec.NodeName) *)
  | 110 => match run_dec (dPair dZ dZ) toks with
           | Some (x, y) => eBool (x =? y)
           | None => bad_input end
  | 112 => match run_dec dCase toks with
           | Some (e, ns, js, ts, _) => eBool (init_okb (build e ns js ts))
           | None => bad_input end
  | 113 => match run_dec (let* t := dPos in let* r := dZ in let* b := dDump in let* a := dDump in
                          let* es := dList dPos in ret (t, r, b, a, es)) toks with
           | Some (t, r, b, a, es) => eBool (law_ssn_evict t r b a es)
           | None => bad_input end
  | 101 => match run_dec (let* o := dZ in let* r := dZ in let* t := dZ in let* b := dDump in let* a := dDump in
                          let* nb := dZ in let* ne := dZ in ret (o, r, t, b, a, nb, ne)) toks with
           | Some (o, r, t, b, a, nb, ne) => eBool (law_step o r t b a nb ne)
           | None => bad_input end
  | 201 => match run_dec (let* o := dZ in let* r := dZ in let* b := dDump in let* a := dDump in
                          let* nb := dZ in let* ne := dZ in ret (o, r, b, a, nb, ne)) toks with
           | Some (o, r, b, a, nb, ne) =>
             eBool (ledger_okb (d_heap b) (d_jobs b) (d_nodes b)) ++
             eBool (ledger_okb (d_heap a) (d_jobs a) (d_nodes a)) ++
             eBool (map_sameb task_sameb (d_heap b) (d_heap a)) ++
             eBool (map_sameb job_sameb (d_jobs b) (d_jobs a)) ++
             eBool (map_sameb node_sameb (d_nodes b) (d_nodes a)) ++
             eBool (share_sameb (d_share b) (d_share a)) ++
             eBool (gmap_allb (fun i t => bool_decide (t_id t = i)) (d_heap a)) ++
             flat_map (fun kv => Zpos (fst kv) :: eBool (job_okb (d_heap a) (snd kv))) (map_to_list (d_jobs a)) ++ [-1] ++
             flat_map (fun kv => Zpos (fst kv) :: eBool (node_okb (d_heap a) (snd kv))) (map_to_list (d_nodes a))
           | None => bad_input end
  | 102 => match run_dec (dPair dDump dDump) toks with
           | Some (b, a) => eBool (law_discard b a)
           | None => bad_input end
  | 103 => match run_dec (let* ops := dList dCop in let* b := dDump in let* a := dDump in
                          let* bs := dList (dPair dPos dNodeRef) in let* es := dList dPos in ret (ops, b, a, bs, es)) toks with
           | Some (ops, b, a, bs, es) => eBool (law_commit ops b a bs es)
           | None => bad_input end
  (* a committed transaction all of whose operations the cache refused: everything is back *)
  | 104 => match run_dec (dPair dDump dDump) toks with
           | Some (b, a) => eBool (law_discard b a)
           | None => bad_input end
  | _ => bad_input
  end.
