(* C07 entry: selector 1 = run a history of statement/session operations on a
   session built from a cluster spec, dumping the whole projected state after
   every operation; selectors >= 100 = laws on the implementation's dumps. *)
From stdpp Require Import gmap.
From Coq Require Import ZArith List.
From V Require Import Base.Codec Base.Res Base.ResCodec Sched.LedgerModel Sched.StmtModel Sched.LedgerCodec Sched.LedgerInv Sched.DumpCodec.
Import ListNotations.
Open Scope Z_scope.

Definition new_prefix {A} (newl oldl : list A) : list A := firstn (length newl - length oldl) newl.

Definition eStep (s s' : sess) (r : result) : list Z :=
  [-101; eResult r] ++
  eList (fun e : hev => [if he_alloc e then 1 else 0; Zpos (he_task e); Zpos (skey (he_status e))] ++ eNodeRef (he_node e))
        (rev (new_prefix (hlog s') (hlog s))) ++
  eList (fun b : positive * option positive => Zpos (fst b) :: eNodeRef (snd b))
        (sort_kv (new_prefix (binds s') (binds s))) ++
  eList ePos (sort_pos (new_prefix (evicts s') (evicts s))) ++
  eState s'.

Fixpoint run_dump (eps : Z) (s : sess) (ops : list op) : list Z :=
  match ops with
  | [] => []
  | o :: r => let '(s', res) := step eps s o in eStep s s' res ++ run_dump eps s' r
  end.

Definition dCase : dec (Z * list node_spec * list job_spec * list task_spec * list op) :=
  let* e := dZ in let* ns := dList dNodeSpec in let* js := dList dJobSpec in
  let* ts := dList dTaskSpec in let* ops := dList dOp in ret (e, ns, js, ts, ops).

Definition pending_off_node (d : dump) (tid : Z) : bool :=
  match d_heap d !! Z.to_pos tid with
  | Some t => bool_decide (t_status t = Pending) && bool_decide (t_node t = None) &&
              gmap_allb (fun _ n => bool_decide (n_tasks n !! Z.to_pos tid = None)) (d_nodes d)
  | None => false
  end.

(* [tid]: the task the operation was applied to (0 if none).  The no-trace
   clause is stated, like the theorem, under the call sites' precondition:
   Allocate / Pipeline are applied to a Pending task that is on no node. *)
Definition law_step (opc res tid : Z) (before after : dump) (nbinds nevicts : Z) : bool :=
  ledger_okb (d_heap after) (d_jobs after) (d_nodes after) &&
  (if (res =? 1) && (((opc =? 1) || (opc =? 2) || (opc =? 11) || (opc =? 12)) && pending_off_node before tid
                     || (opc =? 13))
   then dump_sameb before after else true) &&
  (if (opc =? 7) || (opc =? 11) || (opc =? 13) then true else (nbinds =? 0) && (nevicts =? 0)).

(* law of a discarded transaction: everything is back to the values before its first operation *)
Definition law_discard (before after : dump) : bool := dump_sameb before after.

Definition entry (sel : Z) (toks : list Z) : list Z :=
  match sel with
  | 1 => match run_dec dCase toks with
         | Some (e, ns, js, ts, ops) =>
           let s0 := build e ns js ts in
           [-100] ++ eState s0 ++ run_dump e s0 ops
         | None => bad_input end
  | 101 => match run_dec (let* o := dZ in let* r := dZ in let* t := dZ in let* b := dDump in let* a := dDump in
                          let* nb := dZ in let* ne := dZ in ret (o, r, t, b, a, nb, ne)) toks with
           | Some (o, r, t, b, a, nb, ne) => eBool (law_step o r t b a nb ne)
           | None => bad_input end
  | 201 => match run_dec (let* o := dZ in let* r := dZ in let* b := dDump in let* a := dDump in
                          let* nb := dZ in let* ne := dZ in ret (o, r, b, a, nb, ne)) toks with
           | Some (o, r, b, a, nb, ne) =>
             eBool (ledger_okb (d_heap b) (d_jobs b) (d_nodes b)) ++
             eBool (ledger_okb (d_heap a) (d_jobs a) (d_nodes a)) ++
             eBool (map_sameb task_sameb (d_heap b) (d_heap a)) ++
             eBool (map_sameb job_sameb (d_jobs b) (d_jobs a)) ++
             eBool (map_sameb node_sameb (d_nodes b) (d_nodes a)) ++
             eBool (share_sameb (d_share b) (d_share a)) ++
             eBool (gmap_allb (fun i t => bool_decide (t_id t = i)) (d_heap a)) ++
             flat_map (fun kv => Zpos (fst kv) :: eBool (job_okb (d_heap a) (snd kv))) (map_to_list (d_jobs a)) ++ [-1] ++
             flat_map (fun kv => Zpos (fst kv) :: eBool (node_okb (d_heap a) (snd kv))) (map_to_list (d_nodes a))
           | None => bad_input end
  | 102 => match run_dec (dPair dDump dDump) toks with
           | Some (b, a) => eBool (law_discard b a)
           | None => bad_input end
  | _ => bad_input
  end.
