(* C07: the record of four repaired defects.

   Each repaired defect is kept as an executable PRE-fix variant of the model
   function the fix changed, with a [_refuted] witness on the concrete session
   of C07/Example.v showing the behaviour the fix removed, and a companion fact
   showing that the current model does not have it.

     (a) /repo 3dda375  Statement.unevict restored Running whatever the victim's status was
     (b) /repo bde0fb5  JobInfo.DeleteTaskInfo deleted the task from the sub-job's status index
                        under the caller's object's status, not the stored object's
     (c) /repo 70f999a  Session.Allocate / Pipeline returned the error of an unknown / refusing
                        node but left the task Allocated / Pipelined with NodeName set
     (d) /repo c8b10ae  Session.Allocate returned the error of a refused dispatch (AddBindTask) but
                        kept the task Allocated on the node (former known finding
                        C07-session-allocate-dispatch-refused-keeps-allocation)

     (e) OPEN           three known findings of the audit round (undecided task reaches the binder;
                        failed placement outside the call sites' precondition; failed
                        Session.Allocate keeps its argument Allocated)

   Everything is evaluated by vm_compute. *)
From stdpp Require Import gmap.
From Coq Require Import ZArith List.
From V Require Import Base.Res Sched.LedgerModel Sched.StmtModel Sched.LedgerInv Sched.LedgerCodec.
From V Require Import C07.Example.
Import ListNotations.
Open Scope Z_scope.

(* on no node of the session *)
Definition on_no_node (s : sess) (tid : positive) : bool :=
  gmap_allb (fun _ n => bool_decide (n_tasks n !! tid = None)) (nodes s).

(* ====================================================================== *)
(* (a) 3dda375: unevict always restored Running                            *)
(*     pre-fix pkg/scheduler/framework/statement.go:                       *)
(*       123-127  func (s *Statement) unevict(reclaimee) ...               *)
(*                  job.UpdateTaskStatus(reclaimee, api.Running)           *)
(*       382      Discard:  err := s.unevict(op.task)                      *)
(*       114      evict (Commit, cache.Evict refused): s.unevict(reclaimee)*)
(* ====================================================================== *)
Section PrefixA.
Variable eps : Z.

(* = unevict_with, with Running instead of [restore_status prev] *)
Definition unevict_prefix (s : sess) (p : task) : sess * bool :=
  let '(_, s1, p1) := ssn_update_status s p Running in
  let '(s2, p2, fatal) := ssn_node_update eps s1 p1 in
  let '(_, s3) := h_alloc s2 p2 in
  (s3, fatal).

Definition undo_op_prefix (s : sess) (o : oprec) : sess :=
  match heap s !! op_task o with
  | None => s
  | Some p =>
    match op_kind o with
    | KEvict => fst (unevict_prefix s p)
    | KPipeline => unpipeline_with s p
    | KAllocate => unallocate_with s p
    end
  end.

Definition stmt_discard_prefix (s : sess) (sid : positive) : sess :=
  let ops := default [] (stmts s !! sid) in
  let s' := fold_left undo_op_prefix (rev ops) s in
  upd_stmts s' (<[sid := []]> (stmts s')).

(* Commit: a refused cache.Evict un-evicts the victim the same way *)
Definition commit_op_prefix (s : sess) (o : oprec) : sess :=
  match heap s !! op_task o with
  | None => s
  | Some p =>
    match op_kind o with
    | KEvict =>
      if bool_decide (t_id p ∈ refuse_evict s) then fst (unevict_prefix s p)
      else upd_logs s (binds s) (t_id p :: evicts s)
    | _ => commit_op eps s o
    end
  end.

Definition stmt_commit_prefix (s : sess) (sid : positive) : sess :=
  let ops := default [] (stmts s !! sid) in
  let s' := fold_left commit_op_prefix ops s in
  upd_stmts s' (<[sid := []]> (stmts s')).

End PrefixA.

(* the variant differs from the current function only in the restored status *)
Lemma unevict_prefix_running eps s p :
  unevict_prefix eps s p = unevict_with eps s p Running.
Proof. reflexivity. Qed.

(* witness: the Bound task 3 of ex_sess, evicted in statement 1, then discarded *)
Example unevict_prefix_witness :
  let s := ex_sess in let sid := 1%positive in let tid := 3%positive in
  ledger_okb (heap s) (jobs s) (nodes s) = true /\
  (t_status <$> heap s !! tid) = Some Bound /\
  snd (stmt_evict ex_eps s sid tid) = ROk /\
  let s1 := fst (stmt_evict ex_eps s sid tid) in
  (t_status <$> heap (stmt_discard_prefix ex_eps s1 sid) !! tid) = Some Running /\
  copy_status (stmt_discard_prefix ex_eps s1 sid) 2 tid = Some Running /\
  sess_sameb s (stmt_discard_prefix ex_eps s1 sid) = false /\
  (* the current model *)
  (t_status <$> heap (stmt_discard ex_eps s1 sid) !! tid) = Some Bound /\
  copy_status (stmt_discard ex_eps s1 sid) 2 tid = Some Bound /\
  sess_sameb s (stmt_discard ex_eps s1 sid) = true.
Proof. vm_compute. repeat split; reflexivity. Qed.

Theorem unevict_prefix_refuted :
  exists s sid tid,
    ledger_okb (heap s) (jobs s) (nodes s) = true /\
    (t_status <$> heap s !! tid) = Some Bound /\
    let s1 := fst (stmt_evict ex_eps s sid tid) in
    (t_status <$> heap (stmt_discard_prefix ex_eps s1 sid) !! tid) = Some Running.
Proof. exists ex_sess, 1%positive, 3%positive. vm_compute. repeat split; reflexivity. Qed.

(* companion: with the current stmt_discard the same victim is Bound again, and the whole
   session is restored exactly *)
Theorem unevict_current_restores_bound :
  exists s sid tid,
    ledger_okb (heap s) (jobs s) (nodes s) = true /\
    (t_status <$> heap s !! tid) = Some Bound /\
    let s1 := fst (stmt_evict ex_eps s sid tid) in
    (t_status <$> heap (stmt_discard ex_eps s1 sid) !! tid) = Some Bound /\
    sess_sameb s (stmt_discard ex_eps s1 sid) = true.
Proof. exists ex_sess, 1%positive, 3%positive. vm_compute. repeat split; reflexivity. Qed.

(* the same defect through Commit with a refused eviction (clone passed, as preempt does) *)
Example unevict_prefix_commit_witness :
  let s := upd_faults ex_sess ∅ ∅ {[3%positive]} true in
  let s1 := fst (stmt_evict_clone ex_eps s 1 3) in
  (t_status <$> heap s !! 3%positive) = Some Bound /\
  (t_status <$> heap (stmt_commit_prefix ex_eps s1 1) !! 3%positive) = Some Running /\
  evicts (stmt_commit_prefix ex_eps s1 1) = [] /\
  (t_status <$> heap (stmt_commit ex_eps s1 1) !! 3%positive) = Some Bound /\
  sess_sameb s (stmt_commit ex_eps s1 1) = true.
Proof. vm_compute. repeat split; reflexivity. Qed.

(* ====================================================================== *)
(* (b) bde0fb5: sub-job index deletion under the caller's object's status  *)
(*     pre-fix pkg/scheduler/api/job_info.go:                              *)
(*       741-751  func (ji *JobInfo) DeleteTaskInfo(ti) ...               *)
(*       748        ji.deleteTaskIndex(task)        (stored object)        *)
(*       749        ji.deleteTaskFromSubJob(ti)     (CALLER's object)      *)
(*     sub_job_info.go deleteTask: TaskStatusIndex[ti.Status]              *)
(* ====================================================================== *)

(* = job_del, but the sub-job's idx_del uses the status of the passed object *)
Definition job_del_prefix (j : job) (stored passed : task) : job :=
  let subs :=
    match j_task_sub j !! t_id stored with
    | Some sid =>
      match j_subs j !! sid with
      | Some sj => <[sid := mkSub (sj_min sj) (sj_tasks sj ∖ {[t_id stored]})
                                  (idx_del (sj_index sj) (t_status passed) (t_id stored))]> (j_subs j)
      | None => j_subs j
      end
    | None => j_subs j
    end in
  mkJob (j_id j) (j_queue j) (j_min j) (j_role_min j) (j_role_total j)
    (j_tasks j ∖ {[t_id stored]})
    (idx_del (j_index j) (t_status stored) (t_id stored))
    (if allocated_status (t_status stored) then sub (j_alloc j) (t_req stored) else j_alloc j)
    (sub (j_total j) (t_req stored))
    subs
    (delete (t_id stored) (j_task_sub j)).

Definition job_update_prefix (heap : gmap positive task) (j : job) (passed : task) (s : status) : job * task :=
  let j1 :=
    if bool_decide (t_id passed ∈ j_tasks j) then
      match heap !! t_id passed with
      | Some stored => job_del_prefix j stored passed
      | None => j
      end
    else j in
  let p' := set_status passed s in
  (job_add j1 p', p').

(* when the caller passes the stored object itself the two agree *)
Lemma job_del_prefix_same_object j t : job_del_prefix j t t = job_del j t.
Proof. reflexivity. Qed.

(* The statement operations over an arbitrary UpdateTaskStatus [upd]: the chain needed to run
   Allocate / Pipeline / Evict / Discard / RecoverOperations.  With [upd := job_update] these
   are the functions of Sched/StmtModel.v (lemmas *_u_current below, by conversion). *)
Section WithUpdate.
Variable eps : Z.
Variable upd : gmap positive task -> job -> task -> status -> job * task.

Definition ssn_update_status_u (s : sess) (p : task) (st : status) : bool * sess * task :=
  match jobs s !! t_job p with
  | Some j =>
    let '(j', p') := upd (heap s) j p st in
    (true, put_task (upd_jobs s (<[t_job p := j']> (jobs s))) p', p')
  | None => (false, s, p)
  end.

Definition unallocate_u (s : sess) (p : task) : sess :=
  let '(_, s1, p1) := ssn_update_status_u s p Pending in
  let s2 := ssn_node_remove s1 p1 in
  let s3 := h_dealloc s2 p1 in
  put_task s3 (set_node p1 None).

Definition unevict_u (s : sess) (p : task) (prev : status) : sess * bool :=
  let '(_, s1, p1) := ssn_update_status_u s p (restore_status prev) in
  let '(s2, p2, fatal) := ssn_node_update eps s1 p1 in
  let '(_, s3) := h_alloc s2 p2 in
  (s3, fatal).

Definition place_u (s : sess) (sid : positive) (k : opkind) (p : task) (nid : positive) : sess * result :=
  let st := match k with KAllocate => Allocated | _ => Pipelined end in
  let '(found, s1, p1) := ssn_update_status_u s p st in
  let p2 := set_node p1 (Some nid) in
  let s2 := put_task s1 p2 in
  let '(s3, p3, nodeok) :=
    match nodes s2 !! nid with
    | Some n =>
      match node_add eps n p2 with
      | inl (n', p') => (put_task (upd_nodes s2 (<[nid := n']> (nodes s2))) p', p', true)
      | inr _ => (s2, p2, false)
      end
    | None => (s2, p2, false)
    end in
  let '(herr_, s4) := h_alloc s3 p3 in
  if found && nodeok && negb herr_ then (push_op s4 sid k (t_id p) Pending, ROk)
  else (unallocate_u s4 p3, RErr).

Definition stmt_evict_u (s : sess) (sid : positive) (p : task) (prev : option status) : sess * result :=
  let '(_, s1, p1) := ssn_update_status_u s p Releasing in
  let '(s2, p2, fatal) := ssn_node_update eps s1 p1 in
  let s3 := h_dealloc s2 p2 in
  (push_op s3 sid KEvict (t_id p) (default (t_status p) prev), if fatal then RFatal else ROk).

Definition undo_op_u (s : sess) (o : oprec) : sess :=
  match heap s !! op_task o with
  | None => s
  | Some p =>
    match op_kind o with
    | KEvict => fst (unevict_u s p (op_prev o))
    | KPipeline => unallocate_u s p
    | KAllocate => unallocate_u s p
    end
  end.

Definition stmt_discard_u (s : sess) (sid : positive) : sess :=
  let ops := default [] (stmts s !! sid) in
  let s' := fold_left undo_op_u (rev ops) s in
  upd_stmts s' (<[sid := []]> (stmts s')).

Fixpoint recover_ops_u (s : sess) (sid : positive) (l : list savedop) : sess * result :=
  match l with
  | [] => (s, ROk)
  | o :: r =>
    let p := so_task o in
    match so_kind o with
    | KEvict => let '(s1, _) := stmt_evict_u s sid p (Some (so_prev o)) in recover_ops_u s1 sid r
    | KPipeline =>
      match t_node p with
      | Some nid => let '(s1, res) := place_u s sid KPipeline p nid in
                    match res with ROk => recover_ops_u s1 sid r | _ => (s1, RErr) end
      | None => (s, RErr)
      end
    | KAllocate =>
      match t_node p with
      | Some nid => let '(s1, res) := place_u s sid KAllocate p nid in
                    match res with ROk => recover_ops_u s1 sid r | _ => (s1, RErr) end
      | None => (s, RErr)
      end
    end
  end.

Definition stmt_recover_u (s : sess) (sid slot : positive) : sess * result :=
  let l := default [] (saved s !! slot) in
  let '(s1, r) := recover_ops_u s sid l in
  (upd_saved s1 (delete slot (saved s1)), r).

(* the statement-level fragment of [step] (Commit / Session.* are not needed for the witness) *)
Definition step_u (s : sess) (o : op) : sess * result :=
  match o with
  | OAllocate sid tid nid => with_task s tid (fun p => place_u s sid KAllocate p nid)
  | OPipeline sid tid nid => with_task s tid (fun p => place_u s sid KPipeline p nid)
  | OEvict sid tid => with_task s tid (fun p => stmt_evict_u s sid p None)
  | ODiscard sid => (stmt_discard_u s sid, ROk)
  | OSave sid slot => (stmt_save s sid slot, ROk)
  | ORecover sid slot => stmt_recover_u s sid slot
  | OMerge sid src => (stmt_merge s sid src, ROk)
  | _ => (s, RNoTask)
  end.

Definition run_u (s : sess) (ops : list op) : sess := fold_left (fun s o => fst (step_u s o)) ops s.

End WithUpdate.

(* instantiated with the current UpdateTaskStatus the chain IS the model's *)
Lemma ssn_update_status_u_current s p st :
  ssn_update_status_u job_update s p st = ssn_update_status s p st.
Proof. reflexivity. Qed.
Lemma place_u_current eps s sid k p nid :
  place_u eps job_update s sid k p nid = place_with eps s sid k p nid.
Proof. reflexivity. Qed.
Lemma stmt_evict_u_current eps s sid p prev :
  stmt_evict_u eps job_update s sid p prev = stmt_evict_with eps s sid p prev.
Proof. reflexivity. Qed.
Lemma stmt_discard_u_current eps s sid :
  stmt_discard_u eps job_update s sid = stmt_discard eps s sid.
Proof. reflexivity. Qed.
Lemma stmt_recover_u_current eps s sid slot :
  stmt_recover_u eps job_update s sid slot = stmt_recover eps s sid slot.
Proof. reflexivity. Qed.

(* the pre-fix chain *)
Definition ssn_update_status_prefix := ssn_update_status_u job_update_prefix.
Definition unallocate_prefix := unallocate_u job_update_prefix.
Definition place_with_prefix (eps : Z) := place_u eps job_update_prefix.
Definition stmt_evict_with_prefix (eps : Z) := stmt_evict_u eps job_update_prefix.
Definition stmt_discard_b_prefix (eps : Z) := stmt_discard_u eps job_update_prefix.
Definition stmt_recover_prefix (eps : Z) := stmt_recover_u eps job_update_prefix.
Definition step_b_prefix (eps : Z) := step_u eps job_update_prefix.
Definition run_b_prefix (eps : Z) := run_u eps job_update_prefix.

(* the sub-job index of job [jid]'s sub-job 1, as sorted (status key, members) pairs *)
Definition sub_index_view (j : job) : list (positive * list positive) :=
  match j_subs j !! 1%positive with
  | Some sj => map (fun kv => (fst kv, elements (snd kv))) (map_to_list (sj_index sj))
  | None => []
  end.
Definition job_index_view (j : job) : list (positive * list positive) :=
  map (fun kv => (fst kv, elements (snd kv))) (map_to_list (j_index j)).

(* witness at the UpdateTaskStatus level: job 1 of ex_sess holds t1 (Pending); the caller
   passes a CLONE of t1 whose status is already Allocated (what RecoverOperations replays)
   and asks for Allocated. *)
Definition b_heap : gmap positive task := heap ex_sess.
Definition b_job : job := default (empty_job (mkJobSpec 1 1 1 [])) (jobs ex_sess !! 1%positive).
Definition b_stored : task := default (task_of_spec ex_eps (mkTaskSpec 1 1 1 0 0 0 0 Pending None true))
                                      (heap ex_sess !! 1%positive).
Definition b_passed : task := set_node (set_status b_stored Allocated) (Some 1%positive).

Example job_del_prefix_witness :
  job_okb b_heap b_job = true /\
  t_status b_stored = Pending /\ t_status b_passed = Allocated /\ t_id b_passed = t_id b_stored /\
  (let '(j', p') := job_update_prefix b_heap b_job b_passed Allocated in
   job_okb (<[t_id p' := p']> b_heap) j' = false /\
   sub_okb (<[t_id p' := p']> b_heap) j' = false /\
   (* t1 is in the sub-job's index under Pending (1) AND under Allocated (2) *)
   sub_index_view j' = [(1, [1]); (2, [1]); (6, [2])]%positive /\
   job_index_view j' = [(2, [1]); (6, [2])]%positive) /\
  (let '(j', p') := job_update b_heap b_job b_passed Allocated in
   job_okb (<[t_id p' := p']> b_heap) j' = true /\
   sub_index_view j' = [(2, [1]); (6, [2])]%positive /\
   job_index_view j' = [(2, [1]); (6, [2])]%positive).
Proof. vm_compute. repeat split; reflexivity. Qed.

Theorem job_del_prefix_refuted :
  exists (h : gmap positive task) (j : job) (passed : task) (st : status),
    job_okb h j = true /\
    (exists stored, h !! t_id passed = Some stored /\ t_status stored <> t_status passed) /\
    (let '(j', p') := job_update_prefix h j passed st in job_okb (<[t_id p' := p']> h) j' = false) /\
    (let '(j', p') := job_update h j passed st in job_okb (<[t_id p' := p']> h) j' = true).
Proof.
  exists b_heap, b_job, b_passed, Allocated.
  split; [vm_compute; reflexivity|].
  split; [exists b_stored; split; [vm_compute; reflexivity | vm_compute; discriminate]|].
  split; vm_compute; reflexivity.
Qed.

(* the same defect at the session level: Allocate t1; SaveOperations; Discard; RecoverOperations *)
Definition b_hist : list op := [OAllocate 1 1 1; OSave 1 1; ODiscard 1; ORecover 2 1].

Example job_del_prefix_session_witness :
  (* up to the Discard every call passes the stored object: no difference *)
  okb (run_b_prefix ex_eps ex_sess (firstn 3 b_hist)) = true /\
  sess_sameb ex_sess (run_b_prefix ex_eps ex_sess (firstn 3 b_hist)) = true /\
  (* RecoverOperations passes the saved clone *)
  okb (run_b_prefix ex_eps ex_sess b_hist) = false /\
  (sub_index_view <$> jobs (run_b_prefix ex_eps ex_sess b_hist) !! 1%positive) =
    Some [(1, [1]); (2, [1]); (6, [2])]%positive /\
  (* the current model *)
  okb (run ex_eps ex_sess b_hist) = true /\
  (sub_index_view <$> jobs (run ex_eps ex_sess b_hist) !! 1%positive) =
    Some [(2, [1]); (6, [2])]%positive /\
  sess_sameb (run ex_eps ex_sess (firstn 1 b_hist)) (run ex_eps ex_sess b_hist) = true.
Proof. vm_compute. repeat split; reflexivity. Qed.

Theorem job_del_prefix_session_refuted :
  exists s hist,
    ledger_okb (heap s) (jobs s) (nodes s) = true /\
    (let s' := run_b_prefix ex_eps s hist in ledger_okb (heap s') (jobs s') (nodes s') = false) /\
    (let s' := run ex_eps s hist in ledger_okb (heap s') (jobs s') (nodes s') = true).
Proof. exists ex_sess, b_hist. vm_compute. repeat split; reflexivity. Qed.

(* ====================================================================== *)
(* (c) 70f999a: Session.Allocate / Pipeline without revertPlacement        *)
(*     pre-fix pkg/scheduler/framework/session.go:                         *)
(*       717-753  Session.Pipeline: 734 `return err` (node.AddTask failed),*)
(*                741 `return fmt.Errorf("failed to find node ...")`       *)
(*       756-806  Session.Allocate: 776 `return err`, 783 `return ...`     *)
(* ====================================================================== *)
Section PrefixC.
Variable eps : Z.

(* = ssn_place_with without [revert] in the two node branches *)
Definition ssn_place_with_prefix (jr : sess -> job -> bool) (s : sess) (k : opkind) (tid nid : positive)
  : sess * result :=
  match heap s !! tid with
  | None => (s, RNoTask)
  | Some p =>
    let st := match k with KAllocate => Allocated | _ => Pipelined end in
    let '(found, s1, p1) := ssn_update_status s p st in
    if negb found then (s, RErr) else
    let p2 := set_node p1 (Some nid) in
    let s2 := put_task s1 p2 in
    match nodes s2 !! nid with
    | None => (s2, RErr)
    | Some n =>
      match node_add eps n p2 with
      | inr _ => (s2, RErr)
      | inl (n', p3) =>
        let s3 := put_task (upd_nodes s2 (<[nid := n']> (nodes s2))) p3 in
        let '(_, s4) := h_alloc s3 p3 in
        match k with
        | KAllocate =>
          match jobs s4 !! t_job p with
          | Some j =>
            if jr s4 j then
              let '(s5, ok) := dispatch_all s4 (elements (default ∅ (j_index j !! skey Allocated))) in
              (s5, if ok then ROk else RErr)
            else (s4, ROk)
          | None => (s4, ROk)
          end
        | _ => (s4, ROk)
        end
      end
    end
  end.

Definition ssn_place_prefix := ssn_place_with_prefix (fun s _ => job_ready s).

End PrefixC.

(* witness: the Pending off-node task 1 of ex_sess, Session.Allocate on the unknown node 9 *)
Example ssn_place_prefix_witness :
  let s := ex_sess in let tid := 1%positive in let nid := 9%positive in
  okb s = true /\ task_view s tid = Some (Pending, None) /\ on_no_node s tid = true /\
  nodes s !! nid = None /\
  snd (ssn_place_prefix ex_eps s KAllocate tid nid) = RErr /\
  (let s' := fst (ssn_place_prefix ex_eps s KAllocate tid nid) in
   task_view s' tid = Some (Allocated, Some nid) /\ on_no_node s' tid = true /\
   (job_index_view <$> jobs s' !! 1%positive) = Some [(2, [1]); (6, [2])]%positive /\
   map_sameb task_sameb (heap s) (heap s') = false /\
   map_sameb job_sameb (jobs s) (jobs s') = false) /\
  (* Pipeline likewise *)
  snd (ssn_place_prefix ex_eps s KPipeline tid nid) = RErr /\
  task_view (fst (ssn_place_prefix ex_eps s KPipeline tid nid)) tid = Some (Pipelined, Some nid) /\
  (* the current model: error and no trace *)
  snd (ssn_place ex_eps s KAllocate tid nid) = RErr /\
  sess_sameb s (fst (ssn_place ex_eps s KAllocate tid nid)) = true /\
  snd (ssn_place ex_eps s KPipeline tid nid) = RErr /\
  sess_sameb s (fst (ssn_place ex_eps s KPipeline tid nid)) = true.
Proof. vm_compute. repeat split; reflexivity. Qed.

Theorem ssn_place_prefix_refuted :
  exists s tid nid,
    ledger_okb (heap s) (jobs s) (nodes s) = true /\
    (t_status <$> heap s !! tid) = Some Pending /\
    (heap s !! tid ≫= t_node) = None /\
    on_no_node s tid = true /\
    snd (ssn_place_prefix ex_eps s KAllocate tid nid) = RErr /\
    let s' := fst (ssn_place_prefix ex_eps s KAllocate tid nid) in
    (t_status <$> heap s' !! tid) = Some Allocated /\
    (heap s' !! tid ≫= t_node) = Some nid /\
    on_no_node s' tid = true.
Proof. exists ex_sess, 1%positive, 9%positive. vm_compute. repeat split; reflexivity. Qed.

Theorem ssn_place_current_no_trace :
  exists s tid nid,
    ledger_okb (heap s) (jobs s) (nodes s) = true /\
    (t_status <$> heap s !! tid) = Some Pending /\
    (heap s !! tid ≫= t_node) = None /\
    on_no_node s tid = true /\
    snd (ssn_place ex_eps s KAllocate tid nid) = RErr /\
    let s' := fst (ssn_place ex_eps s KAllocate tid nid) in
    map_sameb task_sameb (heap s) (heap s') &&
    map_sameb job_sameb (jobs s) (jobs s') &&
    map_sameb node_sameb (nodes s) (nodes s') &&
    share_sameb (hshare s) (hshare s') = true.
Proof. exists ex_sess, 1%positive, 9%positive. vm_compute. repeat split; reflexivity. Qed.

(* the other branch (node.AddTask refuses: the task is already on the node).  Outside the call
   sites' precondition (the task is Running on node 1), shown only to exercise line 734/776 *)
Example ssn_place_prefix_node_refuses :
  snd (ssn_place_prefix ex_eps ex_sess KPipeline 2 1) = RErr /\
  task_view (fst (ssn_place_prefix ex_eps ex_sess KPipeline 2 1)) 2 = Some (Pipelined, Some 1%positive) /\
  copy_status (fst (ssn_place_prefix ex_eps ex_sess KPipeline 2 1)) 1 2 = Some Running.
Proof. vm_compute. repeat split; reflexivity. Qed.

(* ====================================================================== *)
(* (d) fix c8b10ae: Session.Allocate kept the allocation of a task whose    *)
(*     dispatch was refused.  Pre-fix pkg/scheduler/framework/session.go,   *)
(*     Session.Allocate: `if ssn.JobReady(job) { for ... { if err :=        *)
(*     ssn.dispatch(task); err != nil { ...; return err } } }` returned the *)
(*     AddBindTask error with the task still Allocated, on the node, and    *)
(*     the handlers called.  The repaired loop calls ssn.undoAllocation.    *)
(* ====================================================================== *)
Section PrefixD.
Variable eps : Z.

Fixpoint dispatch_all_prefix (s : sess) (l : list positive) : sess * bool :=
  match l with
  | [] => (s, true)
  | t :: r => let '(s1, ok) := dispatch s t in if ok then dispatch_all_prefix s1 r else (s1, false)
  end.

(* ssn_place_with of Sched/StmtModel.v with the pre-fix dispatch loop *)
Definition ssn_place_with_dprefix (jr : sess -> job -> bool) (s : sess) (k : opkind) (tid nid : positive) : sess * result :=
  match heap s !! tid with
  | None => (s, RNoTask)
  | Some p =>
    let st := match k with KAllocate => Allocated | _ => Pipelined end in
    let '(found, s1, p1) := ssn_update_status s p st in
    if negb found then (s, RErr) else
    let p2 := set_node p1 (Some nid) in
    let s2 := put_task s1 p2 in
    let revert :=
      let '(_, sr, pr) := ssn_update_status s2 p2 Pending in
      put_task sr (set_node pr None) in
    match nodes s2 !! nid with
    | None => (revert, RErr)
    | Some n =>
      match node_add eps n p2 with
      | inr _ => (revert, RErr)
      | inl (n', p3) =>
        let s3 := put_task (upd_nodes s2 (<[nid := n']> (nodes s2))) p3 in
        let '(_, s4) := h_alloc s3 p3 in
        match k with
        | KAllocate =>
          match jobs s4 !! t_job p with
          | Some j =>
            if jr s4 j then
              let '(s5, ok) := dispatch_all_prefix s4 (elements (default ∅ (j_index j !! skey Allocated))) in
              (s5, if ok then ROk else RErr)
            else (s4, ROk)
          | None => (s4, ROk)
          end
        | _ => (s4, ROk)
        end
      end
    end
  end.

Definition ssn_place_dprefix := ssn_place_with_dprefix (fun s _ => job_ready s).
End PrefixD.

(* the two loops agree as long as every dispatch succeeds *)
Lemma dispatch_all_prefix_ok s l s' : dispatch_all_prefix s l = (s', true) -> dispatch_all s l = (s', true).
Proof.
  revert s. induction l as [|t r IH]; intros s; simpl; [auto|].
  destruct (dispatch s t) as [s1 ok]. destruct ok; [apply IH|discriminate].
Qed.

(* ex_sess with cache.AddBindTask refusing task 1 and ssn.JobReady = true *)
Definition d_sess : sess := upd_faults ex_sess ∅ {[1%positive]} ∅ true.

Example dispatch_all_prefix_witness :
  let s := d_sess in let tid := 1%positive in let nid := 1%positive in
  okb s = true /\ task_view s tid = Some (Pending, None) /\ on_no_node s tid = true /\
  snd (ssn_place_dprefix ex_eps s KAllocate tid nid) = RErr /\
  let s' := fst (ssn_place_dprefix ex_eps s KAllocate tid nid) in
  okb s' = true /\
  task_view s' tid = Some (Allocated, Some nid) /\
  copy_status s' nid tid = Some Allocated /\
  binds s' = [] /\
  map (fun e => (he_alloc e, he_task e, he_status e)) (hlog s') = [(true, tid, Allocated)] /\
  map_sameb task_sameb (heap s) (heap s') = false /\
  map_sameb job_sameb (jobs s) (jobs s') = false /\
  map_sameb node_sameb (nodes s) (nodes s') = false /\
  share_sameb (hshare s) (hshare s') = false.
Proof. vm_compute. repeat split; reflexivity. Qed.

Theorem dispatch_all_prefix_refuted :
  exists s tid nid,
    ledger_okb (heap s) (jobs s) (nodes s) = true /\
    (t_status <$> heap s !! tid) = Some Pending /\
    (heap s !! tid ≫= t_node) = None /\
    on_no_node s tid = true /\
    snd (ssn_place_dprefix ex_eps s KAllocate tid nid) = RErr /\
    let s' := fst (ssn_place_dprefix ex_eps s KAllocate tid nid) in
    (t_status <$> heap s' !! tid) = Some Allocated /\
    (heap s' !! tid ≫= t_node) = Some nid /\
    (t_id <$> (nodes s' !! nid ≫= fun n => n_tasks n !! tid)) = Some tid.
Proof. exists d_sess, 1%positive, 1%positive. vm_compute. repeat split; reflexivity. Qed.

(* companion: the repaired Session.Allocate returns the error and leaves no trace (the handler
   log shows the allocate and the deallocate callback) *)
Theorem ssn_allocate_dispatch_refused_no_trace :
  let s := d_sess in let tid := 1%positive in let nid := 1%positive in
  snd (ssn_place ex_eps s KAllocate tid nid) = RErr /\
  let s' := fst (ssn_place ex_eps s KAllocate tid nid) in
  okb s' = true /\ sess_sameb s s' = true /\ binds s' = [] /\ on_no_node s' tid = true /\
  map (fun e => (he_alloc e, he_task e, he_status e)) (hlog s') = [(false, tid, Pending); (true, tid, Allocated)].
Proof. vm_compute. repeat split; reflexivity. Qed.

(* the same situation reached through the operation alphabet (OSetFaults, OSsnAllocate) *)
Example ssn_allocate_dispatch_refused_hist :
  run_results ex_eps ex_sess [OSetFaults [] [1%positive] [] true; OSsnAllocate 1 1] = [ROk; RErr] /\
  task_view (run ex_eps ex_sess [OSetFaults [] [1%positive] [] true; OSsnAllocate 1 1]) 1
    = Some (Pending, None).
Proof. vm_compute. repeat split; reflexivity. Qed.

(* ====================================================================== *)
(* (e) OPEN known findings (audit round): three clauses of the property    *)
(*     text that are false on the faithful model AND on the Go code (laws  *)
(*     106 / 107 / 108 of C07/Entry.v reproduce them on the Go dumps).     *)
(* ====================================================================== *)

(* job 1 with two Pending tasks (t1, t5) and the Running t2; job 2 as in ex_sess *)
Definition w_tasks : list task_spec :=
  ex_tasks ++ [mkTaskSpec 5 1 1 0 500 500 0 Pending None true].
Definition w_sess : sess := build ex_eps ex_nodes ex_jobs w_tasks.

(* C07-session-allocate-dispatches-open-statement-task (session.go, Session.Allocate dispatch
   loop): statement 1 allocates t1 and stays open; Session.Allocate of t5 (same job, JobReady)
   hands BOTH to the binder; the later Discard of statement 1 un-allocates t1 in the session
   while the binder keeps it.  The invariant holds throughout. *)
Theorem undecided_reaches_binder_refuted :
  exists s sid t1 t5 nid,
    okb s = true /\
    let s1 := run ex_eps s [OAllocate sid t1 nid; OSetFaults [] [] [] true; OSsnAllocate t5 nid] in
    okb s1 = true /\
    map op_task (default [] (stmts s1 !! sid)) = [t1] /\
    map fst (binds s1) = [t5; t1] /\
    task_view s1 t1 = Some (Binding, Some nid) /\
    let s2 := run ex_eps s1 [ODiscard sid] in
    okb s2 = true /\ task_view s2 t1 = Some (Pending, None) /\ copy_status s2 nid t1 = None /\
    map fst (binds s2) = [t5; t1].
Proof. exists w_sess, 1%positive, 1%positive, 5%positive, 1%positive. vm_compute. repeat split; reflexivity. Qed.

(* C07-failed-placement-outside-precondition-not-restored (statement.go deferred rollback,
   session.go revertPlacement): outside the call sites' precondition the node CAN refuse the task,
   and the failed call then leaves a trace.
   (i)  t4 is Pipelined on n2 by statement 1; Statement.Allocate t4 n2 on statement 2 fails
        ("already on node") and its rollback removes the older copy and resets t4 to Pending,
        while statement 1 still records its Pipeline;
   (ii) Statement.Allocate of the Running t2 on its own node fails and leaves t2 Pending, off the node;
   (iii) Session.Allocate of the Pipelined t4 fails, t4 is Pending but the node keeps the copy. *)
Theorem failed_place_on_node_refuted :
  (let s := run ex_eps ex_sess [OPipeline 1 4 2] in
   snd (step ex_eps s (OAllocate 2 4 2)) = RErr /\
   let s' := fst (step ex_eps s (OAllocate 2 4 2)) in
   okb s = true /\ okb s' = true /\ sess_sameb s s' = false /\
   task_view s 4 = Some (Pipelined, Some 2%positive) /\ task_view s' 4 = Some (Pending, None) /\
   copy_status s 2 4 = Some Pipelined /\ copy_status s' 2 4 = None /\
   map op_task (default [] (stmts s' !! 1%positive)) = [4%positive]) /\
  (snd (step ex_eps ex_sess (OAllocate 2 2 1)) = RErr /\
   let s' := fst (step ex_eps ex_sess (OAllocate 2 2 1)) in
   okb s' = true /\ sess_sameb ex_sess s' = false /\ task_view s' 2 = Some (Pending, None) /\ copy_status s' 1 2 = None) /\
  (let s := run ex_eps ex_sess [OPipeline 1 4 2] in
   snd (step ex_eps s (OSsnAllocate 4 2)) = RErr /\
   let s' := fst (step ex_eps s (OSsnAllocate 4 2)) in
   okb s' = true /\ sess_sameb s s' = false /\ task_view s' 4 = Some (Pending, None) /\ copy_status s' 2 4 = Some Pipelined).
Proof. vm_compute. repeat split; reflexivity. Qed.

(* C07-session-allocate-error-keeps-argument-allocated: t1 is placed by Session.Allocate while
   the job is not ready; then the cache refuses t1 and Session.Allocate t5 completes the job:
   the call fails, t1 is rolled back, and the task the call was made with stays Allocated. *)
Theorem failed_ssn_allocate_keeps_argument_refuted :
  exists s t1 t5 nid,
    okb s = true /\
    let s1 := run ex_eps s [OSetFaults [] [] [] false; OSsnAllocate t1 nid; OSetFaults [] [t1] [] true] in
    task_view s1 t5 = Some (Pending, None) /\ on_no_node s1 t5 = true /\
    snd (step ex_eps s1 (OSsnAllocate t5 nid)) = RErr /\
    let s2 := fst (step ex_eps s1 (OSsnAllocate t5 nid)) in
    okb s2 = true /\ task_view s2 t1 = Some (Pending, None) /\
    task_view s2 t5 = Some (Allocated, Some nid) /\ copy_status s2 nid t5 = Some Allocated /\
    binds s2 = [] /\ sess_sameb s1 s2 = false.
Proof. exists w_sess, 1%positive, 5%positive, 1%positive. vm_compute. repeat split; reflexivity. Qed.

(* evictor half of "nothing of an undecided transaction reaches the binder or evictor" (caller
   induced: Session.Evict of a task an OPEN statement already evicted): the evictor receives t2
   while statement 1 still records its eviction; the Discard then restores t2 to Running in the
   session (the handler share is charged twice), the evictor keeps it *)
Theorem undecided_reaches_evictor_refuted :
  let s1 := run ex_eps ex_sess [OEvict 1 2; OSsnEvict 2] in
  run_results ex_eps ex_sess [OEvict 1 2; OSsnEvict 2] = [ROk; ROk] /\
  evicts s1 = [2%positive] /\ map op_task (default [] (stmts s1 !! 1%positive)) = [2%positive] /\
  let s2 := run ex_eps s1 [ODiscard 1] in
  okb s2 = true /\ task_view s2 2 = Some (Running, Some 1%positive) /\ evicts s2 = [2%positive] /\
  sess_sameb ex_sess s2 = false.
Proof. vm_compute. repeat split; reflexivity. Qed.

Print Assumptions unevict_prefix_refuted.
Print Assumptions undecided_reaches_evictor_refuted.
Print Assumptions undecided_reaches_binder_refuted.
Print Assumptions failed_place_on_node_refuted.
Print Assumptions failed_ssn_allocate_keeps_argument_refuted.
Print Assumptions unevict_current_restores_bound.
Print Assumptions job_del_prefix_refuted.
Print Assumptions job_del_prefix_session_refuted.
Print Assumptions ssn_place_prefix_refuted.
Print Assumptions ssn_place_current_no_trace.
Print Assumptions dispatch_all_prefix_refuted.
Print Assumptions ssn_allocate_dispatch_refused_no_trace.
