(* C20 — executable forms of the property, evaluated on what the implementation did. *)
From stdpp Require Import gmap.
From Coq Require Import ZArith List.
From V Require Import C20.Model.
Import ListNotations.
Open Scope Z_scope.

(* the CLI created exactly one Command; it is owned by and points at exactly the
   object the server returned for the named target, with the verb's action *)
Definition law_cli (v : Z) (ns : Z) (t : target) (created : list command) : bool :=
  match created with
  | [c] =>
      let r := c_target c in
      bool_decide (o_kind r = verb_kind v) && bool_decide (o_name r = t_name t) &&
      bool_decide (o_uid r = t_uid t) && o_controller r &&
      bool_decide (c_owners c = [r]) &&
      bool_decide (c_action c = verb_action v) && bool_decide (c_ns c = cmd_ns v ns) &&
      bool_decide (c_prefix c = (t_name t, verb_action v))
  | _ => false
  end.

(* the Delete answers respect the API-server oracle: OK only while the object is
   there (and then it is gone), NotFound only when it is gone *)
Fixpoint oracle_ok (p : bool) (l : list dout) : bool :=
  match l with
  | [] => true
  | DOk :: r => p && oracle_ok false r
  | DNotFound :: r => negb p && oracle_ok false r
  | DErr :: r => oracle_ok p r
  | DErrApplied :: r => oracle_ok false r
  end.
Fixpoint final_present (p : bool) (l : list dout) : bool :=
  match l with
  | [] => p
  | DErr :: r => final_present p r
  | _ :: r => final_present false r
  end.
Definition count_out (x : dout) (l : list dout) : nat := length (filter (fun y => bool_decide (y = x)) l).

(* "triggered is a subset of deleted" at every Delete call: the number of requests seen
   enqueued at the k-th call is at most the number of OK answers before it *)
Fixpoint prefix_ok (acc : nat) (outs : list dout) (sn : list nat) : bool :=
  match outs, sn with
  | [], [] => true
  | o :: r, n :: r' => bool_decide (n <= acc)%nat && prefix_ok (acc + (if bool_decide (o = DOk) then 1 else 0)) r r'
  | _, _ => false
  end.

(* at most once, only after a successful delete (at the end and at every Delete call),
   naming target and action, command gone afterwards, errors retried or dropped and never
   executed.  [quiet]: all workers finished. *)
Definition law_amo (mx : Z) (c : command) (b : bool) (outs : list dout) (sn : list nat) (enq : list request)
           (present_end : bool) (retried : nat) (quiet : bool) : bool :=
  oracle_ok b outs &&
  prefix_ok 0 outs sn &&
  bool_decide (length enq <= 1)%nat &&
  bool_decide (length enq <= count_out DOk outs)%nat &&
  (negb quiet || bool_decide (length enq = count_out DOk outs)) &&
  forallb (fun r => bool_decide (r = req_of c)) enq &&
  (bool_decide (enq = []) || negb present_end) &&
  (b || bool_decide (enq = [])) &&
  bool_decide (present_end = final_present b outs) &&
  bool_decide (retried <= count_out DErr outs + count_out DErrApplied outs)%nat &&
  (negb (bool_decide (mx = -1)) || bool_decide (retried = count_out DErr outs + count_out DErrApplied outs)%nat).

(* ---------- CLI under faults: evaluated on what the real CLI did against the
   scripted API server ---------- *)
Fixpoint answers (n : nat) (script : list cout) : list cout :=
  match n with
  | O => []
  | S k => hd COk script :: answers k (tl script)
  end.

(* over the whole invocation: at most ONE Command object is left behind, at most one
   create succeeded, a create error is returned to the user, success means exactly one
   Command, a failed GET means no POST, and every Command left behind is exactly the
   one naming the object the GET returned, with the verb's action *)
Definition law_cli_invocation (i : inv) (ok : bool) (gets posts : nat) (new : list command) : bool :=
  let outs := answers posts (i_script i) in
  bool_decide (length new <= 1)%nat &&
  bool_decide (length (filter succeeds outs) <= 1)%nat &&
  bool_decide (length new = length (filter persists outs)) &&
  implb (existsb (fun o => negb (succeeds o)) outs) (negb ok) &&
  implb ok (bool_decide (length new = 1%nat) && bool_decide (i_get i = GOk)) &&
  implb (negb (bool_decide (i_get i = GOk))) (bool_decide (posts = 0%nat) && negb ok) &&
  forallb (fun c => bool_decide ([c] = cli_create (i_verb i) (i_ns i) (i_target i))) new.

(* end to end: the controllers execute exactly the Commands left behind, each once *)
Definition law_e2e (news : list (list command)) (reqs : list (Z * Z * Z * Z)) : bool :=
  bool_decide (reqs = flat_map (map ctl_req) news).

(* ---------- foreign / malformed target references ---------- *)
(* observed per Command: Delete calls naming it, still present at the end; requests of the
   job and of the queue controller.  A Command that is not a reference to a Job (resp.
   Queue) of the controller's own group/version is neither deleted nor executed and is still
   there; every request belongs to an accepted Command and names its target *)
Definition law_filter (l : list dcmd) (obs : list (nat * bool)) (jobreqs queuereqs : list request) : bool :=
  bool_decide (length obs = length l) &&
  forallb (fun dx : dcmd * (nat * bool) =>
             let '(d, (n, p)) := dx in
             (accepts 1 d || accepts 2 d || (bool_decide (n = 0%nat) && p)) &&
             implb (negb (bool_decide (n = 0%nat))) (accepts 1 d || accepts 2 d) &&
             bool_decide (n <= 1)%nat)
          (combine l obs) &&
  bool_decide (jobreqs = map (dreq 1) (filter (accepts 1) l)) &&
  bool_decide (queuereqs = map (dreq 2) (filter (accepts 2) l)).

(* ---------- the request and the incarnation of the target (TargetObject.UID) ----------
   observed: number of requests, how many carry the UID the Command's TargetObject has, how
   many carry a different non-empty UID *)
(* unsigned: no request names ANOTHER incarnation, and not "some requests carry the UID, some do not" *)
Definition law_uid_X (nreq carried wrong : nat) : bool :=
  bool_decide (wrong = 0%nat) && (bool_decide (carried = 0%nat) || bool_decide (carried = nreq)).
(* signed (finding C20-target-uid-not-checked, as described: NEITHER controller reads the UID):
   fails exactly when requests exist and none of them carries a UID *)
Definition law_uid_Y (nreq carried wrong : nat) : bool :=
  bool_decide (nreq = 0%nat) || negb (bool_decide (carried = 0%nat) && bool_decide (wrong = 0%nat)).
