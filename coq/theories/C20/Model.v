(* C20 — bus Commands: what the CLI creates (pkg/cli/util/util.go 93-146, used by
   pkg/cli/job/{suspend,resume}.go and pkg/cli/queue/operate.go) and how the
   controllers consume them (pkg/controllers/job/job_controller_handler.go 419-452,
   pkg/controllers/queue/queue_controller.go 275-328): delete first, act only on a
   successful delete.  Executable definitions only. *)
From stdpp Require Import gmap.
From Coq Require Import ZArith List.
Import ListNotations.
Open Scope Z_scope.

(* ---------- CLI ---------- *)
(* an owner reference as NewControllerRef builds it *)
Record oref := mkRef { o_kind : Z; o_name : Z; o_uid : Z; o_controller : bool }.
Record command := mkCommand {
  c_ns : Z;                 (* namespace the Command is created in *)
  c_prefix : Z * Z;         (* GenerateName = "<name>-<lower(action)>-" as (name, action) *)
  c_target : oref;          (* TargetObject *)
  c_owners : list oref;     (* OwnerReferences *)
  c_action : Z
}.
Global Instance oref_eq_dec : EqDecision oref. Proof. solve_decision. Defined.

(* CLI verbs: 1 vcctl job suspend (AbortJob), 2 job resume (ResumeJob),
   3 / 4 vcctl queue operate open / close (pkg/cli/queue/util.go, namespace "default"),
   5 / 6 util.CreateQueueCommand with OpenQueue / CloseQueue in a given namespace.
   Actions: 1 AbortJob, 2 ResumeJob, 3 OpenQueue, 4 CloseQueue. *)
Definition verb_kind (v : Z) : Z := if v <=? 2 then 1 (* Job *) else 2 (* Queue *).
Definition verb_action (v : Z) : Z := if v <=? 4 then v else v - 2.
(* namespace the Command is created in; 0 stands for "default" *)
Definition cmd_ns (v ns : Z) : Z := if (v =? 3) || (v =? 4) then 0 else ns.

(* the object the API server returned for GET <kind>/<ns>/<name> *)
Record target := mkTarget { t_kind : Z; t_ns : Z; t_name : Z; t_uid : Z }.

(* CreateJobCommand / CreateQueueCommand: one Create call *)
Definition cli_create (v : Z) (ns : Z) (t : target) : list command :=
  let r := mkRef (verb_kind v) (t_name t) (t_uid t) true in
  [mkCommand (cmd_ns v ns) (t_name t, verb_action v) r [r] (verb_action v)].

(* ---------- controllers ---------- *)
(* answers of the API server to Delete: OK (object was there and is gone), NotFound,
   an error without effect, an error although the delete was applied *)
Inductive dout := DOk | DNotFound | DErr | DErrApplied.
Global Instance dout_eq_dec : EqDecision dout. Proof. solve_decision. Defined.

(* the request a controller enqueues: (namespace, target name, action); Event is
   always CommandIssued *)
Definition request := (Z * Z * Z)%type.
Definition req_of (c : command) : request := (c_ns c, o_name (c_target c), c_action c).

(* A delivery (one object copy handed to a command worker by the informer: add
   notification, relist, restart) is idle / done, is held before its n-th retry's Delete
   call (n = failures so far = workqueue.NumRequeues), or has deleted the Command
   successfully and is about to enqueue.  The index of a delivery stands for the object
   copy: the failure count belongs to it, as in client-go's rate limiter. *)
Inductive wst := WIdle | WGot (n : nat) | WDeleted.
Global Instance wst_eq_dec : EqDecision wst. Proof. solve_decision. Defined.

Record sys := mkSys {
  present : bool;                (* the Command object exists in the API server *)
  ws : gmap nat wst;             (* delivery states (absent = idle) *)
  enq : list request;            (* requests enqueued to the controller's work queue *)
  holder : option nat;           (* the delivery whose Delete succeeded *)
  log : list dout;               (* answers of the Delete calls, in linearisation order *)
  seen : list nat;               (* number of enqueued requests at the moment of each Delete call *)
  retries : nat;                 (* re-deliveries asked for (AddRateLimited) *)
  drops : nat                    (* deliveries given up (handleCommandErr: Forget) *)
}.

Definition wget (s : sys) (w : nat) : wst := default WIdle (ws s !! w).
Definition wset (s : sys) (w : nat) (x : wst) : gmap nat wst := <[w := x]> (ws s).

Definition init (b : bool) : sys := mkSys b ∅ [] None [] [] 0 0.

(* handleCommandErr: retry while maxRequeueNum = -1 or NumRequeues < maxRequeueNum
   (the job controller always retries: mx = -1) *)
Definition budget (mx : Z) (n : nat) : bool := bool_decide (mx = -1) || bool_decide (Z.of_nat n < mx).

Inductive cev :=
| CDeliver (w : nat)             (* the informer hands object copy w to the command queue *)
| CDelete (w : nat) (o : dout)   (* the Delete call made for w is answered o *)
| CEnqueue (w : nat).            (* the worker holding w enqueues the request *)

(* one atomic step; events that the worker's program or the API-server oracle do
   not allow leave the state unchanged *)
Definition cstep (mx : Z) (c : command) (s : sys) (e : cev) : sys :=
  match e with
  | CDeliver w =>
      match wget s w with
      | WIdle => mkSys (present s) (wset s w (WGot 0)) (enq s) (holder s) (log s) (seen s) (retries s) (drops s)
      | _ => s
      end
  | CDelete w o =>
      match wget s w with
      | WGot n =>
        let sn := seen s ++ [length (enq s)] in
        (* an error: retried (same object, one more failure) or given up *)
        let failed (p : bool) (o : dout) :=
          if budget mx n
          then mkSys p (wset s w (WGot (S n))) (enq s) (holder s) (log s ++ [o]) sn (S (retries s)) (drops s)
          else mkSys p (wset s w WIdle) (enq s) (holder s) (log s ++ [o]) sn (retries s) (S (drops s)) in
        match o, present s with
        | DOk, true => mkSys false (wset s w WDeleted) (enq s) (Some w) (log s ++ [DOk]) sn (retries s) (drops s)
        | DNotFound, false => mkSys false (wset s w WIdle) (enq s) (holder s) (log s ++ [DNotFound]) sn (retries s) (drops s)
        | DErr, p => failed p DErr
        | DErrApplied, _ => failed false DErrApplied
        | _, _ => s
        end
      | _ => s
      end
  | CEnqueue w =>
      match wget s w with
      | WDeleted => mkSys (present s) (wset s w WIdle) (enq s ++ [req_of c]) (holder s) (log s) (seen s) (retries s) (drops s)
      | _ => s
      end
  end.

Definition crun (mx : Z) (c : command) (b : bool) (evs : list cev) : sys := fold_left (cstep mx c) evs (init b).

Definition quiescent (s : sys) : Prop := forall w, wget s w = WIdle.

(* ---------- the sequential schedule the correspondence runs ---------- *)
(* faults injected into the k-th Delete call: 0 none (the store answers), 1 error
   without effect, 2 error after the delete was applied *)
Definition answer (f : Z) (p : bool) : dout :=
  if f =? 1 then DErr else if f =? 2 then DErrApplied else if p then DOk else DNotFound.

(* one worker and the FIFO command queue: the head delivery's Delete is called; on
   success the request is enqueued; a retried delivery goes to the tail.  Returns the
   unused part of the fault schedule. *)
Fixpoint seq_run (mx : Z) (c : command) (fuel : nat) (queue : list nat) (sched : list Z) (s : sys)
  : option (sys * list Z) :=
  match queue with
  | [] => Some (s, sched)
  | d :: rest =>
    match fuel with
    | O => None                                  (* fuel exhausted: reported as an error *)
    | S fuel' =>
      let o := answer (hd 0 sched) (present s) in
      let s2 := cstep mx c (cstep mx c s (CDelete d o)) (CEnqueue d) in
      match wget s2 d with
      | WGot _ => seq_run mx c fuel' (rest ++ [d]) (tl sched) s2
      | _ => seq_run mx c fuel' rest (tl sched) s2
      end
    end
  end.

(* a batch of n fresh deliveries (informer add / relist / controller restart), drained *)
Definition seq_phase (mx : Z) (c : command) (n : nat) (sched : list Z) (s : sys) : option (sys * list Z) :=
  let ids := seq 0 n in
  seq_run mx c (n + length sched + 1) ids sched (fold_left (fun s d => cstep mx c s (CDeliver d)) ids s).

(* ---------- CLI against a faulty API server (oracle = explicit answer script) ---------- *)
(* answer to the GET of the target *)
Inductive gout := GOk | GNotFound | GErr.
(* answers to successive POSTs of the Command: created; persisted but answered 504
   Timeout ("the operation may have been performed"); not persisted: 504 Timeout,
   500 ServerTimeout, 500 InternalError, 409 AlreadyExists, 409 Conflict *)
Inductive cout := COk | CTimeoutPersisted | CTimeout | CServerTimeout | C5xx | CAlreadyExists | CConflict.
Global Instance gout_eq_dec : EqDecision gout. Proof. solve_decision. Defined.
Global Instance cout_eq_dec : EqDecision cout. Proof. solve_decision. Defined.
Global Instance command_eq_dec : EqDecision command. Proof. solve_decision. Defined.

Definition persists (o : cout) : bool := match o with COk | CTimeoutPersisted => true | _ => false end.
Definition succeeds (o : cout) : bool := match o with COk => true | _ => false end.

(* one CLI invocation: verb, namespace argument, the object the GET returns (if it
   does), the GET answer and the script of POST answers (afterwards: created) *)
Record inv := mkInv { i_verb : Z; i_ns : Z; i_target : target; i_get : gout; i_script : list cout }.
(* what it did: returned nil?, number of GETs and POSTs, Command objects it left behind *)
Record ires := mkIres { r_ok : bool; r_gets : nat; r_posts : nat; r_new : list command }.

(* CreateJobCommand / CreateQueueCommand / createQueueCommand: one GET, and only if it
   succeeds ONE POST whose error is returned as is (no retry: the Command uses
   GenerateName, a repeated POST would create a second object) *)
Definition cli_invoke (i : inv) : ires :=
  match i_get i with
  | GOk =>
      let o := hd COk (i_script i) in
      mkIres (succeeds o) 1 1 (if persists o then cli_create (i_verb i) (i_ns i) (i_target i) else [])
  | _ => mkIres false 1 0 []
  end.

(* the request a controller derives from a Command: (kind, namespace or -1 for the queue
   controller, target name, action) *)
Definition ctl_req (c : command) : Z * Z * Z * Z :=
  (o_kind (c_target c), if o_kind (c_target c) =? 1 then c_ns c else -1, o_name (c_target c), c_action c).

(* end to end, BY DEFINITION: the requests of the Commands left behind (that each of them is
   executed at most once is C20_at_most_once; that it IS executed is only observed) *)
Definition e2e_requests (invs : list inv) : list (Z * Z * Z * Z) :=
  flat_map (fun i => map ctl_req (r_new (cli_invoke i))) invs.

(* ---------- which Commands a controller takes: the filter on its Command informer handler ---------- *)
(* TargetObject of a delivered Command: None = nil; kind 1 "Job", 2 "Queue", other = any
   other kind; apiVersion 1 batch.volcano.sh/v1alpha1, 2 scheduling.volcano.sh/v1beta1,
   other = anything else (another group, another version of the same group, empty) *)
Record dcmd := mkDcmd { d_target : option (Z * Z); d_ns : Z; d_name : Z; d_action : Z }.

(* job controller (ctrl = 1): TargetObject != nil && APIVersion == batch/v1alpha1 && Kind == "Job"
   (job_controller.go 206-216); queue controller (ctrl = 2): IsQueueReference: ref != nil &&
   APIVersion == scheduling/v1beta1 && Kind == "Queue" (queue_controller_util.go 36-50) *)
Definition accepts (ctrl : Z) (d : dcmd) : bool :=
  match d_target d with
  | Some (k, v) => (k =? ctrl) && (v =? ctrl)
  | None => false
  end.

(* the request a controller derives: the job controller keeps the Command's namespace,
   the queue controller's request has none (0) *)
Definition dreq (ctrl : Z) (d : dcmd) : request := (if ctrl =? 1 then d_ns d else 0, d_name d, d_action d).

(* both controllers watch the same Commands (all present, each delivered once, Delete
   healthy): per Command the number of Delete calls and whether it is still there, and the
   requests of each controller in delivery order *)
Definition deletes_of (d : dcmd) : nat :=
  ((if accepts 1 d then 1 else 0) + (if accepts 2 d then 1 else 0))%nat.
Definition informer_run (l : list dcmd) : list (nat * bool) * list request * list request :=
  (map (fun d => (deletes_of d, negb (accepts 1 d || accepts 2 d))) l,
   map (dreq 1) (filter (accepts 1) l), map (dreq 2) (filter (accepts 2) l)).
