(* C20 — proofs.  The controller theorems quantify over ALL event lists: any number of
   workers, any number of (re-)deliveries, any interleaving of deliver / delete / enqueue
   steps, any Delete answers the oracle allows. *)
From stdpp Require Import gmap.
From Coq Require Import ZArith List Lia.
From V Require Import C20.Model C20.Laws.
Import ListNotations.
Open Scope Z_scope.

(* ---------- CLI ---------- *)
Theorem cli_command_shape v ns t :
  exists c, cli_create v ns t = [c] /\
    c_target c = mkRef (verb_kind v) (t_name t) (t_uid t) true /\
    c_owners c = [c_target c] /\ c_action c = verb_action v /\ c_ns c = cmd_ns v ns /\
    req_of c = (cmd_ns v ns, t_name t, verb_action v).
Proof. eexists. split; [reflexivity|]. repeat split. Qed.

Lemma law_cli_holds v ns t : law_cli v ns t (cli_create v ns t) = true.
Proof. unfold law_cli, cli_create. simpl. rewrite !bool_decide_true; done. Qed.

(* ---------- logs ---------- *)
Lemma oracle_ok_snoc l : forall b o,
  oracle_ok b (l ++ [o]) =
  oracle_ok b l && match o with DOk => final_present b l | DNotFound => negb (final_present b l) | _ => true end.
Proof.
  induction l as [|x l IH]; intros b o; simpl.
  - destruct o, b; done.
  - destruct x; rewrite IH; simpl; try done; by rewrite andb_assoc.
Qed.
Lemma final_present_snoc l : forall b o,
  final_present b (l ++ [o]) = match o with DErr => final_present b l | _ => false end.
Proof.
  induction l as [|x l IH]; intros b o; simpl; [by destruct o|]. destruct x; by rewrite IH.
Qed.
Lemma count_out_snoc x l o :
  count_out x (l ++ [o]) = (count_out x l + (if bool_decide (o = x) then 1 else 0))%nat.
Proof.
  unfold count_out. rewrite filter_app, app_length. simpl. destruct (bool_decide (o = x)); done.
Qed.
Lemma oracle_false_no_ok l : oracle_ok false l = true -> count_out DOk l = 0%nat.
Proof.
  induction l as [|x l IH]; simpl; [done|].
  destruct x; simpl; intros H; try done; unfold count_out in *; simpl; auto.
Qed.

(* ---------- the invariant ---------- *)
Notation cok s := (count_out DOk (log s)).

Record Inv (c : command) (b : bool) (s : sys) : Prop := {
  i_present : present s = true -> holder s = None /\ cok s = 0%nat;
  i_deleted : forall w, wget s w = WDeleted -> holder s = Some w /\ enq s = [] /\ cok s = 1%nat;
  i_oks : (length (enq s) <= cok s <= 1)%nat;
  i_pend : cok s = 1%nat -> enq s = [] -> exists w, wget s w = WDeleted;
  i_oracle : oracle_ok b (log s) = true;
  i_final : final_present b (log s) = present s;
  i_reqs : Forall (fun r => r = req_of c) (enq s);
  i_retries : retries s = (count_out DErr (log s) + count_out DErrApplied (log s))%nat
}.

Lemma wget_wset s w x w' p e h l r :
  wget (mkSys p (wset s w x) e h l r) w' = if decide (w' = w) then x else wget s w'.
Proof.
  unfold wget, wset. simpl. destruct (decide (w' = w)) as [->|].
  - by rewrite lookup_insert.
  - by rewrite lookup_insert_ne.
Qed.

Lemma inv_init c b : Inv c b (init b).
Proof.
  split; simpl; try done; try (unfold count_out; simpl; lia).
  all: intros w; unfold wget; simpl; by rewrite lookup_empty.
Qed.

Ltac wcase w' w := rewrite wget_wset; destruct (decide (w' = w)); subst.

Lemma inv_step c b s e : Inv c b s -> Inv c b (cstep c s e).
Proof.
  intros I. destruct e as [w|w o|w]; simpl.
  - (* deliver *)
    destruct (wget s w) eqn:Ew; try done.
    destruct I. split; simpl; try done.
    + intros w'. wcase w' w; [done|auto].
    + intros H1 H2. destruct (i_pend0 H1 H2) as [w' Hw']. exists w'. wcase w' w; [congruence|done].
  - (* delete *)
    destruct (wget s w) eqn:Ew; try done.
    assert (Hpend : forall p e h l r x, x <> WDeleted -> cok s = 1%nat -> enq s = [] ->
              exists w', wget (mkSys p (wset s w x) e h l r) w' = WDeleted).
    { intros p e h l r x Hx H1 H2. destruct I. destruct (i_pend0 H1 H2) as [w' Hw']. exists w'.
      wcase w' w; [congruence|done]. }
    assert (Hdel : forall p e h l r x w', x <> WDeleted ->
              wget (mkSys p (wset s w x) e h l r) w' = WDeleted -> wget s w' = WDeleted).
    { intros p e h l r x w' Hx. wcase w' w; [done|auto]. }
    destruct o, (present s) eqn:Ep; try done; destruct I; split; simpl;
      rewrite ?count_out_snoc, ?oracle_ok_snoc, ?final_present_snoc, ?i_oracle0, ?i_final0; simpl;
      rewrite ?Nat.add_0_r; try done; try lia.
    all: try (destruct (i_present0 Ep) as [Hh Hc]).
    all: try (intros w' Hd; apply Hdel in Hd; [by apply i_deleted0|done]).
    all: try (intros H1 H2; eapply Hpend; eauto; done).
    all: try (by rewrite Ep).
    all: try (intros _; split; [done|lia]).
    + (* DOk: w becomes the holder *)
      intros w'. wcase w' w.
      * intros _. split; [done|]. split; [|lia]. destruct (enq s); [done|]. simpl in *. lia.
      * intros Hd. destruct (i_deleted0 _ Hd) as (_&_&?). lia.
    + lia.
    + intros _ _. exists w. wcase w w; done.
  - (* enqueue *)
    destruct (wget s w) eqn:Ew; try done.
    destruct I. destruct (i_deleted0 _ Ew) as (Hh&He&Hc). split; simpl; try done.
    + intros w'. wcase w' w; [done|].
      intros Hd. destruct (i_deleted0 _ Hd) as (Hh'&_). congruence.
    + rewrite He. simpl. lia.
    + rewrite He. simpl. done.
    + apply Forall_app. split; [done|]. by constructor.
Qed.

Lemma inv_run c b evs : Inv c b (crun c b evs).
Proof.
  unfold crun. generalize (inv_init c b). generalize (init b).
  induction evs as [|e evs IH]; intros s I; simpl; [done|]. apply IH. by apply inv_step.
Qed.

(* ---------- main theorem: at most once, for all interleavings ---------- *)
Theorem at_most_once c b evs : let s := crun c b evs in
  (length (enq s) <= 1)%nat /\                                  (* executed at most once *)
  (length (enq s) <= count_out DOk (log s) <= 1)%nat /\          (* only after a successful Delete; Delete succeeds at most once *)
  Forall (fun r => r = req_of c) (enq s) /\                      (* naming the command's namespace, target and action *)
  (enq s <> [] -> present s = false) /\                          (* the command is not retained *)
  (b = false -> enq s = []) /\                                   (* a command that is not there is never executed *)
  retries s = (count_out DErr (log s) + count_out DErrApplied (log s))%nat /\  (* every error asks for a re-delivery *)
  (quiescent s -> length (enq s) = count_out DOk (log s)).        (* a successful Delete is followed by its execution *)
Proof.
  intros s. destruct (inv_run c b evs) as [P D O Pd Or F R Rt]. fold s in P, D, O, Pd, Or, F, R, Rt.
  split; [lia|]. split; [done|]. split; [done|]. split; [|split; [|split; [done|]]].
  - intros Hne. destruct (present s) eqn:Ep; [|done]. destruct (P eq_refl) as [_ H0].
    destruct (enq s); [done|]. simpl in *. lia.
  - intros ->. apply oracle_false_no_ok in Or. destruct (enq s); [done|]. simpl in *. lia.
  - intros Q. destruct (decide (count_out DOk (log s) = 1%nat)) as [H1|H1]; [|lia].
    destruct (enq s) as [|r l] eqn:E; [|simpl in *; lia].
    destruct (Pd H1 eq_refl) as [w Hw]. rewrite Q in Hw. done.
Qed.

(* an error answer never leads to an execution by that delivery *)
Theorem error_never_executes c s w o :
  o = DErr \/ o = DErrApplied ->
  enq (cstep c s (CDelete w o)) = enq s /\
  (wget s w = WGot -> wget (cstep c s (CDelete w o)) w = WIdle /\
                      retries (cstep c s (CDelete w o)) = S (retries s)).
Proof.
  intros Ho. simpl. destruct (wget s w) eqn:E.
  - split; [done|]. intros; congruence.
  - destruct Ho as [-> | ->]; simpl; (split; [done|]); intros _;
    (split; [rewrite wget_wset; destruct (decide (w = w)); done|done]).
  - split; [done|]. intros; congruence.
Qed.

(* the executable law accepts every reachable state of the model *)
Theorem law_amo_holds c b evs : let s := crun c b evs in
  law_amo c b (log s) (enq s) (present s) (retries s) false = true.
Proof.
  intros s. destruct (at_most_once c b evs) as (A1&A2&A3&A4&A5&A6&_). fold s in A1, A2, A3, A4, A5, A6.
  destruct (inv_run c b evs) as [_ _ _ _ Or F _ _]. fold s in Or, F.
  unfold law_amo. rewrite Or. simpl.
  rewrite (bool_decide_true (length (enq s) <= 1)%nat) by done.
  rewrite (bool_decide_true (length (enq s) <= count_out DOk (log s))%nat) by lia. simpl.
  rewrite (bool_decide_true (present s = _)) by done.
  rewrite (bool_decide_true (retries s = _)) by done. rewrite !andb_true_r.
  apply andb_true_iff. split; [apply andb_true_iff; split|].
  - apply forallb_forall. intros r Hr. rewrite Forall_forall in A3. apply bool_decide_eq_true.
    apply A3. first [exact Hr | apply (proj2 (elem_of_list_In _ _)); exact Hr].
  - destruct (enq s) eqn:E; [done|]. rewrite A4 by done. by rewrite orb_true_r.
  - destruct b; [done|]. rewrite A5 by done. done.
Qed.

(* non-vacuity: two workers race for a present command, an injected error first *)
Definition ex_cmd : command := mkCommand 7 (3, 1) (mkRef 1 3 9 true) [mkRef 1 3 9 true] 1.
Example ex_race :
  let s := crun ex_cmd true [CDeliver 0; CDeliver 1; CDelete 0 DErr; CDelete 1 DOk; CDeliver 0;
                             CDelete 0 DNotFound; CEnqueue 1; CDeliver 2; CDelete 2 DOk] in
  enq s = [(7, 3, 1)] /\ present s = false /\ log s = [DErr; DOk; DNotFound] /\ retries s = 1%nat /\
  wget s 2 = WGot.
Proof. vm_compute. repeat split. Qed.

(* ---------- CLI under faults: for ALL answer scripts ---------- *)
Theorem cli_at_most_one_command i : let r := cli_invoke i in
  (length (r_new r) <= 1)%nat /\ (r_posts r <= 1)%nat /\
  (forall c, In c (r_new r) -> [c] = cli_create (i_verb i) (i_ns i) (i_target i)) /\
  (r_ok r = true -> i_get i = GOk /\ r_new r = cli_create (i_verb i) (i_ns i) (i_target i)) /\
  (i_get i <> GOk -> r_ok r = false /\ r_posts r = 0%nat /\ r_new r = []) /\
  (i_get i = GOk -> succeeds (hd COk (i_script i)) = false -> r_ok r = false) /\
  length (r_new r) = length (filter persists (answers (r_posts r) (i_script i))).
Proof.
  unfold cli_invoke. destruct (i_get i) eqn:G; simpl.
  - destruct (hd COk (i_script i)) eqn:H; simpl; repeat split; try done; try lia; intros c [<-|[]]; done.
  - repeat split; try done; lia.
  - repeat split; try done; lia.
Qed.

Lemma law_cli_invocation_holds i : let r := cli_invoke i in
  law_cli_invocation i (r_ok r) (r_gets r) (r_posts r) (r_new r) = true.
Proof.
  unfold law_cli_invocation, cli_invoke. destruct (i_get i) eqn:G; simpl; [|done..].
  destruct (hd COk (i_script i)) eqn:H; simpl; rewrite ?bool_decide_true; done.
Qed.

(* every invocation that reported success is executed; nothing else is *)
Theorem e2e_success_is_executed invs i :
  In i invs -> r_ok (cli_invoke i) = true ->
  exists c, cli_create (i_verb i) (i_ns i) (i_target i) = [c] /\ In (ctl_req c) (e2e_requests invs).
Proof.
  intros Hin Hok. destruct (cli_at_most_one_command i) as (_&_&_&H&_). destruct (H Hok) as [_ Hn].
  eexists. split; [reflexivity|]. unfold e2e_requests. apply in_flat_map. exists i. split; [done|].
  rewrite Hn. simpl. by left.
Qed.

Theorem e2e_at_most_one_per_invocation invs :
  (length (e2e_requests invs) <= length invs)%nat.
Proof.
  unfold e2e_requests. induction invs as [|i l IH]; simpl; [done|].
  rewrite app_length, map_length. destruct (cli_at_most_one_command i) as (H&_). simpl in H. lia.
Qed.
