(* C20 — proofs.  The controller theorems quantify over ALL event lists: any number of
   workers, any number of (re-)deliveries, any interleaving of deliver / delete / enqueue
   steps, any Delete answers the oracle allows. *)
From stdpp Require Import gmap.
From Coq Require Import ZArith List Lia.
From V Require Import C20.Model C20.Laws.
Import ListNotations.
Open Scope Z_scope.

(* ---------- CLI ---------- *)
Theorem cli_command_shape v ns t :
  exists c, cli_create v ns t = [c] /\
    c_target c = mkRef (verb_kind v) (t_name t) (t_uid t) true /\
    c_owners c = [c_target c] /\ c_action c = verb_action v /\ c_ns c = cmd_ns v ns /\
    req_of c = (cmd_ns v ns, t_name t, verb_action v).
Proof. eexists. split; [reflexivity|]. repeat split. Qed.

Lemma law_cli_holds v ns t : law_cli v ns t (cli_create v ns t) = true.
Proof. unfold law_cli, cli_create. simpl. rewrite !bool_decide_true; done. Qed.

(* ---------- logs ---------- *)
Lemma oracle_ok_snoc l : forall b o,
  oracle_ok b (l ++ [o]) =
  oracle_ok b l && match o with DOk => final_present b l | DNotFound => negb (final_present b l) | _ => true end.
Proof.
  induction l as [|x l IH]; intros b o; simpl.
  - destruct o, b; done.
  - destruct x; rewrite IH; simpl; try done; by rewrite andb_assoc.
Qed.
Lemma final_present_snoc l : forall b o,
  final_present b (l ++ [o]) = match o with DErr => final_present b l | _ => false end.
Proof.
  induction l as [|x l IH]; intros b o; simpl; [by destruct o|]. destruct x; by rewrite IH.
Qed.
Lemma count_out_snoc x l o :
  count_out x (l ++ [o]) = (count_out x l + (if bool_decide (o = x) then 1 else 0))%nat.
Proof.
  unfold count_out. rewrite filter_app, app_length. simpl. destruct (bool_decide (o = x)); done.
Qed.
Lemma oracle_false_no_ok l : oracle_ok false l = true -> count_out DOk l = 0%nat.
Proof.
  induction l as [|x l IH]; simpl; [done|].
  destruct x; simpl; intros H; try done; unfold count_out in *; simpl; auto.
Qed.

Lemma count_out_cons x o l :
  count_out x (o :: l) = ((if bool_decide (o = x) then 1 else 0) + count_out x l)%nat.
Proof. unfold count_out. simpl. destruct (bool_decide (o = x)); done. Qed.

Lemma prefix_ok_snoc l : forall acc sn o n,
  prefix_ok acc (l ++ [o]) (sn ++ [n]) = prefix_ok acc l sn && bool_decide (n <= acc + count_out DOk l)%nat.
Proof.
  induction l as [|a l IH]; intros acc sn o n.
  - destruct sn as [|x sn]; simpl.
    + unfold count_out. simpl. rewrite Nat.add_0_r. by rewrite andb_true_r.
    + destruct sn; simpl; by rewrite ?andb_false_r.
  - destruct sn as [|x sn]; simpl.
    + destruct l; simpl; by rewrite andb_false_r.
    + rewrite IH, count_out_cons. rewrite <- andb_assoc. do 2 f_equal.
      apply bool_decide_ext. lia.
Qed.

(* ---------- the invariant ---------- *)
Notation cok s := (count_out DOk (log s)).
Notation cerr s := (count_out DErr (log s) + count_out DErrApplied (log s))%nat.

Record Inv (c : command) (b : bool) (s : sys) : Prop := {
  i_present : present s = true -> holder s = None /\ cok s = 0%nat;
  i_deleted : forall w, wget s w = WDeleted -> holder s = Some w /\ enq s = [] /\ cok s = 1%nat;
  i_oks : (length (enq s) <= cok s <= 1)%nat;
  i_pend : cok s = 1%nat -> enq s = [] -> exists w, wget s w = WDeleted;
  i_oracle : oracle_ok b (log s) = true;
  i_final : final_present b (log s) = present s;
  i_reqs : Forall (fun r => r = req_of c) (enq s);
  i_retries : (retries s + drops s = cerr s)%nat;
  i_seen : prefix_ok 0 (log s) (seen s) = true
}.

Lemma wget_wset s w x w' p e h l sn r d :
  wget (mkSys p (wset s w x) e h l sn r d) w' = if decide (w' = w) then x else wget s w'.
Proof.
  unfold wget, wset. simpl. destruct (decide (w' = w)) as [->|].
  - by rewrite lookup_insert.
  - by rewrite lookup_insert_ne.
Qed.

Lemma inv_init c b : Inv c b (init b).
Proof.
  split; simpl; try done; try (unfold count_out; simpl; lia).
  all: intros w; unfold wget; simpl; by rewrite lookup_empty.
Qed.

Ltac wcase w' w := rewrite wget_wset; destruct (decide (w' = w)); subst.

(* a Delete call that does not succeed: NotFound, or an error that is retried or dropped *)
Lemma inv_fail c b s w n x o p' r' d' :
  Inv c b s -> wget s w = WGot n -> x <> WDeleted -> o <> DOk ->
  (o = DNotFound -> present s = false) ->
  p' = (match o with DErr => present s | _ => false end) ->
  (r' + d' = retries s + drops s + (if bool_decide (o = DNotFound) then 0 else 1))%nat ->
  Inv c b (mkSys p' (wset s w x) (enq s) (holder s) (log s ++ [o]) (seen s ++ [length (enq s)]) r' d').
Proof.
  intros I Ew Hx Ho Hnf -> Hr. destruct I.
  assert (Hc : count_out DOk (log s ++ [o]) = cok s).
  { rewrite count_out_snoc. rewrite bool_decide_false by done. lia. }
  split; simpl; rewrite ?Hc.
  - destruct o; try done; auto.
  - intros w'. wcase w' w; [done|auto].
  - done.
  - intros H1 H2. destruct (i_pend0 H1 H2) as [w' Hw']. exists w'. wcase w' w; [congruence|done].
  - rewrite oracle_ok_snoc, i_oracle0, i_final0. destruct o; try done. by rewrite Hnf.
  - rewrite final_present_snoc, i_final0. by destruct o.
  - done.
  - rewrite !count_out_snoc. destruct o; simpl in *; try done; lia.
  - rewrite prefix_ok_snoc, i_seen0. simpl. apply bool_decide_eq_true. lia.
Qed.

Lemma inv_step mx c b s e : Inv c b s -> Inv c b (cstep mx c s e).
Proof.
  intros I. destruct e as [w|w o|w]; simpl.
  - (* deliver *)
    destruct (wget s w) eqn:Ew; try done.
    destruct I. split; simpl; try done.
    + intros w'. wcase w' w; [done|auto].
    + intros H1 H2. destruct (i_pend0 H1 H2) as [w' Hw']. exists w'. wcase w' w; [congruence|done].
  - (* delete *)
    destruct (wget s w) as [|n|] eqn:Ew; try done.
    destruct o, (present s) eqn:Ep; try done.
    + (* DOk: w becomes the holder *)
      destruct I. destruct (i_present0 Ep) as [Hh Hc].
      split; simpl; rewrite ?count_out_snoc; simpl; try done; try lia.
      * intros w'. wcase w' w.
        -- intros _. split; [done|]. split; [|lia]. destruct (enq s); [done|]. simpl in *. lia.
        -- intros Hd. destruct (i_deleted0 _ Hd) as (_&_&?). lia.
      * intros _ _. exists w. wcase w w; done.
      * rewrite oracle_ok_snoc, i_oracle0, i_final0, Ep. done.
      * by rewrite final_present_snoc.
      * rewrite prefix_ok_snoc, i_seen0. simpl. apply bool_decide_eq_true. lia.
    + eapply inv_fail; eauto; try done; simpl; lia.
    + destruct (budget mx n); eapply inv_fail; eauto; try done; simpl; try lia; by rewrite ?Ep.
    + destruct (budget mx n); eapply inv_fail; eauto; try done; simpl; try lia; by rewrite ?Ep.
    + destruct (budget mx n); eapply inv_fail; eauto; try done; simpl; try lia; by rewrite ?Ep.
    + destruct (budget mx n); eapply inv_fail; eauto; try done; simpl; try lia; by rewrite ?Ep.
  - (* enqueue *)
    destruct (wget s w) eqn:Ew; try done.
    destruct I. destruct (i_deleted0 _ Ew) as (Hh&He&Hc). split; simpl; try done.
    + intros w'. wcase w' w; [done|].
      intros Hd. destruct (i_deleted0 _ Hd) as (Hh'&_). congruence.
    + rewrite He. simpl. lia.
    + rewrite He. simpl. done.
    + apply Forall_app. split; [done|]. by constructor.
Qed.

Lemma inv_run mx c b evs : Inv c b (crun mx c b evs).
Proof.
  unfold crun. generalize (inv_init c b). generalize (init b).
  induction evs as [|e evs IH]; intros s I; simpl; [done|]. apply IH. by apply inv_step.
Qed.

(* ---------- main theorem: at most once, for all interleavings, retry budgets and drops ---------- *)
Theorem at_most_once mx c b evs : let s := crun mx c b evs in
  (length (enq s) <= 1)%nat /\                                  (* executed at most once *)
  (length (enq s) <= count_out DOk (log s) <= 1)%nat /\          (* triggered <= deleted <= 1, after EVERY prefix (evs is arbitrary) *)
  prefix_ok 0 (log s) (seen s) = true /\                          (* ... and at every Delete call *)
  Forall (fun r => r = req_of c) (enq s) /\                      (* naming the command's namespace, target and action *)
  (enq s <> [] -> present s = false) /\                          (* the command is not retained *)
  (b = false -> enq s = []) /\                                   (* a command that is not there is never executed *)
  (retries s + drops s = count_out DErr (log s) + count_out DErrApplied (log s))%nat /\  (* every error is retried or given up *)
  (quiescent s -> length (enq s) = count_out DOk (log s)).        (* a successful Delete is followed by its execution *)
Proof.
  intros s. destruct (inv_run mx c b evs) as [P D O Pd Or F R Rt Sn]. fold s in P, D, O, Pd, Or, F, R, Rt, Sn.
  split; [lia|]. split; [done|]. split; [done|]. split; [done|]. split; [|split; [|split; [done|]]].
  - intros Hne. destruct (present s) eqn:Ep; [|done]. destruct (P eq_refl) as [_ H0].
    destruct (enq s); [done|]. simpl in *. lia.
  - intros ->. apply oracle_false_no_ok in Or. destruct (enq s); [done|]. simpl in *. lia.
  - intros Q. destruct (decide (count_out DOk (log s) = 1%nat)) as [H1|H1]; [|lia].
    destruct (enq s) as [|r l] eqn:E; [|simpl in *; lia].
    destruct (Pd H1 eq_refl) as [w Hw]. rewrite Q in Hw. done.
Qed.

(* an error answer never leads to an execution by that delivery: it is retried (one more
   failure on the same object) or, with the budget exhausted, DROPPED — and a dropped
   command triggers nothing *)
Theorem error_never_executes mx c s w n o :
  o = DErr \/ o = DErrApplied -> wget s w = WGot n ->
  let s' := cstep mx c s (CDelete w o) in
  enq s' = enq s /\
  (budget mx n = true -> wget s' w = WGot (S n) /\ retries s' = S (retries s) /\ drops s' = drops s) /\
  (budget mx n = false -> wget s' w = WIdle /\ drops s' = S (drops s) /\ retries s' = retries s).
Proof.
  intros Ho E. simpl. rewrite E.
  destruct Ho as [-> | ->]; simpl; destruct (present s); destruct (budget mx n); simpl;
  (split; [done|]); (split; intros; try done);
  (split; [rewrite wget_wset; destruct (decide (w = w)); done|done]).
Qed.

(* with unlimited retries nothing is ever dropped *)
Lemma no_drop_unlimited c b evs : drops (crun (-1) c b evs) = 0%nat.
Proof.
  unfold crun. assert (H : drops (init b) = 0%nat) by done. revert H. generalize (init b).
  induction evs as [|e evs IH]; intros s H; simpl; [done|]. apply IH.
  destruct e as [w|w o|w]; simpl; destruct (wget s w); try done.
  destruct o, (present s); simpl; done.
Qed.

(* the executable law accepts every reachable state of the model; at quiescence also with
   its "every successful Delete was followed by its execution" clause switched on *)
Theorem law_amo_holds mx c b evs (quiet : bool) : let s := crun mx c b evs in
  (quiet = true -> quiescent s) ->
  law_amo mx c b (log s) (seen s) (enq s) (present s) (retries s) quiet = true.
Proof.
  intros s Hq. destruct (at_most_once mx c b evs) as (A1&A2&Sn&A3&A4&A5&A6&A7). fold s in A1, A2, Sn, A3, A4, A5, A6, A7.
  destruct (inv_run mx c b evs) as [_ _ _ _ Or F _ _ _]. fold s in Or, F.
  unfold law_amo. rewrite Or, Sn. simpl.
  rewrite (bool_decide_true (length (enq s) <= 1)%nat) by done.
  rewrite (bool_decide_true (length (enq s) <= count_out DOk (log s))%nat) by lia. simpl.
  rewrite (bool_decide_true (present s = _)) by done.
  rewrite (bool_decide_true (retries s <= _)%nat) by lia.
  assert (X : negb (bool_decide (mx = -1)) || bool_decide (retries s = count_out DErr (log s) + count_out DErrApplied (log s))%nat = true).
  { destruct (decide (mx = -1)) as [Hm|Hm]; [|by rewrite (bool_decide_false (mx = -1))].
    rewrite (bool_decide_true (mx = -1)) by done. simpl. apply bool_decide_eq_true.
    assert (drops s = 0%nat) by (unfold s; rewrite Hm; apply no_drop_unlimited). lia. }
  assert (Y : negb quiet || bool_decide (length (enq s) = count_out DOk (log s)) = true).
  { destruct quiet; [|done]. simpl. apply bool_decide_eq_true. by apply A7, Hq. }
  rewrite X, Y. rewrite !andb_true_r.
  apply andb_true_iff. split; [apply andb_true_iff; split|].
  - apply forallb_forall. intros r Hr. rewrite Forall_forall in A3. apply bool_decide_eq_true.
    apply A3. first [exact Hr | apply (proj2 (elem_of_list_In _ _)); exact Hr].
  - destruct (enq s) eqn:E; [done|]. rewrite A4 by done. by rewrite orb_true_r.
  - destruct b; [done|]. rewrite A5 by done. done.
Qed.

(* what the executable law MEANS (soundness at the Prop level): if it answers true on
   observed Delete answers / requests, then the property's clauses hold of them *)
Lemma prefix_ok_spec outs : forall sn acc,
  prefix_ok acc outs sn = true ->
  length outs = length sn /\
  forall k n, nth_error sn k = Some n -> (n <= acc + count_out DOk (firstn k outs))%nat.
Proof.
  induction outs as [|o outs IH]; intros [|x sn] acc H; simpl in H; try done.
  - split; [done|]. intros [|k] n Hn; done.
  - apply andb_true_iff in H as [H1 H2]. apply bool_decide_eq_true in H1.
    destruct (IH _ _ H2) as [Hl Hk]. split; [simpl; lia|].
    intros [|k] n Hn; simpl in Hn.
    + simplify_eq. unfold count_out. simpl. lia.
    + simpl. rewrite count_out_cons. specialize (Hk k n Hn). lia.
Qed.

Theorem law_amo_sound mx c b outs sn enq p rt quiet :
  law_amo mx c b outs sn enq p rt quiet = true ->
  oracle_ok b outs = true /\                                     (* the answers respect the Delete oracle *)
  (forall k n, nth_error sn k = Some n -> (n <= count_out DOk (firstn k outs))%nat) /\  (* at every Delete call: triggered <= deleted so far *)
  (length enq <= 1)%nat /\ (length enq <= count_out DOk outs)%nat /\
  Forall (fun r => r = req_of c) enq /\
  (enq <> [] -> p = false) /\ (b = false -> enq = []) /\
  (quiet = true -> length enq = count_out DOk outs).
Proof.
  unfold law_amo. intros H.
  apply andb_true_iff in H as [H Hmx]. apply andb_true_iff in H as [H Hret].
  apply andb_true_iff in H as [H Hpres]. apply andb_true_iff in H as [H Hb].
  apply andb_true_iff in H as [H Hp]. apply andb_true_iff in H as [H Hf].
  apply andb_true_iff in H as [H Hq]. apply andb_true_iff in H as [H Hc].
  apply andb_true_iff in H as [H Hl]. apply andb_true_iff in H as [Hor Hpre].
  apply bool_decide_eq_true in Hl, Hc.
  split; [done|]. split.
  { intros k n Hn. destruct (prefix_ok_spec _ _ _ Hpre) as [_ Hk]. specialize (Hk k n Hn). lia. }
  split; [done|]. split; [done|]. split.
  { apply Forall_forall. intros r Hr. rewrite forallb_forall in Hf. specialize (Hf r Hr).
    by apply bool_decide_eq_true in Hf. }
  split.
  { intros Hne. apply orb_true_iff in Hp as [Hp|Hp].
    - apply bool_decide_eq_true in Hp. done.
    - by apply negb_true_iff in Hp. }
  split.
  { intros ->. simpl in Hb. by apply bool_decide_eq_true in Hb. }
  intros ->. simpl in Hq. by apply bool_decide_eq_true in Hq.
Qed.

(* ---------- the sequential schedules the correspondence runs are histories of [cstep] ---------- *)
Lemma seq_run_reach mx c : forall fuel queue sched s s' rest,
  seq_run mx c fuel queue sched s = Some (s', rest) -> exists evs, s' = fold_left (cstep mx c) evs s.
Proof.
  induction fuel as [|fuel IH]; intros [|d q] sched s s' rest H; simpl in H; simplify_eq;
    try (by exists []).
  destruct (wget _ d); apply IH in H as [evs ->];
    exists (CDelete d (answer (hd 0 sched) (present s)) :: CEnqueue d :: evs); done.
Qed.

Lemma fold_deliver mx c ids : forall s,
  fold_left (fun s d => cstep mx c s (CDeliver d)) ids s = fold_left (cstep mx c) (map CDeliver ids) s.
Proof. induction ids as [|d ids IH]; intros s; simpl; [done|apply IH]. Qed.

Lemma seq_phase_reach mx c n sched s s' rest :
  seq_phase mx c n sched s = Some (s', rest) -> exists evs, s' = fold_left (cstep mx c) evs s.
Proof.
  unfold seq_phase. intros H. apply seq_run_reach in H as [evs ->]. rewrite fold_deliver.
  exists (map CDeliver (seq 0 n) ++ evs). by rewrite fold_left_app.
Qed.

(* the two phases of selector 2 (first batch, relist) end in a state of [crun]: every
   clause of [at_most_once] applies to what the extracted model prints *)
Theorem seq_two_phases_reach mx c b n1 n2 sched s1 r1 s2 r2 :
  seq_phase mx c n1 sched (init b) = Some (s1, r1) -> seq_phase mx c n2 r1 s1 = Some (s2, r2) ->
  exists evs, s2 = crun mx c b evs.
Proof.
  intros H1 H2. apply seq_phase_reach in H1 as [e1 ->]. apply seq_phase_reach in H2 as [e2 ->].
  exists (e1 ++ e2). unfold crun. by rewrite fold_left_app.
Qed.

(* non-vacuity: two deliveries race for a present command, an injected error first; and a
   delivery whose Delete fails 3 times with maxRequeueNum = 2 is dropped without executing,
   the relisted delivery then deletes and executes once *)
Definition ex_cmd : command := mkCommand 7 (3, 1) (mkRef 1 3 9 true) [mkRef 1 3 9 true] 1.
Example ex_race :
  let s := crun (-1) ex_cmd true [CDeliver 0; CDeliver 1; CDelete 0 DErr; CDelete 1 DOk;
                             CDelete 0 DNotFound; CEnqueue 1; CDeliver 2; CDelete 2 DOk] in
  enq s = [(7, 3, 1)] /\ present s = false /\ log s = [DErr; DOk; DNotFound] /\ retries s = 1%nat /\
  wget s 2 = WGot 0.
Proof. vm_compute. repeat split. Qed.

Example ex_drop :
  let s1 := crun 2 ex_cmd true [CDeliver 0; CDelete 0 DErr; CDelete 0 DErr; CDelete 0 DErr] in
  enq s1 = [] /\ present s1 = true /\ drops s1 = 1%nat /\ retries s1 = 2%nat /\ wget s1 0 = WIdle /\
  let s2 := fold_left (cstep 2 ex_cmd) [CDeliver 0; CDelete 0 DOk; CEnqueue 0] s1 in
  enq s2 = [(7, 3, 1)] /\ present s2 = false /\ seen s2 = [0; 0; 0; 0]%nat.
Proof. vm_compute. repeat split. Qed.

(* ---------- CLI under faults: for ALL answer scripts ---------- *)
Theorem cli_at_most_one_command i : let r := cli_invoke i in
  (length (r_new r) <= 1)%nat /\ (r_posts r <= 1)%nat /\
  (forall c, In c (r_new r) -> [c] = cli_create (i_verb i) (i_ns i) (i_target i)) /\
  (r_ok r = true -> i_get i = GOk /\ r_new r = cli_create (i_verb i) (i_ns i) (i_target i)) /\
  (i_get i <> GOk -> r_ok r = false /\ r_posts r = 0%nat /\ r_new r = []) /\
  (i_get i = GOk -> succeeds (hd COk (i_script i)) = false -> r_ok r = false) /\
  length (r_new r) = length (filter persists (answers (r_posts r) (i_script i))).
Proof.
  unfold cli_invoke. destruct (i_get i) eqn:G; simpl.
  - destruct (hd COk (i_script i)) eqn:H; simpl; repeat split; try done; try lia; intros c [<-|[]]; done.
  - repeat split; try done; lia.
  - repeat split; try done; lia.
Qed.

Lemma law_cli_invocation_holds i : let r := cli_invoke i in
  law_cli_invocation i (r_ok r) (r_gets r) (r_posts r) (r_new r) = true.
Proof.
  unfold law_cli_invocation, cli_invoke. destruct (i_get i) eqn:G; simpl; [|done..].
  destruct (hd COk (i_script i)) eqn:H; simpl; rewrite ?bool_decide_true; done.
Qed.

(* [e2e_requests] is a definition (the requests of the Commands left behind): every invocation
   that reported success contributes its own request to it *)
Theorem e2e_success_has_its_request invs i :
  In i invs -> r_ok (cli_invoke i) = true ->
  exists c, cli_create (i_verb i) (i_ns i) (i_target i) = [c] /\ In (ctl_req c) (e2e_requests invs).
Proof.
  intros Hin Hok. destruct (cli_at_most_one_command i) as (_&_&_&H&_). destruct (H Hok) as [_ Hn].
  eexists. split; [reflexivity|]. unfold e2e_requests. apply in_flat_map. exists i. split; [done|].
  rewrite Hn. simpl. by left.
Qed.

Theorem e2e_at_most_one_per_invocation invs :
  (length (e2e_requests invs) <= length invs)%nat.
Proof.
  unfold e2e_requests. induction invs as [|i l IH]; simpl; [done|].
  rewrite app_length, map_length. destruct (cli_at_most_one_command i) as (H&_). simpl in H. lia.
Qed.

(* ---------- the informer filter: foreign Commands are never touched ---------- *)
Lemma accepts_exclusive d : accepts 1 d = true -> accepts 2 d = true -> False.
Proof.
  unfold accepts. destruct (d_target d) as [[k v]|]; [|done].
  intros [H1 _]%andb_true_iff [H2 _]%andb_true_iff. apply Z.eqb_eq in H1, H2. lia.
Qed.

(* for every list of delivered Commands: a Command that is not a reference to a Job (resp.
   Queue) of the controller's own API group/version and kind is not deleted, stays present
   and produces no request; every request stems from an accepted Command and carries its
   namespace (job controller), target name and action; nothing is deleted twice *)
Theorem foreign_commands_untouched l : let '(obs, jr, qr) := informer_run l in
  (forall d, In d l -> accepts 1 d = false -> accepts 2 d = false -> In (deletes_of d, true) obs /\ deletes_of d = 0%nat) /\
  (forall r, In r jr -> exists d, In d l /\ accepts 1 d = true /\ r = dreq 1 d) /\
  (forall r, In r qr -> exists d, In d l /\ accepts 2 d = true /\ r = dreq 2 d) /\
  (forall d, In d l -> (deletes_of d <= 1)%nat).
Proof.
  unfold informer_run. repeat split.
  - apply in_map_iff. exists d. rewrite H0, H1. done.
  - unfold deletes_of. by rewrite H0, H1.
  - intros r Hr. apply in_map_iff in Hr as (d&<-&Hd). apply filter_In in Hd as [? ?]. eauto.
  - intros r Hr. apply in_map_iff in Hr as (d&<-&Hd). apply filter_In in Hd as [? ?]. eauto.
  - intros d _. unfold deletes_of. destruct (accepts 1 d) eqn:E1, (accepts 2 d) eqn:E2; try lia.
    exfalso. eapply accepts_exclusive; eauto.
Qed.

Lemma law_filter_holds l : let '(obs, jr, qr) := informer_run l in law_filter l obs jr qr = true.
Proof.
  unfold informer_run, law_filter. rewrite map_length. rewrite !bool_decide_true by done. rewrite !andb_true_r. simpl.
  apply forallb_forall. intros [d [n p]] Hin.
  assert (n = deletes_of d /\ p = negb (accepts 1 d || accepts 2 d)) as [-> ->].
  { clear -Hin. induction l as [|a l IH]; simpl in Hin; [done|]. destruct Hin as [Heq|Hin]; [by simplify_eq|auto]. }
  unfold deletes_of. destruct (accepts 1 d) eqn:E1, (accepts 2 d) eqn:E2; simpl; try done.
  exfalso. eapply accepts_exclusive; eauto.
Qed.

(* the Commands the CLI writes are exactly the ones the matching controller's filter accepts.
   Convention: the kind code of a reference (1 Job, 2 Queue) stands for the (Kind, APIVersion)
   pair that metav1.NewControllerRef writes from the GroupVersionKind constant
   (helpers.JobKind / helpers.V1beta1QueueKind); the harness maps a reference to 1 / 2 only
   if BOTH strings are the expected ones (refTokens) *)
Definition dcmd_of (c : command) : dcmd :=
  mkDcmd (Some (o_kind (c_target c), o_kind (c_target c))) (c_ns c) (o_name (c_target c)) (c_action c).

Theorem cli_commands_are_accepted v ns t c :
  cli_create v ns t = [c] ->
  accepts (verb_kind v) (dcmd_of c) = true /\
  (forall ctrl, ctrl <> verb_kind v -> ctrl = 1 \/ ctrl = 2 -> accepts ctrl (dcmd_of c) = false) /\
  dreq (verb_kind v) (dcmd_of c) = (if verb_kind v =? 1 then cmd_ns v ns else 0, t_name t, verb_action v).
Proof.
  unfold cli_create. intros [= <-]. unfold accepts, dcmd_of, dreq. simpl.
  rewrite Z.eqb_refl. split; [done|]. split; [|done].
  intros ctrl Hne _. destruct (verb_kind v =? ctrl) eqn:E; [|done]. apply Z.eqb_eq in E. congruence.
Qed.

(* ---------- the sequential schedule ends quiescent ---------- *)
Lemma cstep_other mx c s e w :
  (match e with CDeliver d | CDelete d _ | CEnqueue d => d end) <> w ->
  wget (cstep mx c s e) w = wget s w.
Proof.
  intros Hne. destruct e as [d|d o|d]; simpl in *.
  - destruct (wget s d); try done. rewrite wget_wset. destruct (decide (w = d)); congruence.
  - destruct (wget s d) as [|n|]; try done.
    destruct o, (present s); try done; try (destruct (budget mx n));
      rewrite wget_wset; destruct (decide (w = d)); congruence.
  - destruct (wget s d); try done. rewrite wget_wset. destruct (decide (w = d)); congruence.
Qed.

Lemma after_delete_enqueue mx c s d o :
  wget (cstep mx c (cstep mx c s (CDelete d o)) (CEnqueue d)) d <> WDeleted.
Proof.
  set (s1 := cstep mx c s (CDelete d o)). simpl.
  destruct (wget s1 d) eqn:E; try (rewrite E; done).
  rewrite wget_wset. destruct (decide (d = d)); done.
Qed.

Lemma NoDup_snoc {A} (l : list A) x : List.NoDup l -> ~ In x l -> List.NoDup (l ++ [x]).
Proof.
  induction l as [|y l IH]; intros Hn Hx; simpl.
  - constructor; [intros []|constructor].
  - apply List.NoDup_cons_iff in Hn as [Hy Hn]. constructor.
    + intros Hin. apply in_app_or in Hin as [?|[->|[]]]; [done|]. apply Hx. by left.
    + apply IH; [done|]. intros ?. apply Hx. by right.
Qed.

(* every delivery that is not in the queue any more is idle *)
Definition parked (queue : list nat) (s : sys) : Prop :=
  List.NoDup queue /\ forall w, ~ In w queue -> wget s w = WIdle.

Lemma seq_run_quiescent mx c : forall fuel queue sched s s' rest,
  parked queue s -> seq_run mx c fuel queue sched s = Some (s', rest) -> quiescent s'.
Proof.
  induction fuel as [|fuel IH]; intros [|d q] sched s s' rest [Hnd Hp] H; cbn [seq_run] in H.
  - simplify_eq. intros w. apply Hp. intros [].
  - done.
  - simplify_eq. intros w. apply Hp. intros [].
  - set (o := answer (hd 0 sched) (present s)) in *.
    set (s2 := cstep mx c (cstep mx c s (CDelete d o)) (CEnqueue d)) in *.
    assert (Hother : forall w, w <> d -> wget s2 w = wget s w).
    { intros w Hw. unfold s2. rewrite !cstep_other by (simpl; congruence). done. }
    apply List.NoDup_cons_iff in Hnd as [Hd Hq].
    destruct (wget s2 d) eqn:E.
    + eapply IH; [|exact H]. split; [done|]. intros w Hw. destruct (decide (w = d)) as [->|Hne]; [done|].
      rewrite Hother by done. apply Hp. intros [->|?]; done.
    + eapply IH; [|exact H]. split.
      * by apply NoDup_snoc.
      * intros w Hw. assert (w <> d) by (intros ->; apply Hw, in_or_app; right; by left).
        rewrite Hother by done. apply Hp. intros [->|?]; [done|]. apply Hw, in_or_app. by left.
    + exfalso. by apply (after_delete_enqueue mx c s d o).
Qed.

Lemma deliver_parked mx c : forall ids s,
  List.NoDup ids -> quiescent s ->
  parked ids (fold_left (fun s d => cstep mx c s (CDeliver d)) ids s).
Proof.
  intros ids s Hnd Hq. split; [done|]. intros w Hw.
  assert (G : forall ids s, ~ In w ids -> wget (fold_left (fun s d => cstep mx c s (CDeliver d)) ids s) w = wget s w).
  { clear. induction ids as [|d ids IH]; intros s Hw; cbn [fold_left]; [done|].
    rewrite IH by (intros ?; apply Hw; by right). apply (cstep_other mx c s (CDeliver d) w). simpl. intros ->. apply Hw. by left. }
  rewrite G by done. apply Hq.
Qed.

Lemma seq_phase_quiescent mx c n sched s s' rest :
  quiescent s -> seq_phase mx c n sched s = Some (s', rest) -> quiescent s'.
Proof.
  unfold seq_phase. intros Hq H. eapply seq_run_quiescent; [|exact H].
  apply deliver_parked; [apply seq_NoDup|done].
Qed.

(* law 102 (with its quiescence clause on, as the check runs it) accepts what the extracted
   model prints for selector 2 *)
Theorem law_amo_accepts_sequential_output mx c b n1 n2 sched s1 r1 s2 r2 :
  seq_phase mx c n1 sched (init b) = Some (s1, r1) -> seq_phase mx c n2 r1 s1 = Some (s2, r2) ->
  law_amo mx c b (log s2) (seen s2) (enq s2) (present s2) (retries s2) true = true.
Proof.
  intros H1 H2.
  assert (Q0 : quiescent (init b)) by (intros w; unfold wget; simpl; by rewrite lookup_empty).
  pose proof (seq_phase_quiescent _ _ _ _ _ _ _ Q0 H1) as Q1.
  pose proof (seq_phase_quiescent _ _ _ _ _ _ _ Q1 H2) as Q2.
  destruct (seq_two_phases_reach _ _ _ _ _ _ _ _ _ _ H1 H2) as [evs E]. rewrite E in *.
  apply law_amo_holds. intros _. exact Q2.
Qed.

Example seq_example :
  exists s1 r1 s2 r2,
    seq_phase 2 ex_cmd 1 [1; 1; 1] (init true) = Some (s1, r1) /\ seq_phase 2 ex_cmd 1 r1 s1 = Some (s2, r2) /\
    log s2 = [DErr; DErr; DErr; DOk] /\ enq s2 = [(7, 3, 1)] /\ drops s2 = 1%nat /\
    law_amo 2 ex_cmd true (log s2) (seen s2) (enq s2) (present s2) (retries s2) true = true.
Proof.
  do 4 eexists. split; [vm_compute; reflexivity|]. split; [vm_compute; reflexivity|].
  vm_compute. repeat split.
Qed.

(* ---------- what laws 101 and 104 MEAN, and that law 103's e2e half accepts the model ---------- *)
Theorem law_cli_sound v ns t created :
  law_cli v ns t created = true ->
  exists c, created = [c] /\
    o_kind (c_target c) = verb_kind v /\ o_name (c_target c) = t_name t /\ o_uid (c_target c) = t_uid t /\
    o_controller (c_target c) = true /\ c_owners c = [c_target c] /\
    c_action c = verb_action v /\ c_ns c = cmd_ns v ns /\ c_prefix c = (t_name t, verb_action v).
Proof.
  unfold law_cli. destruct created as [|c [|]]; try done. intros H.
  repeat (apply andb_true_iff in H as [H ?]).
  repeat match goal with X : bool_decide _ = true |- _ => apply bool_decide_eq_true in X end.
  exists c. repeat split; done.
Qed.

Theorem law_filter_sound l obs jr qr :
  law_filter l obs jr qr = true ->
  length obs = length l /\
  (forall d n p, In (d, (n, p)) (combine l obs) ->
     (accepts 1 d = false -> accepts 2 d = false -> n = 0%nat /\ p = true) /\
     (n <> 0%nat -> accepts 1 d = true \/ accepts 2 d = true) /\ (n <= 1)%nat) /\
  jr = map (dreq 1) (filter (accepts 1) l) /\ qr = map (dreq 2) (filter (accepts 2) l).
Proof.
  unfold law_filter. intros H.
  apply andb_true_iff in H as [H Hq]. apply andb_true_iff in H as [H Hj].
  apply andb_true_iff in H as [Hl Hf].
  apply bool_decide_eq_true in Hl, Hj, Hq. split; [done|]. split; [|done].
  intros d n p Hin. rewrite forallb_forall in Hf. specialize (Hf _ Hin). simpl in Hf.
  apply andb_true_iff in Hf as [Hf H3]. apply andb_true_iff in Hf as [H1 H2].
  apply bool_decide_eq_true in H3. split; [|split; [|done]].
  - intros A1 A2. rewrite A1, A2 in H1. simpl in H1. apply andb_true_iff in H1 as [Hn Hp].
    apply bool_decide_eq_true in Hn. done.
  - intros Hn. rewrite (bool_decide_false (n = 0%nat)) in H2 by done. simpl in H2.
    apply orb_true_iff in H2. done.
Qed.

Lemma law_e2e_holds invs :
  law_e2e (map (fun i => r_new (cli_invoke i)) invs) (e2e_requests invs) = true.
Proof.
  unfold law_e2e, e2e_requests. apply bool_decide_eq_true.
  induction invs as [|i l IH]; simpl; [done|]. by rewrite IH.
Qed.
