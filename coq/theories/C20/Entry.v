(* C20 entry point.  sel 1: CLI (verb, ns, name, uid) -> created Commands.
   sel 2: controller (ctrl, present, G, R, ns, name, action, fault schedule) ->
   Delete answers in call order, enqueued requests, command present at the end, retries.
   sel 101 / 102: the laws on the implementation's results (input ++ got). *)
From stdpp Require Import gmap.
From Coq Require Import ZArith List.
From V Require Import Base.Codec C20.Model C20.Laws.
Import ListNotations.
Open Scope Z_scope.

Definition eRef (r : oref) : list Z := [o_kind r; o_name r; o_uid r; if o_controller r then 1 else 0].
Definition dRef : dec oref :=
  let* k := dZ in let* n := dZ in let* u := dZ in let* c := dBool in ret (mkRef k n u c).
Definition eCmd (c : command) : list Z :=
  [c_ns c; fst (c_prefix c); snd (c_prefix c)] ++ eRef (c_target c) ++ eList eRef (c_owners c) ++ [c_action c].
Definition dCmd : dec command :=
  let* ns := dZ in let* pn := dZ in let* pa := dZ in let* t := dRef in let* o := dList dRef in let* a := dZ in
  ret (mkCommand ns (pn, pa) t o a).

Definition eOut (o : dout) : Z := match o with DOk => 1 | DNotFound => 2 | DErr => 3 | DErrApplied => 4 end.
Definition dOut : dec dout :=
  let* x := dZ in match x with 1 => ret DOk | 2 => ret DNotFound | 3 => ret DErr | 4 => ret DErrApplied | _ => fail end.
Definition eReq (r : request) : list Z := [fst (fst r); snd (fst r); snd r].
Definition dReq : dec request := let* a := dZ in let* b := dZ in let* c := dZ in ret (a, b, c).

Definition dCli : dec (Z * Z * target) :=
  let* v := dZ in let* ns := dZ in let* n := dZ in let* u := dZ in
  if (v <? 1) || (6 <? v) then fail else ret (v, ns, mkTarget (verb_kind v) ns n u).

(* the Command a controller run is about; the queue controller's request carries no namespace *)
Definition ctl_cmd (ctrl ns name action : Z) : command :=
  let r := mkRef ctrl name 0 true in
  mkCommand (if ctrl =? 1 then ns else 0) (name, action) r [r] action.

(* controller run: ctrl, present, G, R, ns, name, action, maxRequeueNum (queue controller;
   the job controller always retries), number of re-deliveries after the first batch has
   drained (relist / restart), fault schedule *)
Definition dCtl : dec (Z * command * bool * nat * nat * list Z * bool) :=
  let* ctrl := dZ in let* b := dBool in let* g := dNat in let* r := dNat in
  let* ns := dZ in let* name := dZ in let* a := dZ in let* mx := dZ in let* n2 := dNat in
  let* sched := dList dZ in
  if (ctrl <? 1) || (2 <? ctrl) || (mx <? -1) then fail
  else ret (if ctrl =? 1 then -1 else mx, ctl_cmd ctrl ns name a, b, (g * r)%nat, n2, sched, (1 <? g)%nat).

(* with several racing workers the number of requests already enqueued at a Delete call
   depends on the interleaving: it is not compared (0), only fed to the law *)
Definition eSys (multi : bool) (s : sys) : list Z :=
  eList (fun os : dout * nat => [eOut (fst os); if multi then 0 else Z.of_nat (snd os)]) (combine (log s) (seen s)) ++ [-101] ++
  eList eReq (enq s) ++ [if present s then 1 else 0; Z.of_nat (retries s)] ++
  (* neither controller copies TargetObject.UID into its request: 0 requests carry it, 0 carry another *)
  [0; 0].

(* ---------- selector 3: CLI invocations against a scripted API server, then the controllers ---------- *)
Definition dGout : dec gout :=
  let* x := dZ in match x with 0 => ret GOk | 1 => ret GNotFound | 2 => ret GErr | _ => fail end.
Definition dCout : dec cout :=
  let* x := dZ in
  match x with 0 => ret COk | 1 => ret CTimeoutPersisted | 2 => ret CTimeout | 3 => ret CServerTimeout
             | 4 => ret C5xx | 5 => ret CAlreadyExists | 6 => ret CConflict | _ => fail end.
Definition dInv : dec inv :=
  let* v := dZ in let* ns := dZ in let* n := dZ in let* u := dZ in let* g := dGout in let* sc := dList dCout in
  if (v <? 1) || (6 <? v) then fail else ret (mkInv v ns (mkTarget (verb_kind v) ns n u) g sc).
Definition dE2E : dec (nat * list inv) := let* r := dNat in let* l := dList dInv in ret (r, l).

Definition eReq4 (r : Z * Z * Z * Z) : list Z :=
  let '(k, ns, n, a) := r in [k; ns; n; a].
Definition dReq4 : dec (Z * Z * Z * Z) :=
  let* k := dZ in let* ns := dZ in let* n := dZ in let* a := dZ in ret (k, ns, n, a).

Fixpoint eInvs (l : list inv) (k : Z) : list Z :=
  match l with
  | [] => []
  | i :: r => let x := cli_invoke i in
              [-100 - k; if r_ok x then 1 else 0; Z.of_nat (r_gets x); Z.of_nat (r_posts x)] ++
              eList eCmd (r_new x) ++ eInvs r (k + 1)
  end.

(* observed per invocation: ok, gets, posts, commands left behind *)
Fixpoint dObsInv (n : nat) : dec (list (bool * nat * nat * list command)) :=
  match n with
  | O => ret []
  | S k => let* _ := dZ in let* ok := dBool in let* g := dNat in let* p := dNat in let* cs := dList dCmd in
           let* r := dObsInv k in ret ((ok, g, p, cs) :: r)
  end.

Fixpoint check_invs (l : list inv) (obs : list (bool * nat * nat * list command)) : bool :=
  match l, obs with
  | [], [] => true
  | i :: l', (ok, g, p, cs) :: obs' => law_cli_invocation i ok g p cs && check_invs l' obs'
  | _, _ => false
  end.

(* ---------- selector 4: Commands with foreign / malformed targets through the informer filter ---------- *)
(* the sixth token describes the Command's controller OWNER reference (0 none, 1 a Job, 2 a
   Queue, 3 an object of a foreign group), which may differ from its TargetObject: both
   filters look at TargetObject only, so the model ignores it *)
Definition dDcmd : dec dcmd :=
  let* k := dZ in let* v := dZ in let* ns := dZ in let* n := dZ in let* a := dZ in let* _owner := dZ in
  ret (mkDcmd (if k =? 0 then None else Some (k, v)) ns n a).
Definition eObs (x : nat * bool) : list Z := [Z.of_nat (fst x); if snd x then 1 else 0].
Definition dObs1 : dec (nat * bool) := let* n := dNat in let* p := dBool in ret (n, p).

Definition entry (sel : Z) (toks : list Z) : list Z :=
  match sel with
  | 1 => match run_dec dCli toks with
         | Some (v, ns, t) => eList eCmd (cli_create v ns t)
         | None => bad_input end
  | 2 => match run_dec dCtl toks with
         | Some (mx, c, b, n1, n2, sched, multi) =>
             match seq_phase mx c n1 sched (init b) with
             | Some (s1, rest) =>
                 match seq_phase mx c n2 rest s1 with
                 | Some (s2, _) => eSys multi s2
                 | None => [-999998]
                 end
             | None => [-999998]               (* fuel exhausted *)
             end
         | None => bad_input end
  | 3 => match run_dec dE2E toks with
         | Some (_, invs) => eInvs invs 1 ++ [-99] ++ eList eReq4 (e2e_requests invs)
         | None => bad_input end
  | 103 => match run_dec (let* ri := dE2E in let* obs := dObsInv (length (snd ri)) in
                          let* _ := dZ in let* rq := dList dReq4 in ret (snd ri, obs, rq)) toks with
           | Some (invs, obs, rq) =>
               eBool (check_invs invs obs && law_e2e (map (fun o => snd o) obs) rq)
           | None => bad_input end
  | 4 => match run_dec (dList dDcmd) toks with
         | Some l => let '(obs, jr, qr) := informer_run l in
                     eList eObs obs ++ [-101] ++ eList eReq jr ++ [-102] ++ eList eReq qr
         | None => bad_input end
  | 104 => match run_dec (let* l := dList dDcmd in let* obs := dList dObs1 in let* _ := dZ in
                          let* jr := dList dReq in let* _ := dZ in let* qr := dList dReq in
                          ret (l, obs, jr, qr)) toks with
           | Some (l, obs, jr, qr) => eBool (law_filter l obs jr qr)
           | None => bad_input end
  | 101 => match run_dec (let* i := dCli in let* cs := dList dCmd in ret (i, cs)) toks with
           | Some ((v, ns, t), cs) => eBool (law_cli v ns t cs)
           | None => bad_input end
  | 102 => match run_dec (let* i := dCtl in let* outs := dList (dPair dOut dNat) in let* _ := dZ in
                          let* rq := dList dReq in let* p := dBool in let* rt := dNat in
                          let* _ := dNat in let* _ := dNat in
                          ret (i, outs, rq, p, rt)) toks with
           | Some ((mx, c, b, _, _, _, _), outs, rq, p, rt) =>
               eBool (law_amo mx c b (map fst outs) (map snd outs) rq p rt true)
           | None => bad_input end
  | 105 | 106 =>
           match run_dec (let* i := dCtl in let* outs := dList (dPair dOut dNat) in let* _ := dZ in
                          let* rq := dList dReq in let* p := dBool in let* rt := dNat in
                          let* ca := dNat in let* wr := dNat in
                          ret (rq, ca, wr)) toks with
           | Some (rq, ca, wr) =>
               eBool (if sel =? 105 then law_uid_X (length rq) ca wr else law_uid_Y (length rq) ca wr)
           | None => bad_input end
  | _ => bad_input
  end.
