From Coq Require Import ZArith List.
From V Require Import Sched.CycleEntry.
Definition entry := cycle_entry.
