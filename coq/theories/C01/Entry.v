(* entry of property C01: the shared cycle entry (selectors 1, 101-103) plus
     2    pure readiness: a job with its tasks -> JobReady / JobPipelined / JobStarving / JobValid
     3    pure sub-group readiness: a job WITH sub-group policies -> JobReady / JobPipelined / JobStarving /
          JobValid and SubJobReady / SubJobPipelined of every sub-job
     4    law-only cycles: the spec decodes (numbers of jobs / tasks / actions); nothing is replayed
     105  law (law-only streams: sub-group jobs through allocateForJob; action lists with preempt / reclaim):
          the property's wording incl. the sub-group clause on the binds the cache received
     104  law: along the model's replay of the real cycle's choices, every attempt of an action
          list with at most one `allocate` satisfies the guard of bind_only_when_gang_ok *)
From stdpp Require Import gmap.
From Coq Require Import ZArith List.
From V Require Import Base.Codec Base.Res Sched.LedgerModel Sched.StmtModel Sched.LedgerCodec Sched.GangModel
                      Sched.CycleModel Sched.CycleCodec Sched.CycleEntry Sched.GangValid Sched.GangLemmasMain Sched.GangLemmasAudit
                      Sched.SubGroupModel Sched.SubGroupLaw Sched.LedgerInv Sched.LedgerLemmasSound.
Import ListNotations.
Open Scope Z_scope.

Definition dReadyIn : dec (Z * job_spec * list task_spec) :=
  let* e := dZ in let* j := dJobSpec in let* ts := dList dTaskSpec in ret (e, j, ts).

Definition ready_entry (toks : list Z) : list Z :=
  match run_dec dReadyIn toks with
  | Some (e, j, ts) =>
    let s := build e [] [j] ts in
    match jobs s !! js_id j with
    | Some jb =>
      eBool (gang_job_ready (heap s) jb) ++ eBool (gang_job_pipelined (heap s) jb) ++
      eBool (gang_job_starving jb) ++ [gang_job_valid (heap s) jb]
    | None => bad_input
    end
  | None => bad_input
  end.

Definition sg_entry (toks : list Z) : list Z :=
  match run_dec dSgIn toks with
  | Some (m, rm, ps, ts) =>
    let '(h, sg) := build_sg 1%positive m rm ps ts in
    eBool (gang_job_ready_sub h sg) ++ eBool (gang_job_pipelined_sub h sg) ++
    eBool (gang_job_starving (sg_job sg)) ++ [gang_job_valid_sub h sg] ++
    eList (fun kv : positive * subjob => [Zpos (fst kv)] ++ eBool (ssn_sub_ready h sg (snd kv)) ++ eBool (ssn_sub_pipelined h sg (snd kv)))
          (sort_kv (map_to_list (j_subs (sg_job sg))))
  | None => bad_input
  end.

Definition count_allocate (acts : list Z) : nat := length (filter (fun a => a =? 1) acts).

(* the base case of the theorems, per generated case: the session `build` produces satisfies the
   executable forms of ledger_inv (C07's ledger_okb + heap_nonnegb, sound by ledger_okb_sound_b),
   gang_inv incl. heap_members (ginvb_sound), no bind fault, no statement *)
Definition base_okb (c : cycle_case) : bool :=
  let s := w_sess (world_of c) in
  heap_nonnegb (heap s) && ledger_okb (heap s) (jobs s) (nodes s) && ginvb (heap s) (jobs s) &&
  bool_decide (refuse_bind s = ∅) && bool_decide (stmts s = ∅).

Definition law_guard (c : cycle_case) : bool :=
  base_okb c &&
  if (1 <? Z.of_nat (count_allocate (cc_actions c))) then true
  else
    (* the guard itself, and the one-allocate shape from which the theorem derives it: the snapshot
       holds no tentative allocation and no job is attempted again after a non-committed attempt *)
    guardedb (cc_eps c) (world_of c) (cc_cops c) &&
    no_tentativeb (w_sess (world_of c)) && kept_freeb (cc_eps c) (world_of c) ∅ (cc_cops c).

Definition entry (sel : Z) (toks : list Z) : list Z :=
  match sel with
  | 2 => ready_entry toks
  | 3 => sg_entry toks
  | 4 => match run_dec dMixCounts toks with Some l => l | None => bad_input end
  | 5 => (* roles family with a PodGroup update before the cycle: the prefix (old minTaskMember) is not the
            model's business, it judges against the current PodGroup *)
         match run_dec (let* _ := dList (dPair dZ dZ) in fun l => Some (l, [])) toks with
         | Some rest => cycle_entry 1 rest | None => bad_input end
  | 111 => cycle_entry 101 toks   (* law 101 restricted to the binds of the jobs that show the F10 mechanism *)
  | 115 => match run_dec dLaw105 toks with Some (js, ts, b) => eBool (law_gang_sub js ts b) | None => bad_input end
  | 105 => match run_dec dLaw105 toks with Some (js, ts, b) => eBool (law_gang_sub js ts b) | None => bad_input end
  | 104 => match run_dec dLawIn toks with Some (c, _, _) => eBool (law_guard c) | None => bad_input end
  | _ => cycle_entry sel toks
  end.
