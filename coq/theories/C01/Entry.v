(* entry of property C01: the shared cycle entry (selectors 1, 101-103) plus
     2    pure readiness: a job with its tasks -> JobReady / JobPipelined / JobStarving / JobValid
     104  law: along the model's replay of the real cycle's choices, every attempt of an action
          list with at most one `allocate` satisfies the guard of bind_only_when_gang_ok *)
From stdpp Require Import gmap.
From Coq Require Import ZArith List.
From V Require Import Base.Codec Base.Res Sched.LedgerModel Sched.StmtModel Sched.LedgerCodec Sched.GangModel
                      Sched.CycleModel Sched.CycleCodec Sched.CycleEntry Sched.GangValid Sched.GangLemmasMain.
Import ListNotations.
Open Scope Z_scope.

Definition dReadyIn : dec (Z * job_spec * list task_spec) :=
  let* e := dZ in let* j := dJobSpec in let* ts := dList dTaskSpec in ret (e, j, ts).

Definition ready_entry (toks : list Z) : list Z :=
  match run_dec dReadyIn toks with
  | Some (e, j, ts) =>
    let s := build e [] [j] ts in
    match jobs s !! js_id j with
    | Some jb =>
      eBool (gang_job_ready (heap s) jb) ++ eBool (gang_job_pipelined (heap s) jb) ++
      eBool (gang_job_starving jb) ++ [gang_job_valid (heap s) jb]
    | None => bad_input
    end
  | None => bad_input
  end.

Definition count_allocate (acts : list Z) : nat := length (filter (fun a => a =? 1) acts).

Definition law_guard (c : cycle_case) : bool :=
  if (1 <? Z.of_nat (count_allocate (cc_actions c))) then true
  else guardedb (cc_eps c) (world_of c) (cc_cops c).

Definition entry (sel : Z) (toks : list Z) : list Z :=
  match sel with
  | 2 => ready_entry toks
  | 104 => match run_dec dLawIn toks with Some (c, _, _) => eBool (law_guard c) | None => bad_input end
  | _ => cycle_entry sel toks
  end.
