(* C11 — the flat specifications the loops of Model.v are proved equal to.
   Executable (Laws.v evaluates them on the implementation's results). *)
From Coq Require Import ZArith List Bool.
From V Require Import C11.Model.
Import ListNotations.
Open Scope Z_scope.

(* answers of the enabled registered plugins, in tier order *)
Definition actives {A} (ts : layout A) : list A := map s_ans (filter active (concat ts)).

(* --- victims --- *)
(* a plugin takes part in the vote of its tier when it is enabled, registered
   and does not abstain *)
Definition voting (p : slot vote) : bool := active p && negb (v_flag (s_ans p) =? 0).
Definition voters (t : list (slot vote)) : list (list uid) :=
  map (fun p => v_cands (s_ans p)) (filter voting t).
(* intersection of the candidate lists of all voters of the tier; a tier
   without voters agrees on nothing *)
Definition agreement (t : list (slot vote)) : list uid :=
  match voters t with
  | [] => []
  | c :: cs => fold_left inter cs c
  end.
Fixpoint first_nonempty (l : list (list uid)) : list uid :=
  match l with
  | [] => []
  | [] :: r => first_nonempty r
  | x :: _ => x
  end.
Definition victims_spec (ts : layout vote) : list uid := first_nonempty (map agreement ts).

(* --- first non-zero comparison of a flat comparator list --- *)
Fixpoint lex {T} (cs : list (T -> T -> Z)) (l r : T) : Z :=
  match cs with
  | [] => 0
  | c :: rest => if c l r =? 0 then lex rest l r else c l r
  end.

(* --- gates --- *)
Definition somes {A} (l : list (option A)) : list A :=
  flat_map (fun a => match a with Some x => [x] | None => [] end) l.
Definition fails (ts : layout (option (bool * Z))) : list Z :=
  somes (map (fun p => first_fail_tier_step (s_ans p)) (filter s_reg (concat ts))).
