(* C11 — proofs and refutation witnesses for the shipped queue comparators. *)
From Coq Require Import ZArith List Bool Lia.
From V Require Import C11.Model C11.Spec C11.Lemmas C11.QueueModel.
Import ListNotations.
Open Scope Z_scope.

Ltac bcases :=
  repeat match goal with
         | |- context [qn_flag ?a] => destruct (qn_flag a)
         end.

Lemma cmp_share_deserved_valid : valid_on everywhere cmp_share_deserved.
Proof.
  unfold cmp_share_deserved. split; [intros a b _ _ | intros a b d _ _ _];
    zcases; bcases; simpl; lia.
Qed.

(* a comparator that reads its arguments through a projection inherits validity *)
Lemma valid_on_proj : forall {T U} (f : T -> U) (c : U -> U -> Z) (dom : T -> Prop),
  valid_on everywhere c -> valid_on dom (fun l r => c (f l) (f r)).
Proof. intros T U f c dom [A B]. split; intros; [apply A | eapply B]; unfold everywhere; eauto. Qed.

(* capacity flat / proportion: (priority desc, share, has-deserved) *)
Theorem cmp_capacity_flat_valid : valid_on everywhere cmp_capacity_flat.
Proof.
  destruct cmp_share_deserved_valid as [A B]. unfold cmp_capacity_flat.
  split; [intros a b _ _ | intros a b d _ _ _].
  - pose proof (A (own_node a) (own_node b) I I). zcases; simpl; lia.
  - pose proof (B (own_node a) (own_node b) (own_node d) I I I).
    pose proof (A (own_node a) (own_node b) I I). pose proof (A (own_node b) (own_node d) I I).
    zcases; simpl; lia.
Qed.

(* capacity VictimQueueOrderFn: key = level of the common ancestor with the preemptor *)
Theorem cmp_capacity_victim_valid : forall p, valid_on everywhere (cmp_capacity_victim p).
Proof.
  intros p. unfold cmp_capacity_victim. split; [intros a b _ _ | intros a b d _ _ _]; zcases; simpl; lia.
Qed.

(* hdrf: a strict weak order on every set of queues of ONE hierarchy depth *)
Lemma hdrf_walk_valid : forall n,
  valid_on (fun p : list qnode => length p = n) hdrf_walk.
Proof.
  induction n as [|n [IA IB]].
  - split.
    + intros [|? ?] [|? ?] Ha Hb; simpl in *; try discriminate; lia.
    + intros [|? ?] [|? ?] [|? ?] Ha Hb Hd; simpl in *; try discriminate; lia.
  - split.
    + intros [|a p] [|b q] Ha Hb; simpl in *; try discriminate.
      injection Ha as Ha. injection Hb as Hb. pose proof (IA p q Ha Hb).
      destruct (qn_flag a), (qn_flag b); simpl; try lia; zcases; lia.
    + intros [|a p] [|b q] [|d r] Ha Hb Hd; simpl in *; try discriminate.
      injection Ha as Ha. injection Hb as Hb. injection Hd as Hd.
      pose proof (IB p q r Ha Hb Hd).
      destruct (qn_flag a), (qn_flag b), (qn_flag d); simpl; try lia; zcases; lia.
Qed.

Theorem cmp_hdrf_valid_equal_depth : forall n,
  valid_on (fun q => length (rq_nodes q) = n) cmp_hdrf.
Proof.
  intros n. destruct (hdrf_walk_valid n) as [A B]. unfold cmp_hdrf. split; intros; eauto.
Qed.

(* ---- refutations ---- *)
Definition one_slot {T} (c : T -> T -> Z) : layout (T -> T -> Z) := [[mkSlot true true c]].

(* capacity hierarchical: root 0 with children A = 1 and B = 2 of equal share;
   x, y leaves under A with different shares, z a leaf under B.  x ~ z ~ y but
   x < y: the "<= 0" of the comparator is not transitive, and with the session
   tie-break (creation time) QueueOrderFn is CYCLIC: x < y < z < x *)
Definition cap_x := mkRQueue (mkItem 0 3 1 None) 0 true [0; 1] [mkQNode 5 true; mkQNode 5 true; mkQNode 0 true].
Definition cap_y := mkRQueue (mkItem 1 1 2 None) 0 true [0; 1] [mkQNode 5 true; mkQNode 5 true; mkQNode 9 true].
Definition cap_z := mkRQueue (mkItem 2 2 3 None) 0 true [0; 2] [mkQNode 5 true; mkQNode 5 true; mkQNode 4 true].

Theorem cmp_capacity_hier_refuted :
  ~ valid_on everywhere cmp_capacity_hier /\
  (let lt := order_fn (one_slot cmp_capacity_hier) rq_tb in
   lt cap_x cap_y = true /\ lt cap_y cap_z = true /\ lt cap_z cap_x = true).
Proof.
  split.
  - intros [_ B]. specialize (B cap_y cap_z cap_x I I I). vm_compute in B.
    apply B; [discriminate | discriminate | reflexivity].
  - vm_compute. auto.
Qed.

(* hdrf with leaves of unequal depth (root/sci next to root/eng/dev and
   root/eng/prod, the layout of the plugin's own unit test): sci ~ dev and
   sci ~ prod (eng and sci tie, the walk stops at the shorter depth) but dev < prod *)
Definition hd_dev := mkRQueue (mkItem 0 3 1 None) 0 true [] [mkQNode 5 false; mkQNode 5 false; mkQNode 1 false].
Definition hd_prod := mkRQueue (mkItem 1 1 2 None) 0 true [] [mkQNode 5 false; mkQNode 5 false; mkQNode 7 false].
Definition hd_sci := mkRQueue (mkItem 2 2 3 None) 0 true [] [mkQNode 5 false; mkQNode 5 false].

Theorem cmp_hdrf_refuted :
  ~ valid_on everywhere cmp_hdrf /\
  (let lt := order_fn (one_slot cmp_hdrf) rq_tb in
   lt hd_dev hd_prod = true /\ lt hd_prod hd_sci = true /\ lt hd_sci hd_dev = true).
Proof.
  split.
  - intros [_ B]. specialize (B hd_prod hd_sci hd_dev I I I). vm_compute in B.
    apply B; [discriminate | discriminate | reflexivity].
  - vm_compute. auto.
Qed.

(* capacity hierarchical IS valid where the hierarchy plays no role: leaf
   queues that are all children of one parent (same ancestor chain), and any set
   of non-leaf queues *)
Lemma queue_level_from_same : forall a i lvl,
  queue_level_from i lvl a a = match a with [] => lvl | _ => i + Z.of_nat (length a) - 1 end.
Proof.
  induction a as [|x a IH]; intros; simpl; auto.
  rewrite Z.eqb_refl, IH. destruct a; simpl length; lia.
Qed.

Lemma rep_node_siblings : forall q, rep_node q (queue_level (rq_anc q) (rq_anc q)) = own_node q.
Proof.
  intros q. unfold rep_node, queue_level. rewrite queue_level_from_same.
  destruct (rq_anc q) as [|x a] eqn:E; simpl length.
  - reflexivity.
  - destruct (Z.ltb_spec (0 + Z.of_nat (S (length a)) - 1 + 1) (Z.of_nat (S (length a)))); auto; lia.
Qed.

Theorem cmp_capacity_hier_valid_siblings : forall anc leaf,
  valid_on (fun q => rq_leaf q = leaf /\ rq_anc q = anc) cmp_capacity_hier.
Proof.
  intros anc leaf. destruct cmp_capacity_flat_valid as [A B].
  assert (E : forall l r, (rq_leaf l = leaf /\ rq_anc l = anc) -> (rq_leaf r = leaf /\ rq_anc r = anc) ->
                          cmp_capacity_hier l r = cmp_capacity_flat l r).
  { intros l r [Hl1 Hl2] [Hr1 Hr2]. unfold cmp_capacity_hier, cmp_capacity_flat.
    destruct (negb (rq_prio l =? rq_prio r)); auto. rewrite Hl1, Hr1. destruct leaf; auto.
    rewrite Hl2, Hr2.
    pose proof (rep_node_siblings l) as R1. pose proof (rep_node_siblings r) as R2.
    rewrite Hl2 in R1. rewrite Hr2 in R2. rewrite R1, R2. reflexivity. }
  split; intros; rewrite ?E in *; auto; [apply A | eapply B]; unfold everywhere; eauto.
Qed.

Theorem real_queue_cmp_flat_valid : forall pk, pk = 5 \/ pk = 6 -> valid_on everywhere (real_queue_cmp pk).
Proof. intros pk [->| ->]; exact cmp_capacity_flat_valid. Qed.

(* the generic VictimQueueOrderFn used for the real plugins is the one of Model.v *)
Lemma victim_order_gen_item : forall vts qts l r,
  victim_queue_order_fn vts qts l r = victim_order_gen vts qts by_time_uid l r.
Proof. reflexivity. Qed.

(* the same subtree tie seen through the VICTIM order (capacity registers its
   VictimQueueOrderFn in the same block): with the preemptor w in a third
   subtree the victim comparator ties on x, y, z (all at level 0 from w), the
   reversed - cyclic - queue order decides, and the victim order of three
   DIFFERENT queues is a 3-cycle; BuildVictimsPriorityQueue orders victims of
   different queues by exactly this function *)
Definition cap_w := mkRQueue (mkItem 3 0 4 None) 0 true [0; 3] [mkQNode 5 true; mkQNode 5 true; mkQNode 2 true].

Theorem victim_order_capacity_hier_refuted :
  let vlt := victim_order_gen (one_slot (cmp_capacity_victim cap_w)) (one_slot cmp_capacity_hier) rq_tb in
  cmp_capacity_victim cap_w cap_x cap_y = 0 /\ cmp_capacity_victim cap_w cap_y cap_z = 0 /\
  vlt cap_y cap_x = true /\ vlt cap_z cap_y = true /\ vlt cap_x cap_z = true /\
  vlt cap_x cap_y = false /\ vlt cap_y cap_z = false /\ vlt cap_z cap_x = false.
Proof. vm_compute. repeat split; reflexivity. Qed.
