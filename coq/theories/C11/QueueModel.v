(* C11 — the queue comparators of the shipped capacity and drf (hdrf) plugins,
   modelled as they are written.  A queue carries the keys the comparator reads:
   its ancestor chain (ids, root first, parent last — queueAttr.ancestors as built
   by capacity.updateAncestors) and the "nodes": for capacity the (share,
   has-deserved) records of its ancestors followed by its own; for hdrf the
   (share/weight, saturated) of every node on its hierarchy path, root first.
   Shares are integers on an order-isomorphic grid (the Go code only tests
   equality and order of the float64 values). *)
From Coq Require Import ZArith List Bool.
From V Require Import C11.Model.
Import ListNotations.
Open Scope Z_scope.

Record qnode := mkQNode { qn_share : Z; qn_flag : bool }.

Record rqueue := mkRQueue {
  rq_item : item;               (* creation time, UID: the session tie-break *)
  rq_prio : Z;                  (* Queue.Spec.Priority *)
  rq_leaf : bool;               (* capacity: len(children) == 0 *)
  rq_anc : list Z;              (* capacity: ancestors, root first *)
  rq_nodes : list qnode
}.

(* capacity.go compareShareWithDeserved 1567-1584 *)
Definition cmp_share_deserved (l r : qnode) : Z :=
  if qn_share l =? qn_share r
  then (if Bool.eqb (qn_flag l) (qn_flag r) then 0 else if qn_flag l then -1 else 1)
  else if qn_share l <? qn_share r then -1 else 1.

Definition own_node (q : rqueue) : qnode := last (rq_nodes q) (mkQNode 0 false).

(* capacity.go flat QueueOrderFn 1199-1215 (and proportion 268-286 when the flag is constant) *)
Definition cmp_capacity_flat (l r : rqueue) : Z :=
  if negb (rq_prio l =? rq_prio r) then rq_prio r - rq_prio l
  else cmp_share_deserved (own_node l) (own_node r).

(* getQueueLevel 1944-1956: index of the last position of the common prefix of
   the two ancestor chains (0 when there is none) *)
Fixpoint queue_level_from (i level : Z) (la ra : list Z) : Z :=
  match la, ra with
  | a :: la', b :: ra' => if a =? b then queue_level_from (i + 1) i la' ra' else level
  | _, _ => level
  end.
Definition queue_level (la ra : list Z) : Z := queue_level_from 0 0 la ra.

(* the record compared for q at divergence level [level]: ancestors[level+1]
   if that exists, else q's own; nodes = records of ancestors ++ [own] *)
Definition rep_node (q : rqueue) (level : Z) : qnode :=
  if level + 1 <? Z.of_nat (length (rq_anc q))
  then nth (Z.to_nat (level + 1)) (rq_nodes q) (own_node q)
  else own_node q.

(* capacity.go hierarchical QueueOrderFn 1371-1404 *)
Definition cmp_capacity_hier (l r : rqueue) : Z :=
  if negb (rq_prio l =? rq_prio r) then rq_prio r - rq_prio l
  else match rq_leaf l, rq_leaf r with
       | true, false => -1
       | false, true => 1
       | false, false => cmp_share_deserved (own_node l) (own_node r)
       | true, true =>
           let level := queue_level (rq_anc l) (rq_anc r) in
           cmp_share_deserved (rep_node l level) (rep_node r level)
       end.

(* capacity.go VictimQueueOrderFn 1406-1424, preemptor queue p fixed *)
Definition cmp_capacity_victim (p l r : rqueue) : Z :=
  let ll := queue_level (rq_anc l) (rq_anc p) in
  let rl := queue_level (rq_anc r) (rq_anc p) in
  if ll =? rl then 0 else if rl <? ll then -1 else 1.

(* drf.go compareQueues 160-184 through queueOrderFn 266-277: walk both
   hierarchy paths from the root down to the shorter depth *)
Fixpoint hdrf_walk (lp rp : list qnode) : Z :=
  match lp, rp with
  | l :: lp', r :: rp' =>
      if negb (qn_flag l) && qn_flag r then -1
      else if qn_flag l && negb (qn_flag r) then 1
      else if qn_share l =? qn_share r then hdrf_walk lp' rp'
      else if qn_share l <? qn_share r then -1 else 1
  | _, _ => 0
  end.
Definition cmp_hdrf (l r : rqueue) : Z := hdrf_walk (rq_nodes l) (rq_nodes r).

Definition real_queue_cmp (pk : Z) : rqueue -> rqueue -> Z :=
  match pk with
  | 5 => cmp_capacity_flat       (* proportion: flag constant true *)
  | 6 => cmp_capacity_flat
  | 7 => cmp_capacity_hier
  | 8 => cmp_hdrf
  | _ => fun _ _ => 0
  end.

Definition rq_tb (l r : rqueue) : bool := by_time_uid (rq_item l) (rq_item r).

(* VictimQueueOrderFn for an arbitrary carrier (the item version is Model.victim_queue_order_fn) *)
Definition victim_order_gen {T} (vts qts : layout (T -> T -> Z)) (tb : T -> T -> bool) (l r : T) : bool :=
  let j := cmp_tiers (force_en_all vts) l r in
  if j =? 0 then negb (order_fn qts tb l r) else j <? 0.
