(* C11 — proofs about the container/heap model: for EVERY less function the
   operations never fail and preserve the multiset; for a strict weak order
   they keep the heap shape, and Pop returns an element no remaining element
   precedes.  Unbounded: all lists, all histories. *)
From Coq Require Import ZArith Arith List Bool Lia ZifyNat Permutation.
From V Require Import C11.HeapModel.
Import ListNotations.
Ltac Zify.zify_post_hook ::= Z.to_euclidean_division_equations.

Section HeapLemmas.
  Context {A : Type}.
  Variable less : A -> A -> bool.
  Variable d : A.                      (* default of [nth] in statements only *)

  (* ---------- arrays as lists ---------- *)
  Lemma length_upd : forall (l : list A) i x, length (upd l i x) = length l.
  Proof. induction l; destruct i; simpl; auto. Qed.

  Lemma nth_upd : forall (l : list A) i x k,
    i < length l -> nth k (upd l i x) d = if k =? i then x else nth k l d.
  Proof.
    induction l as [|a l IH]; intros i x k Hi; simpl in Hi; [lia|].
    destruct i, k; simpl; auto. apply IH. lia.
  Qed.

  Lemma nth_error_get : forall (l : list A) i x,
    nth_error l i = Some x -> i < length l /\ nth i l d = x.
  Proof.
    intros l i x H. split.
    - apply nth_error_Some. congruence.
    - apply nth_error_nth. exact H.
  Qed.

  Lemma get_nth_error : forall (l : list A) i, i < length l -> nth_error l i = Some (nth i l d).
  Proof. intros. apply nth_error_nth'. auto. Qed.

  Lemma upd_app : forall (l1 l2 : list A) a y, upd (l1 ++ a :: l2) (length l1) y = l1 ++ y :: l2.
  Proof. induction l1; simpl; intros; congruence. Qed.

  Lemma nth_firstn_lt : forall (l : list A) n k, k < n -> nth k (firstn n l) d = nth k l d.
  Proof.
    induction l as [|a l IH]; intros n k H; destruct n, k; simpl; auto; try lia. apply IH. lia.
  Qed.

  Lemma length_swap : forall (l : list A) i j xi xj, length (swap_with l i j xi xj) = length l.
  Proof. intros. unfold swap_with. rewrite !length_upd. reflexivity. Qed.

  Lemma nth_swap : forall (l : list A) i j xi xj k,
    i < length l -> j < length l ->
    nth k (swap_with l i j xi xj) d = if k =? j then xi else if k =? i then xj else nth k l d.
  Proof.
    intros. unfold swap_with. rewrite nth_upd by (rewrite length_upd; auto).
    destruct (k =? j); auto. apply nth_upd; auto.
  Qed.

  Lemma swap_perm : forall (l : list A) i j xi xj,
    i < j -> nth_error l i = Some xi -> nth_error l j = Some xj ->
    Permutation (swap_with l i j xi xj) l.
  Proof.
    intros l i j xi xj Hij Hi Hj.
    destruct (nth_error_split l j Hj) as [l1 [l3 [-> Hl1]]].
    rewrite nth_error_app1 in Hi by lia.
    destruct (nth_error_split l1 i Hi) as [l0 [l2 [-> Hl0]]].
    unfold swap_with. rewrite <- app_assoc. simpl.
    rewrite <- Hl0 at 1. rewrite upd_app.
    replace (l0 ++ xj :: l2 ++ xj :: l3) with ((l0 ++ xj :: l2) ++ xj :: l3)
      by (rewrite <- app_assoc; reflexivity).
    replace j with (length (l0 ++ xj :: l2))
      by (rewrite <- Hl1, !app_length; simpl; reflexivity).
    rewrite upd_app. rewrite <- app_assoc. simpl.
    apply Permutation_app_head.
    transitivity (xj :: xi :: l2 ++ l3).
    - constructor. symmetry. apply Permutation_middle.
    - transitivity (xi :: xj :: l2 ++ l3); [constructor|].
      constructor. apply Permutation_middle.
  Qed.

  Lemma swap_same : forall (l : list A) i x, nth_error l i = Some x -> swap_with l i i x x = l.
  Proof.
    intros l i x H. destruct (nth_error_split l i H) as [l1 [l2 [-> <-]]].
    unfold swap_with. rewrite !upd_app. reflexivity.
  Qed.

  (* ---------- the operations never fail and permute ---------- *)
  Lemma up_perm : forall fuel (l : list A) j,
    j < length l -> j < fuel ->
    exists l', up less fuel l j = Some l' /\ Permutation l' l.
  Proof.
    induction fuel as [|f IH]; intros l j Hj Hf; [lia|]. cbn [up].
    destruct (Nat.eqb_spec ((j - 1) / 2) j) as [E|E]; [exists l; auto|].
    assert (Hi : (j - 1) / 2 < j) by lia.
    rewrite (get_nth_error l j) by lia. rewrite (get_nth_error l ((j - 1) / 2)) by lia.
    destruct (less (nth j l d) (nth ((j - 1) / 2) l d)); [|exists l; auto].
    destruct (IH (swap_with l ((j - 1) / 2) j (nth ((j - 1) / 2) l d) (nth j l d)) ((j - 1) / 2))
      as [l' [E' P']]; [rewrite length_swap; lia | lia |].
    exists l'. split; auto. rewrite P'. apply swap_perm; auto; apply get_nth_error; lia.
  Qed.

  Theorem push_perm : forall (l : list A) x,
    exists l', push less l x = Some l' /\ Permutation l' (l ++ [x]).
  Proof.
    intros. unfold push. apply up_perm; rewrite ?app_length; simpl; lia.
  Qed.

  Lemma down_perm : forall fuel (l : list A) i n,
    n <= length l -> n - i < fuel ->
    exists l', down less fuel l i n = Some l' /\ Permutation l' l /\
               forall k, n <= k -> nth k l' d = nth k l d.
  Proof.
    induction fuel as [|f IH]; intros l i n Hn Hf; [lia|]. cbn [down].
    destruct (Nat.leb_spec n (2 * i + 1)) as [E|E]; [exists l; auto|].
    rewrite (get_nth_error l (2 * i + 1)) by lia. rewrite (get_nth_error l i) by lia.
    set (j1 := 2 * i + 1) in *. set (x1 := nth j1 l d). set (xi := nth i l d).
    assert (Hpick : exists j xj,
      (if S j1 <? n
       then match nth_error l (S j1) with
            | Some x2 => Some (if less x2 x1 then (S j1, x2) else (j1, x1))
            | None => None
            end
       else Some (j1, x1)) = Some (j, xj) /\ i < j < n /\ nth_error l j = Some xj).
    { destruct (Nat.ltb_spec (S j1) n).
      - rewrite (get_nth_error l (S j1)) by lia.
        destruct (less (nth (S j1) l d) x1).
        + exists (S j1), (nth (S j1) l d). repeat split; try lia. apply get_nth_error; lia.
        + exists j1, x1. repeat split; try lia. apply get_nth_error; lia.
      - exists j1, x1. repeat split; try lia. apply get_nth_error; lia. }
    destruct Hpick as [j [xj [-> [Hj Hxj]]]].
    destruct (less xj xi); [|exists l; auto].
    destruct (IH (swap_with l i j xi xj) j n) as [l' [E' [P' K']]];
      [rewrite length_swap; lia | lia |].
    exists l'. split; auto. split.
    - rewrite P'. apply swap_perm; auto; try lia. apply get_nth_error; lia.
    - intros k Hk. rewrite K' by auto. rewrite nth_swap by lia.
      destruct (Nat.eqb_spec k j); [lia|]. destruct (Nat.eqb_spec k i); [lia|]. reflexivity.
  Qed.

  Theorem pop_perm : forall (l : list A),
    match pop less l with
    | PopEmpty => l = []
    | PopErr => False
    | PopOk x rest => Permutation (x :: rest) l /\ x = nth 0 l d
    end.
  Proof.
    intros l. unfold pop. destruct l as [|x0 r] eqn:El; [reflexivity|]. rewrite <- El.
    assert (Hlen : length l = S (length r)) by (subst; reflexivity).
    set (n := length l - 1).
    assert (Hn : nth_error l n = Some (nth n l d)) by (apply get_nth_error; lia).
    rewrite Hn.
    assert (H0 : nth_error l 0 = Some x0) by (subst; reflexivity).
    set (l1 := swap_with l 0 n x0 (nth n l d)).
    assert (P1 : Permutation l1 l).
    { destruct (Nat.eq_dec n 0) as [E0|E0].
      - unfold l1. rewrite E0 in *. rewrite H0 in Hn. inversion Hn as [Hx]. rewrite <- Hx.
        rewrite swap_same; auto.
      - apply swap_perm; auto. lia. }
    assert (L1 : length l1 = length l) by apply length_swap.
    destruct (down_perm (S (length l)) l1 0 n) as [l2 [E2 [P2 K2]]]; [lia | lia |].
    rewrite E2.
    assert (L2 : length l2 = length l) by (rewrite (Permutation_length P2); auto).
    rewrite (get_nth_error l2 n) by lia.
    assert (Hx : nth n l2 d = x0).
    { rewrite K2 by lia. unfold l1. rewrite nth_swap by lia. rewrite Nat.eqb_refl. reflexivity. }
    rewrite Hx. split.
    - rewrite <- P1, <- P2.
      rewrite <- (firstn_skipn n l2) at 2.
      assert (Hs : skipn n l2 = [x0]).
      { assert (Ls : length (skipn n l2) = 1) by (rewrite skipn_length; lia).
        destruct (skipn n l2) as [|y [|z s]] eqn:Es; simpl in Ls; try lia.
        f_equal. rewrite <- Hx.
        rewrite <- (firstn_skipn n l2) at 1. rewrite app_nth2 by (rewrite firstn_length; lia).
        rewrite firstn_length, Es. replace (n - Nat.min n (length l2)) with 0 by lia. reflexivity. }
      rewrite Hs. apply Permutation_cons_append.
    - subst l. reflexivity.
  Qed.

  (* ---------- histories: nothing is lost or invented, for every less ---------- *)
  Definition pushed (ops : list (op (A:=A))) : list A :=
    flat_map (fun o => match o with OpPush x => [x] | OpPop => [] end) ops.
  Definition popped (outs : list (option A)) : list A :=
    flat_map (fun o => match o with Some x => [x] | None => [] end) outs.

  Lemma fold_step_none : forall ops outs,
    fold_left (step less) ops (None, outs) = (None, outs).
  Proof. induction ops; simpl; auto. Qed.

  Lemma run_multiset_gen : forall ops l0 outs0 l outs,
    fold_left (step less) ops (Some l0, outs0) = (Some l, outs) ->
    Permutation (popped outs ++ l) (popped outs0 ++ l0 ++ pushed ops).
  Proof.
    induction ops as [|o ops IH]; intros l0 outs0 l outs H; simpl in H.
    - inversion H; subst. simpl. rewrite app_nil_r. reflexivity.
    - destruct o as [x|].
      + destruct (push_perm l0 x) as [l1 [E1 P1]]. rewrite E1 in H.
        rewrite (IH _ _ _ _ H). apply Permutation_app_head. simpl.
        rewrite P1, <- app_assoc. reflexivity.
      + pose proof (pop_perm l0) as PP. destruct (pop less l0) as [| |x rest].
        * subst l0. rewrite (IH _ _ _ _ H). unfold popped. rewrite flat_map_app. simpl.
          rewrite app_nil_r. reflexivity.
        * destruct PP.
        * destruct PP as [P _]. rewrite (IH _ _ _ _ H). unfold popped. rewrite flat_map_app. simpl.
          rewrite <- app_assoc. apply Permutation_app_head. simpl.
          rewrite <- P. reflexivity.
  Qed.

  (* pushed = popped + what is still queued, after every history *)
  Theorem run_multiset : forall ops l outs,
    run less ops = (Some l, outs) -> Permutation (popped outs ++ l) (pushed ops).
  Proof. intros ops l outs H. apply run_multiset_gen in H. exact H. Qed.

  (* ---------- heap shape under a strict weak order on the DISTINCT elements of a set ----------
     The less function only has to be asymmetric and negatively transitive on
     pairs / triples of DIFFERENT elements of [dom]: nothing is asked of
     less x x (the victims queue answers true there), nothing outside [dom]. *)
  Variable dom : A -> Prop.
  Hypothesis eq_dec : forall a b : A, {a = b} + {a <> b}.
  Hypothesis less_asym : forall a b, dom a -> dom b -> a <> b -> less a b = true -> less b a = false.
  Hypothesis less_negtrans : forall a b c, dom a -> dom b -> dom c -> a <> b -> b <> c -> a <> c ->
    less a c = true -> less a b = true \/ less b c = true.

  (* "a does not come after b": the same element, or b does not precede a *)
  Definition le (a b : A) : Prop := dom a /\ dom b /\ (a = b \/ less b a = false).

  Lemma le_refl : forall a, dom a -> le a a.
  Proof. intros a H. split; [|split]; auto. Qed.

  Lemma le_trans : forall a b c, le a b -> le b c -> le a c.
  Proof.
    intros a b c [Da [Db H1]] [_ [Dc H2]]. split; [|split]; auto.
    destruct (eq_dec a c) as [|Nac]; [left; auto|]. right.
    destruct H1 as [E1|H1]; [subst b; destruct H2 as [E2|H2]; [congruence | exact H2]|].
    destruct H2 as [E2|H2]; [subst c; exact H1|].
    destruct (less c a) eqn:E; auto.
    destruct (eq_dec c b) as [Ecb|Ncb]; [subst; congruence|].
    destruct (eq_dec b a) as [Eba|Nba]; [subst; congruence|].
    destruct (less_negtrans c b a Dc Db Da Ncb Nba (fun e => Nac (eq_sym e)) E) as [H|H]; congruence.
  Qed.

  Lemma less_le : forall a b, dom a -> dom b -> less a b = true -> le a b.
  Proof.
    intros a b Da Db H. split; [|split]; auto.
    destruct (eq_dec a b); [left; auto | right; apply less_asym; auto].
  Qed.

  Lemma nless_le : forall a b, dom a -> dom b -> less b a = false -> le a b.
  Proof. intros. split; [|split]; auto. Qed.

  Definition alld (l : list A) : Prop := forall k, k < length l -> dom (nth k l d).

  Lemma alld_Forall : forall l, Forall dom l <-> alld l.
  Proof.
    intros l. unfold alld. rewrite Forall_forall. split.
    - intros H k Hk. apply H. apply nth_In. auto.
    - intros H x Hx. destruct (In_nth _ _ d Hx) as [k [Hk <-]]. auto.
  Qed.

  Lemma alld_swap : forall l i j, alld l -> i < length l -> j < length l ->
    alld (swap_with l i j (nth i l d) (nth j l d)).
  Proof.
    intros l i j H Hi Hj k Hk. rewrite length_swap in Hk. rewrite nth_swap by auto.
    destruct (k =? j); [auto|]. destruct (k =? i); auto.
  Qed.

  (* parent <= child everywhere *)
  Definition heap_ok (l : list A) : Prop :=
    forall k, 0 < k < length l -> le (nth ((k - 1) / 2) l d) (nth k l d).

  Lemma root_min : forall l, alld l -> heap_ok l -> forall k, k < length l -> le (nth 0 l d) (nth k l d).
  Proof.
    intros l Hd H k. induction k as [k IH] using lt_wf_ind. intros Hk.
    destruct (Nat.eq_dec k 0) as [->|]; [apply le_refl; apply Hd; auto|].
    apply le_trans with (nth ((k - 1) / 2) l d).
    - apply IH; lia.
    - apply H. lia.
  Qed.

  (* heap everywhere except possibly between j and its parent *)
  Definition up_inv (l : list A) (j : nat) : Prop :=
    (forall k, 0 < k < length l -> k <> j -> le (nth ((k - 1) / 2) l d) (nth k l d)) /\
    (forall c, 0 < c < length l -> (c - 1) / 2 = j -> 0 < j ->
               le (nth ((j - 1) / 2) l d) (nth c l d)).

  Lemma up_heap : forall fuel (l : list A) j l',
    alld l -> j < length l -> up less fuel l j = Some l' -> up_inv l j -> heap_ok l'.
  Proof.
    induction fuel as [|f IH]; intros l j l' Hd Hj Hup [Ha Hb]; [discriminate|]. cbn [up] in Hup.
    destruct (Nat.eqb_spec ((j - 1) / 2) j) as [E|E].
    - inversion Hup; subst. intros k Hk. apply Ha; lia.
    - assert (Hi : (j - 1) / 2 < j) by lia. set (i := (j - 1) / 2) in *.
      rewrite (get_nth_error l j) in Hup by lia. rewrite (get_nth_error l i) in Hup by lia.
      destruct (less (nth j l d) (nth i l d)) eqn:El.
      + eapply IH; [| | exact Hup |]; [apply alld_swap; auto; lia | rewrite length_swap; lia|].
        assert (Hji : le (nth j l d) (nth i l d)) by (apply less_le; auto; apply Hd; lia).
        split.
        * intros k Hk Hki. rewrite length_swap in Hk. rewrite !nth_swap by lia.
          destruct (Nat.eqb_spec k j) as [->|Hkj].
          -- fold i. destruct (Nat.eqb_spec i j); [lia|]. rewrite Nat.eqb_refl. exact Hji.
          -- destruct (Nat.eqb_spec k i); [lia|].
             destruct (Nat.eqb_spec ((k - 1) / 2) j) as [Epj|Epj].
             ++ apply Hb; lia.
             ++ destruct (Nat.eqb_spec ((k - 1) / 2) i) as [Epi|Epi].
                ** apply le_trans with (nth i l d); auto. rewrite <- Epi. apply Ha; lia.
                ** apply Ha; lia.
        * intros c Hc Hpc Hi0. rewrite length_swap in Hc. rewrite !nth_swap by lia.
          destruct (Nat.eqb_spec ((i - 1) / 2) j); [lia|].
          destruct (Nat.eqb_spec ((i - 1) / 2) i); [lia|].
          destruct (Nat.eqb_spec c j) as [->|Hcj].
          -- apply Ha; lia.
          -- destruct (Nat.eqb_spec c i); [lia|].
             apply le_trans with (nth i l d); [apply Ha; lia|].
             rewrite <- Hpc. apply Ha; lia.
      + inversion Hup; subst. intros k Hk.
        destruct (Nat.eq_dec k j) as [->|]; [|apply Ha; lia].
        fold i. apply nless_le; [apply Hd; lia | apply Hd; lia | exact El].
  Qed.

  Lemma alld_app1 : forall l x, alld l -> dom x -> alld (l ++ [x]).
  Proof.
    intros l x H Hx. apply alld_Forall. apply Forall_app. split; [apply alld_Forall; auto | constructor; auto].
  Qed.

  Theorem push_heap : forall (l : list A) x l',
    alld l -> dom x -> heap_ok l -> push less l x = Some l' -> heap_ok l' /\ alld l'.
  Proof.
    intros l x l' Hd Hx H Hp. split.
    - unfold push in Hp.
      eapply up_heap; [apply alld_app1; eauto | | exact Hp |]; [rewrite app_length; simpl; lia|].
      split.
      + intros k Hk Hkj. rewrite app_length in Hk. simpl in Hk.
        rewrite !app_nth1 by lia. apply H. lia.
      + intros c Hc Hpc. rewrite app_length in Hc. simpl in Hc. lia.
    - destruct (push_perm l x) as [l2 [E2 P2]]. rewrite Hp in E2. inversion E2; subst l2.
      apply alld_Forall. eapply Permutation_Forall; [symmetry; exact P2|].
      apply alld_Forall. apply alld_app1; auto.
  Qed.

  (* heap on the first n positions, except possibly between i and its children *)
  Definition heap_n (l : list A) (n : nat) : Prop :=
    forall k, 0 < k < n -> le (nth ((k - 1) / 2) l d) (nth k l d).
  Definition down_inv (l : list A) (i n : nat) : Prop :=
    (forall k, 0 < k < n -> (k - 1) / 2 <> i -> le (nth ((k - 1) / 2) l d) (nth k l d)) /\
    (forall c, 0 < c < n -> (c - 1) / 2 = i -> 0 < i -> le (nth ((i - 1) / 2) l d) (nth c l d)).

  Lemma down_heap : forall fuel (l : list A) i n l',
    alld l -> n <= length l -> down less fuel l i n = Some l' -> down_inv l i n -> heap_n l' n.
  Proof.
    induction fuel as [|f IH]; intros l i n l' Hdm Hn Hd [Ha Hb]; [discriminate|]. cbn [down] in Hd.
    destruct (Nat.leb_spec n (2 * i + 1)) as [E|E].
    - inversion Hd; subst. intros k Hk. apply Ha; lia.
    - set (j1 := 2 * i + 1) in *.
      rewrite (get_nth_error l j1) in Hd by lia. rewrite (get_nth_error l i) in Hd by lia.
      set (x1 := nth j1 l d) in *. set (xi := nth i l d) in *.
      assert (D1 : dom x1) by (apply Hdm; lia). assert (Di : dom xi) by (apply Hdm; lia).
      assert (Hpick : exists j,
        (if S j1 <? n
         then match nth_error l (S j1) with
              | Some x2 => Some (if less x2 x1 then (S j1, x2) else (j1, x1))
              | None => None
              end
         else Some (j1, x1)) = Some (j, nth j l d) /\ (j = j1 \/ j = S j1) /\ j < n /\
        forall c, 0 < c < n -> (c - 1) / 2 = i -> le (nth j l d) (nth c l d)).
      { destruct (Nat.ltb_spec (S j1) n).
        - rewrite (get_nth_error l (S j1)) by lia.
          assert (D2 : dom (nth (S j1) l d)) by (apply Hdm; lia).
          destruct (less (nth (S j1) l d) x1) eqn:E2.
          + exists (S j1). split; [reflexivity|]. split; [auto|]. split; [lia|]. intros c Hc Hpc.
            assert (c = j1 \/ c = S j1) as [->| ->] by lia; [apply less_le; auto | apply le_refl; auto].
          + exists j1. split; [reflexivity|]. split; [auto|]. split; [lia|]. intros c Hc Hpc.
            assert (c = j1 \/ c = S j1) as [->| ->] by lia; [apply le_refl; auto | apply nless_le; auto].
        - exists j1. split; [reflexivity|]. split; [auto|]. split; [lia|]. intros c Hc Hpc.
          assert (c = j1) as -> by lia. apply le_refl; auto. }
      destruct Hpick as [j [Ep [Hjc [Hjn Hmin]]]]. rewrite Ep in Hd.
      assert (Hpj : (j - 1) / 2 = i) by lia. assert (Hij : i < j) by lia.
      assert (Dj : dom (nth j l d)) by (apply Hdm; lia).
      destruct (less (nth j l d) xi) eqn:El.
      + eapply IH; [| | exact Hd |]; [apply alld_swap; auto; lia | rewrite length_swap; lia|].
        assert (Hji : le (nth j l d) xi) by (apply less_le; auto).
        split.
        * intros k Hk Hpk. rewrite !nth_swap by lia.
          destruct (Nat.eqb_spec k j) as [->|Hkj].
          -- rewrite Hpj. destruct (Nat.eqb_spec i j); [lia|]. rewrite Nat.eqb_refl. exact Hji.
          -- destruct (Nat.eqb_spec ((k - 1) / 2) j); [lia|].
             destruct (Nat.eqb_spec k i) as [->|Hki].
             ++ destruct (Nat.eqb_spec ((i - 1) / 2) i); [lia|]. apply Hb; lia.
             ++ destruct (Nat.eqb_spec ((k - 1) / 2) i) as [Epi|Epi].
                ** apply Hmin; lia.
                ** apply Ha; lia.
        * intros c Hc Hpc Hj0. rewrite !nth_swap by lia.
          rewrite Hpj. destruct (Nat.eqb_spec i j); [lia|]. rewrite Nat.eqb_refl.
          destruct (Nat.eqb_spec c j); [lia|]. destruct (Nat.eqb_spec c i); [lia|].
          rewrite <- Hpc. apply Ha; lia.
      + injection Hd as <-. intros k Hk.
        destruct (Nat.eq_dec ((k - 1) / 2) i) as [Epk|Epk]; [|apply Ha; lia].
        rewrite Epk. apply le_trans with (nth j l d); [apply nless_le; auto | apply Hmin; lia].
  Qed.

  (* MAIN (one step): on a heap of [dom] elements, Pop returns an element that
     no OTHER element of the queue precedes, and leaves a heap *)
  Theorem pop_min_heap : forall (l : list A) x rest,
    alld l -> heap_ok l -> pop less l = PopOk x rest ->
    heap_ok rest /\ alld rest /\ (forall y, In y l -> y = x \/ less y x = false) /\
    Permutation (x :: rest) l.
  Proof.
    intros l x rest Hdm H Hp. pose proof (pop_perm l) as PP. rewrite Hp in PP.
    destruct PP as [P Hx]. split; [|split; [|split; auto]].
    - unfold pop in Hp. destruct l as [|x0 r] eqn:El; [discriminate|]. rewrite <- El in *.
      assert (Hlen : length l = S (length r)) by (subst; reflexivity).
      set (n := length l - 1) in *.
      rewrite (get_nth_error l n) in Hp by lia.
      set (l1 := swap_with l 0 n x0 (nth n l d)) in *.
      destruct (down less (S (length l)) l1 0 n) as [l2|] eqn:E2; [|discriminate].
      assert (L1 : length l1 = length l) by apply length_swap.
      assert (X0 : x0 = nth 0 l d) by (subst l; reflexivity).
      assert (D1 : alld l1) by (unfold l1; rewrite X0; apply alld_swap; auto; lia).
      destruct (down_perm (S (length l)) l1 0 n) as [l2' [E2' [P2 _]]]; [lia | lia |].
      rewrite E2 in E2'. inversion E2'; subst l2'.
      assert (L2 : length l2 = length l) by (rewrite (Permutation_length P2); auto).
      rewrite (get_nth_error l2 n) in Hp by lia. inversion Hp as [[Hx' Hr]].
      assert (Hh : heap_n l2 n).
      { eapply down_heap; [exact D1 | | exact E2 |]; [lia|]. split.
        - intros k Hk Hpk. unfold l1. rewrite !nth_swap by lia.
          destruct (Nat.eqb_spec ((k - 1) / 2) n); [lia|].
          destruct (Nat.eqb_spec ((k - 1) / 2) 0); [lia|].
          destruct (Nat.eqb_spec k n); [lia|]. destruct (Nat.eqb_spec k 0); [lia|].
          apply H. lia.
        - intros; lia. }
      intros k Hk. rewrite firstn_length in Hk.
      rewrite !nth_firstn_lt by lia. apply Hh. lia.
    - apply alld_Forall. apply alld_Forall in Hdm.
      assert (F : Forall dom (x :: rest)) by (eapply Permutation_Forall; [symmetry; exact P | exact Hdm]).
      inversion F; auto.
    - intros y Hy. destruct (In_nth _ _ d Hy) as [k [Hk <-]].
      rewrite Hx. destruct (root_min l Hdm H k Hk) as [_ [_ [E|E]]]; auto.
  Qed.

  (* ---------- histories ---------- *)
  Definition good (st : option (list A) * list (option A)) : Prop :=
    exists l, fst st = Some l /\ heap_ok l /\ alld l.

  Definition op_dom (o : op (A:=A)) : Prop := match o with OpPush x => dom x | OpPop => True end.

  Lemma step_good : forall st o, good st -> op_dom o -> good (step less st o).
  Proof.
    intros [[l|] outs] o [l0 [E [H Hd]]] Ho; simpl in E; inversion E; subst l0.
    destruct o as [x|]; simpl.
    - destruct (push_perm l x) as [l1 [E1 _]]. rewrite E1. exists l1. split; auto.
      eapply push_heap; eauto.
    - pose proof (pop_perm l) as PP. destruct (pop less l) as [| |x rest] eqn:Ep.
      + exists l. auto.
      + destruct PP.
      + exists rest. split; auto. destruct (pop_min_heap l x rest Hd H Ep) as [A1 [A2 _]]. auto.
  Qed.

  Lemma heap_ok_nil : heap_ok [].
  Proof. intros k Hk. simpl in Hk. lia. Qed.

  Lemma pushed_dom : forall ops, Forall dom (pushed ops) <-> Forall op_dom ops.
  Proof.
    induction ops as [|[x|] ops IH]; simpl.
    - split; constructor.
    - split; intros H; inversion H; subst; constructor; auto; apply IH; auto.
    - rewrite IH. split; intros H; [constructor; simpl; auto | inversion H; auto].
  Qed.

  (* no history that pushes [dom] elements ever fails, and the backing slice is always a heap *)
  Theorem run_good : forall ops, Forall dom (pushed ops) -> good (run less ops).
  Proof.
    intros ops Hp. apply pushed_dom in Hp. unfold run.
    assert (G : forall ops st, Forall op_dom ops -> good st -> good (fold_left (step less) ops st)).
    { induction ops0 as [|o ops0 IH]; intros st Ho H; simpl; auto.
      inversion Ho; subst. apply IH; auto. apply step_good; auto. }
    apply G; auto. exists []. split; auto. split; [apply heap_ok_nil|]. intros k Hk. simpl in Hk. lia.
  Qed.

  (* MAIN: after ANY history of pushes (of [dom] elements) and pops, Pop returns
     an element that no OTHER queued element precedes, and removes exactly it *)
  Theorem heap_pop_minimal : forall ops l outs x rest,
    Forall dom (pushed ops) ->
    run less ops = (Some l, outs) -> pop less l = PopOk x rest ->
    (forall y, In y l -> y = x \/ less y x = false) /\ Permutation (x :: rest) l.
  Proof.
    intros ops l outs x rest Hd Hr Hp. destruct (run_good ops Hd) as [l0 [E [H Hl]]].
    rewrite Hr in E. simpl in E. inversion E; subst l0.
    destruct (pop_min_heap l x rest Hl H Hp) as [_ [_ [Hm P]]]. auto.
  Qed.

  (* ---------- push everything, pop until empty: the pop order is sorted ---------- *)
  (* every element is followed only by elements that do not precede it *)
  Definition sorted_by (out : list A) : Prop :=
    ForallOrdPairs (fun x y => y = x \/ less y x = false) out.

  Lemma drain_ok : forall fuel l, length l <= fuel -> alld l -> heap_ok l ->
    exists out, drain less fuel l = Some out /\ Permutation out l /\ sorted_by out.
  Proof.
    induction fuel as [|f IH]; intros l Hl Hd H.
    - destruct l; simpl in Hl; [|lia]. exists []. repeat split; auto. constructor.
    - simpl. pose proof (pop_perm l) as PP. destruct (pop less l) as [| |x rest] eqn:Ep.
      + subst l. exists []. repeat split; auto. constructor.
      + destruct PP.
      + destruct (pop_min_heap l x rest Hd H Ep) as [H1 [H2 [Hm P]]].
        assert (Lr : length rest <= f).
        { apply Permutation_length in P. simpl in P. lia. }
        destruct (IH rest Lr H2 H1) as [out [Eo [Po So]]]. rewrite Eo.
        exists (x :: out). split; auto. split.
        * rewrite <- P. constructor. exact Po.
        * constructor; auto. apply Forall_forall. intros y Hy. apply Hm.
          eapply Permutation_in; [exact P|]. right. eapply Permutation_in; [exact Po | exact Hy].
  Qed.

  Lemma push_all_ok : forall xs l0, alld l0 -> heap_ok l0 -> Forall dom xs ->
    exists l, fold_left (fun st x => match st with Some l => push less l x | None => None end) xs (Some l0) = Some l /\
              Permutation l (l0 ++ xs) /\ heap_ok l /\ alld l.
  Proof.
    induction xs as [|x xs IH]; intros l0 Hd H Hx; simpl.
    - exists l0. rewrite app_nil_r. auto.
    - inversion Hx; subst. destruct (push_perm l0 x) as [l1 [E1 P1]]. rewrite E1.
      destruct (push_heap l0 x l1 Hd H2 H E1) as [A1 A2].
      destruct (IH l1 A2 A1 H3) as [l [E [P [B1 B2]]]]. exists l. split; auto. split; auto.
      rewrite P, P1, <- app_assoc. reflexivity.
  Qed.

  (* MAIN: BuildVictimsPriorityQueue-style use - push a list of [dom] elements,
     pop until empty: never fails, returns a permutation in which no later
     element precedes an earlier one *)
  Theorem heap_sort_sorted : forall xs, Forall dom xs ->
    exists out, heap_sort less xs = Some out /\ Permutation out xs /\ sorted_by out.
  Proof.
    intros xs Hx. unfold heap_sort, push_all.
    destruct (push_all_ok xs [] (fun k Hk => ltac:(simpl in Hk; lia)) heap_ok_nil Hx) as [l [E [P [H Hd]]]].
    rewrite E. destruct (drain_ok (length l) l (le_n _) Hd H) as [out [Eo [Po So]]].
    exists out. split; auto. split; auto. rewrite Po, P. reflexivity.
  Qed.
End HeapLemmas.

(* non-vacuity: integer "<" meets the hypotheses on every set and a concrete history runs *)
Example heap_nonvacuous :
  (forall a b : Z, True -> True -> a <> b -> Z.ltb a b = true -> Z.ltb b a = false) /\
  (forall a b c : Z, True -> True -> True -> a <> b -> b <> c -> a <> c ->
                     Z.ltb a c = true -> Z.ltb a b = true \/ Z.ltb b c = true) /\
  run Z.ltb [OpPush 5%Z; OpPush 3%Z; OpPush 4%Z; OpPop; OpPush 1%Z; OpPop; OpPop; OpPop; OpPop] =
  (Some [], [Some 3%Z; Some 1%Z; Some 4%Z; Some 5%Z; None]) /\
  heap_sort Z.ltb [5%Z; 3%Z; 4%Z; 3%Z; 1%Z] = Some [1%Z; 3%Z; 3%Z; 4%Z; 5%Z].
Proof.
  split; [|split; [|split]].
  - intros a b _ _ _ H. apply Z.ltb_lt in H. apply Z.ltb_ge. lia.
  - intros a b c _ _ _ _ _ _ H. apply Z.ltb_lt in H. destruct (Z.ltb_spec a b); auto. right. apply Z.ltb_lt. lia.
  - vm_compute. reflexivity.
  - vm_compute. reflexivity.
Qed.
