(* C11 — proofs about the container/heap model: for EVERY less function the
   operations never fail and preserve the multiset; for a strict weak order
   they keep the heap shape, and Pop returns an element no remaining element
   precedes.  Unbounded: all lists, all histories. *)
From Coq Require Import ZArith Arith List Bool Lia ZifyNat Permutation.
From V Require Import C11.HeapModel.
Import ListNotations.
Ltac Zify.zify_post_hook ::= Z.to_euclidean_division_equations.

Section HeapLemmas.
  Context {A : Type}.
  Variable less : A -> A -> bool.
  Variable d : A.                      (* default of [nth] in statements only *)

  (* ---------- arrays as lists ---------- *)
  Lemma length_upd : forall (l : list A) i x, length (upd l i x) = length l.
  Proof. induction l; destruct i; simpl; auto. Qed.

  Lemma nth_upd : forall (l : list A) i x k,
    i < length l -> nth k (upd l i x) d = if k =? i then x else nth k l d.
  Proof.
    induction l as [|a l IH]; intros i x k Hi; simpl in Hi; [lia|].
    destruct i, k; simpl; auto. apply IH. lia.
  Qed.

  Lemma nth_error_get : forall (l : list A) i x,
    nth_error l i = Some x -> i < length l /\ nth i l d = x.
  Proof.
    intros l i x H. split.
    - apply nth_error_Some. congruence.
    - apply nth_error_nth. exact H.
  Qed.

  Lemma get_nth_error : forall (l : list A) i, i < length l -> nth_error l i = Some (nth i l d).
  Proof. intros. apply nth_error_nth'. auto. Qed.

  Lemma upd_app : forall (l1 l2 : list A) a y, upd (l1 ++ a :: l2) (length l1) y = l1 ++ y :: l2.
  Proof. induction l1; simpl; intros; congruence. Qed.

  Lemma nth_firstn_lt : forall (l : list A) n k, k < n -> nth k (firstn n l) d = nth k l d.
  Proof.
    induction l as [|a l IH]; intros n k H; destruct n, k; simpl; auto; try lia. apply IH. lia.
  Qed.

  Lemma length_swap : forall (l : list A) i j xi xj, length (swap_with l i j xi xj) = length l.
  Proof. intros. unfold swap_with. rewrite !length_upd. reflexivity. Qed.

  Lemma nth_swap : forall (l : list A) i j xi xj k,
    i < length l -> j < length l ->
    nth k (swap_with l i j xi xj) d = if k =? j then xi else if k =? i then xj else nth k l d.
  Proof.
    intros. unfold swap_with. rewrite nth_upd by (rewrite length_upd; auto).
    destruct (k =? j); auto. apply nth_upd; auto.
  Qed.

  Lemma swap_perm : forall (l : list A) i j xi xj,
    i < j -> nth_error l i = Some xi -> nth_error l j = Some xj ->
    Permutation (swap_with l i j xi xj) l.
  Proof.
    intros l i j xi xj Hij Hi Hj.
    destruct (nth_error_split l j Hj) as [l1 [l3 [-> Hl1]]].
    rewrite nth_error_app1 in Hi by lia.
    destruct (nth_error_split l1 i Hi) as [l0 [l2 [-> Hl0]]].
    unfold swap_with. rewrite <- app_assoc. simpl.
    rewrite <- Hl0 at 1. rewrite upd_app.
    replace (l0 ++ xj :: l2 ++ xj :: l3) with ((l0 ++ xj :: l2) ++ xj :: l3)
      by (rewrite <- app_assoc; reflexivity).
    replace j with (length (l0 ++ xj :: l2))
      by (rewrite <- Hl1, !app_length; simpl; reflexivity).
    rewrite upd_app. rewrite <- app_assoc. simpl.
    apply Permutation_app_head.
    transitivity (xj :: xi :: l2 ++ l3).
    - constructor. symmetry. apply Permutation_middle.
    - transitivity (xi :: xj :: l2 ++ l3); [constructor|].
      constructor. apply Permutation_middle.
  Qed.

  Lemma swap_same : forall (l : list A) i x, nth_error l i = Some x -> swap_with l i i x x = l.
  Proof.
    intros l i x H. destruct (nth_error_split l i H) as [l1 [l2 [-> <-]]].
    unfold swap_with. rewrite !upd_app. reflexivity.
  Qed.

  (* ---------- the operations never fail and permute ---------- *)
  Lemma up_perm : forall fuel (l : list A) j,
    j < length l -> j < fuel ->
    exists l', up less fuel l j = Some l' /\ Permutation l' l.
  Proof.
    induction fuel as [|f IH]; intros l j Hj Hf; [lia|]. cbn [up].
    destruct (Nat.eqb_spec ((j - 1) / 2) j) as [E|E]; [exists l; auto|].
    assert (Hi : (j - 1) / 2 < j) by lia.
    rewrite (get_nth_error l j) by lia. rewrite (get_nth_error l ((j - 1) / 2)) by lia.
    destruct (less (nth j l d) (nth ((j - 1) / 2) l d)); [|exists l; auto].
    destruct (IH (swap_with l ((j - 1) / 2) j (nth ((j - 1) / 2) l d) (nth j l d)) ((j - 1) / 2))
      as [l' [E' P']]; [rewrite length_swap; lia | lia |].
    exists l'. split; auto. rewrite P'. apply swap_perm; auto; apply get_nth_error; lia.
  Qed.

  Theorem push_perm : forall (l : list A) x,
    exists l', push less l x = Some l' /\ Permutation l' (l ++ [x]).
  Proof.
    intros. unfold push. apply up_perm; rewrite ?app_length; simpl; lia.
  Qed.

  Lemma down_perm : forall fuel (l : list A) i n,
    n <= length l -> n - i < fuel ->
    exists l', down less fuel l i n = Some l' /\ Permutation l' l /\
               forall k, n <= k -> nth k l' d = nth k l d.
  Proof.
    induction fuel as [|f IH]; intros l i n Hn Hf; [lia|]. cbn [down].
    destruct (Nat.leb_spec n (2 * i + 1)) as [E|E]; [exists l; auto|].
    rewrite (get_nth_error l (2 * i + 1)) by lia. rewrite (get_nth_error l i) by lia.
    set (j1 := 2 * i + 1) in *. set (x1 := nth j1 l d). set (xi := nth i l d).
    assert (Hpick : exists j xj,
      (if S j1 <? n
       then match nth_error l (S j1) with
            | Some x2 => Some (if less x2 x1 then (S j1, x2) else (j1, x1))
            | None => None
            end
       else Some (j1, x1)) = Some (j, xj) /\ i < j < n /\ nth_error l j = Some xj).
    { destruct (Nat.ltb_spec (S j1) n).
      - rewrite (get_nth_error l (S j1)) by lia.
        destruct (less (nth (S j1) l d) x1).
        + exists (S j1), (nth (S j1) l d). repeat split; try lia. apply get_nth_error; lia.
        + exists j1, x1. repeat split; try lia. apply get_nth_error; lia.
      - exists j1, x1. repeat split; try lia. apply get_nth_error; lia. }
    destruct Hpick as [j [xj [-> [Hj Hxj]]]].
    destruct (less xj xi); [|exists l; auto].
    destruct (IH (swap_with l i j xi xj) j n) as [l' [E' [P' K']]];
      [rewrite length_swap; lia | lia |].
    exists l'. split; auto. split.
    - rewrite P'. apply swap_perm; auto; try lia. apply get_nth_error; lia.
    - intros k Hk. rewrite K' by auto. rewrite nth_swap by lia.
      destruct (Nat.eqb_spec k j); [lia|]. destruct (Nat.eqb_spec k i); [lia|]. reflexivity.
  Qed.

  Theorem pop_perm : forall (l : list A),
    match pop less l with
    | PopEmpty => l = []
    | PopErr => False
    | PopOk x rest => Permutation (x :: rest) l /\ x = nth 0 l d
    end.
  Proof.
    intros l. unfold pop. destruct l as [|x0 r] eqn:El; [reflexivity|]. rewrite <- El.
    assert (Hlen : length l = S (length r)) by (subst; reflexivity).
    set (n := length l - 1).
    assert (Hn : nth_error l n = Some (nth n l d)) by (apply get_nth_error; lia).
    rewrite Hn.
    assert (H0 : nth_error l 0 = Some x0) by (subst; reflexivity).
    set (l1 := swap_with l 0 n x0 (nth n l d)).
    assert (P1 : Permutation l1 l).
    { destruct (Nat.eq_dec n 0) as [E0|E0].
      - unfold l1. rewrite E0 in *. rewrite H0 in Hn. inversion Hn as [Hx]. rewrite <- Hx.
        rewrite swap_same; auto.
      - apply swap_perm; auto. lia. }
    assert (L1 : length l1 = length l) by apply length_swap.
    destruct (down_perm (S (length l)) l1 0 n) as [l2 [E2 [P2 K2]]]; [lia | lia |].
    rewrite E2.
    assert (L2 : length l2 = length l) by (rewrite (Permutation_length P2); auto).
    rewrite (get_nth_error l2 n) by lia.
    assert (Hx : nth n l2 d = x0).
    { rewrite K2 by lia. unfold l1. rewrite nth_swap by lia. rewrite Nat.eqb_refl. reflexivity. }
    rewrite Hx. split.
    - rewrite <- P1, <- P2.
      rewrite <- (firstn_skipn n l2) at 2.
      assert (Hs : skipn n l2 = [x0]).
      { assert (Ls : length (skipn n l2) = 1) by (rewrite skipn_length; lia).
        destruct (skipn n l2) as [|y [|z s]] eqn:Es; simpl in Ls; try lia.
        f_equal. rewrite <- Hx.
        rewrite <- (firstn_skipn n l2) at 1. rewrite app_nth2 by (rewrite firstn_length; lia).
        rewrite firstn_length, Es. replace (n - Nat.min n (length l2)) with 0 by lia. reflexivity. }
      rewrite Hs. apply Permutation_cons_append.
    - subst l. reflexivity.
  Qed.

  (* ---------- histories: nothing is lost or invented, for every less ---------- *)
  Definition pushed (ops : list (op (A:=A))) : list A :=
    flat_map (fun o => match o with OpPush x => [x] | OpPop => [] end) ops.
  Definition popped (outs : list (option A)) : list A :=
    flat_map (fun o => match o with Some x => [x] | None => [] end) outs.

  Lemma fold_step_none : forall ops outs,
    fold_left (step less) ops (None, outs) = (None, outs).
  Proof. induction ops; simpl; auto. Qed.

  Lemma run_multiset_gen : forall ops l0 outs0 l outs,
    fold_left (step less) ops (Some l0, outs0) = (Some l, outs) ->
    Permutation (popped outs ++ l) (popped outs0 ++ l0 ++ pushed ops).
  Proof.
    induction ops as [|o ops IH]; intros l0 outs0 l outs H; simpl in H.
    - inversion H; subst. simpl. rewrite app_nil_r. reflexivity.
    - destruct o as [x|].
      + destruct (push_perm l0 x) as [l1 [E1 P1]]. rewrite E1 in H.
        rewrite (IH _ _ _ _ H). apply Permutation_app_head. simpl.
        rewrite P1, <- app_assoc. reflexivity.
      + pose proof (pop_perm l0) as PP. destruct (pop less l0) as [| |x rest].
        * subst l0. rewrite (IH _ _ _ _ H). unfold popped. rewrite flat_map_app. simpl.
          rewrite app_nil_r. reflexivity.
        * destruct PP.
        * destruct PP as [P _]. rewrite (IH _ _ _ _ H). unfold popped. rewrite flat_map_app. simpl.
          rewrite <- app_assoc. apply Permutation_app_head. simpl.
          rewrite <- P. reflexivity.
  Qed.

  (* pushed = popped + what is still queued, after every history *)
  Theorem run_multiset : forall ops l outs,
    run less ops = (Some l, outs) -> Permutation (popped outs ++ l) (pushed ops).
  Proof. intros ops l outs H. apply run_multiset_gen in H. exact H. Qed.

  (* ---------- heap shape under a strict weak order ---------- *)
  Hypothesis less_asym : forall a b, less a b = true -> less b a = false.
  Hypothesis less_negtrans : forall a b c, less a c = true -> less a b = true \/ less b c = true.

  (* "a does not come after b" *)
  Definition le (a b : A) : Prop := less b a = false.

  Lemma le_refl : forall a, le a a.
  Proof. intros a. unfold le. destruct (less a a) eqn:E; auto. rewrite (less_asym _ _ E) in E. discriminate. Qed.

  Lemma le_trans : forall a b c, le a b -> le b c -> le a c.
  Proof.
    unfold le. intros a b c H1 H2. destruct (less c a) eqn:E; auto.
    destruct (less_negtrans _ b _ E) as [H|H]; congruence.
  Qed.

  Lemma less_le : forall a b, less a b = true -> le a b.
  Proof. unfold le. intros. apply less_asym. auto. Qed.

  (* every element is not preceded by its parent's successor: parent <= child *)
  Definition heap_ok (l : list A) : Prop :=
    forall k, 0 < k < length l -> le (nth ((k - 1) / 2) l d) (nth k l d).

  Lemma root_min : forall l, heap_ok l -> forall k, k < length l -> le (nth 0 l d) (nth k l d).
  Proof.
    intros l H k. induction k as [k IH] using lt_wf_ind. intros Hk.
    destruct (Nat.eq_dec k 0) as [->|]; [apply le_refl|].
    apply le_trans with (nth ((k - 1) / 2) l d).
    - apply IH; lia.
    - apply H. lia.
  Qed.

  (* heap everywhere except possibly between j and its parent *)
  Definition up_inv (l : list A) (j : nat) : Prop :=
    (forall k, 0 < k < length l -> k <> j -> le (nth ((k - 1) / 2) l d) (nth k l d)) /\
    (forall c, 0 < c < length l -> (c - 1) / 2 = j -> 0 < j ->
               le (nth ((j - 1) / 2) l d) (nth c l d)).

  Lemma up_heap : forall fuel (l : list A) j l',
    j < length l -> up less fuel l j = Some l' -> up_inv l j -> heap_ok l'.
  Proof.
    induction fuel as [|f IH]; intros l j l' Hj Hup [Ha Hb]; [discriminate|]. cbn [up] in Hup.
    destruct (Nat.eqb_spec ((j - 1) / 2) j) as [E|E].
    - inversion Hup; subst. intros k Hk. apply Ha; lia.
    - assert (Hi : (j - 1) / 2 < j) by lia. set (i := (j - 1) / 2) in *.
      rewrite (get_nth_error l j) in Hup by lia. rewrite (get_nth_error l i) in Hup by lia.
      destruct (less (nth j l d) (nth i l d)) eqn:El.
      + eapply IH; [| exact Hup |]; [rewrite length_swap; lia|].
        assert (Hji : le (nth j l d) (nth i l d)) by (apply less_le; auto).
        split.
        * intros k Hk Hki. rewrite length_swap in Hk. rewrite !nth_swap by lia.
          destruct (Nat.eqb_spec k j) as [->|Hkj].
          -- (* the old parent now sits at j, under the old child *)
             fold i. destruct (Nat.eqb_spec i j); [lia|]. rewrite Nat.eqb_refl. exact Hji.
          -- destruct (Nat.eqb_spec k i); [lia|].
             destruct (Nat.eqb_spec ((k - 1) / 2) j) as [Epj|Epj].
             ++ (* k is a child of j: above it now sits the old parent of j *)
                apply Hb; lia.
             ++ destruct (Nat.eqb_spec ((k - 1) / 2) i) as [Epi|Epi].
                ** (* k is the sibling of j *)
                   apply le_trans with (nth i l d); auto. rewrite <- Epi. apply Ha; lia.
                ** apply Ha; lia.
        * intros c Hc Hpc Hi0. rewrite length_swap in Hc. rewrite !nth_swap by lia.
          destruct (Nat.eqb_spec ((i - 1) / 2) j); [lia|].
          destruct (Nat.eqb_spec ((i - 1) / 2) i); [lia|].
          destruct (Nat.eqb_spec c j) as [->|Hcj].
          -- apply Ha; lia.
          -- destruct (Nat.eqb_spec c i); [lia|].
             apply le_trans with (nth i l d); [apply Ha; lia|].
             rewrite <- Hpc. apply Ha; lia.
      + inversion Hup; subst. intros k Hk.
        destruct (Nat.eq_dec k j) as [->|]; [|apply Ha; lia].
        fold i. unfold le. exact El.
  Qed.

  Theorem push_heap : forall (l : list A) x l',
    heap_ok l -> push less l x = Some l' -> heap_ok l'.
  Proof.
    intros l x l' H Hp. unfold push in Hp.
    eapply up_heap; [| exact Hp |]; [rewrite app_length; simpl; lia|].
    split.
    - intros k Hk Hkj. rewrite app_length in Hk. simpl in Hk.
      rewrite !app_nth1 by lia. apply H. lia.
    - intros c Hc Hpc. rewrite app_length in Hc. simpl in Hc. lia.
  Qed.

  (* heap on the first n positions, except possibly between i and its children *)
  Definition heap_n (l : list A) (n : nat) : Prop :=
    forall k, 0 < k < n -> le (nth ((k - 1) / 2) l d) (nth k l d).
  Definition down_inv (l : list A) (i n : nat) : Prop :=
    (forall k, 0 < k < n -> (k - 1) / 2 <> i -> le (nth ((k - 1) / 2) l d) (nth k l d)) /\
    (forall c, 0 < c < n -> (c - 1) / 2 = i -> 0 < i -> le (nth ((i - 1) / 2) l d) (nth c l d)).

  Lemma down_heap : forall fuel (l : list A) i n l',
    n <= length l -> down less fuel l i n = Some l' -> down_inv l i n -> heap_n l' n.
  Proof.
    induction fuel as [|f IH]; intros l i n l' Hn Hd [Ha Hb]; [discriminate|]. cbn [down] in Hd.
    destruct (Nat.leb_spec n (2 * i + 1)) as [E|E].
    - inversion Hd; subst. intros k Hk. apply Ha; lia.
    - set (j1 := 2 * i + 1) in *.
      rewrite (get_nth_error l j1) in Hd by lia. rewrite (get_nth_error l i) in Hd by lia.
      set (x1 := nth j1 l d) in *. set (xi := nth i l d) in *.
      (* the chosen child j is the smaller one *)
      assert (Hpick : exists j,
        (if S j1 <? n
         then match nth_error l (S j1) with
              | Some x2 => Some (if less x2 x1 then (S j1, x2) else (j1, x1))
              | None => None
              end
         else Some (j1, x1)) = Some (j, nth j l d) /\ (j = j1 \/ j = S j1) /\ j < n /\
        forall c, 0 < c < n -> (c - 1) / 2 = i -> le (nth j l d) (nth c l d)).
      { destruct (Nat.ltb_spec (S j1) n).
        - rewrite (get_nth_error l (S j1)) by lia.
          destruct (less (nth (S j1) l d) x1) eqn:E2.
          + exists (S j1). repeat split; auto. intros c Hc Hpc.
            assert (c = j1 \/ c = S j1) as [->| ->] by lia; [apply less_le; auto | apply le_refl].
          + exists j1. repeat split; auto; try lia. intros c Hc Hpc.
            assert (c = j1 \/ c = S j1) as [->| ->] by lia; [apply le_refl | exact E2].
        - exists j1. repeat split; auto; try lia. intros c Hc Hpc.
          assert (c = j1) as -> by lia. apply le_refl. }
      destruct Hpick as [j [Ep [Hjc [Hjn Hmin]]]]. rewrite Ep in Hd.
      assert (Hpj : (j - 1) / 2 = i) by lia. assert (Hij : i < j) by lia.
      destruct (less (nth j l d) xi) eqn:El.
      + eapply IH; [| exact Hd |]; [rewrite length_swap; lia|].
        assert (Hji : le (nth j l d) xi) by (apply less_le; auto).
        split.
        * intros k Hk Hpk. rewrite !nth_swap by lia.
          destruct (Nat.eqb_spec k j) as [->|Hkj].
          -- rewrite Hpj. destruct (Nat.eqb_spec i j); [lia|]. rewrite Nat.eqb_refl. exact Hji.
          -- destruct (Nat.eqb_spec ((k - 1) / 2) j); [lia|].
             destruct (Nat.eqb_spec k i) as [->|Hki].
             ++ (* i itself: above it its old parent, now holding... unchanged *)
                destruct (Nat.eqb_spec ((i - 1) / 2) i); [lia|]. apply Hb; lia.
             ++ destruct (Nat.eqb_spec ((k - 1) / 2) i) as [Epi|Epi].
                ** (* the other child of i *) apply Hmin; lia.
                ** apply Ha; lia.
        * intros c Hc Hpc Hj0. rewrite !nth_swap by lia.
          rewrite Hpj. destruct (Nat.eqb_spec i j); [lia|]. rewrite Nat.eqb_refl.
          destruct (Nat.eqb_spec c j); [lia|]. destruct (Nat.eqb_spec c i); [lia|].
          rewrite <- Hpc. apply Ha; lia.
      + injection Hd as <-. intros k Hk.
        destruct (Nat.eq_dec ((k - 1) / 2) i) as [Epk|Epk]; [|apply Ha; lia].
        rewrite Epk. apply le_trans with (nth j l d); [exact El | apply Hmin; lia].
  Qed.

  (* MAIN: on a heap, Pop returns an element that no element of the queue
     precedes, and leaves a heap *)
  Theorem pop_min_heap : forall (l : list A) x rest,
    heap_ok l -> pop less l = PopOk x rest ->
    heap_ok rest /\ (forall y, In y l -> less y x = false) /\ Permutation (x :: rest) l.
  Proof.
    intros l x rest H Hp. pose proof (pop_perm l) as PP. rewrite Hp in PP.
    destruct PP as [P Hx]. split; [|split; auto].
    - (* shape *)
      unfold pop in Hp. destruct l as [|x0 r] eqn:El; [discriminate|]. rewrite <- El in *.
      assert (Hlen : length l = S (length r)) by (subst; reflexivity).
      set (n := length l - 1) in *.
      rewrite (get_nth_error l n) in Hp by lia.
      set (l1 := swap_with l 0 n x0 (nth n l d)) in *.
      destruct (down less (S (length l)) l1 0 n) as [l2|] eqn:E2; [|discriminate].
      assert (L1 : length l1 = length l) by apply length_swap.
      destruct (down_perm (S (length l)) l1 0 n) as [l2' [E2' [P2 _]]]; [lia | lia |].
      rewrite E2 in E2'. inversion E2'; subst l2'.
      assert (L2 : length l2 = length l) by (rewrite (Permutation_length P2); auto).
      rewrite (get_nth_error l2 n) in Hp by lia. inversion Hp as [[Hx' Hr]].
      assert (Hh : heap_n l2 n).
      { eapply down_heap; [| exact E2 |]; [lia|]. split.
        - intros k Hk Hpk. unfold l1. rewrite !nth_swap by lia.
          destruct (Nat.eqb_spec ((k - 1) / 2) n); [lia|].
          destruct (Nat.eqb_spec ((k - 1) / 2) 0); [lia|].
          destruct (Nat.eqb_spec k n); [lia|]. destruct (Nat.eqb_spec k 0); [lia|].
          apply H. lia.
        - intros; lia. }
      intros k Hk. rewrite firstn_length in Hk.
      rewrite !nth_firstn_lt by lia. apply Hh. lia.
    - (* minimality: x is the old root *)
      intros y Hy. destruct (In_nth _ _ d Hy) as [k [Hk <-]].
      rewrite Hx. apply (root_min l H k Hk).
  Qed.
  (* ---------- histories under a strict weak order ---------- *)
  Definition good (st : option (list A) * list (option A)) : Prop :=
    exists l, fst st = Some l /\ heap_ok l.

  Lemma step_good : forall st o, good st -> good (step less st o).
  Proof.
    intros [[l|] outs] o [l0 [E H]]; simpl in E; inversion E; subst l0.
    destruct o as [x|]; simpl.
    - destruct (push_perm l x) as [l1 [E1 _]]. rewrite E1. exists l1. split; auto.
      eapply push_heap; eauto.
    - pose proof (pop_perm l) as PP. destruct (pop less l) as [| |x rest] eqn:Ep.
      + exists l. auto.
      + destruct PP.
      + exists rest. split; auto. eapply pop_min_heap; eauto.
  Qed.

  Lemma heap_ok_nil : heap_ok [].
  Proof. intros k Hk. simpl in Hk. lia. Qed.

  (* no history ever fails (index out of range, fuel) and the backing slice is
     always a heap *)
  Theorem run_good : forall ops, good (run less ops).
  Proof.
    intros ops. unfold run.
    assert (G : forall ops st, good st -> good (fold_left (step less) ops st)).
    { induction ops0 as [|o ops0 IH]; intros st H; simpl; auto. apply IH. apply step_good. auto. }
    apply G. exists []. split; auto. apply heap_ok_nil.
  Qed.

  (* MAIN: after ANY history of pushes and pops, Pop returns an element that no
     queued element precedes, and removes exactly that element *)
  Theorem heap_pop_minimal : forall ops l outs x rest,
    run less ops = (Some l, outs) -> pop less l = PopOk x rest ->
    (forall y, In y l -> less y x = false) /\ Permutation (x :: rest) l.
  Proof.
    intros ops l outs x rest Hr Hp. destruct (run_good ops) as [l0 [E H]].
    rewrite Hr in E. simpl in E. inversion E; subst l0.
    destruct (pop_min_heap l x rest H Hp) as [_ [Hm P]]. auto.
  Qed.
End HeapLemmas.

(* non-vacuity: integer "<" meets the hypotheses and a concrete history runs *)
Example heap_nonvacuous :
  (forall a b, Z.ltb a b = true -> Z.ltb b a = false) /\
  (forall a b c, Z.ltb a c = true -> Z.ltb a b = true \/ Z.ltb b c = true) /\
  run Z.ltb [OpPush 5%Z; OpPush 3%Z; OpPush 4%Z; OpPop; OpPush 1%Z; OpPop; OpPop; OpPop; OpPop] =
  (Some [], [Some 3%Z; Some 1%Z; Some 4%Z; Some 5%Z; None]).
Proof.
  split; [|split].
  - intros a b H. apply Z.ltb_lt in H. apply Z.ltb_ge. lia.
  - intros a b c H. apply Z.ltb_lt in H. destruct (Z.ltb_spec a b); auto. right. apply Z.ltb_lt. lia.
  - vm_compute. reflexivity.
Qed.
