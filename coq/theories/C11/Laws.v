(* C11 — executable forms of the property, evaluated on what the
   IMPLEMENTATION returned.  They are written against the flat specifications
   of Spec.v (membership, first tier, first distinguishing comparator) and
   against the order axioms themselves, not against the loops of Model.v. *)
From Coq Require Import ZArith List Bool Lia.
From V Require Import C11.Model C11.Spec C11.HeapModel C11.Lemmas.
Import ListNotations.
Open Scope Z_scope.

Definition mem (x : Z) (l : list Z) : bool := existsb (Z.eqb x) l.
Definition is_nil {A} (l : list A) : bool := match l with [] => true | _ => false end.

(* ---------------- victims ---------------- *)
(* x is put forward by every voting plugin of the tier *)
Definition common (t : list (slot vote)) (x : uid) : bool := forallb (mem x) (voters t).
(* the tier has at least one voter and its voters share a candidate *)
Definition has_agreement (t : list (slot vote)) : bool :=
  match voters t with
  | [] => false
  | c :: _ => existsb (common t) c
  end.
(* got = what Reclaimable/Preemptable/UnifiedEvictable returned: nothing when
   no tier agrees; otherwise exactly the common candidates of the FIRST
   agreeing tier (soundness: every returned victim is common; completeness:
   every common candidate is returned) *)
Definition law_victims (ts : layout vote) (got : list uid) : bool :=
  match find has_agreement ts with
  | None => is_nil got
  | Some t =>
      negb (is_nil got) && forallb (common t) got &&
      forallb (fun x => mem x got) (filter (common t) (hd [] (voters t)))
  end.

Lemma law_victims_sound : forall ts got x t,
  law_victims ts got = true -> find has_agreement ts = Some t -> In x got ->
  forall p, In p t -> voting p = true -> In x (v_cands (s_ans p)).
Proof.
  intros ts got x t H Hf Hx p Hp Hv. unfold law_victims in H. rewrite Hf in H.
  apply andb_prop in H. destruct H as [H _]. apply andb_prop in H. destruct H as [_ H].
  rewrite forallb_forall in H. specialize (H x Hx). unfold common in H.
  rewrite forallb_forall in H.
  assert (Hin : In (v_cands (s_ans p)) (voters t)) by (apply in_voters; eauto).
  specialize (H _ Hin). unfold mem in H. apply existsb_exists in H.
  destruct H as [y [Hy E]]. apply Z.eqb_eq in E. subst. exact Hy.
Qed.

Lemma mem_in : forall x l, mem x l = true <-> In x l.
Proof.
  intros. unfold mem. rewrite existsb_exists. split.
  - intros [y [Hy E]]. apply Z.eqb_eq in E. subst. exact Hy.
  - intros H. exists x. split; auto. apply Z.eqb_refl.
Qed.

Lemma common_iff : forall t x, common t x = true <-> forall c, In c (voters t) -> In x c.
Proof.
  intros. unfold common. rewrite forallb_forall. split; intros H c Hc; apply mem_in; auto.
Qed.

Lemma has_agreement_iff : forall t, has_agreement t = true <-> agreement t <> [].
Proof.
  intros t. unfold has_agreement, agreement. destruct (voters t) as [|c cs] eqn:E.
  - split; [discriminate | congruence].
  - rewrite existsb_exists. split.
    + intros [x [Hx Hc]] Hn. rewrite common_iff, E in Hc.
      assert (In x (fold_left inter cs c)).
      { apply in_fold_inter. split; auto. intros c' Hc'. apply Hc. right; auto. }
      rewrite Hn in H. destruct H.
    + intros Hn. destruct (fold_left inter cs c) as [|x xs] eqn:Ef; [congruence|].
      assert (Hx : In x (fold_left inter cs c)) by (rewrite Ef; left; auto).
      apply in_fold_inter in Hx. destruct Hx as [H1 H2]. exists x. split; auto.
      apply common_iff. rewrite E. intros c' [<-|Hc']; auto.
Qed.

(* the law accepts the model's own answer, for every layout: law and theorem
   speak about the same predicate *)
Lemma law_victims_model : forall ts, law_victims ts (victims_fixed ts) = true.
Proof.
  intros ts. rewrite tier_victims_spec. unfold law_victims, victims_spec.
  induction ts as [|t r IH]; [reflexivity|]. simpl.
  destruct (has_agreement t) eqn:Eh.
  - pose proof (proj1 (has_agreement_iff t) Eh) as Hn.
    destruct (agreement t) as [|y ys] eqn:Ea; [congruence|]. rewrite <- Ea.
    assert (Hnil : is_nil (agreement t) = false) by (rewrite Ea; reflexivity).
    rewrite Hnil. simpl.
    assert (Hall : forall x, In x (agreement t) <-> In x (hd [] (voters t)) /\ common t x = true).
    { intros x. unfold agreement. destruct (voters t) as [|c cs] eqn:E.
      - simpl. split; [intros []|intros [[] _]].
      - simpl. rewrite in_fold_inter, common_iff, E. split.
        + intros [H1 H2]. split; auto. intros c' [<-|Hc']; auto.
        + intros [H1 H2]. split; auto. intros c' Hc'. apply H2. right; auto. }
    apply andb_true_intro. split.
    + apply forallb_forall. intros x Hx. apply Hall in Hx. tauto.
    + apply forallb_forall. intros x Hx. apply filter_In in Hx. apply mem_in. apply Hall. exact Hx.
  - assert (Ea : agreement t = []).
    { destruct (agreement t) eqn:E; auto.
      assert (has_agreement t = true) by (apply has_agreement_iff; congruence). congruence. }
    rewrite Ea. exact IH.
Qed.

(* ---------------- gates ---------------- *)
Definition law_all (ts : layout bool) (got : bool) : bool :=
  Bool.eqb got (forallb idb (actives ts)).
Definition law_any (ts : layout bool) (got : bool) : bool :=
  Bool.eqb got (existsb idb (actives ts)).
Definition law_starving (ts : layout bool) (got : bool) : bool :=
  Bool.eqb got (match find (existsb active) ts with
                | None => false
                | Some t => forallb idb (map s_ans (filter active t))
                end).
Definition oz_eqb (a b : option Z) : bool :=
  match a, b with
  | None, None => true
  | Some x, Some y => x =? y
  | _, _ => false
  end.
Definition law_valid (ts : layout (option (bool * Z))) (got : option Z) : bool :=
  oz_eqb got (hd_error (fails ts)).
Definition law_pred (ts : layout (option Z)) (got : option Z) : bool :=
  oz_eqb got (hd_error (somes (actives ts))).

Lemma law_all_model : forall ts, law_all ts (all_tiers ts) = true.
Proof. intros. unfold law_all. rewrite gate_conjunction. apply eqb_reflx. Qed.
Lemma law_any_model : forall ts, law_any ts (any_tiers ts) = true.
Proof. intros. unfold law_any. rewrite gate_disjunction. apply eqb_reflx. Qed.
Lemma law_starving_model : forall ts, law_starving ts (job_starving ts) = true.
Proof. intros. unfold law_starving. rewrite job_starving_spec. apply eqb_reflx. Qed.

(* ---------------- votes ---------------- *)
Definition rejects (p : slot Z) : bool := active p && (s_ans p <? 0).
(* false iff some tier holds a reject and no earlier tier holds a permit *)
Fixpoint vote_spec (ts : layout Z) : bool :=
  match ts with
  | [] => true
  | t :: r => if existsb rejects t then false
              else if existsb permits t then true else vote_spec r
  end.
Definition law_vote (ts : layout Z) (got : bool) : bool := Bool.eqb got (vote_spec ts).

(* the flat vote specification IS the loop, so the law means the vote clause *)
Lemma vote_tier_spec : forall ps hf,
  vote_tier hf ps = if existsb rejects ps then None else Some (hf || existsb permits ps).
Proof.
  induction ps as [|p r IH]; intros hf; simpl.
  - rewrite orb_false_r. reflexivity.
  - unfold rejects at 1, permits at 1. destruct (active p); simpl; [|apply IH].
    destruct (s_ans p <? 0); simpl; [reflexivity|]. rewrite IH.
    destruct (existsb rejects r); [reflexivity|].
    destruct (0 <? s_ans p), hf; simpl; reflexivity.
Qed.

Lemma vote_spec_eq : forall ts, vote_spec ts = vote_tiers ts.
Proof.
  induction ts as [|t r IH]; [reflexivity|]. simpl. rewrite vote_tier_spec.
  destruct (existsb rejects t); [reflexivity|]. simpl.
  destruct (existsb permits t); [reflexivity | exact IH].
Qed.

Lemma law_vote_model : forall ts, law_vote ts (vote_tiers ts) = true.
Proof. intros. unfold law_vote. rewrite vote_spec_eq. apply eqb_reflx. Qed.

(* soundness: what the law accepts is the answer characterised by
   vote_first_permit_unless_reject *)
Lemma law_vote_sound : forall ts got, law_vote ts got = true ->
  (got = false <->
   exists pre t post, ts = pre ++ t :: post /\
     (forall t' p, In t' pre -> In p t' -> active p = true -> s_ans p <= 0) /\
     (exists p, In p t /\ active p = true /\ s_ans p < 0)).
Proof.
  intros ts got H. unfold law_vote in H. apply eqb_prop in H. rewrite vote_spec_eq in H. subst got.
  apply vote_first_permit_unless_reject.
Qed.

Lemma oz_eqb_refl : forall a, oz_eqb a a = true.
Proof. destruct a; simpl; auto. apply Z.eqb_refl. Qed.
Lemma oz_eqb_eq : forall a b, oz_eqb a b = true -> a = b.
Proof. destruct a, b; simpl; intros H; try discriminate; auto. apply Z.eqb_eq in H. congruence. Qed.

Lemma law_valid_model : forall ts, law_valid ts (job_valid ts) = true.
Proof. intros. unfold law_valid. rewrite job_valid_spec. apply oz_eqb_refl. Qed.
Lemma law_valid_sound : forall ts got, law_valid ts got = true -> got = hd_error (fails ts).
Proof. intros ts got H. apply oz_eqb_eq. exact H. Qed.
Lemma law_pred_model : forall ts, law_pred ts (predicate ts) = true.
Proof. intros. unfold law_pred. rewrite predicate_spec. apply oz_eqb_refl. Qed.
Lemma law_pred_sound : forall ts got, law_pred ts got = true -> got = hd_error (somes (actives ts)).
Proof. intros ts got H. apply oz_eqb_eq. exact H. Qed.

(* ---------------- orderings ---------------- *)
Section OrderLaws.
  Variable items : list item.

  Definition all2 (f : item -> item -> bool) : bool :=
    forallb (fun a => forallb (fun b => f a b) items) items.
  Definition all3 (f : item -> item -> item -> bool) : bool :=
    forallb (fun a => forallb (fun b => forallb (fun d => f a b d) items) items) items.

  Definition cmp_valid_b (c : item -> item -> Z) : bool :=
    all2 (fun a b => Bool.eqb (c a b <? 0) (0 <? c b a)) &&
    all3 (fun a b d => implb ((c a b <=? 0) && (c b d <=? 0)) (c a d <=? 0)).
  Definition layout_valid_b (ts : layout (item -> item -> Z)) : bool :=
    forallb cmp_valid_b (actives ts).

  (* asymmetric and negatively transitive on the item set *)
  Definition swo_b (lt : item -> item -> bool) : bool :=
    all2 (fun a b => implb (lt a b) (negb (lt b a))) &&
    all3 (fun a b d => implb (lt a d) (lt a b || lt b d)).
  (* the two halves of swo_b, so that each can be a law of its own *)
  Definition asym_b (lt : item -> item -> bool) : bool :=
    all2 (fun a b => implb (lt a b) (negb (lt b a))).
  Definition negtrans_b (lt : item -> item -> bool) : bool :=
    all3 (fun a b d => implb (lt a d) (lt a b || lt b d)).
  Lemma swo_b_split : forall lt, swo_b lt = asym_b lt && negtrans_b lt.
  Proof. reflexivity. Qed.

  (* items with different UIDs are ordered one way or the other *)
  Definition total_b (lt : item -> item -> bool) : bool :=
    all2 (fun a b => (i_uid a =? i_uid b) || lt a b || lt b a).
  (* the answer is the sign of the first non-zero enabled registered
     comparator in tier order, else the tie-break *)
  Definition decided_b (ts : layout (item -> item -> Z)) (tb lt : item -> item -> bool) : bool :=
    all2 (fun a b => Bool.eqb (lt a b)
                       (let j := lex (actives ts) a b in if j =? 0 then tb a b else j <? 0)).

  (* all tasks of the set carry a numeric pod index, or none does *)
  Definition uniform_idx : bool :=
    forallb (fun a => match i_pidx a with Some _ => true | None => false end) items ||
    forallb (fun a => match i_pidx a with Some _ => false | None => true end) items.

  (* lt = the matrix the implementation returned for JobOrderFn / QueueOrderFn
     (tb = by_time_uid) or TaskOrderFn (tb = compare_task, guard = uniform_idx) *)
  Definition law_order (ts : layout (item -> item -> Z)) (tb : item -> item -> bool)
             (guard : bool) (lt : item -> item -> bool) : bool :=
    decided_b ts tb lt &&
    implb (layout_valid_b ts && guard) (swo_b lt && total_b lt).

  (* full strength for tasks: no guard on the pod indexes *)
  Definition law_task_order_full (ts : layout (item -> item -> Z)) (lt : item -> item -> bool) : bool :=
    implb (layout_valid_b ts) (swo_b lt && total_b lt).

  (* law_task_order_full split: what no finding can excuse (asymmetry, totality) and
     the negative-transitivity clause (the only one the CompareTask finding explains) *)
  Definition law_task_order_asym_total (ts : layout (item -> item -> Z)) (lt : item -> item -> bool) : bool :=
    implb (layout_valid_b ts) (asym_b lt && total_b lt).
  Definition law_task_order_negtrans (ts : layout (item -> item -> Z)) (lt : item -> item -> bool) : bool :=
    implb (layout_valid_b ts) (negtrans_b lt).
  Lemma law_task_order_full_split : forall ts lt,
    law_task_order_full ts lt = law_task_order_asym_total ts lt && law_task_order_negtrans ts lt.
  Proof.
    intros. unfold law_task_order_full, law_task_order_asym_total, law_task_order_negtrans.
    rewrite swo_b_split. destruct (layout_valid_b ts), (asym_b lt), (negtrans_b lt), (total_b lt); reflexivity.
  Qed.

  (* VictimQueueOrderFn on queues: first distinguishing victim comparator, else
     the reverse of the queue order; on distinct queues exactly one direction *)
  Definition law_victim_queue_order (vts qts : layout (item -> item -> Z))
             (lt : item -> item -> bool) : bool :=
    all2 (fun a b => Bool.eqb (lt a b)
                       (let j := lex (actives (force_en_all vts)) a b in
                        if j =? 0
                        then negb (let k := lex (actives qts) a b in
                                   if k =? 0 then by_time_uid a b else k <? 0)
                        else j <? 0)) &&
    implb (layout_valid_b (force_en_all vts) && layout_valid_b qts)
          (all2 (fun a b => (i_uid a =? i_uid b) || Bool.eqb (lt a b) (negb (lt b a)))).

  Lemma swo_b_spec : forall lt,
    swo_b lt = true -> swo_on (fun x => In x items) lt.
  Proof.
    intros lt H. unfold swo_b, all2, all3 in H. apply andb_prop in H. destruct H as [H1 H2].
    split.
    - intros a b Ha Hb Hl. rewrite forallb_forall in H1. specialize (H1 a Ha).
      rewrite forallb_forall in H1. specialize (H1 b Hb). rewrite Hl in H1. simpl in H1.
      destruct (lt b a); auto; discriminate.
    - intros a b d Ha Hb Hd Hl. rewrite forallb_forall in H2. specialize (H2 a Ha).
      rewrite forallb_forall in H2. specialize (H2 b Hb).
      rewrite forallb_forall in H2. specialize (H2 d Hd). rewrite Hl in H2. simpl in H2.
      apply orb_prop in H2. exact H2.
  Qed.
End OrderLaws.

(* ---------------- priority queue ---------------- *)
Section HeapLaws.
  Variable less : Z -> Z -> bool.

  Fixpoint count (x : Z) (l : list Z) : nat :=
    match l with [] => O | y :: r => ((if (x =? y)%Z then 1 else 0) + count x r)%nat end.
  Definition same_multiset (a b : list Z) : bool :=
    (length a =? length b)%nat && forallb (fun x => (count x a =? count x b)%nat) a.

  (* the heap shape every state of the backing slice must have *)
  Definition heap_shape (l : list Z) : bool :=
    forallb (fun i => match nth_error l i, nth_error l ((i - 1) / 2) with
                      | Some c, Some p => negb (less c p)
                      | _, _ => false
                      end) (seq 1 (length l - 1)).

  (* one observed transition of the queue: before, the operation, what Pop
     returned (None = nil), after *)
  Definition law_heap_step (strict : bool) (before : list Z) (o : op (A:=Z)) (ret : option Z) (after : list Z) : bool :=
    match o with
    | OpPush x =>
        same_multiset after (before ++ [x]) && implb (strict && heap_shape before) (heap_shape after)
    | OpPop =>
        match before, ret with
        | [], None => is_nil after
        | _ :: _, Some x =>
            same_multiset (x :: after) before &&
            implb (strict && heap_shape before)
                  (heap_shape after && forallb (fun y => negb (less y x)) before)
        | _, _ => false
        end
    end.
End HeapLaws.

(* pop order of the victims queue: a permutation of the victims in which no
   later element precedes an earlier one under the less function *)
Definition law_sorted {A} (less : A -> A -> bool) (out : list A) : bool :=
  (fix go (l : list A) : bool :=
     match l with
     | [] => true
     | x :: r => forallb (fun y => negb (less y x)) r && go r
     end) out.

(* law_sorted means: no later element precedes an earlier one *)
Lemma law_sorted_spec : forall {A} (less : A -> A -> bool) out,
  law_sorted less out = true <-> ForallOrdPairs (fun x y => less y x = false) out.
Proof.
  intros A less out. induction out as [|x r IH]; simpl.
  - split; [constructor | reflexivity].
  - rewrite andb_true_iff, forallb_forall. split.
    + intros [H1 H2]. constructor; [|apply IH; exact H2].
      apply Forall_forall. intros y Hy. specialize (H1 y Hy). destruct (less y x); [discriminate|reflexivity].
    + intros H. inversion H as [|? ? F1 F2]; subst. split; [|apply IH; exact F2].
      intros y Hy. rewrite Forall_forall in F1. rewrite (F1 y Hy). reflexivity.
Qed.
