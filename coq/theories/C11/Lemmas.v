(* C11 — proofs about the tier dispatch model. *)
From Coq Require Import ZArith List Bool Lia.
From V Require Import C11.Model C11.Spec.
Import ListNotations.
Open Scope Z_scope.

Ltac zcases :=
  repeat match goal with
         | |- context [Z.ltb ?a ?b] => destruct (Z.ltb_spec a b)
         | |- context [Z.eqb ?a ?b] => destruct (Z.eqb_spec a b)
         end.

(* ================================================================== *)
(* Victims *)

Lemma in_inter : forall x vs cs, In x (inter vs cs) <-> In x vs /\ In x cs.
Proof.
  intros x vs cs. unfold inter. rewrite in_flat_map. split.
  - intros [v [Hv H]]. rewrite in_flat_map in H. destruct H as [c [Hc H]].
    destruct (Z.eqb_spec v c) as [->|].
    + destruct H as [<-|[]]. auto.
    + destruct H.
  - intros [H1 H2]. exists x. split; auto. apply in_flat_map. exists x. split; auto.
    rewrite Z.eqb_refl. left; auto.
Qed.

Lemma inter_nil_r : forall vs, inter vs [] = [].
Proof. induction vs; simpl; auto. Qed.

Lemma fold_inter_nil : forall cs, fold_left inter cs [] = [].
Proof. induction cs; simpl; auto. Qed.

Lemma in_fold_inter : forall x cs c,
  In x (fold_left inter cs c) <-> In x c /\ forall c', In c' cs -> In x c'.
Proof.
  intros x cs. induction cs as [|d cs IH]; intros c; simpl.
  - split; [intros H; split; [auto | intros ? []] | intros [H _]; auto].
  - rewrite IH, in_inter. split.
    + intros [[H1 H2] H3]. split; auto. intros c' [<-|H]; auto.
    + intros [H1 H2]. split; [split|]; auto.
Qed.

Lemma voters_cons : forall p r,
  voters (p :: r) = if voting p then v_cands (s_ans p) :: voters r else voters r.
Proof. intros. unfold voters. simpl. destruct (voting p); reflexivity. Qed.

Lemma tier_fixed_true : forall ps vs,
  tier_fixed true vs ps = fold_left inter (voters ps) vs.
Proof.
  induction ps as [|p r IH]; intros vs; [reflexivity|].
  rewrite voters_cons. unfold voting. simpl.
  destruct (active p); simpl; [|apply IH].
  destruct (v_flag (s_ans p) =? 0); simpl; [apply IH|].
  destruct (v_cands (s_ans p)) as [|c0 c] eqn:E.
  - simpl. rewrite inter_nil_r, fold_inter_nil. reflexivity.
  - rewrite IH. reflexivity.
Qed.

Lemma tier_fixed_false : forall ps, tier_fixed false [] ps = agreement ps.
Proof.
  induction ps as [|p r IH]; [reflexivity|].
  unfold agreement. rewrite voters_cons. unfold voting. simpl.
  destruct (active p); simpl; [|apply IH].
  destruct (v_flag (s_ans p) =? 0); simpl; [apply IH|].
  destruct (v_cands (s_ans p)) as [|c0 c] eqn:E.
  - rewrite fold_inter_nil. reflexivity.
  - apply tier_fixed_true.
Qed.

(* MAIN: the fixed loop returns the agreement of the first tier whose
   agreement is non-empty, [] if there is none — for every layout *)
Theorem tier_victims_spec : forall ts, victims_fixed ts = victims_spec ts.
Proof.
  unfold victims_spec. induction ts as [|t r IH]; [reflexivity|].
  simpl. rewrite tier_fixed_false. destruct (agreement t); auto.
Qed.

Lemma first_nonempty_decomp : forall l x xs,
  first_nonempty l = x :: xs ->
  exists pre post, l = pre ++ (x :: xs) :: post /\ Forall (fun y => y = []) pre.
Proof.
  induction l as [|a l IH]; intros x xs H; simpl in H; [discriminate|].
  destruct a as [|a0 a'].
  - destruct (IH _ _ H) as [pre [post [-> Hp]]].
    exists ([] :: pre), post. split; auto.
  - inversion H; subst. exists [], l. split; auto.
Qed.

Lemma map_eq_app_cons : forall {A B} (f : A -> B) l pre y post,
  map f l = pre ++ y :: post ->
  exists lp t lq, l = lp ++ t :: lq /\ map f lp = pre /\ f t = y /\ map f lq = post.
Proof.
  intros A B f l. induction l as [|a l IH]; intros pre y post H.
  - destruct pre; discriminate.
  - destruct pre as [|b pre]; simpl in H; inversion H; subst.
    + exists [], a, l. auto.
    + destruct (IH _ _ _ H2) as [lp [t [lq [-> [E1 [E2 E3]]]]]].
      exists (a :: lp), t, lq. simpl. rewrite E1. auto.
Qed.

Lemma in_voters : forall c t, In c (voters t) <-> exists p, In p t /\ voting p = true /\ v_cands (s_ans p) = c.
Proof.
  intros. unfold voters. rewrite in_map_iff. split.
  - intros [p [E H]]. apply filter_In in H. destruct H. exists p; auto.
  - intros [p [H1 [H2 E]]]. exists p. split; auto. apply filter_In; auto.
Qed.

Lemma in_agreement : forall x t,
  In x (agreement t) <->
  (exists p, In p t /\ voting p = true) /\
  forall p, In p t -> voting p = true -> In x (v_cands (s_ans p)).
Proof.
  intros x t. unfold agreement. destruct (voters t) as [|c cs] eqn:E.
  - split; [intros []|]. intros [[p [H1 H2]] _].
    assert (In (v_cands (s_ans p)) (voters t)) by (apply in_voters; eauto).
    rewrite E in H. destruct H.
  - rewrite in_fold_inter. split.
    + intros [H1 H2]. split.
      * assert (In c (voters t)) by (rewrite E; left; auto).
        apply in_voters in H. destruct H as [p [? [? ?]]]. eauto.
      * intros p Hp Hv. assert (In (v_cands (s_ans p)) (voters t)) by (apply in_voters; eauto).
        rewrite E in H. destruct H as [<-|H]; auto.
    + intros [_ H]. split.
      * assert (In c (voters t)) by (rewrite E; left; auto).
        apply in_voters in H0. destruct H0 as [p [? [? <-]]]. auto.
      * intros c' Hc. assert (In c' (voters t)) by (rewrite E; right; auto).
        apply in_voters in H0. destruct H0 as [p [? [? <-]]]. auto.
Qed.

(* every returned victim was put forward by EVERY voting plugin of the deciding
   tier, and the deciding tier is the first one with a non-empty agreement *)
Theorem victims_respect_deciding_tier : forall ts x,
  In x (victims_fixed ts) ->
  exists pre t post,
    ts = pre ++ t :: post /\
    Forall (fun t' => agreement t' = []) pre /\
    victims_fixed ts = agreement t /\
    (exists p, In p t /\ voting p = true) /\
    forall p, In p t -> voting p = true -> In x (v_cands (s_ans p)).
Proof.
  intros ts x Hx. rewrite tier_victims_spec in *. unfold victims_spec in *.
  destruct (first_nonempty (map agreement ts)) as [|y ys] eqn:E; [destruct Hx|].
  destruct (first_nonempty_decomp _ _ _ E) as [pre [post [Hm Hp]]].
  destruct (map_eq_app_cons _ _ _ _ _ Hm) as [lp [t [lq [-> [E1 [E2 E3]]]]]].
  exists lp, t, lq. split; auto. split.
  - subst pre. rewrite Forall_map in Hp. exact Hp.
  - split; [auto|]. rewrite <- E2 in Hx. apply in_agreement in Hx. exact Hx.
Qed.

(* the loop as it was before the fix does NOT meet the specification: three
   voters {1},{2},{3} in one tier returned [3], a task rejected by two voters *)
Definition f1_witness : layout vote :=
  [[mkSlot true true (mkVote 1 [1]); mkSlot true true (mkVote 1 [2]); mkSlot true true (mkVote 1 [3])]].

Theorem victims_prefix_refuted :
  exists ts, victims_prefix ts <> victims_spec ts /\
             exists x t p, In x (victims_prefix ts) /\ In t ts /\ In p t /\
                           voting p = true /\ ~ In x (v_cands (s_ans p)).
Proof.
  exists f1_witness. split.
  - vm_compute. discriminate.
  - exists 3, (hd [] f1_witness), (mkSlot true true (mkVote 1 [1])).
    vm_compute. repeat split; auto. intros [H|[]]. discriminate.
Qed.

(* on the same witness the fixed loop answers [] *)
Example victims_fixed_on_witness : victims_fixed f1_witness = [].
Proof. reflexivity. Qed.

(* with at most two voters per tier the old loop was right (why the unit tests
   never saw it) *)
Lemma tier_prefix_two : forall a b,
  tier_prefix [] [a; b] = agreement [a; b].
Proof.
  intros a b. rewrite <- tier_fixed_false. simpl.
  destruct (active a), (active b); simpl; auto;
  destruct (v_flag (s_ans a) =? 0), (v_flag (s_ans b) =? 0); simpl; auto;
  destruct (v_cands (s_ans a)), (v_cands (s_ans b)); simpl; auto.
Qed.

(* ================================================================== *)
(* Gates *)

Lemma actives_cons : forall {A} (t : list (slot A)) r,
  actives (t :: r) = map s_ans (filter active t) ++ actives r.
Proof. intros. unfold actives. simpl. rewrite filter_app, map_app. reflexivity. Qed.

Definition idb (b : bool) : bool := b.

Lemma all_tier_spec : forall ps, all_tier ps = forallb idb (map s_ans (filter active ps)).
Proof.
  induction ps as [|p r IH]; [reflexivity|]. simpl.
  destruct (active p); simpl; auto. unfold idb at 1. destruct (s_ans p); simpl; auto.
Qed.

Theorem gate_conjunction : forall ts, all_tiers ts = forallb idb (actives ts).
Proof.
  induction ts as [|t r IH]; [reflexivity|].
  rewrite actives_cons, forallb_app. simpl. rewrite all_tier_spec, IH.
  destruct (forallb idb (map s_ans (filter active t))); reflexivity.
Qed.

Lemma in_actives : forall {A} (ts : layout A) a,
  In a (actives ts) <-> exists t p, In t ts /\ In p t /\ active p = true /\ s_ans p = a.
Proof.
  intros. unfold actives. rewrite in_map_iff. split.
  - intros [p [E H]]. apply filter_In in H. destruct H as [H Ha].
    apply in_concat in H. destruct H as [t [? ?]]. exists t, p. repeat split; auto.
  - intros [t [p [H1 [H2 [H3 H4]]]]]. exists p. split; auto. apply filter_In. split; auto.
    apply in_concat. eauto.
Qed.

Theorem gate_conjunction_iff : forall ts,
  all_tiers ts = true <->
  forall t p, In t ts -> In p t -> active p = true -> s_ans p = true.
Proof.
  intros. rewrite gate_conjunction, forallb_forall. split.
  - intros H t p H1 H2 H3. apply (H (s_ans p)). apply in_actives. exists t, p. auto.
  - intros H a Ha. apply in_actives in Ha. destruct Ha as [t [p [? [? [? <-]]]]]. unfold idb. eauto.
Qed.

Lemma any_tier_spec : forall ps, any_tier ps = existsb idb (map s_ans (filter active ps)).
Proof.
  induction ps as [|p r IH]; [reflexivity|]. simpl.
  destruct (active p); simpl; auto. unfold idb at 1. destruct (s_ans p); simpl; auto.
Qed.

Theorem gate_disjunction : forall ts, any_tiers ts = existsb idb (actives ts).
Proof.
  induction ts as [|t r IH]; [reflexivity|].
  rewrite actives_cons, existsb_app. simpl. rewrite any_tier_spec, IH.
  destruct (existsb idb (map s_ans (filter active t))); reflexivity.
Qed.

Theorem gate_disjunction_iff : forall ts,
  any_tiers ts = true <->
  exists t p, In t ts /\ In p t /\ active p = true /\ s_ans p = true.
Proof.
  intros. rewrite gate_disjunction, existsb_exists. split.
  - intros [a [Ha E]]. apply in_actives in Ha. destruct Ha as [t [p [? [? [? <-]]]]].
    exists t, p. auto.
  - intros [t [p [H1 [H2 [H3 H4]]]]]. exists (s_ans p). split; [apply in_actives; exists t, p; auto|auto].
Qed.

Theorem sub_job_ready_spec : forall hp jts sts,
  sub_job_ready hp jts sts = forallb idb (actives (if hp then sts else jts)).
Proof. intros. unfold sub_job_ready. destruct hp; apply gate_conjunction. Qed.

(* JobStarving *)
Lemma starving_tier_spec : forall ps hf,
  starving_tier hf ps =
  if forallb idb (map s_ans (filter active ps)) then Some (hf || existsb active ps) else None.
Proof.
  induction ps as [|p r IH]; intros hf; simpl.
  - rewrite orb_false_r. reflexivity.
  - destruct (active p); simpl.
    + unfold idb at 1. destruct (s_ans p); simpl; auto. rewrite IH. simpl.
      rewrite orb_true_r. reflexivity.
    + apply IH.
Qed.

Lemma no_active_all : forall ps,
  existsb active ps = false -> forallb idb (map s_ans (filter active ps)) = true.
Proof.
  induction ps as [|p r IH]; simpl; auto. destruct (active p); simpl; [discriminate|auto].
Qed.

Theorem job_starving_spec : forall ts,
  job_starving ts =
  match find (existsb active) ts with
  | None => false
  | Some t => forallb idb (map s_ans (filter active t))
  end.
Proof.
  induction ts as [|t r IH]; [reflexivity|]. simpl.
  rewrite starving_tier_spec. simpl.
  destruct (existsb active t) eqn:E.
  - destruct (forallb idb (map s_ans (filter active t))); reflexivity.
  - rewrite (no_active_all _ E). apply IH.
Qed.

(* JobValid / PredicateFn: first failure in tier order *)
Lemma hd_error_app : forall {A} (a b : list A),
  hd_error (a ++ b) = match hd_error a with Some x => Some x | None => hd_error b end.
Proof. intros. destruct a; reflexivity. Qed.

Lemma valid_tier_spec : forall ps,
  valid_tier ps = hd_error (somes (map (fun p => first_fail_tier_step (s_ans p)) (filter s_reg ps))).
Proof.
  induction ps as [|p r IH]; [reflexivity|]. simpl.
  destruct (s_reg p); simpl; auto.
  destruct (first_fail_tier_step (s_ans p)); simpl; auto.
Qed.

Theorem job_valid_spec : forall ts, job_valid ts = hd_error (fails ts).
Proof.
  induction ts as [|t r IH]; [reflexivity|].
  unfold fails, somes in *. simpl. rewrite filter_app, map_app, flat_map_app, hd_error_app.
  rewrite valid_tier_spec, IH. unfold somes. reflexivity.
Qed.

Lemma pred_tier_spec : forall ps, pred_tier ps = hd_error (somes (map s_ans (filter active ps))).
Proof.
  induction ps as [|p r IH]; [reflexivity|]. simpl.
  destruct (active p); simpl; auto. destruct (s_ans p); simpl; auto.
Qed.

Theorem predicate_spec : forall ts, predicate ts = hd_error (somes (actives ts)).
Proof.
  induction ts as [|t r IH]; [reflexivity|].
  rewrite actives_cons. unfold somes in *. rewrite flat_map_app, hd_error_app. simpl.
  rewrite pred_tier_spec, IH. unfold somes. reflexivity.
Qed.

(* ================================================================== *)
(* Votes *)

Definition permits (p : slot Z) : bool := active p && (0 <? s_ans p).

Lemma vote_tier_none : forall ps hf,
  vote_tier hf ps = None <-> exists p, In p ps /\ active p = true /\ s_ans p < 0.
Proof.
  induction ps as [|p r IH]; intros hf; simpl.
  - split; [discriminate|]. intros [? [[] _]].
  - destruct (active p) eqn:Ea.
    + destruct (Z.ltb_spec (s_ans p) 0).
      * split; auto. intros _. exists p. auto.
      * rewrite IH. split.
        -- intros [q [? [? ?]]]. exists q. auto.
        -- intros [q [[<-|?] [? ?]]]; [lia|]. exists q. auto.
    + rewrite IH. split.
      * intros [q [? [? ?]]]. exists q. auto.
      * intros [q [[<-|?] [? ?]]]; [congruence|]. exists q. auto.
Qed.

Lemma vote_tier_some : forall ps hf b,
  vote_tier hf ps = Some b -> b = hf || existsb permits ps.
Proof.
  induction ps as [|p r IH]; intros hf b; simpl.
  - intros H. inversion H. rewrite orb_false_r. reflexivity.
  - unfold permits at 1. destruct (active p); simpl.
    + destruct (s_ans p <? 0); [discriminate|]. intros H. apply IH in H. subst b.
      destruct (0 <? s_ans p); simpl; auto. rewrite orb_true_r. reflexivity.
    + apply IH.
Qed.

(* MAIN: the answer is "no" exactly when some tier contains a reject and no
   tier before it contains a permit *)
Theorem vote_first_permit_unless_reject : forall ts,
  vote_tiers ts = false <->
  exists pre t post,
    ts = pre ++ t :: post /\
    (forall t' p, In t' pre -> In p t' -> active p = true -> s_ans p <= 0) /\
    (exists p, In p t /\ active p = true /\ s_ans p < 0).
Proof.
  induction ts as [|t r IH]; simpl.
  - split; [discriminate|]. intros [pre [t [post [H _]]]]. destruct pre; discriminate.
  - destruct (vote_tier false t) as [[|]|] eqn:E.
    + (* a permit and no reject in the first tier: true *)
      split; [discriminate|]. intros [pre [t' [post [H [Hp Hr]]]]].
      pose proof (vote_tier_some _ _ _ E) as Hs. simpl in Hs. symmetry in Hs.
      apply existsb_exists in Hs. destruct Hs as [q [Hq Hperm]].
      unfold permits in Hperm. apply andb_prop in Hperm. destruct Hperm as [Ha Hpos].
      apply Z.ltb_lt in Hpos.
      destruct pre as [|t0 pre]; simpl in H; inversion H; subst.
      * assert (vote_tier false t' = None) by (apply vote_tier_none; auto). congruence.
      * specialize (Hp t0 q (or_introl eq_refl) Hq Ha). lia.
    + (* neither permit nor reject: next tier *)
      rewrite IH. pose proof (vote_tier_some _ _ _ E) as Hs. simpl in Hs. symmetry in Hs.
      split.
      * intros [pre [t' [post [-> [Hp Hr]]]]]. exists (t :: pre), t', post. split; auto. split; auto.
        intros t0 q [<-|Hin] Hq Ha; [|eauto].
        destruct (Z.ltb_spec 0 (s_ans q)); [|auto].
        assert (existsb permits t = true).
        { apply existsb_exists. exists q. split; auto. unfold permits. rewrite Ha. simpl.
          apply Z.ltb_lt. auto. }
        congruence.
      * intros [pre [t' [post [H [Hp Hr]]]]].
        destruct pre as [|t0 pre]; simpl in H; inversion H; subst.
        -- assert (vote_tier false t' = None) by (apply vote_tier_none; auto). congruence.
        -- exists pre, t', post. split; auto. split; auto. intros. eapply Hp; eauto. right; auto.
    + (* a reject in the first tier: false *)
      split; auto. intros _. exists [], t, r. split; auto. split; [intros ? ? []|].
      apply (vote_tier_none t false). exact E.
Qed.

Theorem sub_job_pipelined_spec : forall hp jts sts,
  sub_job_pipelined hp jts sts = vote_tiers (if hp then sts else jts).
Proof. intros. destruct hp; reflexivity. Qed.

(* ================================================================== *)
(* Orderings *)

Section OrderLemmas.
  Context {T : Type}.
  Variable dom : T -> Prop.      (* the set of items being ordered *)

  (* a 3-way comparator is valid on the set when it is antisymmetric and its
     "<= 0" is transitive (a total preorder read through the sign) *)
  Definition valid_on (c : T -> T -> Z) : Prop :=
    (forall a b, dom a -> dom b -> (c a b < 0 <-> 0 < c b a)) /\
    (forall a b d, dom a -> dom b -> dom d -> c a b <= 0 -> c b d <= 0 -> c a d <= 0).

  Lemma cmp_tier_spec : forall (ps : list (slot (T -> T -> Z))) l r,
    cmp_tier ps l r = lex (map s_ans (filter active ps)) l r.
  Proof.
    induction ps as [|p rest IH]; intros; [reflexivity|]. simpl.
    destruct (active p); simpl; auto. destruct (s_ans p l r =? 0); auto.
  Qed.

  Lemma lex_app : forall (a b : list (T -> T -> Z)) l r,
    lex (a ++ b) l r = if lex a l r =? 0 then lex b l r else lex a l r.
  Proof.
    induction a as [|c a IH]; intros; [reflexivity|]. simpl.
    destruct (c l r =? 0) eqn:E; auto. rewrite E. reflexivity.
  Qed.

  (* the tier walk is the first non-zero answer of the enabled registered
     comparators in tier order *)
  Theorem cmp_tiers_first_distinguishing : forall (ts : layout (T -> T -> Z)) l r,
    cmp_tiers ts l r = lex (actives ts) l r.
  Proof.
    induction ts as [|t rest IH]; intros; [reflexivity|].
    rewrite actives_cons, lex_app. simpl. rewrite cmp_tier_spec, IH. reflexivity.
  Qed.

  Lemma lex_decided_by : forall (cs : list (T -> T -> Z)) l r j,
    lex cs l r = j -> j <> 0 ->
    exists pre c post, cs = pre ++ c :: post /\ Forall (fun c' => c' l r = 0) pre /\ c l r = j.
  Proof.
    induction cs as [|c cs IH]; intros l r j H Hj; simpl in H; [congruence|].
    destruct (Z.eqb_spec (c l r) 0).
    - destruct (IH _ _ _ H Hj) as [pre [c' [post [-> [Hp Hc]]]]].
      exists (c :: pre), c', post. auto.
    - exists [], c, cs. auto.
  Qed.

  Lemma valid_lex : forall (cs : list (T -> T -> Z)), Forall valid_on cs -> valid_on (lex cs).
  Proof.
    induction cs as [|c cs IH]; intros H.
    - split; simpl; intros; lia.
    - inversion H as [|? ? [Has Htr] Hrest]; subst. destruct (IH Hrest) as [Fas Ftr].
      split; simpl.
      + intros a b Ha Hb.
        pose proof (Has a b Ha Hb). pose proof (Has b a Hb Ha). pose proof (Fas a b Ha Hb).
        destruct (Z.eqb_spec (c a b) 0), (Z.eqb_spec (c b a) 0); lia.
      + intros a b d Ha Hb Hd.
        pose proof (Has a b Ha Hb). pose proof (Has b a Hb Ha).
        pose proof (Has b d Hb Hd). pose proof (Has d b Hd Hb).
        pose proof (Has a d Ha Hd). pose proof (Has d a Hd Ha).
        pose proof (Htr a b d Ha Hb Hd). pose proof (Htr b d a Hb Hd Ha).
        pose proof (Htr d a b Hd Ha Hb). pose proof (Htr a d b Ha Hd Hb).
        pose proof (Htr d b a Hd Hb Ha). pose proof (Htr b a d Hb Ha Hd).
        pose proof (Ftr a b d Ha Hb Hd).
        destruct (Z.eqb_spec (c a b) 0), (Z.eqb_spec (c b d) 0), (Z.eqb_spec (c a d) 0); lia.
  Qed.

  Definition all_valid (ts : layout (T -> T -> Z)) : Prop :=
    forall t p, In t ts -> In p t -> active p = true -> valid_on (s_ans p).

  Lemma valid_cmp_tiers : forall ts, all_valid ts -> valid_on (cmp_tiers ts).
  Proof.
    intros ts H.
    assert (valid_on (lex (actives ts))).
    { apply valid_lex. apply Forall_forall. intros c Hc. apply in_actives in Hc.
      destruct Hc as [t [p [? [? [? <-]]]]]. eauto. }
    destruct H0 as [A B]. split; intros; rewrite ?cmp_tiers_first_distinguishing in *; eauto.
  Qed.

  (* the built-in tie-break is a strict weak order on the set *)
  Definition swo_on (lt : T -> T -> bool) : Prop :=
    (forall a b, dom a -> dom b -> lt a b = true -> lt b a = false) /\
    (forall a b d, dom a -> dom b -> dom d -> lt a d = true -> lt a b = true \/ lt b d = true).

  Lemma swo_irrefl : forall lt, swo_on lt -> forall a, dom a -> lt a a = false.
  Proof. intros lt [As _] a Ha. destruct (lt a a) eqn:E; auto. rewrite (As a a Ha Ha E) in E. discriminate. Qed.

  Lemma swo_trans : forall lt, swo_on lt -> forall a b d, dom a -> dom b -> dom d ->
    lt a b = true -> lt b d = true -> lt a d = true.
  Proof.
    intros lt [As Nt] a b d Ha Hb Hd H1 H2.
    destruct (Nt a d b Ha Hd Hb H1) as [H|H]; auto.
    rewrite (As b d Hb Hd H2) in H. discriminate.
  Qed.

  Section WithLayout.
    Variable ts : layout (T -> T -> Z).
    Variable tb : T -> T -> bool.
    Hypothesis Hts : all_valid ts.
    Hypothesis Htb : swo_on tb.

    (* MAIN: the session order function is a strict weak order on the set
       (asymmetric + negatively transitive; irreflexivity and transitivity
       follow by swo_irrefl / swo_trans) *)
    Theorem lex_order_strict_weak : swo_on (order_fn ts tb).
    Proof.
      destruct (valid_cmp_tiers ts Hts) as [Cas Ctr]. destruct Htb as [Tas Tnt].
      unfold order_fn. split.
      - intros a b Ha Hb.
        pose proof (Cas a b Ha Hb). pose proof (Cas b a Hb Ha).
        destruct (Z.eqb_spec (cmp_tiers ts a b) 0), (Z.eqb_spec (cmp_tiers ts b a) 0);
          rewrite ?Z.ltb_lt, ?Z.ltb_ge; try lia. apply Tas; auto.
      - intros a b d Ha Hb Hd.
        pose proof (Cas a b Ha Hb). pose proof (Cas b a Hb Ha).
        pose proof (Cas b d Hb Hd). pose proof (Cas d b Hd Hb).
        pose proof (Cas a d Ha Hd). pose proof (Cas d a Hd Ha).
        pose proof (Ctr d b a Hd Hb Ha). pose proof (Ctr b a d Hb Ha Hd).
        pose proof (Ctr a d b Ha Hd Hb). pose proof (Ctr a b d Ha Hb Hd).
        pose proof (Ctr b d a Hb Hd Ha). pose proof (Ctr d a b Hd Ha Hb).
        destruct (Z.eqb_spec (cmp_tiers ts a d) 0), (Z.eqb_spec (cmp_tiers ts a b) 0),
                 (Z.eqb_spec (cmp_tiers ts b d) 0); rewrite ?Z.ltb_lt; try lia.
        apply Tnt; auto.
    Qed.

    (* ... decided by the first distinguishing plugin, else by the tie-break *)
    Theorem order_fn_decided : forall l r,
      order_fn ts tb l r =
      (let j := lex (actives ts) l r in if j =? 0 then tb l r else j <? 0).
    Proof. intros. unfold order_fn. rewrite cmp_tiers_first_distinguishing. reflexivity. Qed.

    (* where the tie-break separates two items, so does the session order,
       and exactly one direction holds *)
    Theorem order_fn_flip : forall a b, dom a -> dom b ->
      tb a b = negb (tb b a) -> order_fn ts tb a b = negb (order_fn ts tb b a).
    Proof.
      destruct (valid_cmp_tiers ts Hts) as [Cas _].
      intros a b Ha Hb Hf. unfold order_fn.
      pose proof (Cas a b Ha Hb). pose proof (Cas b a Hb Ha).
      destruct (Z.eqb_spec (cmp_tiers ts a b) 0), (Z.eqb_spec (cmp_tiers ts b a) 0); try lia; auto.
      all: destruct (Z.ltb_spec (cmp_tiers ts a b) 0), (Z.ltb_spec (cmp_tiers ts b a) 0); simpl; auto; lia.
    Qed.
  End WithLayout.
End OrderLemmas.

(* --- the built-in tie-breaks --- *)

Lemma by_time_uid_swo : swo_on (fun _ => True) by_time_uid.
Proof.
  unfold by_time_uid. split.
  - intros a b _ _.
    destruct (Z.eqb_spec (i_ctime a) (i_ctime b)), (Z.eqb_spec (i_ctime b) (i_ctime a));
      rewrite ?Z.ltb_lt, ?Z.ltb_ge; lia.
  - intros a b d _ _ _.
    destruct (Z.eqb_spec (i_ctime a) (i_ctime d)), (Z.eqb_spec (i_ctime a) (i_ctime b)),
             (Z.eqb_spec (i_ctime b) (i_ctime d)); rewrite ?Z.ltb_lt; lia.
Qed.

(* total: two items are left unordered only if creation time AND uid coincide *)
Lemma by_time_uid_total : forall a b,
  i_uid a <> i_uid b -> by_time_uid a b = negb (by_time_uid b a).
Proof.
  intros a b Hu. unfold by_time_uid. zcases; simpl; auto; lia.
Qed.

(* helpers.CompareTask: a strict weak order on any set of tasks whose pod
   names all carry a numeric index, and on any set where none does *)
Definition idx_kind (k : bool) (it : item) : Prop :=
  (if k then i_pidx it <> None else i_pidx it = None).

Lemma compare_task_swo : forall k, swo_on (idx_kind k) compare_task.
Proof.
  intros k. unfold idx_kind. destruct k.
  - unfold compare_task, by_time_uid. split.
    + intros a b Ha Hb. destruct (i_pidx a) as [x|], (i_pidx b) as [y|]; try congruence.
      destruct (Z.eqb_spec x y), (Z.eqb_spec y x); try lia.
      * destruct (Z.eqb_spec (i_ctime a) (i_ctime b)), (Z.eqb_spec (i_ctime b) (i_ctime a));
          rewrite ?Z.ltb_lt, ?Z.ltb_ge; lia.
      * destruct (Z.ltb_spec y x), (Z.ltb_spec x y); auto; lia.
    + intros a b d Ha Hb Hd.
      destruct (i_pidx a) as [x|], (i_pidx b) as [y|], (i_pidx d) as [z|]; try congruence.
      destruct (Z.eqb_spec x z), (Z.eqb_spec x y), (Z.eqb_spec y z); try lia;
      destruct (Z.ltb_spec z x), (Z.ltb_spec y x), (Z.ltb_spec z y); try lia; auto; try discriminate;
      destruct (Z.eqb_spec (i_ctime a) (i_ctime d)), (Z.eqb_spec (i_ctime a) (i_ctime b)),
               (Z.eqb_spec (i_ctime b) (i_ctime d)); rewrite ?Z.ltb_lt; lia.
  - destruct by_time_uid_swo as [As Nt]. unfold compare_task. split.
    + intros a b Ha Hb. rewrite ?Ha, ?Hb. simpl. apply As; auto.
    + intros a b d Ha Hb Hd. rewrite ?Ha, ?Hb, ?Hd. simpl. apply Nt; auto.
Qed.

Lemma compare_task_total : forall a b,
  i_uid a <> i_uid b -> compare_task a b = negb (compare_task b a).
Proof.
  intros a b Hu. unfold compare_task.
  destruct (i_pidx a) as [x|], (i_pidx b) as [y|]; try (apply by_time_uid_total; auto).
  unfold by_time_uid. zcases; simpl; auto; lia.
Qed.

(* ... but NOT on a set that mixes the two kinds: a 3-cycle *)
Theorem compare_task_mixed_refuted :
  exists a b c, compare_task a b = true /\ compare_task b c = true /\ compare_task c a = true.
Proof.
  exists (mkItem 0 1 1 (Some 1)), (mkItem 1 2 2 None), (mkItem 2 3 3 (Some 0)).
  vm_compute. auto.
Qed.

(* ... and no repair can keep both pinned behaviours: ANY relation that orders
   two indexed tasks with different indexes by index (the behaviour on uniform
   names) and a mixed pair by (creation time, UID) (what the upstream unit test
   TestCompareTask expects, cases 3-6) fails to be a strict weak order *)
Definition mixed_pair (l r : item) : Prop :=
  (i_pidx l = None /\ i_pidx r <> None) \/ (i_pidx l <> None /\ i_pidx r = None).

Theorem compare_task_no_swo_extension : forall lt : item -> item -> bool,
  (forall l r x y, i_pidx l = Some x -> i_pidx r = Some y -> x <> y -> lt l r = (x <? y)) ->
  (forall l r, mixed_pair l r -> lt l r = by_time_uid l r) ->
  ~ swo_on (fun _ => True) lt.
Proof.
  intros lt Hidx Hmix Hswo.
  set (a := mkItem 0 1 1 (Some 1)). set (b := mkItem 1 2 2 None). set (c := mkItem 2 3 3 (Some 0)).
  assert (Hab : lt a b = true).
  { rewrite Hmix; [reflexivity|]. right. split; simpl; congruence. }
  assert (Hbc : lt b c = true).
  { rewrite Hmix; [reflexivity|]. left. split; simpl; congruence. }
  assert (Hac : lt a c = false).
  { rewrite (Hidx a c 1 0); auto. lia. }
  pose proof (swo_trans _ lt Hswo a b c I I I Hab Hbc) as H. congruence.
Qed.

(* --- comparators of the shipped plugins are valid everywhere --- *)
Definition everywhere {T} (_ : T) : Prop := True.


Lemma cmp_priority_valid : valid_on everywhere cmp_priority.
Proof. unfold cmp_priority. split; [intros a b _ _ | intros a b d _ _ _]; zcases; simpl; lia. Qed.

Lemma cmp_share_valid : valid_on everywhere cmp_share.
Proof. unfold cmp_share. split; [intros a b _ _ | intros a b d _ _ _]; zcases; simpl; lia. Qed.

Lemma cmp_gang_valid : valid_on everywhere cmp_gang.
Proof.
  unfold cmp_gang. split; [intros a b _ _ | intros a b d _ _ _].
  - destruct (k_ready a), (k_ready b); simpl; lia.
  - destruct (k_ready a), (k_ready b), (k_ready d); simpl; lia.
Qed.

Lemma cmp_sla_valid : valid_on everywhere cmp_sla.
Proof.
  unfold cmp_sla. split; [intros a b _ _ | intros a b d _ _ _].
  - destruct (k_deadline a), (k_deadline b); zcases; simpl; lia.
  - destruct (k_deadline a), (k_deadline b), (k_deadline d); zcases; simpl; lia.
Qed.

Lemma cmp_proportion_valid : valid_on everywhere cmp_proportion.
Proof.
  unfold cmp_proportion, cmp_share. split; [intros a b _ _ | intros a b d _ _ _]; zcases; simpl; lia.
Qed.

Lemma cmp_zero_valid : forall {T}, valid_on (@everywhere T) (fun _ _ => 0).
Proof. intros. split; intros; lia. Qed.

Theorem plugin_comparators_valid : forall kind, valid_on everywhere (real_cmp kind).
Proof.
  intros kind.
  destruct (Z.eq_dec kind 1) as [->|]; [exact cmp_priority_valid|].
  destruct (Z.eq_dec kind 2) as [->|]; [exact cmp_gang_valid|].
  destruct (Z.eq_dec kind 3) as [->|]; [exact cmp_share_valid|].
  destruct (Z.eq_dec kind 4) as [->|]; [exact cmp_sla_valid|].
  destruct (Z.eq_dec kind 5) as [->|]; [exact cmp_proportion_valid|].
  assert (E : real_cmp kind = fun _ _ => 0).
  { unfold real_cmp. destruct kind as [|p|p]; auto.
    do 3 (try destruct p as [p|p|]); try reflexivity; congruence. }
  rewrite E. apply cmp_zero_valid.
Qed.

(* ================================================================== *)
(* BuildVictimsPriorityQueue: on two distinct victims exactly one direction
   of the less function holds *)
Section VictimLessLemmas.
  Variable task_ts job_ts queue_ts vq_ts : layout (item -> item -> Z).
  Variable jobs : Z -> option vjob.
  Variable queues : Z -> option item.
  Variable pj : Z.
  Hypothesis Ht : all_valid everywhere task_ts.
  Hypothesis Hj : all_valid everywhere job_ts.
  Hypothesis Hq : all_valid everywhere queue_ts.
  Hypothesis Hv : all_valid everywhere (force_en_all vq_ts).
  (* different queue ids name queues with different UIDs *)
  Hypothesis Hqinj : forall q1 q2 a b, q1 <> q2 -> queues q1 = Some a -> queues q2 = Some b ->
                                       i_uid a <> i_uid b.

  Lemma task_flip : forall l r, i_uid l <> i_uid r ->
    task_order_fn task_ts l r = negb (task_order_fn task_ts r l).
  Proof.
    intros. unfold task_order_fn. apply (order_fn_flip everywhere); unfold everywhere; auto.
    apply compare_task_total; auto.
  Qed.

  Theorem victim_queue_order_total : forall l r b,
    i_uid (vt_item l) <> i_uid (vt_item r) ->
    victim_less task_ts job_ts queue_ts vq_ts jobs queues pj l r = Some b ->
    victim_less task_ts job_ts queue_ts vq_ts jobs queues pj r l = Some (negb b).
  Proof.
    intros l r b Hu. unfold victim_less.
    rewrite (Z.eqb_sym (vt_job r) (vt_job l)).
    assert (JT : forall lj rj, job_then_task task_ts job_ts rj lj r l =
                               negb (job_then_task task_ts job_ts lj rj l r)).
    { intros lj rj. unfold job_then_task.
      destruct (valid_cmp_tiers everywhere job_ts Hj) as [Cas _].
      pose proof (Cas (vj_item lj) (vj_item rj) I I). pose proof (Cas (vj_item rj) (vj_item lj) I I).
      destruct (Z.eqb_spec (cmp_tiers job_ts (vj_item lj) (vj_item rj)) 0),
               (Z.eqb_spec (cmp_tiers job_ts (vj_item rj) (vj_item lj)) 0); try lia.
      all: try (rewrite (task_flip _ _ Hu), negb_involutive; reflexivity).
      all: destruct (Z.ltb_spec 0 (cmp_tiers job_ts (vj_item lj) (vj_item rj))),
                    (Z.ltb_spec 0 (cmp_tiers job_ts (vj_item rj) (vj_item lj))); simpl; auto; lia. }
    destruct (vt_job l =? vt_job r).
    - intros H. inversion H. rewrite (task_flip _ _ Hu), negb_involutive. reflexivity.
    - destruct (jobs (vt_job l)) as [lj|] eqn:El, (jobs (vt_job r)) as [rj|] eqn:Er.
      + destruct (jobs pj).
        * rewrite (Z.eqb_sym (vj_queue rj) (vj_queue lj)).
          destruct (Z.eqb_spec (vj_queue lj) (vj_queue rj)).
          -- intros H. inversion H. rewrite JT. reflexivity.
          -- destruct (queues (vj_queue lj)) as [lq|] eqn:Ql, (queues (vj_queue rj)) as [rq|] eqn:Qr;
               try discriminate.
             intros H. inversion H. f_equal. unfold victim_queue_order_fn.
             destruct (valid_cmp_tiers everywhere _ Hv) as [Cas _].
             pose proof (Cas lq rq I I). pose proof (Cas rq lq I I).
             assert (Hqu : i_uid lq <> i_uid rq) by (eapply Hqinj; eauto).
             destruct (Z.eqb_spec (cmp_tiers (force_en_all vq_ts) lq rq) 0),
                      (Z.eqb_spec (cmp_tiers (force_en_all vq_ts) rq lq) 0); try lia.
             all: try (unfold queue_order_fn;
                rewrite (order_fn_flip everywhere queue_ts by_time_uid Hq lq rq I I
                           (by_time_uid_total _ _ Hqu)), negb_involutive; reflexivity).
             all: destruct (Z.ltb_spec (cmp_tiers (force_en_all vq_ts) lq rq) 0),
                         (Z.ltb_spec (cmp_tiers (force_en_all vq_ts) rq lq) 0); simpl; auto; lia.
        * intros H. inversion H. rewrite JT. reflexivity.
      + intros H. inversion H. reflexivity.
      + intros H. inversion H. reflexivity.
      + intros H. inversion H. rewrite (task_flip _ _ Hu), negb_involutive. reflexivity.
  Qed.
End VictimLessLemmas.

(* ================================================================== *)
(* Non-vacuity: concrete layouts meeting the hypotheses of the main theorems *)

Definition ex_items : list item :=
  [mkItem 0 5 3 (Some 2); mkItem 1 5 1 (Some 0); mkItem 2 4 2 (Some 1)].
Definition ex_cmp_ctime (l r : item) : Z := i_ctime l - i_ctime r.
Definition ex_layout : layout (item -> item -> Z) :=
  [[mkSlot true false ex_cmp_ctime; mkSlot false true (fun _ _ => 7)]; [mkSlot true true ex_cmp_ctime]].

Lemma ex_layout_valid : all_valid everywhere ex_layout.
Proof.
  intros t p Ht Hp Ha. simpl in Ht.
  destruct Ht as [<-|[<-|[]]]; simpl in Hp.
  - destruct Hp as [<-|[<-|[]]]; discriminate.
  - destruct Hp as [<-|[]]. unfold ex_cmp_ctime. split; simpl; intros; lia.
Qed.

Example order_nonvacuous :
  all_valid everywhere ex_layout /\
  map (fun l => map (fun r => job_order_fn ex_layout l r) ex_items) ex_items =
  [[false; false; false]; [true; false; false]; [true; true; false]].
Proof. split; [exact ex_layout_valid | reflexivity]. Qed.

Example victims_nonvacuous :
  let ts := [[mkSlot true true (mkVote 1 [1; 2]); mkSlot true true (mkVote 1 [3])];
             [mkSlot true false (mkVote 1 [9]); mkSlot true true (mkVote 0 [8]);
              mkSlot true true (mkVote 1 [2; 3; 4]); mkSlot true true (mkVote (-1) [4; 2])]] in
  victims_fixed ts = [2; 4] /\ In 2 (victims_fixed ts).
Proof. vm_compute. auto. Qed.

Example votes_nonvacuous :
  vote_tiers [[mkSlot true true 0; mkSlot false true (-1)]; [mkSlot true true 1]; [mkSlot true true (-1)]] = true /\
  vote_tiers [[mkSlot true true 0]; [mkSlot true true 1; mkSlot true true (-1)]] = false.
Proof. split; reflexivity. Qed.
