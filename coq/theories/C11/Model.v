(* C11 — executable model of the tier dispatch of the scheduler session
   (pkg/scheduler/framework/session_plugins.go).  Definitions only.

   One extension point sees every plugin of every tier as a SLOT: is the
   plugin's enable flag for this extension point set (nil and *false are both
   "off": isEnabled), did the plugin register a function under its name
   (the `found` of the map lookup), and what the registered function answers.
   A layout is the list of tiers, each the list of its slots in configuration
   order.  All loops are the loops of the Go code (early return = early exit of
   the recursion); the flat specifications they are proved equal to live in
   Lemmas.v. *)
From Coq Require Import ZArith List Bool.
Import ListNotations.
Open Scope Z_scope.

Record slot (A : Type) := mkSlot { s_en : bool; s_reg : bool; s_ans : A }.
Arguments mkSlot {A}. Arguments s_en {A}. Arguments s_reg {A}. Arguments s_ans {A}.

Definition active {A} (p : slot A) : bool := s_en p && s_reg p.
Definition layout (A : Type) := list (list (slot A)).

(* UnifiedEvictable, JobValid and VictimQueueOrderFn do not consult an enable
   flag at all: every registered plugin takes part *)
Definition force_en {A} (p : slot A) : slot A := mkSlot true (s_reg p) (s_ans p).
Definition force_en_all {A} (ts : layout A) : layout A := map (map force_en) ts.

(* ------------------------------------------------------------------ *)
(* Victim selection: Reclaimable 225-271, Preemptable 274-321,
   UnifiedEvictable 325-362 (identical loops; the third has no enable test) *)

Definition uid := Z.

(* what an EvictableFn returns: the candidate list and the int the code calls
   `abstain` (0 = this plugin abstains; ANY other value is a vote) *)
Record vote := mkVote { v_flag : Z; v_cands : list uid }.

(* for v in victims { for c in candidates { if v.UID == c.UID { append v } } } *)
Definition inter (vs cs : list uid) : list uid :=
  flat_map (fun v => flat_map (fun c => if v =? c then [v] else []) cs) vs.

(* One tier of the loop AFTER the fix (`initialized` boolean per tier).
   The result [] is Go's nil: `victims` is never a non-nil empty slice, because
   it is only ever assigned a non-empty candidate list or an intersection
   built by append on a nil slice. *)
Fixpoint tier_fixed (init : bool) (vs : list uid) (ps : list (slot vote)) : list uid :=
  match ps with
  | [] => vs
  | p :: r =>
      if negb (active p) then tier_fixed init vs r
      else if v_flag (s_ans p) =? 0 then tier_fixed init vs r
      else match v_cands (s_ans p) with
           | [] => []                                   (* victims = nil; break *)
           | c => if init then tier_fixed true (inter vs c) r
                  else tier_fixed true c r
           end
  end.

Fixpoint victims_fixed (ts : layout vote) : list uid :=
  match ts with
  | [] => []
  | t :: r => match tier_fixed false [] t with
              | [] => victims_fixed r                    (* victims == nil: next tier *)
              | v => v
              end
  end.

(* The loop as it was BEFORE the fix: "first voter" is recognised by
   `victims == nil`, which is also what an empty intersection looks like. *)
Fixpoint tier_prefix (vs : list uid) (ps : list (slot vote)) : list uid :=
  match ps with
  | [] => vs
  | p :: r =>
      if negb (active p) then tier_prefix vs r
      else if v_flag (s_ans p) =? 0 then tier_prefix vs r
      else match v_cands (s_ans p) with
           | [] => []
           | c => match vs with
                  | [] => tier_prefix c r
                  | _ => tier_prefix (inter vs c) r
                  end
           end
  end.

Fixpoint victims_prefix (ts : layout vote) : list uid :=
  match ts with
  | [] => []
  | t :: r => match tier_prefix [] t with
              | [] => victims_prefix r
              | v => v
              end
  end.

Definition reclaimable (ts : layout vote) := victims_fixed ts.
Definition preemptable (ts : layout vote) := victims_fixed ts.
Definition unified_evictable (ts : layout vote) := victims_fixed (force_en_all ts).

(* ------------------------------------------------------------------ *)
(* Boolean gates *)

(* JobReady 483-501, Allocatable 405-422, Preemptive 385-402, SubJobReady
   429-445: return false at the first enabled registered plugin answering false *)
Fixpoint all_tier (ps : list (slot bool)) : bool :=
  match ps with
  | [] => true
  | p :: r => if active p then (if s_ans p then all_tier r else false) else all_tier r
  end.
Fixpoint all_tiers (ts : layout bool) : bool :=
  match ts with
  | [] => true
  | t :: r => if all_tier t then all_tiers r else false
  end.

(* Overused 365-382: return true at the first one answering true *)
Fixpoint any_tier (ps : list (slot bool)) : bool :=
  match ps with
  | [] => false
  | p :: r => if active p then (if s_ans p then true else any_tier r) else any_tier r
  end.
Fixpoint any_tiers (ts : layout bool) : bool :=
  match ts with
  | [] => false
  | t :: r => if any_tier t then true else any_tiers r
  end.

(* SubJobReady 424-446: a job without sub-group policy is judged by JobReady
   (other function map, other enable flag) *)
Definition sub_job_ready (has_policy : bool) (job_ts sub_ts : layout bool) : bool :=
  if has_policy then all_tiers sub_ts else all_tiers job_ts.

(* JobStarving 537-561: the first tier with an enabled registered function
   decides; inside it, false at the first false.  None = "returned false". *)
Fixpoint starving_tier (hf : bool) (ps : list (slot bool)) : option bool :=
  match ps with
  | [] => Some hf
  | p :: r => if active p then (if s_ans p then starving_tier true r else None)
              else starving_tier hf r
  end.
Fixpoint job_starving (ts : layout bool) : bool :=
  match ts with
  | [] => false
  | t :: r => match starving_tier false t with
              | None => false
              | Some true => true
              | Some false => job_starving r
              end
  end.

(* JobValid 564-579 (no enable flag): a plugin answers nil or a result
   (Pass, reason code); the first result with Pass=false is returned *)
Definition first_fail_tier_step (a : option (bool * Z)) : option Z :=
  match a with
  | Some (false, code) => Some code
  | _ => None
  end.
Fixpoint valid_tier (ps : list (slot (option (bool * Z)))) : option Z :=
  match ps with
  | [] => None
  | p :: r => if s_reg p then match first_fail_tier_step (s_ans p) with
                              | Some c => Some c
                              | None => valid_tier r
                              end
              else valid_tier r
  end.
Fixpoint job_valid (ts : layout (option (bool * Z))) : option Z :=
  match ts with
  | [] => None
  | t :: r => match valid_tier t with Some c => Some c | None => job_valid r end
  end.

(* PredicateFn 850-867 / PrePredicateFn 949-967: first non-nil error *)
Fixpoint pred_tier (ps : list (slot (option Z))) : option Z :=
  match ps with
  | [] => None
  | p :: r => if active p then match s_ans p with
                               | Some e => Some e
                               | None => pred_tier r
                               end
              else pred_tier r
  end.
Fixpoint predicate (ts : layout (option Z)) : option Z :=
  match ts with
  | [] => None
  | t :: r => match pred_tier t with Some e => Some e | None => predicate r end
  end.

(* ------------------------------------------------------------------ *)
(* Permit / reject votes: JobPipelined 505-533, JobEnqueueable 582-610,
   SubJobPipelined 453-479.  res < 0 rejects at once; res > 0 sets hasFound;
   after a tier with hasFound the answer is true.  None = "returned false". *)
Fixpoint vote_tier (hf : bool) (ps : list (slot Z)) : option bool :=
  match ps with
  | [] => Some hf
  | p :: r => if active p
              then (if s_ans p <? 0 then None
                    else vote_tier (if 0 <? s_ans p then true else hf) r)
              else vote_tier hf r
  end.
Fixpoint vote_tiers (ts : layout Z) : bool :=
  match ts with
  | [] => true
  | t :: r => match vote_tier false t with
              | None => false
              | Some true => true
              | Some false => vote_tiers r
              end
  end.
Definition sub_job_pipelined (has_policy : bool) (job_ts sub_ts : layout Z) : bool :=
  if has_policy then vote_tiers sub_ts else vote_tiers job_ts.

(* ------------------------------------------------------------------ *)
(* The dispatch methods by name: which walker, which enable flag of the plugin
   option, which function map (session_plugins.go).  The layout handed to each is
   the per-plugin (enable flag of THIS row, registered in THIS map, answer). *)
Definition job_ready := all_tiers.          (* EnabledJobReady,    jobReadyFns *)
Definition allocatable := all_tiers.        (* EnabledAllocatable, allocatableFns *)
Definition preemptive := all_tiers.         (* EnablePreemptive,   preemptiveFns *)
Definition overused := any_tiers.           (* EnabledOverused,    overusedFns *)
Definition predicate_fn := predicate.       (* EnabledPredicate,   predicateFns *)
Definition pre_predicate_fn := predicate.   (* EnabledPredicate,   prePredicateFns *)
Definition job_pipelined := vote_tiers.     (* EnabledJobPipelined, jobPipelinedFns *)
Definition job_enqueueable := vote_tiers.   (* EnabledJobEnqueued (sic), jobEnqueueableFns *)

(* ------------------------------------------------------------------ *)
(* Orderings: JobOrderCompareFn 717-734, JobOrderFn 737-749, QueueOrderFn
   775-798, VictimQueueOrderFn 801-815, TaskCompareFns 818-835, TaskOrderFn
   838-847 *)
Section Orders.
  Context {T : Type}.

  (* first non-zero comparison in tier order *)
  Fixpoint cmp_tier (ps : list (slot (T -> T -> Z))) (l r : T) : Z :=
    match ps with
    | [] => 0
    | p :: rest => if active p
                   then (let j := s_ans p l r in if j =? 0 then cmp_tier rest l r else j)
                   else cmp_tier rest l r
    end.
  Fixpoint cmp_tiers (ts : layout (T -> T -> Z)) (l r : T) : Z :=
    match ts with
    | [] => 0
    | t :: rest => let j := cmp_tier t l r in if j =? 0 then cmp_tiers rest l r else j
    end.

  (* `if res != 0 { return res < 0 }` then the built-in tie-break *)
  Definition order_fn (ts : layout (T -> T -> Z)) (tb : T -> T -> bool) (l r : T) : bool :=
    let j := cmp_tiers ts l r in if j =? 0 then tb l r else j <? 0.
End Orders.

(* what the tie-breaks look at *)
Record item := mkItem {
  i_id : Z;                 (* position in the scripted comparator tables; not used by tie-breaks *)
  i_ctime : Z;              (* creation timestamp, seconds *)
  i_uid : Z;                (* UID; the harness renders it zero-padded so that string order = numeric order *)
  i_pidx : option Z         (* tasks only: strconv.Atoi of the last "-" field of the pod name, None = no field / not a number *)
}.

(* CreationTimestamp.Equal -> UID < ; else Before *)
Definition by_time_uid (l r : item) : bool :=
  if i_ctime l =? i_ctime r then i_uid l <? i_uid r else i_ctime l <? i_ctime r.

(* job controller helpers.CompareTask 54-69 *)
Definition compare_task (l r : item) : bool :=
  match i_pidx l, i_pidx r with
  | Some a, Some b => if a =? b then by_time_uid l r
                      else if b <? a then false else true
  | _, _ => by_time_uid l r
  end.

Definition job_order_fn (ts : layout (item -> item -> Z)) := order_fn ts by_time_uid.
Definition queue_order_fn (ts : layout (item -> item -> Z)) := order_fn ts by_time_uid.
Definition task_order_fn (ts : layout (item -> item -> Z)) := order_fn ts compare_task.

(* SubJobOrderFn 689-712: same walk (flag EnabledSubJobOrder); the built-in
   tie-break is (MatchIndex, UID), i.e. by_time_uid with MatchIndex carried in
   the i_ctime field *)
Definition sub_job_order_fn (ts : layout (item -> item -> Z)) := order_fn ts by_time_uid.

(* VictimQueueOrderFn: registered victim comparators (no enable flag, the
   preemptor queue is a fixed third argument already applied in [vts]), then
   the NEGATION of QueueOrderFn *)
Definition victim_queue_order_fn (vts qts : layout (item -> item -> Z)) (l r : item) : bool :=
  let j := cmp_tiers (force_en_all vts) l r in
  if j =? 0 then negb (queue_order_fn qts l r) else j <? 0.

(* ------------------------------------------------------------------ *)
(* BuildVictimsPriorityQueue 1163-1215: the less function of the victims queue *)
Record vtask := mkVTask { vt_item : item; vt_job : Z }.
Record vjob := mkVJob { vj_item : item; vj_queue : Z }.

Section VictimLess.
  Variable task_ts job_ts queue_ts vq_ts : layout (item -> item -> Z).
  Variable jobs : Z -> option vjob.          (* ssn.Jobs *)
  Variable queues : Z -> option item.        (* ssn.Queues *)
  Variable preemptor_job : Z.

  Definition job_then_task (lj rj : vjob) (l r : vtask) : bool :=
    let c := cmp_tiers job_ts (vj_item lj) (vj_item rj) in
    if c =? 0 then negb (task_order_fn task_ts (vt_item l) (vt_item r)) else 0 <? c.

  (* None: ssn.Queues has no entry for a victim job's queue; the Go code would
     hand a nil *QueueInfo to QueueOrderFn and crash - outside the model *)
  Definition victim_less (l r : vtask) : option bool :=
    if vt_job l =? vt_job r then Some (negb (task_order_fn task_ts (vt_item l) (vt_item r)))
    else match jobs (vt_job l), jobs (vt_job r) with
         | None, None => Some (negb (task_order_fn task_ts (vt_item l) (vt_item r)))
         | None, Some _ => Some true
         | Some _, None => Some false
         | Some lj, Some rj =>
             match jobs preemptor_job with
             | None => Some (job_then_task lj rj l r)
             | Some _ =>
                 if vj_queue lj =? vj_queue rj then Some (job_then_task lj rj l r)
                 else match queues (vj_queue lj), queues (vj_queue rj) with
                      | Some lq, Some rq => Some (victim_queue_order_fn vq_ts queue_ts lq rq)
                      | _, _ => None
                      end
             end
         end.
End VictimLess.

(* ------------------------------------------------------------------ *)
(* Comparators of the shipped plugins, as functions of the keys they read *)
Record jkeys := mkJKeys {
  k_prio : Z;               (* JobInfo.Priority / TaskInfo.Priority / Queue.Spec.Priority *)
  k_ready : bool;           (* gang: JobInfo.IsReady() *)
  k_share : Z;              (* drf job share / proportion queue share, on a common integer scale *)
  k_deadline : option Z     (* sla: creation + waiting time, None = no waiting time configured *)
}.

(* priority.go 50-87: higher priority first *)
Definition cmp_priority (l r : jkeys) : Z :=
  if k_prio r <? k_prio l then -1 else if k_prio l <? k_prio r then 1 else 0.
(* gang.go 139-162: not-ready jobs first *)
Definition cmp_gang (l r : jkeys) : Z :=
  if k_ready l && k_ready r then 0
  else if k_ready l then 1 else if k_ready r then -1 else 0.
(* drf.go 370-386: smaller share first *)
Definition cmp_share (l r : jkeys) : Z :=
  if k_share l =? k_share r then 0 else if k_share l <? k_share r then -1 else 1.
(* sla.go 108-133: jobs with a deadline first, earlier deadline first *)
Definition cmp_sla (l r : jkeys) : Z :=
  match k_deadline l, k_deadline r with
  | None, None => 0
  | None, Some _ => 1
  | Some _, None => -1
  | Some a, Some b => if a <? b then -1 else if b <? a then 1 else 0
  end.
(* proportion.go 268-286: queue priority (difference of the two int32), then share *)
Definition cmp_proportion (l r : jkeys) : Z :=
  if negb (k_prio l =? k_prio r) then k_prio r - k_prio l else cmp_share l r.

(* which order function each shipped plugin registers: role 0 = JobOrderFn
   (priority, gang, drf, sla), role 2 = TaskOrderFn (priority only), role 3 =
   SubJobOrderFn (priority, gang); role 1 = QueueOrderFn (proportion) *)
Definition plugin_registers (role kind : Z) : bool :=
  match role, kind with
  | 0, 1 | 0, 2 | 0, 3 | 0, 4 => true
  | 1, 5 => true
  | 2, 1 => true
  | 3, 1 | 3, 2 => true
  | _, _ => false
  end.

Definition real_cmp (kind : Z) : jkeys -> jkeys -> Z :=
  match kind with
  | 1 => cmp_priority
  | 2 => cmp_gang
  | 3 => cmp_share
  | 4 => cmp_sla
  | 5 => cmp_proportion
  | _ => fun _ _ => 0
  end.
