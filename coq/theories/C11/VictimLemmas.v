(* C11 — BuildVictimsPriorityQueue's less function is a strict weak order, for
   every pattern of found / orphaned victims (job absent from ssn.Jobs) and
   for a present or missing preemptor job: on victims with distinct UIDs it
   coincides with the lexicographic order of four keys - orphan first; the
   victim-queue order of the job's queue; the REVERSED job order; the REVERSED
   task order - each of which is a valid comparator. *)
From Coq Require Import ZArith List Bool Lia.
From Coq Require Import Permutation.
From V Require Import C11.Model C11.Spec C11.Lemmas C11.QueueModel C11.QueueLemmas C11.HeapModel C11.HeapLemmas.
Import ListNotations.
Open Scope Z_scope.

Definition cmp_opt {K} (c : K -> K -> Z) (a b : option K) : Z :=
  match a, b with
  | None, None => 0
  | None, Some _ => -1
  | Some _, None => 1
  | Some x, Some y => c x y
  end.

Lemma cmp_opt_valid : forall {K} (c : K -> K -> Z),
  valid_on everywhere c -> valid_on everywhere (cmp_opt c).
Proof.
  intros K c [A B]. split.
  - intros [x|] [y|] _ _; simpl; try lia. apply A; exact I.
  - intros [x|] [y|] [z|] _ _ _; simpl; try lia. apply B; exact I.
Qed.

Lemma valid_refl0 : forall {K} (c : K -> K -> Z), valid_on everywhere c -> forall x, c x x = 0.
Proof. intros K c [A _] x. pose proof (A x x I I). lia. Qed.

Lemma cmp_opt_refl : forall {K} (c : K -> K -> Z), valid_on everywhere c -> forall x, cmp_opt c x x = 0.
Proof. intros K c H [x|]; simpl; auto. apply valid_refl0; auto. Qed.

Definition cneg {K} (c : K -> K -> Z) (a b : K) : Z := - c a b.
Lemma cneg_valid : forall {K} (c : K -> K -> Z), valid_on everywhere c -> valid_on everywhere (cneg c).
Proof.
  intros K c [A B]. unfold cneg. split.
  - intros a b _ _. pose proof (A a b I I). pose proof (A b a I I). lia.
  - intros a b d _ _ _.
    pose proof (A a b I I). pose proof (A b a I I). pose proof (A b d I I). pose proof (A d b I I).
    pose proof (A a d I I). pose proof (A d a I I). pose proof (B d b a I I I). lia.
Qed.

Lemma valid_weaken : forall {T} (dom : T -> Prop) (c : T -> T -> Z),
  valid_on everywhere c -> valid_on dom c.
Proof. intros T dom c [A B]. split; intros; [apply A | eapply B]; unfold everywhere; eauto. Qed.

(* reversed (creation time, uid) as a 3-way comparator *)
Definition tb3 (a b : item) : Z :=
  if by_time_uid b a then -1 else if by_time_uid a b then 1 else 0.
Lemma btu_true : forall a b, by_time_uid a b = true <->
  (i_ctime a < i_ctime b \/ (i_ctime a = i_ctime b /\ i_uid a < i_uid b)).
Proof. intros a b. unfold by_time_uid. zcases; split; intros; try lia; try discriminate; auto. Qed.

Lemma btu_false : forall a b, by_time_uid a b = false <->
  ~ (i_ctime a < i_ctime b \/ (i_ctime a = i_ctime b /\ i_uid a < i_uid b)).
Proof.
  intros a b. rewrite <- btu_true. destruct (by_time_uid a b); split; intros; try discriminate; auto.
  exfalso; auto.
Qed.

Lemma tb3_valid : valid_on everywhere tb3.
Proof.
  unfold tb3. split.
  - intros a b _ _.
    destruct (by_time_uid b a) eqn:E1, (by_time_uid a b) eqn:E2;
      rewrite ?btu_true, ?btu_false in *; lia.
  - intros a b d _ _ _.
    destruct (by_time_uid b a) eqn:E1, (by_time_uid a b) eqn:E2,
             (by_time_uid d b) eqn:E3, (by_time_uid b d) eqn:E4,
             (by_time_uid d a) eqn:E5, (by_time_uid a d) eqn:E6;
      rewrite ?btu_true, ?btu_false in *; lia.
Qed.

Lemma lex_zero_last : forall {T} (cs : list (T -> T -> Z)) c a b,
  lex (cs ++ [c]) a b = 0 -> c a b = 0.
Proof.
  intros T cs c a b. rewrite lex_app. simpl.
  destruct (Z.eqb_spec (lex cs a b) 0); [|congruence].
  destruct (Z.eqb_spec (c a b) 0); auto.
Qed.

(* reduce the nested "first non-zero" of a slot list whose earlier answers are 0 *)
Ltac tail3 c :=
  destruct (Z.eqb_spec c 0) as [?E0|?E0]; simpl;
  [reflexivity | repeat (rewrite (proj2 (Z.eqb_neq c 0)) by assumption; simpl); reflexivity].

Section VictimOrder.
  Variable task_ts job_ts queue_ts vq_ts : layout (item -> item -> Z).
  Variable jobs : Z -> option vjob.
  Variable queues : Z -> option item.
  Variable pj : Z.
  Hypothesis Ht : all_valid everywhere task_ts.
  Hypothesis Hj : all_valid everywhere job_ts.
  Hypothesis Hq : all_valid everywhere queue_ts.
  Hypothesis Hv : all_valid everywhere (force_en_all vq_ts).
  Hypothesis Hqinj : forall q1 q2 a b, q1 <> q2 -> queues q1 = Some a -> queues q2 = Some b ->
                                       i_uid a <> i_uid b.

  (* the victim-queue order of two queues as one 3-way comparator *)
  Definition cq : item -> item -> Z :=
    lex (actives (force_en_all vq_ts) ++ [cneg (cmp_tiers queue_ts); tb3]).

  Lemma cq_valid : valid_on everywhere cq.
  Proof.
    unfold cq. apply valid_lex. apply Forall_app. split.
    - apply Forall_forall. intros c Hc. apply in_actives in Hc.
      destruct Hc as [t [p [? [? [? <-]]]]]. eapply Hv; eauto.
    - constructor; [|constructor; [exact tb3_valid | constructor]].
      apply cneg_valid. apply valid_cmp_tiers. exact Hq.
  Qed.

  Lemma vq_as_cq : forall a b, i_uid a <> i_uid b ->
    victim_queue_order_fn vq_ts queue_ts a b = (cq a b <? 0).
  Proof.
    intros a b Hu. unfold victim_queue_order_fn, queue_order_fn, order_fn, cq.
    rewrite lex_app, cmp_tiers_first_distinguishing.
    destruct (Z.eqb_spec (lex (actives (force_en_all vq_ts)) a b) 0) as [E|E]; [|reflexivity].
    simpl. unfold cneg, tb3. pose proof (by_time_uid_total a b Hu) as Hf.
    destruct (Z.eqb_spec (cmp_tiers queue_ts a b) 0) as [E2|E2].
    - rewrite E2. simpl. rewrite Hf. destruct (by_time_uid b a); simpl; reflexivity.
    - destruct (Z.eqb_spec (- cmp_tiers queue_ts a b) 0); [lia|].
      destruct (Z.ltb_spec (cmp_tiers queue_ts a b) 0), (Z.ltb_spec (- cmp_tiers queue_ts a b) 0);
        simpl; auto; lia.
  Qed.

  Lemma cq_nonzero : forall a b, i_uid a <> i_uid b -> cq a b <> 0.
  Proof.
    intros a b Hu E. unfold cq in E.
    replace (actives (force_en_all vq_ts) ++ [cneg (cmp_tiers queue_ts); tb3])
      with ((actives (force_en_all vq_ts) ++ [cneg (cmp_tiers queue_ts)]) ++ [tb3]) in E
      by (rewrite <- app_assoc; reflexivity).
    apply lex_zero_last in E. unfold tb3 in E. pose proof (by_time_uid_total a b Hu) as Hf.
    destruct (by_time_uid b a); [discriminate|]. rewrite Hf in E. simpl in E. discriminate.
  Qed.

  Theorem victim_queue_order_as_cmp :
    valid_on everywhere cq /\
    forall a b, i_uid a <> i_uid b ->
      victim_queue_order_fn vq_ts queue_ts a b = (cq a b <? 0) /\ cq a b <> 0.
  Proof.
    split; [exact cq_valid|]. intros a b Hu. split; [apply vq_as_cq | apply cq_nonzero]; exact Hu.
  Qed.

  (* the four keys of a victim *)
  Definition jk (t : vtask) : option vjob := jobs (vt_job t).
  Definition dummy_queue : item := mkItem 0 0 0 None.
  Definition qk (t : vtask) : option item :=
    match jk t with
    | None => None
    | Some j => match jobs pj with
                | Some _ => queues (vj_queue j)
                | None => Some dummy_queue          (* no preemptor job: queues are not consulted *)
                end
    end.
  Definition c_orphan (l r : vtask) : Z := cmp_opt (fun _ _ : vjob => 0) (jk l) (jk r).
  Definition c_queue (l r : vtask) : Z := cmp_opt cq (qk l) (qk r).
  Definition c_job (l r : vtask) : Z :=
    cmp_opt (fun a b : vjob => cneg (cmp_tiers job_ts) (vj_item a) (vj_item b)) (jk l) (jk r).
  Definition rev_task (l r : vtask) : bool := task_order_fn task_ts (vt_item r) (vt_item l).
  Definition victim_layout : layout (vtask -> vtask -> Z) :=
    [[mkSlot true true c_orphan; mkSlot true true c_queue; mkSlot true true c_job]].

  Lemma cj_valid : valid_on everywhere (fun a b : vjob => cneg (cmp_tiers job_ts) (vj_item a) (vj_item b)).
  Proof.
    apply (valid_on_proj vj_item (cneg (cmp_tiers job_ts)) everywhere).
    apply cneg_valid. apply valid_cmp_tiers. exact Hj.
  Qed.

  Lemma victim_layout_valid : forall dom, all_valid dom victim_layout.
  Proof.
    intros dom t p Hin Hp _. destruct Hin as [<-|[]].
    destruct Hp as [<-|[<-|[<-|[]]]]; simpl; apply valid_weaken.
    - apply (valid_on_proj jk (cmp_opt (fun _ _ : vjob => 0)) everywhere).
      apply cmp_opt_valid. apply cmp_zero_valid.
    - apply (valid_on_proj qk (cmp_opt cq) everywhere). apply cmp_opt_valid. exact cq_valid.
    - apply (valid_on_proj jk _ everywhere). apply cmp_opt_valid. exact cj_valid.
  Qed.

  (* MAIN 1: on two victims with different UIDs the less function IS the
     lexicographic order of the four keys *)
  Theorem victim_less_as_order : forall l r b,
    i_uid (vt_item l) <> i_uid (vt_item r) ->
    victim_less task_ts job_ts queue_ts vq_ts jobs queues pj l r = Some b ->
    b = order_fn victim_layout rev_task l r.
  Proof.
    intros l r b Hu. unfold victim_less, order_fn, victim_layout. simpl.
    unfold c_orphan, c_queue, c_job, qk, jk, rev_task.
    assert (TF : negb (task_order_fn task_ts (vt_item l) (vt_item r)) =
                 task_order_fn task_ts (vt_item r) (vt_item l)).
    { rewrite (task_flip task_ts Ht _ _ Hu), negb_involutive. reflexivity. }
    assert (JT : forall lj rj,
      job_then_task task_ts job_ts lj rj l r =
      (let c := cneg (cmp_tiers job_ts) (vj_item lj) (vj_item rj) in
       if c =? 0 then task_order_fn task_ts (vt_item r) (vt_item l) else c <? 0)).
    { intros lj rj. unfold job_then_task, cneg. rewrite TF.
      destruct (Z.eqb_spec (cmp_tiers job_ts (vj_item lj) (vj_item rj)) 0),
               (Z.eqb_spec (- cmp_tiers job_ts (vj_item lj) (vj_item rj)) 0); try lia; auto.
      all: destruct (Z.ltb_spec 0 (cmp_tiers job_ts (vj_item lj) (vj_item rj))),
               (Z.ltb_spec (- cmp_tiers job_ts (vj_item lj) (vj_item rj)) 0); auto; lia. }
    destruct (Z.eqb_spec (vt_job l) (vt_job r)) as [Ej|Ej].
    - (* one job id *)
      intros H. inversion H. rewrite Ej.
      rewrite (cmp_opt_refl (fun _ _ : vjob => 0) cmp_zero_valid). simpl.
      assert (Q0 : cmp_opt cq (match jobs (vt_job r) with
                               | Some j => match jobs pj with Some _ => queues (vj_queue j) | None => Some dummy_queue end
                               | None => None end)
                          (match jobs (vt_job r) with
                               | Some j => match jobs pj with Some _ => queues (vj_queue j) | None => Some dummy_queue end
                               | None => None end) = 0) by (apply cmp_opt_refl; exact cq_valid).
      rewrite Q0. simpl. rewrite (cmp_opt_refl _ cj_valid). simpl. exact TF.
    - destruct (jobs (vt_job l)) as [lj|] eqn:El, (jobs (vt_job r)) as [rj|] eqn:Er; simpl.
      + destruct (jobs pj) eqn:Ep.
        * destruct (Z.eqb_spec (vj_queue lj) (vj_queue rj)) as [Eq|Eq].
          -- intros H. injection H as <-. rewrite Eq. rewrite (cmp_opt_refl cq cq_valid). simpl.
             rewrite JT. cbv zeta. set (c := cneg (cmp_tiers job_ts) (vj_item lj) (vj_item rj)). tail3 c.
          -- destruct (queues (vj_queue lj)) as [lq|] eqn:Ql, (queues (vj_queue rj)) as [rq|] eqn:Qr;
               try discriminate.
             intros H. injection H as <-. simpl.
             assert (Hqu : i_uid lq <> i_uid rq) by (eapply Hqinj; eauto).
             rewrite (vq_as_cq lq rq Hqu). pose proof (cq_nonzero lq rq Hqu) as Hnz.
             set (c := cq lq rq) in *.
             repeat (rewrite (proj2 (Z.eqb_neq c 0)) by assumption; simpl). reflexivity.
        * intros H. injection H as <-. simpl. rewrite (valid_refl0 cq cq_valid). simpl.
          rewrite JT. cbv zeta. set (c := cneg (cmp_tiers job_ts) (vj_item lj) (vj_item rj)). tail3 c.
      + intros H. injection H as <-. reflexivity.
      + intros H. injection H as <-. reflexivity.
      + intros H. injection H as <-. exact TF.
  Qed.

  (* MAIN 2: hence a strict weak order on every set of victims whose pod names
     are of one kind (the task tie-break needs it) *)
  Theorem victim_order_strict_weak : forall k,
    swo_on (fun t => idx_kind k (vt_item t)) (order_fn victim_layout rev_task).
  Proof.
    intros k. apply lex_order_strict_weak.
    - apply victim_layout_valid.
    - (* the reversed task order is a strict weak order *)
      assert (S : swo_on (idx_kind k) (task_order_fn task_ts)).
      { apply lex_order_strict_weak; [|apply compare_task_swo].
        intros t p H1 H2 H3. apply valid_weaken. eapply Ht; eauto. }
      destruct S as [As Nt]. unfold rev_task. split.
      + intros a b Ha Hb H. apply As; auto.
      + intros a b d Ha Hb Hd H. destruct (Nt (vt_item d) (vt_item b) (vt_item a) Hd Hb Ha H); auto.
  Qed.

  (* MAIN 3: transitivity of the less function itself, for every orphan pattern
     (the third comparison being defined, i.e. no victim job names a missing queue) *)
  Theorem victim_less_transitive : forall k l m r,
    idx_kind k (vt_item l) -> idx_kind k (vt_item m) -> idx_kind k (vt_item r) ->
    i_uid (vt_item l) <> i_uid (vt_item m) -> i_uid (vt_item m) <> i_uid (vt_item r) ->
    i_uid (vt_item l) <> i_uid (vt_item r) ->
    victim_less task_ts job_ts queue_ts vq_ts jobs queues pj l m = Some true ->
    victim_less task_ts job_ts queue_ts vq_ts jobs queues pj m r = Some true ->
    victim_less task_ts job_ts queue_ts vq_ts jobs queues pj l r <> None ->
    victim_less task_ts job_ts queue_ts vq_ts jobs queues pj l r = Some true.
  Proof.
    intros k l m r Hl Hm Hr U1 U2 U3 H1 H2 H3.
    destruct (victim_less task_ts job_ts queue_ts vq_ts jobs queues pj l r) as [b|] eqn:E; [|congruence].
    apply victim_less_as_order in H1; auto. apply victim_less_as_order in H2; auto.
    apply victim_less_as_order in E; auto. f_equal. subst b.
    eapply (swo_trans _ _ (victim_order_strict_weak k) l m r); auto.
  Qed.

  (* ---- the diagonal: what is NOT true.  Both victim orders answer TRUE on
     (x, x) - Go: `return !ssn.TaskOrderFn(l, r)` / `return !ssn.QueueOrderFn(l, r)` -
     so they are not irreflexive, hence not strict weak orders in the literal
     sense; their restriction to different elements is (theorems above) ---- *)
  Theorem victim_less_diag : forall l,
    victim_less task_ts job_ts queue_ts vq_ts jobs queues pj l l = Some true.
  Proof.
    intros l. unfold victim_less. rewrite Z.eqb_refl.
    unfold task_order_fn, order_fn.
    rewrite (valid_refl0 _ (valid_cmp_tiers everywhere task_ts Ht)). simpl.
    assert (C : compare_task (vt_item l) (vt_item l) = false).
    { unfold compare_task, by_time_uid. destruct (i_pidx (vt_item l)); rewrite ?Z.eqb_refl, Z.ltb_irrefl; reflexivity. }
    rewrite C. reflexivity.
  Qed.

  Theorem victim_queue_order_diag : forall a, victim_queue_order_fn vq_ts queue_ts a a = true.
  Proof.
    intros a. unfold victim_queue_order_fn, queue_order_fn, order_fn.
    rewrite (valid_refl0 _ (valid_cmp_tiers everywhere _ Hv)). simpl.
    rewrite (valid_refl0 _ (valid_cmp_tiers everywhere _ Hq)). simpl.
    unfold by_time_uid. rewrite Z.eqb_refl, Z.ltb_irrefl. reflexivity.
  Qed.

  (* ---- the victims queue pops in the victim order ---- *)
  Definition vless (l r : vtask) : bool :=
    match victim_less task_ts job_ts queue_ts vq_ts jobs queues pj l r with
    | Some b => b
    | None => false
    end.

  Variable U : list vtask.                 (* the victims handed to BuildVictimsPriorityQueue *)
  Variable k : bool.
  Hypothesis U_uids : NoDup (map (fun t => i_uid (vt_item t)) U).
  Hypothesis U_kind : forall t, In t U -> idx_kind k (vt_item t).
  Hypothesis U_defined : forall l r, In l U -> In r U ->
    victim_less task_ts job_ts queue_ts vq_ts jobs queues pj l r <> None.

  Lemma U_distinct : forall a b, In a U -> In b U -> a <> b -> i_uid (vt_item a) <> i_uid (vt_item b).
  Proof.
    clear U_kind U_defined. induction U as [|x xs IH]; intros a b Ha Hb Hab E; [destruct Ha|].
    simpl in U_uids. inversion U_uids as [|? ? Hn Hnd]; subst.
    destruct Ha as [<-|Ha], Hb as [<-|Hb].
    - congruence.
    - apply Hn. rewrite E. apply in_map_iff. exists b. auto.
    - apply Hn. rewrite <- E. apply in_map_iff. exists a. auto.
    - apply (IH Hnd a b); auto.
  Qed.

  Lemma vless_eq : forall a b, In a U -> In b U -> a <> b ->
    vless a b = order_fn victim_layout rev_task a b.
  Proof.
    intros a b Ha Hb Hab. unfold vless.
    destruct (victim_less task_ts job_ts queue_ts vq_ts jobs queues pj a b) as [x|] eqn:E.
    - apply (victim_less_as_order a b x); [apply U_distinct; auto | exact E].
    - exfalso. exact (U_defined a b Ha Hb E).
  Qed.

  Lemma vtask_eq_dec : forall a b : vtask, {a = b} + {a <> b}.
  Proof.
    decide equality; try apply Z.eq_dec.
    decide equality; try apply Z.eq_dec. decide equality. apply Z.eq_dec.
  Qed.

  (* MAIN: pushing the victims and popping until empty never fails and yields a
     permutation in which no later victim precedes an earlier one *)
  Theorem victims_queue_pops_in_order :
    exists out, heap_sort vless U = Some out /\ Permutation out U /\ sorted_by vless out.
  Proof.
    destruct (victim_order_strict_weak k) as [As Nt].
    apply (heap_sort_sorted vless (mkVTask (mkItem 0 0 0 None) 0) (fun t => In t U) vtask_eq_dec).
    - intros a b Ha Hb Hab H. rewrite vless_eq in H by auto. rewrite vless_eq by auto.
      apply As; auto.
    - intros a b c Ha Hb Hc N1 N2 N3 H. rewrite vless_eq in H by auto.
      rewrite !vless_eq by auto. apply Nt; auto.
    - apply Forall_forall. auto.
  Qed.
End VictimOrder.

(* the session order functions and the heap, composed: for every layout of
   comparators valid on a set and every tie-break that is a strict weak order
   on it, a PriorityQueue built on the session order pops the elements of the set
   in that order - after any history (heap_pop_minimal) and for push-all/pop-all *)
Section OrderHeap.
  Context {T : Type}.
  Variable dom : T -> Prop.
  Variable ts : layout (T -> T -> Z).
  Variable tb : T -> T -> bool.
  Variable d : T.
  Hypothesis T_eq_dec : forall a b : T, {a = b} + {a <> b}.
  Hypothesis Hts : all_valid dom ts.
  Hypothesis Htb : swo_on dom tb.

  Theorem session_queue_pop_minimal : forall ops l outs x rest,
    Forall dom (pushed ops) ->
    run (order_fn ts tb) ops = (Some l, outs) -> pop (order_fn ts tb) l = PopOk x rest ->
    (forall y, In y l -> y = x \/ order_fn ts tb y x = false) /\ Permutation (x :: rest) l.
  Proof.
    destruct (lex_order_strict_weak dom ts tb Hts Htb) as [As Nt].
    apply (heap_pop_minimal (order_fn ts tb) d dom T_eq_dec).
    - intros a b Ha Hb _ H. apply As; auto.
    - intros a b c Ha Hb Hc _ _ _ H. apply Nt; auto.
  Qed.

  Theorem session_queue_pops_in_order : forall xs, Forall dom xs ->
    exists out, heap_sort (order_fn ts tb) xs = Some out /\ Permutation out xs /\
                sorted_by (order_fn ts tb) out.
  Proof.
    destruct (lex_order_strict_weak dom ts tb Hts Htb) as [As Nt].
    apply (heap_sort_sorted (order_fn ts tb) d dom T_eq_dec).
    - intros a b Ha Hb _ H. apply As; auto.
    - intros a b c Ha Hb Hc _ _ _ H. apply Nt; auto.
  Qed.
End OrderHeap.

(* non-vacuity: a concrete victims queue meeting the hypotheses - two found jobs
   in two queues, two victims orphaned from two DIFFERENT missing jobs, one
   enabled registered comparator per order *)
Definition ex_vjobs (k : Z) : option vjob :=
  if k =? 0 then Some (mkVJob (mkItem 0 1 10 None) 0)
  else if k =? 1 then Some (mkVJob (mkItem 1 2 11 None) 1) else None.
Definition ex_vqueues (k : Z) : option item :=
  if k =? 0 then Some (mkItem 0 1 20 None) else if k =? 1 then Some (mkItem 1 2 21 None) else None.
Definition ex_victims : list vtask :=
  [mkVTask (mkItem 0 1 1 (Some 0)) 0; mkVTask (mkItem 1 2 2 (Some 1)) 1;
   mkVTask (mkItem 2 3 3 (Some 2)) 7; mkVTask (mkItem 3 4 4 (Some 0)) 8; mkVTask (mkItem 4 0 5 (Some 1)) 0].
Definition ex_vless := vless ex_layout ex_layout ex_layout [] ex_vjobs ex_vqueues 0.

Example victims_queue_nonvacuous :
  all_valid everywhere ex_layout /\
  NoDup (map (fun t => i_uid (vt_item t)) ex_victims) /\
  (forall t, In t ex_victims -> idx_kind true (vt_item t)) /\
  forallb (fun l => forallb (fun r =>
     match victim_less ex_layout ex_layout ex_layout [] ex_vjobs ex_vqueues 0 l r with
     | Some _ => true | None => false end) ex_victims) ex_victims = true /\
  (* orphans (uids 4, 3: two different missing jobs) first, then queue 1's victim, then queue 0's *)
  option_map (map (fun t => i_uid (vt_item t))) (heap_sort ex_vless ex_victims) = Some [4; 3; 2; 1; 5] /\
  (* the diagonal of the less function is TRUE *)
  forallb (fun t => ex_vless t t) ex_victims = true.
Proof.
  split; [exact ex_layout_valid|]. split.
  - simpl. repeat constructor; simpl; intuition discriminate.
  - split; [|vm_compute; auto].
    intros t Ht. simpl in Ht. unfold idx_kind.
    repeat (destruct Ht as [<-|Ht]; [simpl; discriminate|]). destruct Ht.
Qed.
