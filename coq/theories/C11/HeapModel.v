(* C11 — executable model of util.PriorityQueue (pkg/scheduler/util/
   priority_queue.go) over Go's container/heap: the backing slice is a list,
   `up` and `down` are the loops of container/heap with explicit fuel, and every
   slice access is an [nth_error] whose failure is the error result [None]
   (theorems in HeapLemmas.v show it never happens). *)
From Coq Require Import ZArith List Bool Arith.
Import ListNotations.

Section Heap.
  Context {A : Type}.
  Variable less : A -> A -> bool.     (* pq.lessFn(items[i], items[j]) *)

  Fixpoint upd (l : list A) (i : nat) (x : A) : list A :=
    match l, i with
    | [], _ => []
    | _ :: r, O => x :: r
    | a :: r, S k => a :: upd r k x
    end.

  (* Swap(i, j) for two positions whose current contents are xi, xj *)
  Definition swap_with (l : list A) (i j : nat) (xi xj : A) : list A :=
    upd (upd l i xj) j xi.

  (* func up(h, j): for { i := (j-1)/2; if i == j || !h.Less(j, i) { break }; h.Swap(i, j); j = i }
     (Go's integer division truncates towards zero, so j = 0 gives i = 0; on
     nat, 0 - 1 = 0 gives the same) *)
  Fixpoint up (fuel : nat) (l : list A) (j : nat) : option (list A) :=
    match fuel with
    | O => None
    | S f =>
        let i := (j - 1) / 2 in
        if i =? j then Some l
        else match nth_error l j, nth_error l i with
             | Some xj, Some xi =>
                 if less xj xi then up f (swap_with l i j xi xj) i else Some l
             | _, _ => None
             end
    end.

  (* heap.Push: h.Push(x) (append); up(h, h.Len()-1) *)
  Definition push (l : list A) (x : A) : option (list A) :=
    up (S (length l)) (l ++ [x]) (length l).

  (* func down(h, i0, n): for { j1 := 2*i+1; if j1 >= n { break }; j := j1;
       if j2 := j1+1; j2 < n && h.Less(j2, j1) { j = j2 };
       if !h.Less(j, i) { break }; h.Swap(i, j); i = j } *)
  Fixpoint down (fuel : nat) (l : list A) (i n : nat) : option (list A) :=
    match fuel with
    | O => None
    | S f =>
        let j1 := 2 * i + 1 in
        if n <=? j1 then Some l
        else match nth_error l j1, nth_error l i with
             | Some x1, Some xi =>
                 let pick :=
                   if S j1 <? n
                   then match nth_error l (S j1) with
                        | Some x2 => Some (if less x2 x1 then (S j1, x2) else (j1, x1))
                        | None => None
                        end
                   else Some (j1, x1) in
                 match pick with
                 | Some (j, xj) =>
                     if less xj xi then down f (swap_with l i j xi xj) j n else Some l
                 | None => None
                 end
             | _, _ => None
             end
    end.

  Inductive pop_result :=
  | PopEmpty                        (* q.Len() == 0: Pop returns nil *)
  | PopErr                          (* index out of range / fuel: never (HeapLemmas) *)
  | PopOk (x : A) (rest : list A).

  (* PriorityQueue.Pop -> heap.Pop: n := Len()-1; Swap(0, n); down(0, n); remove last *)
  Definition pop (l : list A) : pop_result :=
    match l with
    | [] => PopEmpty
    | x0 :: _ =>
        let n := length l - 1 in
        match nth_error l n with
        | None => PopErr
        | Some xn =>
            match down (S (length l)) (swap_with l 0 n x0 xn) 0 n with
            | None => PopErr
            | Some l2 => match nth_error l2 n with
                         | Some x => PopOk x (firstn n l2)
                         | None => PopErr
                         end
            end
        end
    end.

  (* a queue history: Push x / Pop; the observable is what every Pop returned
     (None for the nil of an empty queue) and the final backing slice *)
  Inductive op := OpPush (x : A) | OpPop.

  Definition step (st : option (list A) * list (option A)) (o : op)
    : option (list A) * list (option A) :=
    match st with
    | (None, outs) => (None, outs)
    | (Some l, outs) =>
        match o with
        | OpPush x => (push l x, outs)
        | OpPop => match pop l with
                   | PopEmpty => (Some l, outs ++ [None])
                   | PopErr => (None, outs)
                   | PopOk x rest => (Some rest, outs ++ [Some x])
                   end
        end
    end.

  Definition run (ops : list op) : option (list A) * list (option A) :=
    fold_left step ops (Some [], []).

  (* push everything, then pop until empty (BuildVictimsPriorityQueue + the
     drain loop of its callers) *)
  Fixpoint drain (fuel : nat) (l : list A) : option (list A) :=
    match fuel with
    | O => match l with [] => Some [] | _ => None end
    | S f => match pop l with
             | PopEmpty => Some []
             | PopErr => None
             | PopOk x rest => match drain f rest with
                               | Some out => Some (x :: out)
                               | None => None
                               end
             end
    end.

  Definition push_all (xs : list A) : option (list A) :=
    fold_left (fun st x => match st with Some l => push l x | None => None end) xs (Some []).

  Definition heap_sort (xs : list A) : option (list A) :=
    match push_all xs with
    | Some l => drain (length l) l
    | None => None
    end.
End Heap.
