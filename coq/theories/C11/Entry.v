(* Entry point of the C11 correspondence: selector + tokens -> tokens.
   Selectors < 100 run the model on the decoded input; selectors >= 100
   evaluate a law on the implementation's own results. *)
From Coq Require Import ZArith List Bool.
From V Require Import Base.Codec C11.Model C11.Spec C11.HeapModel C11.Laws C11.QueueModel.
Import ListNotations.
Open Scope Z_scope.

Definition tag (i : Z) : list Z := [-100 - i].
Definition eZ (z : Z) : list Z := [z].
Definition model_error : list Z := [-777].

(* enable flag: 0 = nil pointer, 1 = pointer to false, 2 = pointer to true *)
Definition dSlot {A} (dA : dec A) : dec (slot A) :=
  let* en := dZ in let* reg := dBool in let* a := dA in ret (mkSlot (en =? 2) reg a).
Definition dLayout {A} (dA : dec A) : dec (layout A) := dList (dList (dSlot dA)).
Definition dVote : dec vote := let* f := dZ in let* c := dList dZ in ret (mkVote f c).

Fixpoint number (k : Z) (l : list (Z * Z * option Z)) : list item :=
  match l with
  | [] => []
  | (c, u, p) :: r => mkItem k c u p :: number (k + 1) r
  end.
Definition dItems : dec (list item) :=
  let* l := dList (let* c := dZ in let* u := dZ in let* p := dOpt dZ in ret (c, u, p)) in
  ret (number 0 l).

(* a scripted comparator is an n x n table indexed by item position; the
   table has exactly n*n entries and positions are < n, so the default of nth
   is never used *)
Definition dTable (n : nat) : dec (item -> item -> Z) :=
  let* tbl := dRep (n * n) dZ in
  ret (fun l r => nth (Z.to_nat (i_id l * Z.of_nat n + i_id r)) tbl 0).

Definition eMatB {T} (xs : list T) (f : T -> T -> bool) : list Z :=
  flat_map (fun a => flat_map (fun b => eBool (f a b)) xs) xs.
Definition eMatZ {T} (xs : list T) (f : T -> T -> Z) : list Z :=
  flat_map (fun a => flat_map (fun b => [f a b]) xs) xs.

(* n x n boolean matrix returned by the implementation, read as a relation on items *)
Definition dMat (n : nat) : dec (item -> item -> bool) :=
  let* m := dRep (n * n) dBool in
  ret (fun l r => nth (Z.to_nat (i_id l * Z.of_nat n + i_id r)) m false).

(* --- items with plugin keys (real comparators) --- *)
Definition kitem := (item * jkeys)%type.
Fixpoint knumber (k : Z) (l : list (Z * Z * option Z * jkeys)) : list kitem :=
  match l with
  | [] => []
  | (c, u, p, ks) :: r => (mkItem k c u p, ks) :: knumber (k + 1) r
  end.
Definition dKItems : dec (list kitem) :=
  let* l := dList (let* c := dZ in let* u := dZ in let* p := dOpt dZ in
                   let* pr := dZ in let* rd := dBool in let* sh := dZ in let* dl := dOpt dZ in
                   ret (c, u, p, mkJKeys pr rd sh dl)) in
  ret (knumber 0 l).
Definition klayout (role : Z) (ts : layout Z) : layout (kitem -> kitem -> Z) :=
  map (map (fun s => mkSlot (s_en s) (s_reg s && plugin_registers role (s_ans s))
                            (fun (l r : kitem) => real_cmp (s_ans s) (snd l) (snd r)))) ts.
Definition ktb (role : Z) (l r : kitem) : bool :=
  if role =? 2 then compare_task (fst l) (fst r) else by_time_uid (fst l) (fst r).
(* the same comparators seen as comparators on the bare items (for the law) *)
Definition klayout_items (role : Z) (ks : list kitem) (ts : layout Z) : layout (item -> item -> Z) :=
  let key (it : item) : jkeys :=
      match find (fun k => i_id (fst k) =? i_id it) ks with
      | Some k => snd k
      | None => mkJKeys 0 false 0 None
      end in
  map (map (fun s => mkSlot (s_en s) (s_reg s && plugin_registers role (s_ans s))
                            (fun (l r : item) => real_cmp (s_ans s) (key l) (key r)))) ts.

(* --- heap --- *)
Definition heap_less (mode : Z) (a b : Z) : bool :=
  match mode with
  | 0 => a / 16 <? b / 16
  | 1 => a / 16 <=? b / 16
  | _ => b / 16 <? a / 16
  end.
Definition dOp : dec (op (A:=Z)) :=
  let* k := dZ in if k =? 0 then ret OpPop else let* x := dZ in ret (OpPush x).

(* run the history and print, after every operation, what Pop returned
   (0 for Push, else option) and the backing slice *)
Fixpoint heap_trace (mode : Z) (l : list Z) (ops : list (op (A:=Z))) : list Z :=
  match ops with
  | [] => []
  | OpPush x :: r => match push (heap_less mode) l x with
                     | Some l' => [0] ++ eList eZ l' ++ heap_trace mode l' r
                     | None => model_error
                     end
  | OpPop :: r => match pop (heap_less mode) l with
                  | PopEmpty => eOpt eZ None ++ eList eZ l ++ heap_trace mode l r
                  | PopErr => model_error
                  | PopOk x l' => eOpt eZ (Some x) ++ eList eZ l' ++ heap_trace mode l' r
                  end
  end.

(* --- BuildVictimsPriorityQueue --- *)
Record vq_input := mkVQ {
  q_tasks : list vtask;
  q_jobs : list vjob;          (* job id = position *)
  q_queues : list item;        (* queue id = position *)
  q_pre : Z;
  q_tts : layout (item -> item -> Z);
  q_jts : layout (item -> item -> Z);
  q_qts : layout (item -> item -> Z);
  q_vts : layout (item -> item -> Z)
}.
Definition lookup {A} (l : list A) (k : Z) : option A :=
  if k <? 0 then None else nth_error l (Z.to_nat k).
Fixpoint mk_vtasks (k : Z) (l : list (Z * Z * option Z * Z)) : list vtask :=
  match l with
  | [] => []
  | (c, u, p, j) :: r => mkVTask (mkItem k c u p) j :: mk_vtasks (k + 1) r
  end.
Fixpoint mk_vjobs (k : Z) (l : list (Z * Z * Z)) : list vjob :=
  match l with
  | [] => []
  | (c, u, q) :: r => mkVJob (mkItem k c u None) q :: mk_vjobs (k + 1) r
  end.
Definition dVQ : dec vq_input :=
  let* ts := dList (let* c := dZ in let* u := dZ in let* p := dOpt dZ in let* j := dZ in ret (c, u, p, j)) in
  let* js := dList (let* c := dZ in let* u := dZ in let* q := dZ in ret (c, u, q)) in
  let* qs := dList (let* c := dZ in let* u := dZ in ret (c, u, @None Z)) in
  let* pre := dZ in
  let* tts := dLayout (dTable (length ts)) in
  let* jts := dLayout (dTable (length js)) in
  let* qts := dLayout (dTable (length qs)) in
  let* vts := dLayout (dTable (length qs)) in
  ret (mkVQ (mk_vtasks 0 ts) (mk_vjobs 0 js) (number 0 qs) pre tts jts qts vts).
Definition vq_less (i : vq_input) (l r : vtask) : option bool :=
  victim_less (q_tts i) (q_jts i) (q_qts i) (q_vts i)
              (lookup (q_jobs i)) (lookup (q_queues i)) (q_pre i) l r.
(* every pair of victims is comparable (no victim job names a missing queue) *)
Definition vq_defined (i : vq_input) : bool :=
  forallb (fun l => forallb (fun r => match vq_less i l r with Some _ => true | None => false end)
                            (q_tasks i)) (q_tasks i).
Definition vq_less_b (i : vq_input) (l r : vtask) : bool :=
  match vq_less i l r with Some b => b | None => false end.
Definition vt_uid (t : vtask) : Z := i_uid (vt_item t).

(* --- queues with the keys of the shipped queue comparators (selector 6) --- *)
Definition dQNode : dec qnode := let* sh := dZ in let* f := dBool in ret (mkQNode sh f).
Fixpoint rnumber (k : Z) (l : list (Z * Z * Z * bool * list Z * list qnode)) : list rqueue :=
  match l with
  | [] => []
  | (c, u, pr, lf, anc, ns) :: r => mkRQueue (mkItem k c u None) pr lf anc ns :: rnumber (k + 1) r
  end.
Definition dRQueues : dec (list rqueue) :=
  let* l := dList (let* c := dZ in let* u := dZ in let* pr := dZ in let* lf := dBool in
                   let* anc := dList dZ in let* ns := dList dQNode in ret (c, u, pr, lf, anc, ns)) in
  ret (rnumber 0 l).
Record rq_input := mkRQI {
  ri_pk : Z;                   (* 5 proportion, 6 capacity flat, 7 capacity hierarchical, 8 drf hdrf *)
  ri_en : bool;                (* EnabledQueueOrder of the plugin *)
  ri_pre : rqueue;             (* the preemptor queue of VictimQueueOrderFn *)
  ri_qs : list rqueue
}.
(* the trailing list is how the harness realises the keys; the model ignores it *)
Definition dRQI : dec rq_input :=
  let* pk := dZ in let* en := dZ in let* pre := dNat in let* qs := dRQueues in
  let* realisation := dList dZ in
  match nth_error qs pre with
  | Some p => ret (mkRQI pk (en =? 2) p qs)
  | None => fail
  end.
Definition ri_qts (i : rq_input) : layout (rqueue -> rqueue -> Z) :=
  [[mkSlot (ri_en i) true (real_queue_cmp (ri_pk i))]].
(* only the hierarchical capacity plugin registers a VictimQueueOrderFn *)
Definition ri_vts (i : rq_input) : layout (rqueue -> rqueue -> Z) :=
  if ri_pk i =? 7 then [[mkSlot true true (cmp_capacity_victim (ri_pre i))]] else [].
Definition rq_id (q : rqueue) : Z := i_id (rq_item q).
Definition rq_look (qs : list rqueue) (it : item) : rqueue :=
  match find (fun q => rq_id q =? i_id it) qs with
  | Some q => q
  | None => mkRQueue it 0 true [] []
  end.

Definition obool (o : option bool) : list Z :=
  match o with Some b => eBool b | None => model_error end.

Definition entry (sel : Z) (toks : list Z) : list Z :=
  match sel with
  (* 1: victim selection, one layout per extension point *)
  | 1 => match run_dec (let* a := dLayout dVote in let* b := dLayout dVote in
                        let* c := dLayout dVote in ret (a, b, c)) toks with
         | Some (a, b, c) =>
             tag 1 ++ eList eZ (reclaimable a) ++
             tag 2 ++ eList eZ (preemptable b) ++
             tag 3 ++ eList eZ (unified_evictable c)
         | None => bad_input end
  (* 2: boolean gates *)
  | 2 => match run_dec (let* jr := dLayout dBool in let* al := dLayout dBool in
                        let* pv := dLayout dBool in let* ov := dLayout dBool in
                        let* st := dLayout dBool in let* hp := dBool in
                        let* sr := dLayout dBool in
                        let* va := dLayout (dOpt (dPair dBool dZ)) in
                        let* pr := dLayout (dOpt dZ) in let* pp := dLayout (dOpt dZ) in
                        ret (jr, al, pv, ov, st, hp, sr, va, pr, pp)) toks with
         | Some (jr, al, pv, ov, st, hp, sr, va, pr, pp) =>
             tag 1 ++ eBool (job_ready jr) ++
             tag 2 ++ eBool (allocatable al) ++
             tag 3 ++ eBool (preemptive pv) ++
             tag 4 ++ eBool (overused ov) ++
             tag 5 ++ eBool (job_starving st) ++
             tag 6 ++ eBool (sub_job_ready hp jr sr) ++
             tag 7 ++ eOpt eZ (job_valid va) ++
             tag 8 ++ eOpt eZ (predicate_fn pr) ++
             tag 9 ++ eOpt eZ (pre_predicate_fn pp)
         | None => bad_input end
  (* 3: permit / reject votes *)
  | 3 => match run_dec (let* jp := dLayout dZ in let* je := dLayout dZ in let* hp := dBool in
                        let* sp := dLayout dZ in ret (jp, je, hp, sp)) toks with
         | Some (jp, je, hp, sp) =>
             tag 1 ++ eBool (job_pipelined jp) ++
             tag 2 ++ eBool (job_enqueueable je) ++
             tag 3 ++ eBool (sub_job_pipelined hp jp sp)
         | None => bad_input end
  (* 4: orderings with scripted comparator tables *)
  | 4 => match run_dec (let* its := dItems in
                        let* jt := dLayout (dTable (length its)) in
                        let* tk := dLayout (dTable (length its)) in
                        let* qt := dLayout (dTable (length its)) in
                        let* vt := dLayout (dTable (length its)) in
                        ret (its, jt, tk, qt, vt)) toks with
         | Some (its, jt, tk, qt, vt) =>
             tag 1 ++ eMatB its (job_order_fn jt) ++
             tag 2 ++ eMatZ its (cmp_tiers jt) ++
             tag 3 ++ eMatB its (task_order_fn tk) ++
             tag 4 ++ eMatZ its (cmp_tiers tk) ++
             tag 5 ++ eMatB its (queue_order_fn qt) ++
             tag 6 ++ eMatB its (victim_queue_order_fn vt qt)
         | None => bad_input end
  (* 5: orderings with the shipped plugins' comparators; role 0 job, 1 queue, 2 task *)
  | 5 => match run_dec (let* role := dZ in let* ks := dKItems in let* ts := dLayout dZ in
                        ret (role, ks, ts)) toks with
         | Some (role, ks, ts) =>
             let lt := order_fn (klayout role ts) (ktb role) in
             tag 1 ++ eMatB ks lt ++
             (* the items pushed in the given order into a PriorityQueue built on
                the session order function, then popped until empty *)
             tag 2 ++ match heap_sort lt ks with
                      | Some out => eList eZ (map (fun k => i_id (fst k)) out)
                      | None => model_error
                      end
         | None => bad_input end
  (* 6: QueueOrderFn / VictimQueueOrderFn of the shipped proportion, capacity and drf plugins *)
  | 6 => match run_dec dRQI toks with
         | Some i =>
             let lt := order_fn (ri_qts i) rq_tb in
             tag 1 ++ eMatB (ri_qs i) lt ++
             tag 2 ++ eMatB (ri_qs i) (victim_order_gen (ri_vts i) (ri_qts i) rq_tb) ++
             tag 3 ++ match heap_sort lt (ri_qs i) with
                      | Some out => eList eZ (map rq_id out)
                      | None => model_error
                      end
         | None => bad_input end
  (* 7: util.PriorityQueue history *)
  | 7 => match run_dec (let* mode := dZ in let* ops := dList dOp in ret (mode, ops)) toks with
         | Some (mode, ops) => heap_trace mode [] ops
         | None => bad_input end
  (* 8: BuildVictimsPriorityQueue, then Pop until empty *)
  | 8 => match run_dec dVQ toks with
         | Some i =>
             if vq_defined i
             then match heap_sort (vq_less_b i) (q_tasks i) with
                  | Some out =>
                      tag 1 ++ eList eZ (map vt_uid out) ++
                      (* the less function itself on ALL ordered pairs, diagonal included
                         (the harness reads the closure of the real queue) *)
                      tag 2 ++ eMatB (q_tasks i) (vq_less_b i)
                  | None => model_error
                  end
             else [-1]
         | None => bad_input end

  (* ---- laws on the implementation's results: must answer [1] ---- *)
  | 101 => match run_dec (let* ts := dLayout dVote in let* fe := dBool in let* got := dList dZ in
                          ret (ts, fe, got)) toks with
           | Some (ts, fe, got) => eBool (law_victims (if fe then force_en_all ts else ts) got)
           | None => bad_input end
  | 102 => match run_dec (let* k := dZ in let* ts := dLayout dBool in let* got := dBool in
                          ret (k, ts, got)) toks with
           | Some (k, ts, got) =>
               eBool (match k with 0 => law_all ts got | 1 => law_any ts got | _ => law_starving ts got end)
           | None => bad_input end
  | 112 => match run_dec (let* ts := dLayout (dOpt (dPair dBool dZ)) in let* got := dOpt dZ in
                          ret (ts, got)) toks with
           | Some (ts, got) => eBool (law_valid ts got) | None => bad_input end
  | 113 => match run_dec (let* ts := dLayout (dOpt dZ) in let* got := dOpt dZ in ret (ts, got)) toks with
           | Some (ts, got) => eBool (law_pred ts got) | None => bad_input end
  | 103 => match run_dec (let* ts := dLayout dZ in let* got := dBool in ret (ts, got)) toks with
           | Some (ts, got) => eBool (law_vote ts got) | None => bad_input end
  (* role 0: job / queue order (creation time, uid); role 2: task order *)
  | 104 => match run_dec (let* role := dZ in let* its := dItems in
                          let* ts := dLayout (dTable (length its)) in
                          let* m := dMat (length its) in ret (role, its, ts, m)) toks with
           | Some (role, its, ts, m) =>
               eBool (if role =? 2 then law_order its ts compare_task (uniform_idx its) m
                      else law_order its ts by_time_uid true m)
           | None => bad_input end
  (* 114: asymmetry + totality of TaskOrderFn (never signed); 124: negative
     transitivity (the only clause the CompareTask finding can explain) *)
  | 114 | 124 =>
      match run_dec (let* its := dItems in let* ts := dLayout (dTable (length its)) in
                     let* m := dMat (length its) in ret (its, ts, m)) toks with
      | Some (its, ts, m) =>
          eBool (if sel =? 114 then law_task_order_asym_total its ts m else law_task_order_negtrans its ts m)
      | None => bad_input end
  | 106 => match run_dec (let* its := dItems in
                          let* vt := dLayout (dTable (length its)) in
                          let* qt := dLayout (dTable (length its)) in
                          let* m := dMat (length its) in ret (its, vt, qt, m)) toks with
           | Some (its, vt, qt, m) => eBool (law_victim_queue_order its vt qt m)
           | None => bad_input end
  | 105 => match run_dec (let* role := dZ in let* ks := dKItems in let* ts := dLayout dZ in
                          let* m := dMat (length ks) in let* t2 := dZ in let* out := dList dZ in
                          ret (role, ks, ts, m, out)) toks with
           | Some (role, ks, ts, m, out) =>
               let its := map fst ks in
               let lts := klayout_items role ks ts in
               let tb := if role =? 2 then compare_task else by_time_uid in
               let guard := if role =? 2 then uniform_idx its else true in
               (* the key order: first distinguishing plugin key, then the tie-break *)
               let key_lt (a b : item) :=
                   let j := lex (actives lts) a b in if j =? 0 then tb a b else j <? 0 in
               let outs := flat_map (fun i => match find (fun it => i_id it =? i) its with
                                              | Some it => [it] | None => [] end) out in
               eBool (decided_b its lts tb m &&
                      implb guard (swo_b its m && total_b its m) &&
                      (* pop order: every item exactly once, no later item precedes an
                         earlier one - under the implementation's own answers and
                         under the key order *)
                      same_multiset out (map i_id its) &&
                      implb guard (law_sorted m outs && law_sorted key_lt outs))
           | None => bad_input end
  (* 116: the implementation's matrices agree with the key order (first
     distinguishing comparator, then creation time / UID), the victim order is the
     victim comparator else the reversed queue order, the pop order is a permutation.
     117: strict weak order on ALL triples, total on distinct UIDs, pop order sorted *)
  | 116 | 117 | 118 =>
      match run_dec (let* i := dRQI in let* t1 := dZ in let* m := dMat (length (ri_qs i)) in
                     let* t2 := dZ in let* vm := dMat (length (ri_qs i)) in
                     let* t3 := dZ in let* out := dList dZ in ret (i, m, vm, out)) toks with
      | Some (i, m, vm, out) =>
          let qs := ri_qs i in
          let its := map rq_item qs in
          let c (a b : item) := if ri_en i then real_queue_cmp (ri_pk i) (rq_look qs a) (rq_look qs b) else 0 in
          let key_lt (a b : item) := let j := c a b in if j =? 0 then by_time_uid a b else j <? 0 in
          let vc (a b : item) := if ri_pk i =? 7
                                 then cmp_capacity_victim (ri_pre i) (rq_look qs a) (rq_look qs b) else 0 in
          let outs := flat_map (fun k => match find (fun it => i_id it =? k) its with
                                         | Some it => [it] | None => [] end) out in
          if sel =? 116
          then eBool (all2 its (fun a b => Bool.eqb (m a b) (key_lt a b)) &&
                      all2 its (fun a b => Bool.eqb (vm a b)
                                             (let j := vc a b in if j =? 0 then negb (key_lt a b) else j <? 0)) &&
                      same_multiset out (map i_id its))
          else
            let ne (a b : item) := negb (i_id a =? i_id b) in
            if sel =? 117
            then
              (* what NO known finding can excuse: asymmetry and totality of the queue
                 order; the pop order sorted under the implementation's own answers
                 whenever those ARE a strict weak order on the set; exactly one
                 direction of the victim order on two different queues *)
              eBool (asym_b its m && total_b its m &&
                     implb (swo_b its m) (law_sorted m outs) &&
                     all2 its (fun a b => implb (ne a b) (Bool.eqb (vm a b) (negb (vm b a)))))
            else
              (* 118: negative transitivity of the queue order and transitivity of the
                 victim order on different queues - the clauses a subtree tie / a depth
                 tie explains; the harness signs a failure only if every violating
                 triple contains a pair that exhibits the mechanism *)
              eBool (negtrans_b its m &&
                     all3 its (fun a b d => implb (ne a b && ne b d && ne a d && vm a b && vm b d) (vm a d)))
      | None => bad_input end
  | 107 => match run_dec (let* mode := dZ in let* before := dList dZ in let* o := dOp in
                          let* ret_ := dOpt dZ in let* after := dList dZ in
                          ret (mode, before, o, ret_, after)) toks with
           | Some (mode, before, o, r, after) =>
               eBool (law_heap_step (heap_less mode) (negb (mode =? 1)) before o r after)
           | None => bad_input end
  | 108 => match run_dec (let* i := dVQ in let* out := dList dZ in let* t2 := dZ in
                          let* lm := dMat (length (q_tasks i)) in ret (i, out, lm)) toks with
           | Some (i, out, lm) =>
               (* the returned uids name victims of the input; compare them as tasks *)
               let find_t (u : Z) := find (fun t => vt_uid t =? u) (q_tasks i) in
               let outs := flat_map (fun u => match find_t u with Some t => [t] | None => [] end) out in
               let tits := map vt_item (q_tasks i) in
               let jits := map vj_item (q_jobs i) in
               (* sortedness needs what the theorem needs: valid comparators and
                  pod indexes of one kind; the multiset part is unconditional *)
               let hyp := layout_valid_b tits (q_tts i) && layout_valid_b jits (q_jts i) &&
                          layout_valid_b (q_queues i) (q_qts i) &&
                          layout_valid_b (q_queues i) (force_en_all (q_vts i)) && uniform_idx tits in
               let lmt (a b : vtask) := lm (vt_item a) (vt_item b) in
               let distinct (a b : vtask) := negb (i_id (vt_item a) =? i_id (vt_item b)) in
               let ts := q_tasks i in
               eBool (vq_defined i &&
                      same_multiset out (map vt_uid (q_tasks i)) &&
                      implb hyp
                        (law_sorted (vq_less_b i) outs && law_sorted lmt outs &&
                         (* the implementation's own less answers: exactly one direction on
                            two different victims, transitive on all triples of different victims *)
                         forallb (fun a => forallb (fun b =>
                            implb (distinct a b) (Bool.eqb (lmt a b) (negb (lmt b a)))) ts) ts &&
                         forallb (fun a => forallb (fun b => forallb (fun d =>
                            implb (distinct a b && distinct b d && distinct a d && lmt a b && lmt b d)
                                  (lmt a d)) ts) ts) ts))
           | None => bad_input end
  | _ => bad_input
  end.
