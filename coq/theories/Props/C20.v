(* Property C20 — commands from the CLI are executed at most once and on the named target.
   Each theorem is closed by [exact] of a lemma of C20/Lemmas.v.

   PART A (the substance proved in Coq): the delete-before-execute command workers —
   an invariant over ALL event lists (induction), the meaning of the executable law, and
   the link between the schedules the correspondence runs and those event lists.
   PART B (model conformance statements): the CLI, the end-to-end composition and the
   informer filter are straight-line code; their models are transliterations and the
   statements below merely unfold them (they fix WHAT the model says, so that the laws and
   the differential check have a stated reference).  For those clauses the evidence is the
   differential check of the real code against the model plus laws 101 / 103 / 104 on the
   real results — not these statements. *)
From stdpp Require Import gmap.
From Coq Require Import ZArith List.
From V Require Import C20.Model C20.Laws C20.Lemmas.
Import ListNotations.
Open Scope Z_scope.

(* ================= PART A: the command workers ================= *)

(* for every command, whether or not it (still) exists, every retry budget (maxRequeueNum,
   -1 = retry for ever) and EVERY list of events — any number of deliveries (object copies:
   add notifications, relists, restarts), any interleaving of the steps, any answers of the
   Delete calls that the API-server oracle allows (OK only if present and then absent,
   NotFound only if absent, errors with or without effect at any time, hence also runs of
   more than maxRequeueNum failures and the resulting DROPS).  Since [evs] is arbitrary the
   statement holds after every prefix of every history: triggered <= deleted <= 1. *)
Theorem C20_at_most_once : forall mx c b evs, let s := crun mx c b evs in
  (length (enq s) <= 1)%nat /\
  (length (enq s) <= count_out DOk (log s) <= 1)%nat /\
  prefix_ok 0 (log s) (seen s) = true /\
  Forall (fun r => r = req_of c) (enq s) /\
  (enq s <> [] -> present s = false) /\
  (b = false -> enq s = []) /\
  (retries s + drops s = count_out DErr (log s) + count_out DErrApplied (log s))%nat /\
  (quiescent s -> length (enq s) = count_out DOk (log s)).
Proof. exact at_most_once. Qed.
Print Assumptions C20_at_most_once.

(* STEP (one transition from any state): on an error answer the delivery is retried (same object, one more failure) or, with the
   budget exhausted, dropped; either way it enqueues nothing: a dropped command triggers nothing *)
Theorem C20_error_never_executes : forall mx c s w n o,
  o = DErr \/ o = DErrApplied -> wget s w = WGot n ->
  let s' := cstep mx c s (CDelete w o) in
  enq s' = enq s /\
  (budget mx n = true -> wget s' w = WGot (S n) /\ retries s' = S (retries s) /\ drops s' = drops s) /\
  (budget mx n = false -> wget s' w = WIdle /\ drops s' = S (drops s) /\ retries s' = retries s).
Proof. exact error_never_executes. Qed.
Print Assumptions C20_error_never_executes.

Theorem C20_unlimited_retries_never_drop : forall c b evs, drops (crun (-1) c b evs) = 0%nat.
Proof. exact no_drop_unlimited. Qed.
Print Assumptions C20_unlimited_retries_never_drop.

(* the executable law 102 accepts every reachable state of the model (with its quiescence
   clause when all deliveries have finished) ... *)
Theorem C20_law_amo_accepts_model : forall mx c b evs (quiet : bool), let s := crun mx c b evs in
  (quiet = true -> quiescent s) ->
  law_amo mx c b (log s) (seen s) (enq s) (present s) (retries s) quiet = true.
Proof. exact law_amo_holds. Qed.
Print Assumptions C20_law_amo_accepts_model.

(* ... and MEANS the property (Prop-level soundness): whenever it answers true on observed
   Delete answers, per-call "requests enqueued so far", requests and final presence, then
   the answers respect the Delete oracle, at every Delete call no more requests had been
   triggered than Deletes had succeeded, at most one request exists, it names the Command's
   target and action, the Command is gone, an absent Command triggered nothing *)
Theorem C20_law_amo_sound : forall mx c b outs sn enq p rt quiet,
  law_amo mx c b outs sn enq p rt quiet = true ->
  oracle_ok b outs = true /\
  (forall k n, nth_error sn k = Some n -> (n <= count_out DOk (firstn k outs))%nat) /\
  (length enq <= 1)%nat /\ (length enq <= count_out DOk outs)%nat /\
  Forall (fun r => r = req_of c) enq /\
  (enq <> [] -> p = false) /\ (b = false -> enq = []) /\
  (quiet = true -> length enq = count_out DOk outs).
Proof. exact law_amo_sound. Qed.
Print Assumptions C20_law_amo_sound.

(* what the correspondence runs (selector 2: a drained batch of deliveries, then a relist,
   one worker, FIFO) ends in a state of [crun]: C20_at_most_once speaks about exactly the
   states the extracted model prints and the real controllers are compared with *)
Theorem C20_sequential_schedules_are_histories : forall mx c b n1 n2 sched s1 r1 s2 r2,
  seq_phase mx c n1 sched (init b) = Some (s1, r1) -> seq_phase mx c n2 r1 s1 = Some (s2, r2) ->
  exists evs, s2 = crun mx c b evs.
Proof. exact seq_two_phases_reach. Qed.
Print Assumptions C20_sequential_schedules_are_histories.

(* ... and law 102, with its quiescence clause ON as the check runs it, accepts exactly what
   the extracted model prints for selector 2 (the sequential schedule ends quiescent) *)
Theorem C20_law_amo_accepts_sequential_output : forall mx c b n1 n2 sched s1 r1 s2 r2,
  seq_phase mx c n1 sched (init b) = Some (s1, r1) -> seq_phase mx c n2 r1 s1 = Some (s2, r2) ->
  law_amo mx c b (log s2) (seen s2) (enq s2) (present s2) (retries s2) true = true.
Proof. exact law_amo_accepts_sequential_output. Qed.
Print Assumptions C20_law_amo_accepts_sequential_output.

(* non-vacuity of the two statements above and of C20_law_amo_sound: budget 2, three failed
   Deletes (dropped), relist, executed once; the law is true on that output *)
Example C20_sequential_example :
  exists s1 r1 s2 r2,
    seq_phase 2 ex_cmd 1 [1; 1; 1] (init true) = Some (s1, r1) /\ seq_phase 2 ex_cmd 1 r1 s1 = Some (s2, r2) /\
    log s2 = [DErr; DErr; DErr; DOk] /\ enq s2 = [(7, 3, 1)] /\ drops s2 = 1%nat /\
    law_amo 2 ex_cmd true (log s2) (seen s2) (enq s2) (present s2) (retries s2) true = true.
Proof. exact seq_example. Qed.

(* ================= PART B: model conformance statements ================= *)

(* CLI, AS THE MODEL HAS IT (conformance statement, not a guarantee about the Go code): for every
   verb, namespace, target name and UID the model creates exactly one Command; its
   TargetObject is the controller reference of exactly the object the server returned
   for the named target, its only owner reference is that same reference, the action
   is the verb's, and the request a controller derives from it names that target *)
Theorem C20_cli_command_shape : forall v ns t,
  exists c, cli_create v ns t = [c] /\
    c_target c = mkRef (verb_kind v) (t_name t) (t_uid t) true /\
    c_owners c = [c_target c] /\ c_action c = verb_action v /\ c_ns c = cmd_ns v ns /\
    req_of c = (cmd_ns v ns, t_name t, verb_action v).
Proof. exact cli_command_shape. Qed.
Print Assumptions C20_cli_command_shape.

(* a Command the CLI model writes passes the KIND half of the filter of exactly the controller of
   its verb (the CLI model has no apiVersion field: [dcmd_of] fills it from the kind code, because
   NewControllerRef takes both from one GroupVersionKind constant; the APIVersion string itself is
   checked only in Go: refTokens, law 101), and the request derived from it names the GET's object
   and the verb's action *)
Theorem C20_cli_commands_are_accepted : forall v ns t c,
  cli_create v ns t = [c] ->
  accepts (verb_kind v) (dcmd_of c) = true /\
  (forall ctrl, ctrl <> verb_kind v -> ctrl = 1 \/ ctrl = 2 -> accepts ctrl (dcmd_of c) = false) /\
  dreq (verb_kind v) (dcmd_of c) = (if verb_kind v =? 1 then cmd_ns v ns else 0, t_name t, verb_action v).
Proof. exact cli_commands_are_accepted. Qed.
Print Assumptions C20_cli_commands_are_accepted.

(* which Commands a controller takes (the filter of its Command informer handler): for
   every list of delivered Commands, one whose TargetObject is not a reference to a Job
   (resp. Queue) of exactly the controller's API group/version and kind — nil target, other
   group, other version, empty apiVersion, other kind — is neither deleted nor executed and
   stays present; every request stems from an accepted Command and carries its namespace
   (job controller), target name and action *)
Theorem C20_foreign_commands_untouched : forall l, let '(obs, jr, qr) := informer_run l in
  (forall d, In d l -> accepts 1 d = false -> accepts 2 d = false -> In (deletes_of d, true) obs /\ deletes_of d = 0%nat) /\
  (forall r, In r jr -> exists d, In d l /\ accepts 1 d = true /\ r = dreq 1 d) /\
  (forall r, In r qr -> exists d, In d l /\ accepts 2 d = true /\ r = dreq 2 d) /\
  (forall d, In d l -> (deletes_of d <= 1)%nat).
Proof. exact foreign_commands_untouched. Qed.
Print Assumptions C20_foreign_commands_untouched.

Theorem C20_law_filter_accepts_model : forall l,
  let '(obs, jr, qr) := informer_run l in law_filter l obs jr qr = true.
Proof. exact law_filter_holds. Qed.
Print Assumptions C20_law_filter_accepts_model.

(* the CLI against a faulty API server, for EVERY answer to the GET and EVERY script of
   answers to the POST (created / persisted-then-Timeout / Timeout / ServerTimeout / 5xx /
   AlreadyExists / Conflict): at most one Command is left behind, at most one POST is made,
   a Command left behind is exactly the one naming the object the GET returned with the
   verb's action, success means exactly that Command exists, a failed GET or a failed
   create is reported as an error *)
Theorem C20_cli_at_most_one_command : forall i, let r := cli_invoke i in
  (length (r_new r) <= 1)%nat /\ (r_posts r <= 1)%nat /\
  (forall c, In c (r_new r) -> [c] = cli_create (i_verb i) (i_ns i) (i_target i)) /\
  (r_ok r = true -> i_get i = GOk /\ r_new r = cli_create (i_verb i) (i_ns i) (i_target i)) /\
  (i_get i <> GOk -> r_ok r = false /\ r_posts r = 0%nat /\ r_new r = []) /\
  (i_get i = GOk -> succeeds (hd COk (i_script i)) = false -> r_ok r = false) /\
  length (r_new r) = length (filter persists (answers (r_posts r) (i_script i))).
Proof. exact cli_at_most_one_command. Qed.
Print Assumptions C20_cli_at_most_one_command.

(* end-to-end composition AS DEFINED IN THE MODEL ([e2e_requests] = the requests of the Commands
   left behind; that the controllers execute each of them at most once is C20_at_most_once,
   that they DO execute them is only observed by the harness, selector 3): every invocation that
   reported success contributes its own request, and there is at most one request per invocation *)
Theorem C20_model_e2e_success_has_its_request : forall invs i,
  In i invs -> r_ok (cli_invoke i) = true ->
  exists c, cli_create (i_verb i) (i_ns i) (i_target i) = [c] /\ In (ctl_req c) (e2e_requests invs).
Proof. exact e2e_success_has_its_request. Qed.
Print Assumptions C20_model_e2e_success_has_its_request.

Theorem C20_model_e2e_at_most_one_request_per_invocation : forall invs,
  (length (e2e_requests invs) <= length invs)%nat.
Proof. exact e2e_at_most_one_per_invocation. Qed.
Print Assumptions C20_model_e2e_at_most_one_request_per_invocation.

Theorem C20_law_cli_invocation_accepts_model : forall i, let r := cli_invoke i in
  law_cli_invocation i (r_ok r) (r_gets r) (r_posts r) (r_new r) = true.
Proof. exact law_cli_invocation_holds. Qed.
Print Assumptions C20_law_cli_invocation_accepts_model.

Theorem C20_law_cli_accepts_model : forall v ns t, law_cli v ns t (cli_create v ns t) = true.
Proof. exact law_cli_holds. Qed.
Print Assumptions C20_law_cli_accepts_model.

(* what laws 101 and 104 MEAN (Prop-level soundness), and that the end-to-end half of law 103
   accepts the model; law 103's per-invocation half (law_cli_invocation) has the
   accepts-the-model statement above only *)
Theorem C20_law_cli_sound : forall v ns t created,
  law_cli v ns t created = true ->
  exists c, created = [c] /\
    o_kind (c_target c) = verb_kind v /\ o_name (c_target c) = t_name t /\ o_uid (c_target c) = t_uid t /\
    o_controller (c_target c) = true /\ c_owners c = [c_target c] /\
    c_action c = verb_action v /\ c_ns c = cmd_ns v ns /\ c_prefix c = (t_name t, verb_action v).
Proof. exact law_cli_sound. Qed.
Print Assumptions C20_law_cli_sound.

Theorem C20_law_filter_sound : forall l obs jr qr,
  law_filter l obs jr qr = true ->
  length obs = length l /\
  (forall d n p, In (d, (n, p)) (combine l obs) ->
     (accepts 1 d = false -> accepts 2 d = false -> n = 0%nat /\ p = true) /\
     (n <> 0%nat -> accepts 1 d = true \/ accepts 2 d = true) /\ (n <= 1)%nat) /\
  jr = map (dreq 1) (filter (accepts 1) l) /\ qr = map (dreq 2) (filter (accepts 2) l).
Proof. exact law_filter_sound. Qed.
Print Assumptions C20_law_filter_sound.

Theorem C20_law_e2e_accepts_model : forall invs,
  law_e2e (map (fun i => r_new (cli_invoke i)) invs) (e2e_requests invs) = true.
Proof. exact law_e2e_holds. Qed.
Print Assumptions C20_law_e2e_accepts_model.

Example C20_nonvacuous :
  let s := crun (-1) ex_cmd true [CDeliver 0; CDeliver 1; CDelete 0 DErr; CDelete 1 DOk;
                             CDelete 0 DNotFound; CEnqueue 1; CDeliver 2; CDelete 2 DOk] in
  enq s = [(7, 3, 1)] /\ present s = false /\ log s = [DErr; DOk; DNotFound] /\ retries s = 1%nat /\
  wget s 2 = WGot 0.
Proof. exact ex_race. Qed.

(* maxRequeueNum = 2, three failed Deletes: dropped without executing, command still there;
   the relisted delivery deletes it and executes once *)
Example C20_nonvacuous_drop :
  let s1 := crun 2 ex_cmd true [CDeliver 0; CDelete 0 DErr; CDelete 0 DErr; CDelete 0 DErr] in
  enq s1 = [] /\ present s1 = true /\ drops s1 = 1%nat /\ retries s1 = 2%nat /\ wget s1 0 = WIdle /\
  let s2 := fold_left (cstep 2 ex_cmd) [CDeliver 0; CDelete 0 DOk; CEnqueue 0] s1 in
  enq s2 = [(7, 3, 1)] /\ present s2 = false /\ seen s2 = [0; 0; 0; 0]%nat.
Proof. exact ex_drop. Qed.
