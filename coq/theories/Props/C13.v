(* Property C13 — queue lifecycle: a queue closes only when empty and follows its parent.
   Property theorems only; each is closed by [exact] of a lemma of C13/Lemmas.v / PreFix.v.

   Two kinds of statements, kept apart on purpose:
   * STEP theorems ("forall s ...") are about ONE step of the controller from an ARBITRARY
     state s (any forest incl. dangling parents, any combination of states and markers, any
     lister view, any PodGroup index, any pending requests).  They therefore hold at every
     point of every history, but they say nothing about what several steps achieve together.
   * HISTORY theorems ("forall s0 h ... run s0 h") are proved by induction over the event
     list (an invariant preserved by [step], lifted over [run]): C13_root_never_closed,
     C13_state_moves_have_a_cause, C13_index_stays_complete,
     C13_closed_only_when_no_podgroup_exists.
   * The QUIESCENCE statements (what holds once the lister has caught up and nothing is
     pending) are FALSE for this controller; their refutations are at the end and are the
     known findings of this property.
   [srv] is the API server, [lst] the lister the controller reads (informer lag). *)
From stdpp Require Import gmap.
From Coq Require Import ZArith List.
From V Require Import C13.Model C13.Laws C13.Lemmas C13.PreFix.
Import ListNotations.
Open Scope Z_scope.

(* STEP: a queue's state changes only while a request for that queue is processed, and then
   to the target of the state/*.go tables for the lister's state and the request's action *)
Theorem C13_state_changes_only_by_request : forall s e q a b,
  sst (srv s) q = Some a -> sst (srv (step s e).1) q = Some b -> a <> b ->
  exists r v, proc_of s e = Some (r, v) /\ r_q r = q /\
              b = target (q_state v) (r_act r) (length (pgs_of (idx s) q)).
Proof. exact only_by_request. Qed.
Print Assumptions C13_state_changes_only_by_request.

(* HISTORY (induction over the event list: invariant [origin] on every pending request).
   From a start state with an EMPTY work queue, after any history h: whenever the state of
   queue q moves, a request r for q is being processed, the new state is the target the
   state tables give for the lister's state, r's action and q's PodGroup count, and r has a
   CAUSE in h ([origin]): (a) Event CommandIssued and the command [ECmd q (r_act r)] occurs in
   h; or (b) a propagated Open / Close that was appended earlier in h while a request for q's
   lister-parent (the parent's close / re-open) or for q itself (q's own sync reacting to the
   parent's state in the lister) was processed; or (c) an informer handler's Sync, whose
   effect is the Sync target: "" -> Open, Closing -> Closed iff q's index is empty, otherwise
   the state the lister shows (under lag that last case is finding race A). *)
Theorem C13_state_moves_have_a_cause : forall s0 h e q a b, let s := run s0 h in
  wq s0 = [] ->
  sst (srv s) q = Some a -> sst (srv (step s e).1) q = Some b -> a <> b ->
  exists r v, proc_of s e = Some (r, v) /\ r_q r = q /\
    b = target (q_state v) (r_act r) (length (pgs_of (idx s) q)) /\
    origin s0 h r.
Proof. exact state_moves_have_a_cause. Qed.
Print Assumptions C13_state_moves_have_a_cause.

(* the start-state hypothesis is needed (a pending propagation request of unknown origin
   closes an unrelated queue), and the three kinds of cause occur *)
Example C13_cause_needs_empty_start :
  let s0 := mkSt (srv (open3_init SOpen None)) (lst (open3_init SOpen None)) ∅ [] [mkReq q3 AClose EvNone 0] 3 in
  sst (srv (run s0 [EProc 0])) q3 = Some SClosed.
Proof. exact cause_needs_empty_start. Qed.
Example C13_causes_occur :
  let s0 := open3_init SOpen None in
  origin s0 [ECmd q2 AClose] (mkReq q2 AClose EvCmd 0) /\
  wq (run s0 [ECmd q2 AClose; EProc 0]) = [mkReq q3 AClose EvNone 0] /\
  origin s0 [ECmd q2 AClose; EProc 0] (mkReq q3 AClose EvNone 0).
Proof. exact causes_occur. Qed.

(* STEP: processing a request for queue q appends to the work queue only propagation
   requests — Event "", Open / Close, no retries yet, TARGET q itself or a queue the lister
   shows as a child of q — followed by at most the retry of the processed request (the Prop
   form of law 108 without its state / marker guards) *)
Theorem C13_processing_appends_only_propagation_requests : forall s i r,
  nth_error (wq s) i = Some r ->
  exists l t, wq (proc s i).1 = remove_nth i (wq s) ++ l ++ t /\
              Forall (prop_req_at (lst s) (r_q r)) l /\ (t = [] \/ t = [retry r]) /\
              (l = [] \/ is_Some (lst s !! r_q r)).
Proof. exact proc_emits. Qed.
Print Assumptions C13_processing_appends_only_propagation_requests.

(* with an up-to-date lister, a request that is neither Open nor Close (i.e. not a
   command and not parent propagation) only completes "" -> Open and Closing -> Closed *)
Theorem C13_sync_never_opens_or_closes : forall s e q a b,
  lst s !! q = srv s !! q ->
  sst (srv s) q = Some a -> sst (srv (step s e).1) q = Some b -> a <> b ->
  exists r v, proc_of s e = Some (r, v) /\ r_q r = q /\
    (r_act r = AOpen \/ r_act r = AClose \/ (a = SEmpty /\ b = SOpen) \/ (a = SClosing /\ b = SClosed)).
Proof. exact sync_moves. Qed.
Print Assumptions C13_sync_never_opens_or_closes.

(* closing a not-yet-closed, non-root queue: Closing while its index holds PodGroups,
   Closed when it holds none *)
Theorem C13_close_yields_closing_when_nonempty : forall s i r v,
  nth_error (wq s) i = Some r -> lst s !! r_q r = Some v -> r_act r = AClose ->
  (proc s i).2 = OOk -> r_q r <> root -> q_state v <> SClosed -> q_state v <> SInvalid ->
  sst (srv s) (r_q r) = Some (q_state v) ->
  sst (srv (proc s i).1) (r_q r) = Some (closeish (length (pgs_of (idx s) (r_q r)))).
Proof. exact close_result. Qed.
Print Assumptions C13_close_yields_closing_when_nonempty.

(* Closed is entered only with an empty PodGroup index — at FULL strength: any lister
   view, however stale (holds since the repair 5018129 of syncQueue; the witness that
   refuted it on the previous code is C13_prefix_closed_with_podgroups_refuted below) *)
Theorem C13_closed_entered_only_when_empty : forall s e q a,
  sst (srv s) q = Some a -> a <> SClosed -> sst (srv (step s e).1) q = Some SClosed ->
  pgs_of (idx s) q = [].
Proof. exact closed_only_when_empty. Qed.
Print Assumptions C13_closed_entered_only_when_empty.

(* ... and against the PodGroups that REALLY exist (the PodGroup objects, not the
   controller's index): the index stays complete along every history without a delivered
   queue deletion and without a PodGroup changing its queue — in particular when PodGroup
   events are handled before their queue is in the lister — and then Closed is entered
   only when no PodGroup of the queue exists, and a close with an existing PodGroup
   yields Closing *)
Theorem C13_index_stays_complete : forall h s,
  idx_complete s -> benign_hist s h -> idx_complete (run s h).
Proof. exact idx_complete_run. Qed.
Print Assumptions C13_index_stays_complete.

Theorem C13_closed_only_when_no_podgroup_exists : forall s0 h e q a, let s := run s0 h in
  idx_complete s0 -> benign_hist s0 h ->
  sst (srv s) q = Some a -> a <> SClosed -> sst (srv (step s e).1) q = Some SClosed ->
  forall pg ph, pgl s !! pg <> Some (q, ph).
Proof. exact closed_only_when_really_empty_hist. Qed.
Print Assumptions C13_closed_only_when_no_podgroup_exists.

Theorem C13_close_with_existing_podgroups_yields_closing : forall s i r v pg ph,
  idx_complete s -> pgl s !! pg = Some (r_q r, ph) ->
  nth_error (wq s) i = Some r -> lst s !! r_q r = Some v -> r_act r = AClose ->
  (proc s i).2 = OOk -> r_q r <> root -> q_state v <> SClosed -> q_state v <> SInvalid ->
  sst (srv s) (r_q r) = Some (q_state v) ->
  sst (srv (proc s i).1) (r_q r) = Some SClosing.
Proof. exact close_with_real_pgs. Qed.
Print Assumptions C13_close_with_existing_podgroups_yields_closing.

(* closing a parent marks every child the lister shows as not closed with
   closed-by-parent=true and enqueues a Close request for it *)
Theorem C13_parent_close_propagates : forall s i r v,
  nth_error (wq s) i = Some r -> lst s !! r_q r = Some v -> r_act r = AClose ->
  (proc s i).2 = OOk -> r_q r <> root ->
  is_closedish (q_state v) = false -> q_state v <> SInvalid ->
  forall c co, lst s !! c = Some co -> q_parent co = Some (r_q r) -> is_closedish (q_state co) = false ->
    (cbp_of (q_ann co) = Some true \/ scbp (srv (proc s i).1) c = Some true) /\
    In (mkReq c AClose EvNone 0) (wq (proc s i).1).
Proof. exact close_propagates. Qed.
Print Assumptions C13_parent_close_propagates.

(* re-opening opens the queue, clears its own marker and enqueues Open requests for
   exactly the children marked closed-by-parent (nothing else is enqueued) *)
Theorem C13_reopen_reopens_exactly_marked_children : forall s i r v,
  nth_error (wq s) i = Some r -> lst s !! r_q r = Some v -> r_act r = AOpen ->
  q_state v = SClosed \/ q_state v = SClosing \/ q_state v = SUnknown ->
  (proc s i).2 = OOk ->
  wq (proc s i).1 = remove_nth i (wq s) ++ reopen_reqs s (r_q r) /\
  sst (srv (proc s i).1) (r_q r) = Some SOpen /\
  (cbp_of (q_ann v) = Some false \/ scbp (srv (proc s i).1) (r_q r) = Some false).
Proof. exact reopen_exact. Qed.
Print Assumptions C13_reopen_reopens_exactly_marked_children.

Theorem C13_reopen_requests_are_the_marked_children : forall s q x,
  In x (reopen_reqs s q) <->
  exists c co, x = mkReq c AOpen EvNone 0 /\ lst s !! c = Some co /\
               q_parent co = Some q /\ cbp_of (q_ann co) = Some true.
Proof. exact reopen_reqs_exact. Qed.
Print Assumptions C13_reopen_requests_are_the_marked_children.

(* HISTORY (induction): the root queue is never closed or closing *)
Theorem C13_root_never_closed : forall s h, root_okP s -> root_okP (run s h).
Proof. exact root_never_closed. Qed.
Print Assumptions C13_root_never_closed.

(* a closed / closing / unknown queue is not opened while the lister shows its parent
   (other than root) closed, closing or missing: the request fails, nothing is written *)
Theorem C13_child_not_opened_under_closed_parent : forall s i r v,
  nth_error (wq s) i = Some r -> lst s !! r_q r = Some v -> r_act r = AOpen ->
  parent_blocks s v = true -> q_state v <> SOpen -> q_state v <> SEmpty ->
  (proc s i).2 = OErr /\ srv (proc s i).1 = srv s.
Proof. exact no_open_under_closed_parent. Qed.
Print Assumptions C13_child_not_opened_under_closed_parent.

(* ---------- informer lag: full-strength statements, their witnesses, the repairs ---------- *)

(* KNOWN FINDING C13-stale-lister-sync-overwrites-open (race A, not repaired): without
   the freshness hypothesis C13_sync_never_opens_or_closes is FALSE — a Sync computed
   from a lister that still shows Closing writes Closed over the server's Open *)
Theorem C13_sync_never_opens_or_closes_full_refuted :
  ~ (forall s e q a b,
       sst (srv s) q = Some a -> sst (srv (step s e).1) q = Some b -> a <> b ->
       exists r v, proc_of s e = Some (r, v) /\ r_q r = q /\
         (r_act r = AOpen \/ r_act r = AClose \/ (a = SEmpty /\ b = SOpen) \/ (a = SClosing /\ b = SClosed))).
Proof. exact sync_moves_full_refuted. Qed.
Print Assumptions C13_sync_never_opens_or_closes_full_refuted.

(* race B (C13-stale-lister-closed-with-podgroups): refuted on the code before the
   repair 5018129; on the repaired code C13_closed_entered_only_when_empty holds at
   full strength (above) and the race history leaves the queue Open *)
Theorem C13_prefix_closed_with_podgroups_refuted :
  ~ (forall s e q a,
       sst (srv s) q = Some a -> a <> SClosed -> sst (srv (step0 s e).1) q = Some SClosed ->
       pgs_of (idx s) q = []).
Proof. exact prefix_closed_with_podgroups_refuted. Qed.
Print Assumptions C13_prefix_closed_with_podgroups_refuted.

Example C13_raceB_repaired :
  sst (srv (run raceB_init (raceB_history ++ [EProc 0]))) q2 = Some SOpen.
Proof. exact raceB_repaired. Qed.

(* race C (C13-marked-child-not-reopened): with a lagging lister the re-open step itself
   cannot see the marker (step-level full-strength form is false, before and after the
   repair) ... *)
Theorem C13_reopen_server_marked_children_refuted :
  ~ (forall s i r v,
       nth_error (wq s) i = Some r -> lst s !! r_q r = Some v -> r_act r = AOpen ->
       is_closedish (q_state v) = true -> (proc s i).2 = OOk ->
       forall c co, srv s !! c = Some co -> q_parent co = Some (r_q r) -> cbp_of (q_ann co) = Some true ->
       In (mkReq c AOpen EvNone 0) (wq (proc s i).1)).
Proof. exact reopen_server_marked_children_refuted. Qed.
Print Assumptions C13_reopen_server_marked_children_refuted.

(* ... before the repair b628b4b the child then stayed closed for ever (lister caught up,
   nothing pending, child Closed + marked under an Open parent) ... *)
Theorem C13_prefix_marked_child_not_reopened_refuted :
  exists h, let s := run0 raceC_init h in
    caught_up s = true /\ law_no_stuck_child s = false /\
    sst (srv s) q2 = Some SOpen /\ sst (srv s) q3 = Some SClosed /\ scbp (srv s) q3 = Some true.
Proof. exact prefix_marked_child_not_reopened_refuted. Qed.
Print Assumptions C13_prefix_marked_child_not_reopened_refuted.

(* ... since the repair, for EVERY state (two steps): the delivery of a closed child whose
   marker the lister had not seen enqueues a Sync, and processing that Sync while the lister
   shows the parent Open enqueues the child's Open request.  This repairs race C only; the
   quiescent statement remains false (C13_quiescent_no_stuck_child_refuted below) *)
Theorem C13_marked_child_heals : forall s c co lo p po,
  srv s !! c = Some co -> lst s !! c = Some lo ->
  cbp_of (q_ann co) = Some true -> cbp_of (q_ann lo) <> Some true ->
  is_closedish (q_state co) = true -> q_parent co = Some p -> c <> root -> p <> c ->
  lst s !! p = Some po -> q_state po = SOpen ->
  let s1 := (step s (ELSync c)).1 in
  wq s1 = wq s ++ [sync_req c] /\
  (proc s1 (length (wq s))).2 = OOk /\
  In (mkReq c AOpen EvNone 0) (wq (proc s1 (length (wq s))).1).
Proof. exact marked_child_heals. Qed.
Print Assumptions C13_marked_child_heals.

Example C13_raceC_repaired :
  let s := run raceC_init raceC_full in
  caught_up s = true /\ law_no_stuck_child s = true /\
  sst (srv s) q2 = Some SOpen /\ sst (srv s) q3 = Some SOpen /\ scbp (srv s) q3 = Some false.
Proof. exact raceC_repaired. Qed.

(* ---------- transient API faults ([EProcF i c]: every API call that addresses queue c fails
   during that processing step) are events like any other: EVERY theorem above that
   quantifies over an event [e] (state changes only by request, Closed only when empty,
   Sync never opens or closes, root never closed, provenance, index completeness) holds for
   faulted steps too.  The STEP theorems that promise a result (close yields Closing /
   Closed, close propagates, re-open exact, no open under a closed parent) are stated for
   un-faulted steps [proc s i] only; laws 102/104/105/107/132 skip faulted steps.
   A faulted queue keeps its server object: ---------- *)
Theorem C13_fault_keeps_queue : forall s i c o,
  srv s !! c = Some o -> srv (step s (EProcF i c)).1 !! c = Some o.
Proof. exact fault_keeps_queue. Qed.
Print Assumptions C13_fault_keeps_queue.

Example C13_fault_retried_then_consistent :
  let s1 := run fault_init (firstn 2 fault_history) in
  let s := run fault_init fault_history in
  sst (srv s1) q2 = Some SOpen /\ scbp (srv s1) q3 = None /\ wq s1 = [mkReq q2 AClose EvCmd 1] /\
  caught_up s = true /\ sst (srv s) q2 = Some SClosed /\ sst (srv s) q3 = Some SClosed /\ scbp (srv s) q3 = Some true /\
  law_no_stuck_child s = true /\ law_children_follow_closed_parent s = true.
Proof. exact fault_retried_then_consistent. Qed.

(* ---------- QUIESCENCE: what is false (known findings, reproduced on the real controller) ---------- *)

(* KNOWN FINDING C13-quiescent-marked-child-stuck: "re-opening a parent re-opens the
   children it had closed" is FALSE as a statement about quiescent end states, also after the
   repair b628b4b (which only covers the case where the child's marker reaches the lister
   late).  From the all-Open forest root <- q2 <- q3: close q2 and re-open it at once;
   strictly FIFO; q3's propagated Open is processed while the lister still shows q3 Open
   (a no-op), its Close then closes it, nothing re-syncs it: caught up, nothing pending,
   q2 Open, q3 Closed with closed-by-parent=true for ever *)
Theorem C13_quiescent_no_stuck_child_refuted :
  ~ (forall h, let s := run (open3_init SOpen None) h in caught_up s = true -> law_no_stuck_child s = true).
Proof. exact quiescent_no_stuck_child_refuted. Qed.
Print Assumptions C13_quiescent_no_stuck_child_refuted.

(* the same end state WITHOUT any informer lag (the lister is delivered after every step):
   two workers suffice, q3's Open overtakes q3's Close *)
Example C13_quiescent_stuck_child_without_lag :
  let s := run (open3_init SOpen None) stuckW1_nolag_history in
  caught_up s = true /\ law_no_stuck_child s = false /\
  sst (srv s) q2 = Some SOpen /\ sst (srv s) q3 = Some SClosed /\ scbp (srv s) q3 = Some true.
Proof. exact quiescent_stuck_child_without_lag. Qed.

(* KNOWN FINDING C13-quiescent-open-child-under-closed-parent: "closing a parent closes
   its children" and "a child cannot be opened under a closed or closing parent" are FALSE
   as statements about quiescent end states (C13_parent_close_propagates and
   C13_child_not_opened_under_closed_parent are relative to the lister).  q3 closed by hand
   under Open q2: (D) close q2, then open q3 while the lister still shows q2 Open;
   (E) open q3, then close q2 while the lister still shows q3 Closed: caught up, nothing
   pending, q2 Closed, q3 Open for ever *)
Theorem C13_quiescent_children_follow_closed_parent_refuted :
  ~ (forall h, let s := run (open3_init SClosed (Some (false, Some false))) h in
               caught_up s = true -> law_children_follow_closed_parent s = true).
Proof. exact quiescent_children_follow_closed_parent_refuted. Qed.
Print Assumptions C13_quiescent_children_follow_closed_parent_refuted.

Example C13_quiescent_open_child_both_orders :
  let sD := run (open3_init SClosed (Some (false, Some false))) openD_history in
  let sE := run (open3_init SClosed (Some (false, Some false))) openE_history in
  caught_up sD = true /\ sst (srv sD) q2 = Some SClosed /\ sst (srv sD) q3 = Some SOpen /\
  caught_up sE = true /\ sst (srv sE) q2 = Some SClosed /\ sst (srv sE) q3 = Some SOpen /\
  law_children_follow_closed_parent sE = false.
Proof. exact quiescent_open_child_both_orders. Qed.

(* the premises of the history theorems hold of a controller that starts with nothing pending *)
Example C13_start_state_premises :
  let s0 := open3_init SOpen None in idx_complete s0 /\ root_okP s0 /\ wq s0 = [].
Proof. exact start_state_premises. Qed.

(* the extracted law checkers accept every step of the model *)
Theorem C13_laws_accept_model : forall s e,
  law_only_by_request s e (step s e).1 = true /\
  law_closed_only_when_empty s e (step s e).1 = true /\
  law_root_never_closed s e (step s e).1 = true /\
  law_no_open_under_closed_parent s e (step s e).1 (step s e).2 = true /\
  law_close_result s e (step s e).1 (step s e).2 = true.
Proof. exact laws_accept_model. Qed.
Print Assumptions C13_laws_accept_model.

(* non-vacuity: close with a PodGroup -> Closing, child marked and closed, PodGroup
   deleted -> Closed, re-open -> marked child re-opened, hand-closed child stays closed *)
Example C13_nonvacuous :
  root_okP ex_state /\
  (let s := run ex_state ex_phase1 in
   sst (srv s) 2 = Some SClosing /\ sst (srv s) 3 = Some SClosed /\ scbp (srv s) 3 = Some true /\
   scbp (srv s) 4 = None /\ wq s = []) /\
  sst (srv (run ex_state ex_phase2)) 2 = Some SClosed /\
  let s := run ex_state ex_history in
  sst (srv s) 2 = Some SOpen /\ sst (srv s) 3 = Some SOpen /\ sst (srv s) 4 = Some SClosed /\
  scbp (srv s) 3 = Some false /\ wq s = [].
Proof. exact ex_nonvacuous. Qed.
