(* Property C12 — queue fair shares respect guarantee, capability, demand and the
   cluster total.  Property theorems only; each is closed by [exact] of a lemma of
   C12/Lemmas.v and followed by its assumptions.  Values are exact rationals;
   [fuel] = number of rounds, so every statement holds at whichever round the float
   implementation leaves the loop. *)
From Coq Require Import QArith ZArith List Permutation.
From V Require Import C12.Model C12.Lemmas C12.Termination.
Import ListNotations.
Open Scope Q_scope.

(* realCapability = min(capability, (total (-) totalGuarantee) + guarantee) per dimension;
   a missing capability dimension (or cpu/memory <= 0) does not bound *)
Theorem C12_realcap_def : forall total tg g cap i,
  cnth (real_cap total tg g cap) i =
  let rc := cadd (cinc i (cnth total i) (cnth tg i)) (cnth g i) in
  match cap with None => rc | Some c => cmin_inf rc (cnth (cap_norm c) i) end.
Proof. exact realcap_def. Qed.
Print Assumptions C12_realcap_def.

Theorem C12_realcap_value : forall total tg g c i t s x y,
  cnth total i = Some t -> cnth tg i = Some s -> cnth g i = Some x ->
  cnth (cap_norm c) i = Some y -> 0 <= t -> 0 <= s ->
  exists v, cnth (real_cap total tg g (Some c)) i = Some v /\ v == qmin (qmax 0 (t - s) + x) y.
Proof. exact realcap_value. Qed.
Print Assumptions C12_realcap_value.

(* deserved <= max(guarantee, realCapability) and deserved <= max(guarantee, request),
   every queue, every dimension, after any number of rounds *)
Theorem C12_deserved_upper_bounds : forall fuel D rem qs k,
  Forall upper_ok qs -> Forall upper_ok (out_qs (loop fuel D rem qs k)).
Proof. exact deserved_upper_bounds. Qed.
Print Assumptions C12_deserved_upper_bounds.

Theorem C12_upper_bounds_hold_initially : forall q,
  wf_static q -> q_des q = vzero -> upper_ok q.
Proof. exact upper_ok_init. Qed.
Print Assumptions C12_upper_bounds_hold_initially.

(* guarantee <= deserved once a round has run (weights positive) *)
Theorem C12_guarantee_le_deserved : forall fuel D rem qs k,
  Forall (fun q => q_meet q = false) qs ->
  (qs <> [] -> total_weight qs <> 0%Z) ->
  Forall lower_ok (out_qs (loop (S fuel) D rem qs k)).
Proof. exact guarantee_le_deserved. Qed.
Print Assumptions C12_guarantee_le_deserved.

Theorem C12_positive_weights_suffice : forall qs,
  Forall (fun q => (0 < q_w q)%Z) qs -> Exists (fun q => q_meet q = false) qs ->
  (0 < total_weight qs)%Z.
Proof. exact total_weight_pos. Qed.
Print Assumptions C12_positive_weights_suffice.

(* sum of deserved <= total + sum of guarantees, per dimension, any number of rounds *)
Theorem C12_deserved_sum_bound : forall fuel D total qs k i,
  Forall (fun q => q_des q = vzero /\ 0 <= val0 (cnth (q_gua q) i) /\ (0 < q_w q)%Z) qs ->
  0 <= val0 (cnth total i) ->
  qsumf (dv i) (out_qs (loop fuel D (vfix D total) qs k)) <= val0 (cnth total i) + qsumf (gv i) qs.
Proof. exact deserved_sum_bound. Qed.
Print Assumptions C12_deserved_sum_bound.

(* the result does not depend on the order in which Go's map iteration visits the queues *)
Theorem C12_round_order_independent : forall D rem qs qs',
  Permutation qs qs' ->
  Permutation (fst (round D rem qs)) (fst (round D rem qs')) /\
  snd (round D rem qs) = snd (round D rem qs').
Proof. exact round_order_independent. Qed.
Print Assumptions C12_round_order_independent.

Theorem C12_loop_order_independent : forall fuel D rem qs qs' k,
  Permutation qs qs' ->
  Permutation (out_qs (loop fuel D rem qs k)) (out_qs (loop fuel D rem qs' k)) /\
  out_rem (loop fuel D rem qs k) = out_rem (loop fuel D rem qs' k).
Proof. exact loop_order_independent. Qed.
Print Assumptions C12_loop_order_independent.

(* larger weight, equal demand: not less after a round in which both take part *)
Theorem C12_weight_monotone_round : forall rem W q1 q2,
  q_rcap q1 = q_rcap q2 -> q_req q1 = q_req q2 -> q_gua q1 = q_gua q2 ->
  q_meet q1 = false -> q_meet q2 = false ->
  (0 < q_w q1 <= q_w q2)%Z -> (0 < W)%Z ->
  (forall i, 0 <= val0 (cnth rem i)) -> wf_static q1 ->
  (forall i, 0 <= val0 (cnth (q_des q1) i) <= val0 (cnth (q_des q2) i)) ->
  forall i, val0 (cnth (q_des (upd rem W q1)) i) <= val0 (cnth (q_des (upd rem W q2)) i).
Proof. exact weight_monotone_round. Qed.
Print Assumptions C12_weight_monotone_round.

(* ... but across rounds the strict statement fails by the 0.1 satisfaction tolerance *)
Theorem C12_weight_monotone_strict_refuted :
  exists D rem q1 q2 q3,
    q_rcap q1 = q_rcap q2 /\ q_req q1 = q_req q2 /\ q_gua q1 = q_gua q2 /\ (0 < q_w q1 <= q_w q2)%Z /\
    match out_qs (loop 10 D rem [q1; q2; q3] 0) with
    | [r1; r2; _] => val0 (cnth (q_des r2) 0) < val0 (cnth (q_des r1) 0)
    | _ => False
    end.
Proof. exact weight_monotone_strict_refuted. Qed.
Print Assumptions C12_weight_monotone_strict_refuted.

(* overused <-> deserved - allocated < 0.1 in every dimension present in deserved *)
Theorem C12_overused_iff : forall q,
  overused q = true <->
  forall i, match cnth (q_des q) i with
            | None => True
            | Some d => d - val0 (cnth (q_alloc q) i) < 1 # 10
            end.
Proof. exact overused_iff. Qed.
Print Assumptions C12_overused_iff.

Theorem C12_overused_integers : forall q,
  (forall i d, cnth (q_des q) i = Some d -> exists n m : Z,
       d == inject_Z n /\ val0 (cnth (q_alloc q) i) == inject_Z m) ->
  (overused q = true <-> forall i d, cnth (q_des q) i = Some d -> d <= val0 (cnth (q_alloc q) i)).
Proof. exact overused_integers. Qed.
Print Assumptions C12_overused_integers.

(* any fuel yields a state satisfying every invariant of the rounds (partial correctness) ... *)
Theorem C12_loop_invariant : forall (I : list qattr -> vec -> Prop) D,
  (forall rem qs, I qs rem -> total_weight qs <> 0%Z ->
                  I (fst (round D rem qs)) (snd (round D rem qs))) ->
  forall fuel rem qs k, I qs rem ->
    I (out_qs (loop fuel D rem qs k)) (out_rem (loop fuel D rem qs k)).
Proof. exact loop_inv. Qed.
Print Assumptions C12_loop_invariant.

(* ... but in exact arithmetic the loop need not stop: not within 200 rounds on the witness *)
Theorem C12_exact_termination_refuted_200 :
  exists D rem qs, Forall (fun q => (0 < q_w q)%Z /\ q_meet q = false) qs /\
                   is_out_of_fuel (loop 200 D rem qs 0) = true.
Proof. exact exact_termination_refuted_200. Qed.
Print Assumptions C12_exact_termination_refuted_200.

(* TERMINATION IS FALSE IN EXACT ARITHMETIC, with the exit tests exactly as coded (IsEmpty with
   the 0.1 threshold per dimension and pods ignored, DeepEqual(remaining, old), total weight 0):
   on the cross-capped witness the loop runs out of fuel for EVERY fuel.  (The real plugin
   leaves after 54 rounds on it: float absorption; see docs/notes/C12.md and law 107.) *)
Theorem C12_exact_nontermination : forall fuel,
  is_out_of_fuel (loop fuel 4 wit_rem wit_qs 0) = true.
Proof. exact exact_nontermination. Qed.
Print Assumptions C12_exact_nontermination.

(* what is true about fuel: an exit, once taken, is stable under more fuel, and is taken
   after at most [fuel] rounds *)
Theorem C12_loop_done_stable : forall fuel D rem qs k qs' rem' n,
  loop fuel D rem qs k = Done qs' rem' n ->
  forall extra, loop (fuel + extra) D rem qs k = Done qs' rem' n.
Proof. exact loop_done_stable. Qed.
Print Assumptions C12_loop_done_stable.

Theorem C12_loop_rounds_le_fuel : forall fuel D rem qs k qs' rem' n,
  loop fuel D rem qs k = Done qs' rem' n -> (n <= k + fuel)%nat.
Proof. exact loop_rounds_le_fuel. Qed.
Print Assumptions C12_loop_rounds_le_fuel.

(* the progress measure that is true: in every round every deserved value grows or stays and
   every remaining value shrinks or stays (no amount is ever handed back), so over the whole
   loop remaining stays within [0, start] -- but nothing bounds the number of rounds *)
Theorem C12_round_monotone : forall D rem qs,
  Forall (fun q => (0 < q_w q)%Z /\ wf_static q /\ Mq q) qs -> total_weight qs <> 0%Z -> vnonneg rem ->
  Forall (fun q => (0 < q_w q)%Z /\ wf_static q /\ Mq q) (fst (round D rem qs))
  /\ vnonneg (snd (round D rem qs))
  /\ (forall q i, In q qs ->
        val0 (cnth (q_des q) i) <= val0 (cnth (q_des (upd rem (total_weight qs) q)) i))
  /\ (forall i, val0 (cnth (snd (round D rem qs)) i) <= val0 (cnth rem i)).
Proof. exact round_monotone. Qed.
Print Assumptions C12_round_monotone.

Theorem C12_remaining_never_grows : forall fuel D rem0 qs k,
  Forall (fun q => (0 < q_w q)%Z /\ wf_static q /\ Mq q) qs -> vnonneg rem0 ->
  forall i, 0 <= val0 (cnth (out_rem (loop fuel D rem0 qs k)) i) <= val0 (cnth rem0 i).
Proof. exact remaining_never_grows. Qed.
Print Assumptions C12_remaining_never_grows.

Theorem C12_progress_hypotheses_hold_initially : forall q,
  wf_static q -> q_des q = vzero -> Mq q.
Proof. exact Mq_init. Qed.
Print Assumptions C12_progress_hypotheses_hold_initially.

(* ORDER INDEPENDENCE, pointwise: run over any permutation qs' of qs, the loop returns
   map (loopF .. qs) qs' -- every queue ends with the record loopF assigns to it, whatever
   the iteration order; all inputs, all fuel *)
Theorem C12_loop_pointwise : forall fuel D rem qs qs' k,
  Permutation qs qs' ->
  out_qs (loop fuel D rem qs' k) = map (loopF fuel D rem qs) qs'.
Proof. exact loop_pointwise. Qed.
Print Assumptions C12_loop_pointwise.

(* non-vacuity: the witness queues satisfy the hypotheses of the bound theorems *)
Example C12_hypotheses_satisfiable : Forall upper_ok wit_qs.
Proof. exact wit_wf. Qed.
