(* Property C12 — queue fair shares respect guarantee, capability, demand and the
   cluster total.  Property theorems only; each is closed by [exact] of a lemma of
   C12/Lemmas.v and followed by its assumptions.  Values are exact rationals;
   [fuel] = number of rounds, so every statement holds at whichever round the float
   implementation leaves the loop. *)
From Coq Require Import QArith ZArith List Permutation.
From V Require Import C12.Model C12.Lemmas C12.Termination C12.Top C12.Laws C12.LawsSound.
Import ListNotations.
Open Scope Q_scope.

(* realCapability: value on present, non-negative operands (the cell-wise unfolding of the
   definition, realcap_def, is a lemma of C12/Lemmas.v and no longer counted here) *)
Theorem C12_realcap_value : forall total tg g c i t s x y,
  cnth total i = Some t -> cnth tg i = Some s -> cnth g i = Some x ->
  cnth (cap_norm c) i = Some y -> 0 <= t -> 0 <= s ->
  exists v, cnth (real_cap total tg g (Some c)) i = Some v /\ v == qmin (qmax 0 (t - s) + x) y.
Proof. exact realcap_value. Qed.
Print Assumptions C12_realcap_value.

(* deserved <= max(guarantee, realCapability) and deserved <= max(guarantee, request),
   every queue, every dimension, after any number of rounds *)
Theorem C12_deserved_upper_bounds : forall fuel D rem qs k,
  Forall upper_ok qs -> Forall upper_ok (out_qs (loop fuel D rem qs k)).
Proof. exact deserved_upper_bounds. Qed.
Print Assumptions C12_deserved_upper_bounds.

Theorem C12_upper_bounds_hold_initially : forall q,
  wf_static q -> q_des q = vzero -> upper_ok q.
Proof. exact upper_ok_init. Qed.
Print Assumptions C12_upper_bounds_hold_initially.

(* guarantee <= deserved once a round has run (weights positive) *)
Theorem C12_guarantee_le_deserved : forall fuel D rem qs k,
  Forall (fun q => q_meet q = false) qs ->
  (qs <> [] -> total_weight qs <> 0%Z) ->
  Forall lower_ok (out_qs (loop (S fuel) D rem qs k)).
Proof. exact guarantee_le_deserved. Qed.
Print Assumptions C12_guarantee_le_deserved.

Theorem C12_positive_weights_suffice : forall qs,
  Forall (fun q => (0 < q_w q)%Z) qs -> Exists (fun q => q_meet q = false) qs ->
  (0 < total_weight qs)%Z.
Proof. exact total_weight_pos. Qed.
Print Assumptions C12_positive_weights_suffice.

(* sum of deserved <= total + sum of guarantees, per dimension, any number of rounds *)
Theorem C12_deserved_sum_bound : forall fuel D total qs k i,
  Forall (fun q => q_des q = vzero /\ 0 <= val0 (cnth (q_gua q) i) /\ (0 < q_w q)%Z) qs ->
  0 <= val0 (cnth total i) ->
  qsumf (dv i) (out_qs (loop fuel D (vfix D total) qs k)) <= val0 (cnth total i) + qsumf (gv i) qs.
Proof. exact deserved_sum_bound. Qed.
Print Assumptions C12_deserved_sum_bound.

(* the result does not depend on the order in which Go's map iteration visits the queues *)
Theorem C12_round_order_independent : forall D rem qs qs',
  Permutation qs qs' ->
  Permutation (fst (round D rem qs)) (fst (round D rem qs')) /\
  snd (round D rem qs) = snd (round D rem qs').
Proof. exact round_order_independent. Qed.
Print Assumptions C12_round_order_independent.

Theorem C12_loop_order_independent : forall fuel D rem qs qs' k,
  Permutation qs qs' ->
  Permutation (out_qs (loop fuel D rem qs k)) (out_qs (loop fuel D rem qs' k)) /\
  out_rem (loop fuel D rem qs k) = out_rem (loop fuel D rem qs' k).
Proof. exact loop_order_independent. Qed.
Print Assumptions C12_loop_order_independent.

(* STEP LEMMA, not the clause: larger weight, equal demand: not less after ONE round in which
   both queues take part, given the same order before it.  It does not compose over the loop
   (the heavier twin can be declared satisfied first); the clause itself is refuted below and
   the tolerant version over the whole loop is not proved (law 104 only). *)
Theorem C12_weight_monotone_round : forall rem W q1 q2,
  q_rcap q1 = q_rcap q2 -> q_req q1 = q_req q2 -> q_gua q1 = q_gua q2 ->
  q_meet q1 = false -> q_meet q2 = false ->
  (0 < q_w q1 <= q_w q2)%Z -> (0 < W)%Z ->
  (forall i, 0 <= val0 (cnth rem i)) -> wf_static q1 ->
  (forall i, 0 <= val0 (cnth (q_des q1) i) <= val0 (cnth (q_des q2) i)) ->
  forall i, val0 (cnth (q_des (upd rem W q1)) i) <= val0 (cnth (q_des (upd rem W q2)) i).
Proof. exact weight_monotone_round. Qed.
Print Assumptions C12_weight_monotone_round.

(* ... but across rounds the strict statement fails by the 0.1 satisfaction tolerance *)
Theorem C12_weight_monotone_strict_refuted :
  exists D rem q1 q2 q3,
    q_rcap q1 = q_rcap q2 /\ q_req q1 = q_req q2 /\ q_gua q1 = q_gua q2 /\ (0 < q_w q1 <= q_w q2)%Z /\
    match out_qs (loop 10 D rem [q1; q2; q3] 0) with
    | [r1; r2; _] => val0 (cnth (q_des r2) 0) < val0 (cnth (q_des r1) 0)
    | _ => False
    end.
Proof. exact weight_monotone_strict_refuted. Qed.
Print Assumptions C12_weight_monotone_strict_refuted.

(* overused <-> deserved - allocated < 0.1 in every dimension present in deserved *)
Theorem C12_overused_iff : forall q,
  overused q = true <->
  forall i, match cnth (q_des q) i with
            | None => True
            | Some d => d - val0 (cnth (q_alloc q) i) < 1 # 10
            end.
Proof. exact overused_iff. Qed.
Print Assumptions C12_overused_iff.

Theorem C12_overused_integers : forall q,
  (forall i d, cnth (q_des q) i = Some d -> exists n m : Z,
       d == inject_Z n /\ val0 (cnth (q_alloc q) i) == inject_Z m) ->
  (overused q = true <-> forall i d, cnth (q_des q) i = Some d -> d <= val0 (cnth (q_alloc q) i)).
Proof. exact overused_integers. Qed.
Print Assumptions C12_overused_integers.

(* any fuel yields a state satisfying every invariant of the rounds (partial correctness) ... *)
Theorem C12_loop_invariant : forall (I : list qattr -> vec -> Prop) D,
  (forall rem qs, I qs rem -> total_weight qs <> 0%Z ->
                  I (fst (round D rem qs)) (snd (round D rem qs))) ->
  forall fuel rem qs k, I qs rem ->
    I (out_qs (loop fuel D rem qs k)) (out_rem (loop fuel D rem qs k)).
Proof. exact loop_inv. Qed.
Print Assumptions C12_loop_invariant.

(* ... but in exact arithmetic the loop need not stop: not within 200 rounds on the witness *)
Theorem C12_exact_termination_refuted_200 :
  exists D rem qs, Forall (fun q => (0 < q_w q)%Z /\ q_meet q = false) qs /\
                   is_out_of_fuel (loop 200 D rem qs 0) = true.
Proof. exact exact_termination_refuted_200. Qed.
Print Assumptions C12_exact_termination_refuted_200.

(* TERMINATION IS FALSE IN EXACT ARITHMETIC, with the exit tests exactly as coded (IsEmpty with
   the 0.1 threshold per dimension and pods ignored, DeepEqual(remaining, old), total weight 0):
   on the cross-capped witness the loop runs out of fuel for EVERY fuel.  (The real plugin
   leaves after 54 rounds on it: float absorption; see docs/notes/C12.md and law 107.) *)
Theorem C12_exact_nontermination : forall fuel,
  is_out_of_fuel (loop fuel 4 wit_rem wit_qs 0) = true.
Proof. exact exact_nontermination. Qed.
Print Assumptions C12_exact_nontermination.

(* what is true about fuel: an exit, once taken, is stable under more fuel, and is taken
   after at most [fuel] rounds *)
Theorem C12_loop_done_stable : forall fuel D rem qs k qs' rem' n,
  loop fuel D rem qs k = Done qs' rem' n ->
  forall extra, loop (fuel + extra) D rem qs k = Done qs' rem' n.
Proof. exact loop_done_stable. Qed.
Print Assumptions C12_loop_done_stable.

Theorem C12_loop_rounds_le_fuel : forall fuel D rem qs k qs' rem' n,
  loop fuel D rem qs k = Done qs' rem' n -> (n <= k + fuel)%nat.
Proof. exact loop_rounds_le_fuel. Qed.
Print Assumptions C12_loop_rounds_le_fuel.

(* the progress measure that is true: in every round every deserved value grows or stays and
   every remaining value shrinks or stays (no amount is ever handed back), so over the whole
   loop remaining stays within [0, start] -- but nothing bounds the number of rounds *)
Theorem C12_round_monotone : forall D rem qs,
  Forall (fun q => (0 < q_w q)%Z /\ wf_static q /\ Mq q) qs -> total_weight qs <> 0%Z -> vnonneg rem ->
  Forall (fun q => (0 < q_w q)%Z /\ wf_static q /\ Mq q) (fst (round D rem qs))
  /\ vnonneg (snd (round D rem qs))
  /\ (forall q i, In q qs ->
        val0 (cnth (q_des q) i) <= val0 (cnth (q_des (upd rem (total_weight qs) q)) i))
  /\ (forall i, val0 (cnth (snd (round D rem qs)) i) <= val0 (cnth rem i)).
Proof. exact round_monotone. Qed.
Print Assumptions C12_round_monotone.

Theorem C12_remaining_never_grows : forall fuel D rem0 qs k,
  Forall (fun q => (0 < q_w q)%Z /\ wf_static q /\ Mq q) qs -> vnonneg rem0 ->
  forall i, 0 <= val0 (cnth (out_rem (loop fuel D rem0 qs k)) i) <= val0 (cnth rem0 i).
Proof. exact remaining_never_grows. Qed.
Print Assumptions C12_remaining_never_grows.

Theorem C12_progress_hypotheses_hold_initially : forall q,
  wf_static q -> q_des q = vzero -> Mq q.
Proof. exact Mq_init. Qed.
Print Assumptions C12_progress_hypotheses_hold_initially.

(* ORDER INDEPENDENCE, pointwise: run over any permutation qs' of qs, the loop returns
   map (loopF .. qs) qs' -- every queue ends with the record loopF assigns to it, whatever
   the iteration order; all inputs, all fuel *)
Theorem C12_loop_pointwise : forall fuel D rem qs qs' k,
  Permutation qs qs' ->
  out_qs (loop fuel D rem qs' k) = map (loopF fuel D rem qs) qs'.
Proof. exact loop_pointwise. Qed.
Print Assumptions C12_loop_pointwise.

(* ---------- the model's own entry point on every well-formed session (audit W1) ---------- *)
Theorem C12_attrs_wf : forall total ss,
  vnonneg total -> Forall spec_ok ss -> Forall init_ok (attrs total ss).
Proof. exact attrs_wf. Qed.
Print Assumptions C12_attrs_wf.

(* clauses 1-4 for [proportion]: upper bounds, guarantee (fuel >= 1), sum, remaining in [0,total] *)
Theorem C12_proportion_correct : forall total ss fuel D,
  vnonneg total -> Forall spec_ok ss ->
  let o := proportion fuel D total ss in
  Forall upper_ok (out_qs o)
  /\ ((1 <= fuel)%nat -> Forall lower_ok (out_qs o))
  /\ (forall i, qsumf (dv i) (out_qs o) <= val0 (cnth total i) + qsumf (gv i) (attrs total ss))
  /\ (forall i, 0 <= val0 (cnth (out_rem o) i) <= val0 (cnth total i)).
Proof. exact proportion_correct. Qed.
Print Assumptions C12_proportion_correct.

(* audit W3: realCapability reserves the guarantees of ALL other queues of the session *)
Theorem C12_realcap_reserves_others : forall total ss s i,
  vnonneg total -> Forall spec_ok ss -> In s ss ->
  let q := attr_of total (total_guarantee ss) s in
  let S := qsumf (fun s' => val0 (cnth (s_gua s') i)) ss in
  let g := val0 (cnth (s_gua s) i) in
  val0 (cnth (q_rcap q) i) <= qmax 0 (val0 (cnth total i) - S) + g
  /\ val0 (cnth (q_rcap q) i) <= qmax g (val0 (cnth total i) - (S - g)).
Proof. exact realcap_reserves_others. Qed.
Print Assumptions C12_realcap_reserves_others.

(* audit W2: the literal clause "deserved <= capability" is false when guarantee > capability ... *)
Theorem C12_deserved_le_capability_refuted :
  exists total ss fuel D q s c,
    vnonneg total /\ Forall spec_ok ss /\
    In q (out_qs (proportion fuel D total ss)) /\
    In s ss /\ q_gua q = base_some (s_gua s) /\ s_cap s = Some c /\
    cnth c 0 = Some 5 /\ 5 < val0 (cnth (q_des q) 0).
Proof. exact deserved_le_capability_refuted. Qed.
Print Assumptions C12_deserved_le_capability_refuted.

(* ... and true under the admission webhook's guard guarantee <= capability *)
Theorem C12_proportion_deserved_le_realcap : forall total ss fuel D,
  vnonneg total -> Forall spec_ok ss -> Forall gua_le_cap ss ->
  Forall (fun q => forall i c, cnth (q_rcap q) i = Some c -> val0 (cnth (q_des q) i) <= c)
         (out_qs (proportion fuel D total ss)).
Proof. exact proportion_deserved_le_realcap. Qed.
Print Assumptions C12_proportion_deserved_le_realcap.

Theorem C12_realcap_le_capability : forall total tg g c i y,
  vnonneg total -> vnonneg tg -> vnonneg g -> vnonneg c ->
  cnth (cap_norm c) i = Some y ->
  val0 (cnth (real_cap total tg g (Some c)) i) <= y.
Proof. exact realcap_le_capability. Qed.
Print Assumptions C12_realcap_le_capability.

(* SECOND AUDIT N1 - CLAUSE 2 AT FULL STRENGTH, stated on DESERVED (a missing cell is not "no
   obligation"): on every well-formed session, for every queue record the loop returns and every
   dimension the cluster has,
     deserved <= max(own guarantee, total - guarantees of all OTHER queues of the session)
     deserved <= own capability, wherever that is bounded and not below the own guarantee.
   True for the code after fix 019e7c9 (realCapability keeps every dimension of the cluster);
   before it a scalar whose total was used up by guarantees vanished from realCapability and the
   queue was unbounded there (corpus/C12/unreserved-scalar-unbounded.jsonl). *)
Theorem C12_realcap_present : forall total tg g cap i t,
  cnth total i = Some t -> exists c, cnth (real_cap total tg g cap) i = Some c.
Proof. exact rcap_present. Qed.
Print Assumptions C12_realcap_present.

Theorem C12_proportion_clause2 : forall total ss fuel D,
  vnonneg total -> Forall spec_ok ss ->
  Forall (fun q => exists s, In s ss /\ q_gua q = base_some (s_gua s) /\
    forall i t, cnth total i = Some t ->
      let g := val0 (cnth (s_gua s) i) in
      let S := qsumf (fun s' => val0 (cnth (s_gua s') i)) ss in
      val0 (cnth (q_des q) i) <= qmax g (t - (S - g))
      /\ (forall c y, s_cap s = Some c -> cnth (cap_norm (base_some c)) i = Some y -> g <= y ->
                      val0 (cnth (q_des q) i) <= y))
    (out_qs (proportion fuel D total ss)).
Proof. exact proportion_clause2. Qed.
Print Assumptions C12_proportion_clause2.

Theorem C12_capacity_clause2 : forall total ss s i t,
  vnonneg total -> Forall spec_ok ss -> In s ss -> cnth total i = Some t ->
  let d := snd (capacity_des total (total_guarantee ss) s) in
  let g := val0 (cnth (s_gua s) i) in
  let S := qsumf (fun s' => val0 (cnth (s_gua s') i)) ss in
  val0 (cnth d i) <= qmax g (t - (S - g))
  /\ (forall c y, s_cap s = Some c -> cnth (cap_norm (base_some c)) i = Some y -> g <= y ->
                  val0 (cnth d i) <= y).
Proof. exact capacity_clause2. Qed.
Print Assumptions C12_capacity_clause2.

(* audit W5: the capacity plugin's clamp (flat queues) *)
Theorem C12_capacity_des_bounds : forall total tg s i,
  let rc := fst (capacity_des total tg s) in
  let d := snd (capacity_des total tg s) in
  val0 (cnth (base_some (s_gua s)) i) <= val0 (cnth d i)
  /\ (forall c, cnth rc i = Some c -> 0 <= c ->
                val0 (cnth d i) <= qmax (val0 (cnth (base_some (s_gua s)) i)) c)
  /\ rc = q_rcap (attr_of total tg s).
Proof. exact capacity_des_bounds. Qed.
Print Assumptions C12_capacity_des_bounds.

(* audit W9: a different iteration order in every round *)
Theorem C12_loop_any_order_per_round : forall sh,
  (forall n l, Permutation l (sh n l)) ->
  forall fuel D rem qs qs' k, Permutation qs qs' ->
    Permutation (out_qs (loop fuel D rem qs k)) (out_qs (loopR sh fuel D rem qs' k))
    /\ out_rem (loop fuel D rem qs k) = out_rem (loopR sh fuel D rem qs' k)
    /\ is_out_of_fuel (loop fuel D rem qs k) = is_out_of_fuel (loopR sh fuel D rem qs' k).
Proof. exact loop_any_order_per_round. Qed.
Print Assumptions C12_loop_any_order_per_round.

(* float64 is not the exact model: binary64 addition is not associative, so the map-order
   accumulation of the real plugin is order dependent (known finding C12/map-order-dependent-deserved) *)
Theorem C12_float_sum_order_dependent_refuted :
  exists a b c : SpecFloat.spec_float,
    SpecFloat.SFeqb (f64add (f64add a b) c) (f64add a (f64add b c)) = false.
Proof. exact float_sum_order_dependent_refuted. Qed.
Print Assumptions C12_float_sum_order_dependent_refuted.

(* ---------- what the boolean laws mean (audit W11) ---------- *)
Theorem C12_law_bounds_iff : forall D os,
  weights_pos os = true -> (law_bounds D os = true <-> Forall (bounds_prop D) os).
Proof. exact law_bounds_iff. Qed.
Print Assumptions C12_law_bounds_iff.

Theorem C12_law_sum_iff : forall D total os,
  weights_pos os = true ->
  (law_sum D total os = true <->
   forall j, (j < D)%nat ->
     qsum (map (fun o => val0 (cnth (o_des o) j)) os)
     <= val0 (cnth total j) + qsum (map (fun o => val0 (cnth (o_gua o) j)) os) + slack).
Proof. exact law_sum_iff. Qed.
Print Assumptions C12_law_sum_iff.

Theorem C12_law_reserve_sound : forall D total tg os,
  law_reserve false D total tg os = true ->
  Forall (fun o => forall j, (j < D)%nat ->
            (forall t, cnth total j = Some t -> cnth (o_rcap o) j <> None)
            /\ forall c, cnth (o_rcap o) j = Some c ->
            c <= qmax 0 (val0 (cnth total j) - val0 (cnth tg j)) + val0 (cnth (o_gua o) j) + slack) os.
Proof. exact law_reserve_sound. Qed.
Print Assumptions C12_law_reserve_sound.

Theorem C12_law_overused_sound : forall D o,
  law_overused_q D o = true -> near_boundary D o = false -> (o_over o = true <-> overused_prop o).
Proof. exact law_overused_q_sound. Qed.
Print Assumptions C12_law_overused_sound.

Theorem C12_law_weight_sound : forall D os,
  law_weight D os = true -> weights_pos os = true ->
  forall a b, In a os -> In b os -> same_demand a b = true -> (o_w a <= o_w b)%Z ->
  forall j, (j < D)%nat -> val0 (cnth (o_des a) j) <= val0 (cnth (o_des b) j) + eps + slack.
Proof. exact law_weight_sound. Qed.
Print Assumptions C12_law_weight_sound.

Theorem C12_law_rounds_iff : forall D big r ws,
  law_rounds D big r ws = true <->
  (exists w, In w ws /\ (w <= 0)%Z) \/ (r <= rounds_bound D big ws)%Z.
Proof. exact law_rounds_iff. Qed.
Print Assumptions C12_law_rounds_iff.

Theorem C12_law_bounds_accepts_model : forall D q,
  upper_ok q -> lower_ok q ->
  (forall j, cnth (q_rcap q) j = None -> val0 (cnth (q_des q) j) <= val0 (cnth (q_gua q) j)) ->
  law_bounds_q D (obs_of q) = true.
Proof. exact law_bounds_q_accepts_model. Qed.
Print Assumptions C12_law_bounds_accepts_model.

Theorem C12_law_runs_identical_iff : forall D ab,
  law_runs_identical D ab = true <->
  Forall (fun p : obs * obs => forall j, (j < D)%nat ->
            close (val0 (cnth (o_des (fst p)) j)) (val0 (cnth (o_des (snd p)) j)) = true) ab.
Proof. exact law_runs_identical_iff. Qed.
Print Assumptions C12_law_runs_identical_iff.

Theorem C12_law_runs_agree_sound : forall D ab,
  law_runs_agree D ab = true ->
  Forall (fun p : obs * obs => forall j, (j < D)%nat ->
            qabs (val0 (cnth (o_des (fst p)) j) - val0 (cnth (o_des (snd p)) j)) <= eps + slack) ab.
Proof. exact law_runs_agree_sound. Qed.
Print Assumptions C12_law_runs_agree_sound.

Theorem C12_law_capability_sound : forall D total qs,
  law_capability D total qs = true ->
  Forall (fun q : vec * vec * vec => let '(cap, g, d) := q in
            forall j t y, (j < D)%nat -> cnth total j = Some t -> cnth cap j = Some y ->
                          val0 (cnth g j) <= y -> val0 (cnth d j) <= y + slack) qs.
Proof. exact law_capability_sound. Qed.
Print Assumptions C12_law_capability_sound.

Theorem C12_law_order_excused_iff : forall D r ab,
  law_order_excused D r ab = true <->
  law_runs_identical D ab = true \/ (r = false /\ max_dev_ok D ab = true).
Proof. exact law_order_excused_iff. Qed.
Print Assumptions C12_law_order_excused_iff.

(* non-vacuity on a session where guarantee, capability and demand interact (audit W8) *)
Example C12_example_session_ok : vnonneg ex_total /\ Forall spec_ok ex_specs.
Proof. exact ex_ok. Qed.
(* the guard of the capability clause is satisfiable: the example session meets it *)
Example C12_example_session_guard : Forall gua_le_cap ex_specs.
Proof. exact ex_guard. Qed.
Example C12_example_session_result :
  match proportion 10 4 ex_total ex_specs with
  | Done [q1; q2] _ n =>
      cnth (q_des q1) 0 = Some 6000 /\ cnth (q_des q2) 0 = Some 4000 /\ (1 <= n)%nat
  | _ => False
  end.
Proof. exact ex_result. Qed.

(* non-vacuity: the witness queues satisfy the hypotheses of the bound theorems *)
Example C12_hypotheses_satisfiable : Forall upper_ok wit_qs.
Proof. exact wit_wf. Qed.
