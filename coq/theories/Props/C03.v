(* Property C03 -- queue capability and queue state are hard limits on allocation.
   Property theorems only; each is closed by [exact] of a lemma and followed by its assumptions.

   Part A: the action skeleton (Sched/CycleModel.v: allocate attempts with keep / commit /
   discard, backfill) with the queue plugin's Allocatable vote on a per-queue record
   (open, limit): limit = proportion's deserved / capacity's realCapability.
   Part B: the votes of the capacity plugin (flat and hierarchical) and of the proportion plugin
   as functions of the plugins' per-queue records (C03/CapacityModel.v). *)
From stdpp Require Import gmap.
From Coq Require Import ZArith List.
From V Require Import Base.Res Sched.LedgerModel Sched.StmtModel Sched.GangModel Sched.CycleModel
                      Sched.LedgerInvP Sched.LedgerCodec Sched.CycleCodec
                      Sched.LedgerLemmasSess Sched.QueueLemmasBase Sched.QueueLemmasReach Sched.QueueLemmas Sched.QueueLemmasHeld Sched.QueueLemmasEx Sched.QueueLemmasBuild
                      C03.CapacityModel C03.CapacityLemmas C03.ReclaimLaw C03.AliasModel C03.ReclaimModel.
From V Require C03.EnqueueLaw.
Import ListNotations.
Open Scope Z_scope.

(* ================= Part A ================= *)

(* A.2  a positive vote of the queue plugin: the queue is Open and, in every dimension the task
   requests (cpu / memory > 0, scalars > 0 other than pods), allocated + request <= limit *)
Theorem C03_queue_allocatable_bound : forall (w : world) (allocated : res) (q : qattr) (t : task),
  q_has_plugin q = true ->
  queue_allocatable w allocated q t = true ->
  q_open q = true /\
  forall d, requested (t_req t) d -> amt allocated d + amt (t_req t) d <= amt (q_limit q) d.
Proof. exact queue_allocatable_bound. Qed.
Print Assumptions C03_queue_allocatable_bound.

(* A.1  every skeleton step moves every queue's share by the requests behind the handler
   callbacks it triggered (newest first in [evs]): + on allocate / pipeline, - on undo.  Exact in
   cpu and memory; for scalars bounded from below by the signed sum and from above by the
   allocate events alone (Resource.sub drops the subtrahend's scalars on a nil map) *)
Theorem C03_events_balance : forall eps (w : world) (o : cop),
  world_ok w ->
  exists evs, balanced (w_sess w) (w_sess (fst (CycleModel.step eps w o))) evs.
Proof. exact events_balance. Qed.
Print Assumptions C03_events_balance.

(* ... and so for a whole cycle: share now = share at session open + placed - undone *)
Theorem C03_events_balance_run : forall eps (w : world) (ops : list cop),
  world_ok w ->
  exists evs, balanced (w_sess w) (w_sess (CycleModel.run eps w ops)) evs.
Proof. exact events_balance_run. Qed.
Print Assumptions C03_events_balance_run.


(* A.3 (main)  for every world, every list of oracle choices (no hypothesis on the verdicts: a
   refused or malformed choice places nothing), after the run -- hence after every step: a prefix of a choice list is a choice list -- for every allocate callback [e] of this cycle, its task t, t's queue q with a
   queue plugin: q is Open unless t is best-effort, and in every dimension t requests the queue's
   share is within the limit *)
Theorem C03_queue_cap_invariant : forall eps (w : world) (ops : list cop),
  world_ok w ->
  let s' := w_sess (CycleModel.run eps w ops) in
  forall evs, hlog s' = evs ++ hlog (w_sess w) ->
  forall e t q qa,
    e ∈ evs -> he_alloc e = true -> heap s' !! he_task e = Some t -> queue_of s' t = Some q ->
    w_queues w !! q = Some qa -> q_has_plugin qa = true ->
    (t_best_effort t = false -> q_open qa = true) /\
    forall d, requested (t_req t) d -> amt (share_of s' q) d <= amt (q_limit qa) d.
Proof. exact queue_cap_invariant. Qed.
Print Assumptions C03_queue_cap_invariant.

(* ---- the property in its own words (audit W1): the queue's PLACED PODS, not a ledger ----
   held s q d = sum of the requests, in dimension d, of the tasks of the heap whose job belongs to
   queue q and whose status is Allocated / Pipelined / Binding / Bound / Running.
   world_ok_held w = world_ok w, the bookkeeping invariant ledger_inv of LedgerInvP.v with C07's two
   side conditions (sess_wf, saved_ok), statements handed out fresh, and  cover : the handler
   ledger the vote reads is at least [held] when the session opens (OnSessionOpen sums exactly the
   pods in an allocated status).  [cover] is then an INVARIANT of every run: *)
Theorem C03_ledger_covers_placed : forall eps (w : world) (ops : list cop),
  world_ok_held w ->
  forall q d, held (w_sess (CycleModel.run eps w ops)) q d <= amt (share_of (w_sess (CycleModel.run eps w ops)) q) d.
Proof. exact ledger_covers_placed. Qed.
Print Assumptions C03_ledger_covers_placed.

(* MAIN, allocate / backfill skeleton: after every run (hence every prefix: a prefix of a choice
   list is a choice list), for every task placed in this cycle for a queue with a plugin, the queue
   is Open unless the task is best-effort, and in every dimension the task requests the requests of
   the queue's placed pods are within the queue's limit *)
Theorem C03_placed_pods_within_limit : forall eps (w : world) (ops : list cop),
  world_ok_held w ->
  let s' := w_sess (CycleModel.run eps w ops) in
  forall evs, hlog s' = evs ++ hlog (w_sess w) ->
  forall e t q qa,
    e ∈ evs -> he_alloc e = true -> heap s' !! he_task e = Some t -> queue_of s' t = Some q ->
    w_queues w !! q = Some qa -> q_has_plugin qa = true ->
    (t_best_effort t = false -> q_open qa = true) /\
    forall d, requested (t_req t) d -> held s' q d <= amt (q_limit qa) d.
Proof. exact placed_pods_within_limit. Qed.
Print Assumptions C03_placed_pods_within_limit.

(* the well-formedness survives the run: the theorem applies to the next cycle of the session *)
Theorem C03_world_ok_held_run : forall eps (w : world) (ops : list cop),
  world_ok_held w -> ledger_inv (w_sess (CycleModel.run eps w ops)) /\ fresh (CycleModel.run eps w ops) /\
                     cover (w_sess (CycleModel.run eps w ops)).
Proof. exact world_ok_held_run. Qed.
Print Assumptions C03_world_ok_held_run.

(* a session in which no pod holds quota yet and whose ledger is empty is covered *)
Theorem C03_cover_no_holding : forall s,
  hshare s = ∅ -> (forall i t, heap s !! i = Some t -> holds (t_status t) = false) -> cover s.
Proof. exact cover_no_holding. Qed.
Print Assumptions C03_cover_no_holding.





Theorem C03_world_okb_sound : forall w, world_okb w = true -> world_ok w.
Proof. exact world_okb_ok. Qed.
Print Assumptions C03_world_okb_sound.

(* BestEffort = InitResreq.IsEmpty(): on the grid an empty request is 0 outside the pod count *)
Theorem C03_best_effort_requests_nothing : forall eps r,
  is_empty eps r = true -> granular eps r -> nonneg r -> forall d, d <> DSc pods_name -> amt r d = 0.
Proof. exact is_empty_granular_zero. Qed.
Print Assumptions C03_best_effort_requests_nothing.

(* ---- non-vacuity (one node of 4 cpu, queue 1 Open with limit 1 cpu, queue 2 Closed) ---- *)

Example C03_ex_world_ok : world_ok ex_w.
Proof. exact ex_world_ok. Qed.

Example C03_ex_first_placed :
  let s' := w_sess (CycleModel.run 2 ex_w ops1) in
  verdicts 2 ex_w ops1 = [VOk] /\ hlog s' = [ev1] /\
  binds s' = [(1%positive, Some 1%positive)] /\ amt (share_of s' 1) DCpu = 9600.
Proof. exact ex_first_placed. Qed.

Example C03_ex_second_refused :
  let s' := w_sess (CycleModel.run 2 ex_w ops2) in
  verdicts 2 ex_w ops2 = [VQueueRefuses 2] /\ hlog s' = [ev1] /\ amt (share_of s' 1) DCpu = 9600.
Proof. exact ex_second_refused. Qed.

Example C03_ex_closed_refused :
  verdicts 2 ex_w ops3 = [VQueueRefuses 3] /\ hlog (w_sess (CycleModel.run 2 ex_w ops3)) = [].
Proof. exact ex_closed_refused. Qed.

Example C03_ex_invariant_applies :
  let s' := w_sess (CycleModel.run 2 ex_w ops1) in amt (share_of s' 1) DCpu <= 16000.
Proof. exact ex_invariant_applies. Qed.
Print Assumptions C03_ex_invariant_applies.

(* ================= Part B: the votes of the real plugins, from their per-queue records =================
   Records (open, allocated, inqueue, elastic, deserved, realCapability, ancestors, #children) are
   arbitrary: nothing about the forest is assumed. *)

(* capacity AllocatableFn (flat: ancestors = []; hierarchical): Open, ready, leaf, and along the
   queue and EVERY ancestor, in every requested dimension, allocated + reserved + request <=
   realCapability *)
Theorem C03_capacity_allocatable_bound : forall hier ready qs reserved q req,
  cap_allocatable hier ready qs reserved q req = true ->
  exists r, qs !! q = Some r /\ qr_open r = true /\ ready = true /\
    (hier = true -> qr_children r = 0%nat) /\
    forall a, a = q \/ a ∈ qr_ancestors r ->
      exists ra c, qs !! a = Some ra /\ qr_realcap ra = Some c /\
        forall d, requested req d ->
          amt (qr_alloc ra) d + amt (reserved a) d + amt req d <= amt c d.
Proof. exact capacity_allocatable_bound. Qed.
Print Assumptions C03_capacity_allocatable_bound.

(* capacity / proportion JobEnqueueableFn: Permit with minResources (and a realCapability) =>
   minResources + allocated + inqueue - elastic <= realCapability along all ancestors *)
Theorem C03_enqueue_vote_bound : forall hier ready qs q minres,
  cap_enqueueable hier ready qs q minres = Permit ->
  exists r, qs !! q = Some r /\ ready = true /\ qr_open r = true /\
    (hier = true -> qr_children r = 0%nat) /\
    forall m, minres = Some m -> qr_realcap r <> None ->
      forall a, a = q \/ a ∈ qr_ancestors r ->
        exists ra c, qs !! a = Some ra /\ qr_realcap ra = Some c /\
          forall d, requested m d ->
            amt m d + amt (qr_alloc ra) d + amt (qr_inqueue ra) d - amt (qr_elastic ra) d <= amt c d.
Proof. exact enqueue_vote_bound. Qed.
Print Assumptions C03_enqueue_vote_bound.

Theorem C03_prop_enqueue_vote_bound : forall qs q minres,
  prop_enqueueable qs q minres = Permit ->
  exists r, qs !! q = Some r /\ qr_open r = true /\
    forall m c, minres = Some m -> qr_realcap r = Some c ->
      forall d, requested m d ->
        amt m d + amt (qr_alloc r) d + amt (qr_inqueue r) d - amt (qr_elastic r) d <= amt c d.
Proof. exact prop_enqueue_vote_bound. Qed.
Print Assumptions C03_prop_enqueue_vote_bound.

(* with hierarchy only leaf queues receive pods or admissions *)
Theorem C03_only_leaf_receives : forall ready qs reserved q r req minres,
  qs !! q = Some r -> (0 < qr_children r)%nat ->
  cap_allocatable true ready qs reserved q req = false /\ cap_enqueueable true ready qs q minres = Reject.
Proof. exact only_leaf_receives. Qed.
Print Assumptions C03_only_leaf_receives.

(* a queue that is not Open gets no positive vote from either plugin *)
Theorem C03_closed_queue_receives_nothing : forall eps hier ready qs reserved q r,
  qs !! q = Some r -> qr_open r = false ->
  (forall req, cap_allocatable hier ready qs reserved q req = false) /\
  (forall reqs, cap_preemptive eps ready qs q reqs = false) /\
  (forall minres, cap_enqueueable hier ready qs q minres = Reject) /\
  (forall reqs, prop_allocatable qs q reqs = false) /\
  (forall minres, prop_enqueueable qs q minres = Reject).
Proof. exact closed_queue_receives_nothing. Qed.
Print Assumptions C03_closed_queue_receives_nothing.

(* proportion AllocatableFn / PreemptiveFn: allocated + request <= deserved *)
Theorem C03_proportion_allocatable_bound : forall qs q req,
  prop_allocatable qs q [req] = true ->
  exists r, qs !! q = Some r /\ qr_open r = true /\
    forall d, requested req d -> amt (qr_alloc r) d + amt req d <= amt (qr_deserved r) d.
Proof. exact proportion_allocatable_bound. Qed.
Print Assumptions C03_proportion_allocatable_bound.

Theorem C03_proportion_preemptive_bound : forall qs q reqs,
  prop_allocatable qs q reqs = true ->
  exists r, qs !! q = Some r /\ qr_open r = true /\
    forall d, requested (total_req reqs) d -> amt (qr_alloc r) d + amt (total_req reqs) d <= amt (qr_deserved r) d.
Proof. exact proportion_preemptive_bound. Qed.
Print Assumptions C03_proportion_preemptive_bound.

(* capacity PreemptiveFn (the only guard of the reclaim action before /repo bd1440f) bounds the
   queue ITSELF only ... *)
Theorem C03_cap_preemptive_bound : forall eps ready qs q reqs,
  cap_preemptive eps ready qs q reqs = true ->
  exists r c, qs !! q = Some r /\ ready = true /\ qr_open r = true /\ qr_realcap r = Some c /\
    forall d, requested (total_req reqs) d -> amt (qr_alloc r) d + amt (total_req reqs) d <= amt c d.
Proof. exact cap_preemptive_bound. Qed.
Print Assumptions C03_cap_preemptive_bound.

(* ... and does not imply the bound for the ancestors: the defect reproduced on the real reclaim
   action (parent at its capability, task pipelined) and repaired by bd1440f, which makes reclaim
   ask Allocatable after the tentative evictions *)
Theorem C03_cap_preemptive_leaf_only_refuted :
  exists eps qs q req,
    cap_preemptive eps true qs q [req] = true /\
    cap_allocatable true true qs (fun _ => empty_res) q req = false.
Proof. exact cap_preemptive_leaf_only_refuted. Qed.
Print Assumptions C03_cap_preemptive_leaf_only_refuted.

(* proportion compares with deserved: with deserved > realCapability (guarantee > capability, a
   queue the admission webhook rejects) the vote allows more than the capability *)
Theorem C03_proportion_realcap_bound_refuted :
  exists qs q req r c,
    prop_allocatable qs q [req] = true /\ qs !! q = Some r /\ qr_realcap r = Some c /\
    requested req DCpu /\ amt c DCpu < amt (qr_alloc r) DCpu + amt req DCpu.
Proof. exact proportion_realcap_bound_refuted. Qed.
Print Assumptions C03_proportion_realcap_bound_refuted.

(* the executable law of the harness states the theorem's bound, and accepts the model's votes *)
Theorem C03_bound_okb_spec : forall req lhs rhs,
  bound_okb req lhs rhs = true <-> forall d, requested req d -> lhs d <= rhs d.
Proof. exact bound_okb_spec. Qed.
Print Assumptions C03_bound_okb_spec.

Theorem C03_law_alloc_accepts_model : forall (hier ready : bool) qs reserved q req,
  law_alloc_one (if hier then KHier else KFlat) qs reserved q req (cap_allocatable hier ready qs reserved q req) = true.
Proof. exact law_alloc_accepts_model. Qed.
Print Assumptions C03_law_alloc_accepts_model.

(* ---- the stored hierarchy: Go slices over shared backing arrays (second repaired defect) ---- *)

(* before /repo 6f3139f a vote for c1 rewrote the stored ancestors of g (child of c1's sibling) *)
Theorem C03_ancestors_aliasing_refuted :
  exists t q q', ancestors t q' = [qroot; q1; q2; q3; q4; q5; c2] /\
                 ancestors (fst (vote_prefix t q)) q' = [qroot; q1; q2; q3; q4; q5; c1].
Proof. exact ancestors_aliasing_refuted. Qed.
Print Assumptions C03_ancestors_aliasing_refuted.

(* the repaired list construction leaves every stored ancestor list as it was and walks
   ancestors ++ [q] *)
Theorem C03_vote_fixed_preserves : forall (t : table) (q : positive),
  heap_wf (t_heap t) ->
  (forall q' s, t_anc t !! q' = Some s -> is_Some (h_arrays (t_heap t) !! sl_arr s)) ->
  forall q', ancestors (fst (vote_fixed t q)) q' = ancestors t q'.
Proof. exact vote_fixed_preserves. Qed.
Print Assumptions C03_vote_fixed_preserves.

Theorem C03_vote_fixed_list : forall (t : table) (q : positive),
  snd (vote_fixed t q) = ancestors t q ++ [q].
Proof. exact vote_fixed_list. Qed.
Print Assumptions C03_vote_fixed_list.

(* the law of the reclaim regression stream says what it should *)
Theorem C03_reclaim_law_spec : forall placed l, triples_ok placed l = true ->
  forall i a h c, nth_error l (3 * i) = Some a -> nth_error l (3 * i + 1) = Some h ->
                  nth_error l (3 * i + 2) = Some c ->
  a = h /\ (placed = true -> h <= c).
Proof. exact triples_ok_spec. Qed.
Print Assumptions C03_reclaim_law_spec.

(* ---- non-vacuity, Part B: root > gp (realCapability 4, holds 3) > p > leaf ---- *)
Example C03_ex_grandparent_binds :
  queue_fits ex_qs (fun _ => empty_res) (cpu_res 2) 4%positive = true /\
  queue_fits ex_qs (fun _ => empty_res) (cpu_res 2) 3%positive = true /\
  queue_fits ex_qs (fun _ => empty_res) (cpu_res 2) 2%positive = false /\
  cap_allocatable true true ex_qs (fun _ => empty_res) 4%positive (cpu_res 2) = false.
Proof. exact ex_grandparent_binds. Qed.

Example C03_ex_accepted :
  cap_allocatable true true ex_qs (fun _ => empty_res) 4%positive (cpu_res 1) = true /\
  cap_enqueueable true true ex_qs 4%positive (Some (cpu_res 1)) = Permit /\
  cap_enqueueable true true ex_qs 4%positive (Some (cpu_res 2)) = Reject /\
  cap_allocatable true true ex_qs (fun _ => empty_res) 3%positive (cpu_res 1) = false.
Proof. exact ex_accepted. Qed.

(* ---- what the enqueue law (119) counts, recomputed from the PodGroup objects and the pods ---- *)

(* an admitted (Inqueue) PodGroup counts for exactly its minResources in every dimension they list,
   whether or not its pods exist yet (minus what its scheduling-gated pods request) *)
Theorem C03_counted_inqueue_is_min : forall (j : EnqueueLaw.ejob) (d : nat) (m : Z),
  EnqueueLaw.min_at j d = Some m -> 0 <= nth d (EnqueueLaw.ej_alloc j) 0 -> nth d (EnqueueLaw.ej_gated j) 0 = 0 ->
  EnqueueLaw.counted 2 j d = m.
Proof. exact EnqueueLaw.counted_inqueue_is_min. Qed.
Print Assumptions C03_counted_inqueue_is_min.

(* a job without minResources, or a dimension its minResources do not list, counts for nothing in
   the enqueue vote: all of that allocation is "elastic" (see the notes: a literal reading of the
   property text would count it) *)
Theorem C03_counted_unlisted : forall (phase : Z) (j : EnqueueLaw.ejob) (d : nat),
  EnqueueLaw.min_at j d = None -> 0 <= nth d (EnqueueLaw.ej_alloc j) 0 -> EnqueueLaw.counted phase j d = 0.
Proof. exact EnqueueLaw.counted_unlisted. Qed.
Print Assumptions C03_counted_unlisted.

(* ---- the placement decision of the reclaim action (no reclaim action skeleton exists in
   CycleModel.v; this is the decision reclaim.go takes after /repo bd1440f) ---- *)

(* evictions or not: a reclaim placement is preceded by the Allocatable vote on the records as they
   are after the tentative evictions, hence the bound for the queue and every ancestor *)
Theorem C03_reclaim_placement_bound : forall hier ready qs_after reserved q req fits_node,
  reclaim_pipelines hier ready qs_after reserved q req fits_node = true ->
  exists r, qs_after !! q = Some r /\ qr_open r = true /\ ready = true /\
    (hier = true -> qr_children r = 0%nat) /\
    forall a, a = q \/ a ∈ qr_ancestors r ->
      exists ra c, qs_after !! a = Some ra /\ qr_realcap ra = Some c /\
        forall d, requested req d ->
          amt (qr_alloc ra) d + amt (reserved a) d + amt req d <= amt c d.
Proof. exact reclaim_placement_bound. Qed.
Print Assumptions C03_reclaim_placement_bound.

(* repeating the vote only after an eviction is not enough with hierarchical queues *)
Theorem C03_reclaim_skip_vote_refuted :
  exists eps qs q req ra c,
    cap_preemptive eps true qs q [req] = true /\
    reclaim_pipelines_skip false true true qs (fun _ => empty_res) q req true = true /\
    qs !! 2%positive = Some ra /\ 2%positive ∈ qr_ancestors (default ra (qs !! q)) /\
    qr_realcap ra = Some c /\ amt c DCpu < amt (qr_alloc ra) DCpu + amt req DCpu.
Proof. exact reclaim_skip_vote_refuted. Qed.
Print Assumptions C03_reclaim_skip_vote_refuted.

(* ================= audit round ================= *)

(* W1 non-vacuity: a session that starts with a NON-EMPTY ledger and a pod holding quota (the world
   after the first cycle; its well-formedness is derived from the invariant theorems), a second
   cycle refused at 19200 > 16000, and the reviewer's counter-world (same session, ledger
   forgotten): accepted by the old hypothesis world_ok, rejected by world_ok_held *)
Example C03_ex_world_ok_held : world_ok_held ex_w.
Proof. exact ex_world_ok_held. Qed.
Example C03_ex_w1_ok_held : world_ok_held ex_w1.
Proof. exact ex_w1_ok_held. Qed.
Example C03_ex_w1_ledger : held (w_sess ex_w1) 1 DCpu = 9600 /\ amt (share_of (w_sess ex_w1) 1) DCpu = 9600.
Proof. exact ex_w1_ledger. Qed.
Example C03_ex_second_cycle :
  verdicts 2 ex_w1 ops4 = [VQueueRefuses 2] /\ held (w_sess (CycleModel.run 2 ex_w1 ops4)) 1 DCpu = 9600.
Proof. exact ex_second_cycle. Qed.
Example C03_ex_forgotten_ledger_rejected :
  world_ok ex_w1_forgotten /\ (~ cover (w_sess ex_w1_forgotten)) /\
  (verdicts 2 ex_w1_forgotten ops4 = [VOk]) /\
  (held (w_sess (CycleModel.run 2 ex_w1_forgotten ops4)) 1 DCpu = 19200).
Proof. exact ex_forgotten_ledger_rejected. Qed.
Example C03_ex_placed_within_limit : held (w_sess (CycleModel.run 2 ex_w ops1)) 1 DCpu <= 16000.
Proof. exact ex_placed_within_limit. Qed.
Print Assumptions C03_ex_placed_within_limit.

(* W7: backfill asks no vote: a best-effort pod is placed for a Closed queue *)
Example C03_ex_backfill_places_in_closed_queue :
  let s' := w_sess (CycleModel.run 2 ex_w_be [CBackfill 1 1]) in
  verdicts 2 ex_w_be [CBackfill 1 1] = [VOk] /\
  (exists t, heap s' !! 1%positive = Some t /\ t_best_effort t = true /\ t_status t = Binding /\
             queue_of s' t = Some 2%positive) /\
  (exists qa, w_queues ex_w_be !! 2%positive = Some qa /\ q_open qa = false).
Proof. exact ex_backfill_places_in_closed_queue. Qed.

(* W8: the literal enqueue clause ("together with what the queue has already allocated") is false
   of both plugins: the elastic part of the allocation is not counted *)
Theorem C03_enqueue_literal_refuted :
  exists qs q m r c,
    prop_enqueueable qs q (Some m) = Permit /\ cap_enqueueable false true qs q (Some m) = Permit /\
    qs !! q = Some r /\ qr_realcap r = Some c /\
    amt c DCpu < amt m DCpu + amt (qr_alloc r) DCpu + amt (qr_inqueue r) DCpu.
Proof. exact enqueue_literal_refuted. Qed.
Print Assumptions C03_enqueue_literal_refuted.

(* W12: what law 110 means, as a Prop *)
Theorem C03_law_alloc_one_sound : forall k qs reserved q req,
  law_alloc_one k qs reserved q req true = true ->
  exists r, qs !! q = Some r /\ qr_open r = true /\ leaf_ok k r = true /\
    forall a, a ∈ chain_of k r q ->
      exists ra c, qs !! a = Some ra /\ limit_of k ra = Some c /\
        forall d, requested req d -> amt (qr_alloc ra) d + amt (reserved a) d + amt req d <= amt c d.
Proof. exact law_alloc_one_sound. Qed.
Print Assumptions C03_law_alloc_one_sound.

(* W3: the construction of the ancestor lists aliased too (repaired by /repo 675735a): registering
   a child of c1 rewrites the parent recorded for g, child of c2; the repaired construction records
   the parent's chain followed by the parent and touches no other queue *)
Theorem C03_construction_aliasing_refuted :
  ancestors witness_table g = [qroot; q1; q2; q3; q4; q5; c2] /\
  ancestors (add_queue witness_table hq (Some c1)) g = [qroot; q1; q2; q3; q4; q5; c1].
Proof. exact construction_aliasing_refuted. Qed.
Print Assumptions C03_construction_aliasing_refuted.

Theorem C03_add_queue_fixed_spec : forall (t : table) (q p : positive),
  table_wf t ->
  let t' := add_queue_fixed t q (Some p) in
  ancestors t' q = ancestors t p ++ [p] /\
  (forall q', q' <> q -> ancestors t' q' = ancestors t q') /\
  table_wf t'.
Proof. exact add_queue_fixed_spec. Qed.
Print Assumptions C03_add_queue_fixed_spec.

(* ================= second audit round ================= *)

(* N1 / N2: the hypotheses of the main theorem hold of every session built from a cluster
   description that passes a decidable guard (distinct task ids, no Pipelined task at session open,
   the executable invariants); law 121 evaluates the guard on every generated cycle case.
   cover_build: the ledger `build` sets up IS the sum over the pods in an allocated status. *)
Theorem C03_cover_build : forall eps ns js tsp,
  base.NoDup (map ts_id tsp) -> Forall (fun t => ts_status t <> Pipelined) tsp ->
  forall q d, phi (build eps ns js tsp) q d = 0.
Proof. exact cover_build. Qed.
Print Assumptions C03_cover_build.

Theorem C03_built_sessions_satisfy_hypotheses : forall c : cycle_case,
  hyp_guardb c = true -> world_ok_held (world_of c).
Proof. exact built_sessions_satisfy_hypotheses. Qed.
Print Assumptions C03_built_sessions_satisfy_hypotheses.

(* the guard is needed: `build` (like proportion.go:146 / capacity.go:1115) sums api.AllocatedStatus
   only; a task Pipelined at session open holds quota the ledger does not know about *)
Theorem C03_build_pipelined_not_covered :
  hyp_guardb ex_case_pip = false /\ world_okb (world_of ex_case_pip) = true /\
  phi (w_sess (world_of ex_case_pip)) 1 DCpu = -9600 /\
  held (w_sess (CycleModel.run 2 (world_of ex_case_pip) [CAttempt 1 [(2%positive, 1%positive)]])) 1 DCpu = 19200.
Proof. exact build_pipelined_not_covered. Qed.
Print Assumptions C03_build_pipelined_not_covered.

(* first-audit W9, restated on the placed pods and only where the capability constrains *)
Theorem C03_placed_pods_within_capability : forall eps (w : world) (ops : list cop)
    (capability : positive -> res) (limits : positive -> dim -> Prop),
  world_ok_held w ->
  (forall q qa d, w_queues w !! q = Some qa -> limits q d -> amt (q_limit qa) d <= amt (capability q) d) ->
  let s' := w_sess (CycleModel.run eps w ops) in
  forall evs, hlog s' = evs ++ hlog (w_sess w) ->
  forall e t q qa,
    e ∈ evs -> he_alloc e = true -> heap s' !! he_task e = Some t -> queue_of s' t = Some q ->
    w_queues w !! q = Some qa -> q_has_plugin qa = true ->
    forall d, requested (t_req t) d -> limits q d -> held s' q d <= amt (capability q) d.
Proof. exact placed_pods_within_capability. Qed.
Print Assumptions C03_placed_pods_within_capability.

(* N11: a session that OPENS with a Running pod (hypotheses by the theorem above), a second pod
   placed on top of it, and the main theorem instantiated on that placement *)
Example C03_ex_run_ok_held : world_ok_held (world_of (ex_case_run 32000)).
Proof. exact ex_run_ok_held. Qed.
Example C03_ex_second_pod_placed :
  let w := world_of (ex_case_run 32000) in
  let s' := w_sess (CycleModel.run 2 w ops5) in
  held (w_sess w) 1 DCpu = 9600 /\ verdicts 2 w ops5 = [VOk] /\
  hlog s' = [mkHev true 2 Allocated (Some 1%positive)] /\ held s' 1 DCpu = 19200.
Proof. exact ex_second_pod_placed. Qed.
Example C03_ex_second_pod_within_limit :
  held (w_sess (CycleModel.run 2 (world_of (ex_case_run 32000)) ops5)) 1 DCpu <= 32000.
Proof. exact ex_second_pod_within_limit. Qed.
Print Assumptions C03_ex_second_pod_within_limit.
Example C03_ex_second_pod_refused :
  verdicts 2 (world_of (ex_case_run 16000)) ops5 = [VQueueRefuses 2].
Proof. exact ex_second_pod_refused. Qed.

(* ================= third audit (E9, E10): law 119 as Props ================= *)

(* what an admitted PodGroup counts for WITH scheduling-gated pods (round 8): the allocated part up
   to minResources, plus the unallocated rest of minResources minus what the gated pods request *)
Theorem C03_counted_inqueue_gated : forall (j : EnqueueLaw.ejob) (d : nat) (m : Z),
  EnqueueLaw.min_at j d = Some m -> 0 <= nth d (EnqueueLaw.ej_alloc j) 0 ->
  EnqueueLaw.counted 2 j d =
  Z.min (nth d (EnqueueLaw.ej_alloc j) 0) m +
  Z.max (Z.max (m - nth d (EnqueueLaw.ej_alloc j) 0) 0 - nth d (EnqueueLaw.ej_gated j) 0) 0.
Proof. exact EnqueueLaw.counted_inqueue_gated. Qed.
Print Assumptions C03_counted_inqueue_gated.

(* a positive Allocatable vote that passes law 119: Open, no child queue (from the Queue objects),
   and along the chain candidate + allocated pods of the subtree <= capability *)
Theorem C03_law_enqueue_alloc_sound : forall kind qs js j,
  EnqueueLaw.law_enqueue kind qs js = true -> In j js -> EnqueueLaw.ej_avote j = 1 ->
  let hier := (kind mod 10) =? 2 in
  EnqueueLaw.open_leaf hier qs (EnqueueLaw.ej_queue j) = true /\
  forall a, In a (EnqueueLaw.chain hier qs (EnqueueLaw.ej_queue j)) ->
    exists qa, EnqueueLaw.find_queue qs a = Some qa /\
      forall d c, In d EnqueueLaw.dims -> nth d (EnqueueLaw.eq_cap qa) None = Some c ->
        0 < nth d (EnqueueLaw.ej_cand j) 0 ->
        nth d (EnqueueLaw.ej_cand j) 0 + EnqueueLaw.alloc_sum hier qs js a d <= c.
Proof. exact EnqueueLaw.law_enqueue_alloc_sound. Qed.
Print Assumptions C03_law_enqueue_alloc_sound.

Theorem C03_law_enqueue_leaf_sound : forall kind qs js j l,
  EnqueueLaw.law_enqueue kind qs js = true -> In j js -> EnqueueLaw.ej_min j = Some l ->
  EnqueueLaw.ej_vote j = 1 -> EnqueueLaw.ej_before j = 1 ->
  EnqueueLaw.open_leaf ((kind mod 10) =? 2) qs (EnqueueLaw.ej_queue j) = true.
Proof. exact EnqueueLaw.law_enqueue_leaf_sound. Qed.
Print Assumptions C03_law_enqueue_leaf_sound.

(* E10: the gated deduction is the code's reading (DeductSchGatedResources), weaker than the
   property text: the observation of the real plugins on the strict-reading witness passes law 119
   although the admitted minResources counted in full do not fit *)
Theorem C03_enqueue_gated_strict_reading_refuted :
  EnqueueLaw.law_enqueue 1 EnqueueLaw.gated_strict_qs EnqueueLaw.gated_strict_js = true /\
  4000 < 2000 + 3000.
Proof. exact EnqueueLaw.enqueue_gated_strict_reading_refuted. Qed.
Print Assumptions C03_enqueue_gated_strict_reading_refuted.
