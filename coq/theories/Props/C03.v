(* Property C03 -- queue capability and queue state are hard limits on allocation.
   Property theorems only; each is closed by [exact] of a lemma and followed by its assumptions.

   Part A: the action skeleton (Sched/CycleModel.v: allocate attempts with keep / commit /
   discard, backfill) with the queue plugin's Allocatable vote on a per-queue record
   (open, limit): limit = proportion's deserved / capacity's realCapability.
   Part B: the votes of the capacity plugin (flat and hierarchical) and of the proportion plugin
   as functions of the plugins' per-queue records (C03/CapacityModel.v). *)
From stdpp Require Import gmap.
From Coq Require Import ZArith List.
From V Require Import Base.Res Sched.LedgerModel Sched.StmtModel Sched.GangModel Sched.CycleModel
                      Sched.LedgerInvP Sched.LedgerCodec Sched.CycleCodec
                      Sched.QueueLemmasBase Sched.QueueLemmasReach Sched.QueueLemmas Sched.QueueLemmasEx.
Import ListNotations.
Open Scope Z_scope.

(* ================= Part A ================= *)

(* A.2  a positive vote of the queue plugin: the queue is Open and, in every dimension the task
   requests (cpu / memory > 0, scalars > 0 other than pods), allocated + request <= limit *)
Theorem C03_queue_allocatable_bound : forall (w : world) (allocated : res) (q : qattr) (t : task),
  q_has_plugin q = true ->
  queue_allocatable w allocated q t = true ->
  q_open q = true /\
  forall d, requested (t_req t) d -> amt allocated d + amt (t_req t) d <= amt (q_limit q) d.
Proof. exact queue_allocatable_bound. Qed.
Print Assumptions C03_queue_allocatable_bound.

(* A.1  every skeleton step moves every queue's share by the requests behind the handler
   callbacks it triggered (newest first in [evs]): + on allocate / pipeline, - on undo.  Exact in
   cpu and memory; for scalars bounded from below by the signed sum and from above by the
   allocate events alone (Resource.sub drops the subtrahend's scalars on a nil map) *)
Theorem C03_events_balance : forall eps (w : world) (o : cop),
  world_ok w ->
  exists evs, balanced (w_sess w) (w_sess (fst (CycleModel.step eps w o))) evs.
Proof. exact events_balance. Qed.
Print Assumptions C03_events_balance.

(* ... and so for a whole cycle: share now = share at session open + placed - undone *)
Theorem C03_events_balance_run : forall eps (w : world) (ops : list cop),
  world_ok w ->
  exists evs, balanced (w_sess w) (w_sess (CycleModel.run eps w ops)) evs.
Proof. exact events_balance_run. Qed.
Print Assumptions C03_events_balance_run.

(* what [balanced] says, spelled out *)
Theorem C03_balanced_unfold : forall s s' evs,
  balanced s s' evs <->
  hlog s' = evs ++ hlog s /\
  forall q d,
    zsum (ev_signed s q d) evs <= amt (share_of s' q) d - amt (share_of s q) d <= zsum (ev_pos s q d) evs /\
    (d = DCpu \/ d = DMem -> amt (share_of s' q) d - amt (share_of s q) d = zsum (ev_signed s q d) evs).
Proof. exact balanced_unfold. Qed.
Print Assumptions C03_balanced_unfold.

(* A.3 (main)  for every world, every list of oracle choices (no hypothesis on the verdicts: a
   refused or malformed choice places nothing), after the run -- hence after every step, see the
   next theorem -- for every allocate callback [e] of this cycle, its task t, t's queue q with a
   queue plugin: q is Open unless t is best-effort, and in every dimension t requests the queue's
   share is within the limit *)
Theorem C03_queue_cap_invariant : forall eps (w : world) (ops : list cop),
  world_ok w ->
  let s' := w_sess (CycleModel.run eps w ops) in
  forall evs, hlog s' = evs ++ hlog (w_sess w) ->
  forall e t q qa,
    e ∈ evs -> he_alloc e = true -> heap s' !! he_task e = Some t -> queue_of s' t = Some q ->
    w_queues w !! q = Some qa -> q_has_plugin qa = true ->
    (t_best_effort t = false -> q_open qa = true) /\
    forall d, requested (t_req t) d -> amt (share_of s' q) d <= amt (q_limit qa) d.
Proof. exact queue_cap_invariant. Qed.
Print Assumptions C03_queue_cap_invariant.

Theorem C03_queue_cap_invariant_every_step : forall eps (w : world) (ops : list cop) (n : nat),
  world_ok w ->
  let s' := w_sess (CycleModel.run eps w (take n ops)) in
  forall evs, hlog s' = evs ++ hlog (w_sess w) ->
  forall e t q qa,
    e ∈ evs -> he_alloc e = true -> heap s' !! he_task e = Some t -> queue_of s' t = Some q ->
    w_queues w !! q = Some qa -> q_has_plugin qa = true ->
    (t_best_effort t = false -> q_open qa = true) /\
    forall d, requested (t_req t) d -> amt (share_of s' q) d <= amt (q_limit qa) d.
Proof. exact queue_cap_invariant_every_step. Qed.
Print Assumptions C03_queue_cap_invariant_every_step.

(* the same for the runs the code can produce (all verdicts VOk) *)
Theorem C03_queue_cap_invariant_ok_runs : forall eps (w : world) (ops : list cop),
  world_ok w -> Forall (fun v => v = VOk) (verdicts eps w ops) ->
  let s' := w_sess (CycleModel.run eps w ops) in
  forall evs, hlog s' = evs ++ hlog (w_sess w) ->
  forall e t q qa,
    e ∈ evs -> he_alloc e = true -> heap s' !! he_task e = Some t -> queue_of s' t = Some q ->
    w_queues w !! q = Some qa -> q_has_plugin qa = true ->
    (t_best_effort t = false -> q_open qa = true) /\
    forall d, requested (t_req t) d -> amt (share_of s' q) d <= amt (q_limit qa) d.
Proof. exact queue_cap_invariant_ok_runs. Qed.
Print Assumptions C03_queue_cap_invariant_ok_runs.

(* with limit <= capability (C12: deserved <= max(guarantee, realCapability), realCapability <=
   capability; the admission webhook enforces guarantee <= deserved <= capability): never above
   the capability *)
Theorem C03_never_above_capability : forall eps (w : world) (ops : list cop) (capability : positive -> res),
  world_ok w ->
  (forall q qa d, w_queues w !! q = Some qa -> amt (q_limit qa) d <= amt (capability q) d) ->
  let s' := w_sess (CycleModel.run eps w ops) in
  forall evs, hlog s' = evs ++ hlog (w_sess w) ->
  forall e t q qa,
    e ∈ evs -> he_alloc e = true -> heap s' !! he_task e = Some t -> queue_of s' t = Some q ->
    w_queues w !! q = Some qa -> q_has_plugin qa = true ->
    forall d, requested (t_req t) d -> amt (share_of s' q) d <= amt (capability q) d.
Proof. exact queue_cap_under_capability. Qed.
Print Assumptions C03_never_above_capability.

(* the well-formedness hypothesis, spelled out, and its decidable form *)
Theorem C03_world_ok_unfold : forall w,
  world_ok w <->
  heap_ok (heap (w_sess w)) /\ be_empty (heap (w_sess w)) /\ no_evict (w_sess w).
Proof. exact world_ok_unfold. Qed.
Print Assumptions C03_world_ok_unfold.

Theorem C03_world_okb_sound : forall w, world_okb w = true -> world_ok w.
Proof. exact world_okb_ok. Qed.
Print Assumptions C03_world_okb_sound.

(* BestEffort = InitResreq.IsEmpty(): on the grid an empty request is 0 outside the pod count *)
Theorem C03_best_effort_requests_nothing : forall eps r,
  is_empty eps r = true -> granular eps r -> nonneg r -> forall d, d <> DSc pods_name -> amt r d = 0.
Proof. exact is_empty_granular_zero. Qed.
Print Assumptions C03_best_effort_requests_nothing.

(* ---- non-vacuity (one node of 4 cpu, queue 1 Open with limit 1 cpu, queue 2 Closed) ---- *)

Example C03_ex_world_ok : world_ok ex_w.
Proof. exact ex_world_ok. Qed.

Example C03_ex_first_placed :
  let s' := w_sess (CycleModel.run 2 ex_w ops1) in
  verdicts 2 ex_w ops1 = [VOk] /\ hlog s' = [ev1] /\
  binds s' = [(1%positive, Some 1%positive)] /\ amt (share_of s' 1) DCpu = 9600.
Proof. exact ex_first_placed. Qed.

Example C03_ex_second_refused :
  let s' := w_sess (CycleModel.run 2 ex_w ops2) in
  verdicts 2 ex_w ops2 = [VQueueRefuses 2] /\ hlog s' = [ev1] /\ amt (share_of s' 1) DCpu = 9600.
Proof. exact ex_second_refused. Qed.

Example C03_ex_closed_refused :
  verdicts 2 ex_w ops3 = [VQueueRefuses 3] /\ hlog (w_sess (CycleModel.run 2 ex_w ops3)) = [].
Proof. exact ex_closed_refused. Qed.

Example C03_ex_invariant_applies :
  let s' := w_sess (CycleModel.run 2 ex_w ops1) in amt (share_of s' 1) DCpu <= 16000.
Proof. exact ex_invariant_applies. Qed.
Print Assumptions C03_ex_invariant_applies.
