(* Property C17 — node shards are disjoint, bounded and contain only eligible
   nodes.  Property theorems only; each is closed by [exact] of a lemma proved
   in C17/Lemmas.v and followed by its assumptions.

   [assignments nodes m specs] is the model of
     ParseShardingConfig -> applyPolicyDefaults -> NewShardingManager -> CalculateShardAssignments
   ([None] = configuration rejected); [chain_of specs s] is the initialised
   policy chain the manager holds for scheduler [s].  Every theorem quantifies
   over ALL node lists (any length: the batched path beyond 50 nodes is part of
   [assignments]), all metric maps and all scheduler lists. *)
From Coq Require Import ZArith List Bool QArith Sorted.
From V Require Import C17.Model C17.Laws C17.Lemmas C17.LawLemmas C17.PublishLemmas C17.ConfigLemmas.
Import ListNotations.
Open Scope Z_scope.

(* --- the pipeline of one scheduler, for any Filterers / Scorers / Selectors --- *)
Theorem C17_pipeline_spec : forall (A : Type) (name : A -> positive) (ch : gchain A) nodes assigned,
  run_pipeline name ch nodes assigned =
  map name (run_selectors (g_selectors ch)
             (sort_desc (eff_score ch)
               (filter (pass_all (g_filters ch)) (drop_assigned name nodes assigned)))).
Proof. exact @pipeline_spec. Qed.
Print Assumptions C17_pipeline_spec.

(* the sort is the stable descending one: a permutation, descending, ties in input order *)
Theorem C17_sort_perm : forall (A : Type) (sc : A -> Q) l, Permutation.Permutation (sort_desc sc l) l.
Proof. exact @sort_desc_perm. Qed.
Print Assumptions C17_sort_perm.

Theorem C17_sort_sorted : forall (A : Type) (sc : A -> Q) l, StronglySorted (ge_sc sc) (sort_desc sc l).
Proof. exact @sort_desc_sorted. Qed.
Print Assumptions C17_sort_sorted.

Theorem C17_sort_stable : forall (A : Type) (sc : A -> Q) v l,
  filter (fun y => Qeq_bool (sc y) v) (sort_desc sc l) = filter (fun y => Qeq_bool (sc y) v) l.
Proof. exact @sort_desc_stable. Qed.
Print Assumptions C17_sort_stable.

Theorem C17_pipeline_filtered : forall (A : Type) (name : A -> positive) (ch : gchain A) nodes assigned x,
  Forall prefix_sel (g_selectors ch) ->
  In x (run_pipeline name ch nodes assigned) ->
  exists n, In n nodes /\ name n = x /\ ~ In x assigned /\ pass_all (g_filters ch) n = true.
Proof. exact @pipeline_filtered. Qed.
Print Assumptions C17_pipeline_filtered.

Theorem C17_pipeline_sorted : forall (A : Type) (name : A -> positive) (ch : gchain A) nodes assigned,
  Forall prefix_sel (g_selectors ch) ->
  exists cand, run_pipeline name ch nodes assigned = map name cand /\
    StronglySorted (ge_sc (eff_score ch)) cand.
Proof. exact @pipeline_sorted. Qed.
Print Assumptions C17_pipeline_sorted.

(* the batched pipeline (more than 50 nodes) computes what the unbatched one computes *)
Theorem C17_batched_eq : forall (A : Type) (name : A -> positive) (ch : gchain A) nodes assigned,
  run_pipeline_batched name ch nodes assigned = run_pipeline name ch nodes assigned.
Proof. exact @batched_eq. Qed.
Print Assumptions C17_batched_eq.

(* two runs of the scheduler loop never pick a common node, whatever the chains
   (Selectors obeying their prefix contract), batched or not, duplicate names included *)
Theorem C17_calc_disjoint : forall (A : Type) (name : A -> positive) nodes cfgs e1 e2,
  good_cfgs cfgs ->
  In e1 (st_results (calc name nodes cfgs)) -> In e2 (st_results (calc name nodes cfgs)) ->
  e1 <> e2 -> disj (snd e1) (snd e2).
Proof. exact @calc_disjoint. Qed.
Print Assumptions C17_calc_disjoint.

(* --- the property on the real configuration path and the built-in policies --- *)

(* shards of different schedulers never overlap *)
Theorem C17_shards_disjoint : forall nodes m specs res s1 l1 s2 l2 x,
  assignments nodes m specs = Some res ->
  In (s1, l1) res -> In (s2, l2) res -> s1 <> s2 -> In x l1 -> In x l2 -> False.
Proof. exact shards_disjoint. Qed.
Print Assumptions C17_shards_disjoint.

(* at most maxNodes of every node-limit policy of the scheduler, for any cluster size *)
Theorem C17_shard_bounded : forall nodes m specs res s l mn mx,
  assignments nodes m specs = Some res -> In (s, l) res ->
  In (RLimit mn mx) (chain_of specs s) -> 0 < mx -> Z.of_nat (length l) <= mx.
Proof. exact shard_bounded. Qed.
Print Assumptions C17_shard_bounded.

(* clauses 2 and 3 against the CONFIGURATION: for every accepted configuration
   (ParseShardingConfig after fix 4209844 also rejects chains that cannot be
   initialised and repeated scheduler names), every policy entry of a scheduler's
   configured chain — explicit, or synthesized by applyPolicyDefaults — is in
   the chain the manager runs for it ... *)
Theorem C17_configured_policy_in_chain : forall specs sp p,
  valid_config specs = true -> In sp specs -> In p (apply_defaults sp) ->
  exists rp, init_policy (to_ref p) = Some rp /\ In rp (chain_of specs (ss_name sp)).
Proof. exact configured_policy_in_chain. Qed.
Print Assumptions C17_configured_policy_in_chain.

(* ... so every configured node-limit entry caps the shard, for every cluster size ... *)
Theorem C17_shard_bounded_config : forall nodes m specs res sp p l,
  assignments nodes m specs = Some res -> In sp specs ->
  In p (apply_defaults sp) -> ps_name p = P_LIMIT -> 0 < arg_or (ps_args p) 4 0 ->
  In (ss_name sp, l) res -> Z.of_nat (length l) <= arg_or (ps_args p) 4 0.
Proof. exact shard_bounded_config. Qed.
Print Assumptions C17_shard_bounded_config.

(* ... every configured allocation-rate entry is passed by every node of the shard ... *)
Theorem C17_shard_eligible_config : forall nodes m specs res sp p l x,
  assignments nodes m specs = Some res -> In sp specs ->
  In p (apply_defaults sp) -> ps_name p = P_ALLOC ->
  In (ss_name sp, l) res -> In x l ->
  exists n, In n nodes /\ nname n = x /\
    alloc_filter (mlookup m) (round_util (arg_or (ps_args p) 1 0)) (round_util (arg_or (ps_args p) 2 0)) n = true.
Proof. exact shard_eligible_config. Qed.
Print Assumptions C17_shard_eligible_config.

(* ... and the deprecated scheduler-level maxNodes caps the shard whenever the chain has no node-limit entry of its own *)
Theorem C17_legacy_max_nodes_bound : forall nodes m specs res sp l,
  assignments nodes m specs = Some res -> In sp specs ->
  has_policy (ss_policies sp) P_LIMIT = false -> 0 < ss_maxn sp ->
  In (ss_name sp, l) res -> Z.of_nat (length l) <= ss_maxn sp.
Proof. exact legacy_max_nodes_bound_config. Qed.
Print Assumptions C17_legacy_max_nodes_bound.

(* before the fix such a configuration was accepted and run with an EMPTY chain *)
Theorem C17_uninitialisable_chain_refuted :
  valid_specs [bad_chain_spec] = true /\
  chain_of [bad_chain_spec] 1 = [] /\
  final_map (st_results (calc nname (plain_nodes 5) (manager_chains (mlookup []) [bad_chain_spec])))
    = [(1, [1; 2; 3; 4; 5]%positive)] /\
  assignments (plain_nodes 5) [] [bad_chain_spec] = None.
Proof. exact uninitialisable_chain_refuted. Qed.
Print Assumptions C17_uninitialisable_chain_refuted.

(* every assigned node exists and passed all filter policies of its scheduler *)
Theorem C17_shard_eligible : forall nodes m specs res s l x,
  assignments nodes m specs = Some res -> In (s, l) res -> In x l ->
  exists n, In n nodes /\ nname n = x /\
    forall w lo hi, In (RAlloc w lo hi) (chain_of specs s) -> alloc_filter (mlookup m) lo hi n = true.
Proof. exact shard_eligible. Qed.
Print Assumptions C17_shard_eligible.

(* --- the executable laws run on the Go results are these statements --- *)
Theorem C17_law_disjoint_model : forall nodes m specs res,
  assignments nodes m specs = Some res -> law_disjoint res = true.
Proof. exact law_disjoint_model. Qed.
Print Assumptions C17_law_disjoint_model.

Theorem C17_law_disjoint_sound : forall (r : result) s1 l1 s2 l2,
  law_disjoint r = true -> In (s1, l1) r -> In (s2, l2) r -> s1 <> s2 -> disj l1 l2.
Proof. exact law_disjoint_sound. Qed.
Print Assumptions C17_law_disjoint_sound.

Theorem C17_law_bounded_model : forall nodes m specs res,
  assignments nodes m specs = Some res -> law_bounded specs res = true.
Proof. exact law_bounded_model. Qed.
Print Assumptions C17_law_bounded_model.

Theorem C17_law_bounded_sound : forall specs (r : result) s l mn mx,
  law_bounded specs r = true -> In (s, l) r -> In (RLimit mn mx) (chain_of specs s) -> 0 < mx ->
  Z.of_nat (length l) <= mx.
Proof. exact law_bounded_sound. Qed.
Print Assumptions C17_law_bounded_sound.

Theorem C17_law_eligible_model : forall nodes m specs res,
  assignments nodes m specs = Some res -> law_eligible nodes m specs res = true.
Proof. exact law_eligible_model. Qed.
Print Assumptions C17_law_eligible_model.

(* the order law (104), the count law (106) and the tolerance order law (108)
   accept the model's result for ALL inputs *)
Theorem C17_law_order_model : forall nodes m specs res,
  assignments nodes m specs = Some res -> law_order nodes m specs res = true.
Proof. exact law_order_model. Qed.
Print Assumptions C17_law_order_model.

Theorem C17_law_count_model : forall nodes m specs res,
  assignments nodes m specs = Some res -> law_count nodes m specs res = true.
Proof. exact law_count_model. Qed.
Print Assumptions C17_law_count_model.

Theorem C17_law_order_tol_model : forall nodes m specs res,
  assignments nodes m specs = Some res -> law_order_tol nodes m specs res = true.
Proof. exact law_order_tol_model. Qed.
Print Assumptions C17_law_order_tol_model.

(* what acceptance by the laws MEANS on any result (e.g. a Go result), as Props *)
Theorem C17_law_eligible_sound : forall nodes m specs (r : result) s l x,
  law_eligible nodes m specs r = true -> In (s, l) r -> In x l ->
  exists n, In n nodes /\ nname n = x /\ pass_all (filters_of (mlookup m) (chain_of specs s)) n = true.
Proof. exact law_eligible_sound. Qed.
Print Assumptions C17_law_eligible_sound.

(* laws 104 / 106 / 108 = the per-scheduler check for EVERY scheduler, against the
   nodes the result itself gives to the schedulers before it (distinct names) ... *)
Theorem C17_per_sched_sound : forall ok nodes m specs (r : result) pre sp post,
  per_sched ok nodes m specs r = true ->
  NoDup (map nname nodes) -> NoDup (map ss_name specs) -> specs = pre ++ sp :: post ->
  ok (mlookup m) (chain_of specs (ss_name sp)) (indexed nodes) (taken_from r pre []) (rlookup r (ss_name sp)) = true.
Proof. exact per_sched_sound. Qed.
Print Assumptions C17_per_sched_sound.

(* ... where the check of law 104 says: consecutive picks in (score desc, list
   position) order and every eligible node left behind after the last pick *)
Theorem C17_sched_order_ok_sound : forall look ch inodes taken l,
  sched_order_ok look ch inodes taken l = true ->
  exists tl, find_all inodes l = Some tl /\
    chain_ok (total_score look ch) tl = true /\
    forall y t p, rev tl = y :: t -> In p (eligible_of look ch inodes taken) ->
      ~ In (nname (snd p)) l -> precedes (total_score look ch) y p = true.
Proof. exact sched_order_ok_sound. Qed.
Print Assumptions C17_sched_order_ok_sound.

(* ... of law 106: only eligible unassigned nodes, exactly min(caps, how many there are) of them *)
Theorem C17_sched_count_ok_sound : forall look ch inodes taken l,
  sched_count_ok look ch inodes taken l = true ->
  (forall x, In x l -> exists p, In p (eligible_of look ch inodes taken) /\ nname (snd p) = x) /\
  Z.of_nat (length l) = min_cap ch (Z.of_nat (length (eligible_of look ch inodes taken))).
Proof. exact sched_count_ok_sound. Qed.
Print Assumptions C17_sched_count_ok_sound.

(* ... of law 108: the same order up to the tolerance, every pick against every node left behind *)
Theorem C17_sched_order_tol_ok_sound : forall look ch inodes taken l,
  sched_order_tol_ok look ch inodes taken l = true ->
  exists tl, find_all inodes l = Some tl /\
    chain_ok_tol look (total_score look ch) tl = true /\
    forall y p, In y tl -> In p (eligible_of look ch inodes taken) -> ~ In (nname (snd p)) l ->
      precedes_tol look (total_score look ch) y p = true.
Proof. exact sched_order_tol_ok_sound. Qed.
Print Assumptions C17_sched_order_tol_ok_sound.

(* laws 112 / 113 (bound / eligibility against the configured entries): accept the model, and mean the clause *)
Theorem C17_law_bounded_config_model : forall nodes m specs res,
  assignments nodes m specs = Some res -> law_bounded_config specs res = true.
Proof. exact law_bounded_config_model. Qed.
Print Assumptions C17_law_bounded_config_model.

Theorem C17_law_bounded_config_sound : forall specs (r : result) sp p,
  law_bounded_config specs r = true -> In sp specs -> In p (apply_defaults sp) ->
  ps_name p = P_LIMIT -> 0 < arg_or (ps_args p) 4 0 ->
  Z.of_nat (length (rlookup r (ss_name sp))) <= arg_or (ps_args p) 4 0.
Proof. exact law_bounded_config_sound. Qed.
Print Assumptions C17_law_bounded_config_sound.

Theorem C17_law_eligible_config_model : forall nodes m specs res,
  assignments nodes m specs = Some res -> law_eligible_config nodes m specs res = true.
Proof. exact law_eligible_config_model. Qed.
Print Assumptions C17_law_eligible_config_model.

Theorem C17_law_eligible_config_sound : forall nodes m specs (r : result) sp p x,
  law_eligible_config nodes m specs r = true -> In sp specs -> In p (apply_defaults sp) ->
  ps_name p = P_ALLOC -> In x (rlookup r (ss_name sp)) ->
  exists n, In n nodes /\ nname n = x /\
    alloc_filter (mlookup m) (round_util (arg_or (ps_args p) 1 0)) (round_util (arg_or (ps_args p) 2 0)) n = true.
Proof. exact law_eligible_config_sound. Qed.
Print Assumptions C17_law_eligible_config_sound.

(* --- "taken in descending weighted score order", against the whole object --- *)

(* which nodes, in which order: the shard of scheduler [sp] IS the selector
   chain applied to the stably score-sorted list of the nodes that pass all its
   filters and were not taken by the schedulers configured before it — for every
   cluster size ([assignments] takes the batched path above 50 nodes) *)
Theorem C17_shard_exact : forall nodes m specs res pre sp post,
  assignments nodes m specs = Some res -> specs = pre ++ sp :: post ->
  let ch := chain_of specs (ss_name sp) in
  In (ss_name sp, rlookup res (ss_name sp)) res /\
  rlookup res (ss_name sp) =
    map nname (run_selectors (selectors_of ch)
      (sort_desc (total_score (mlookup m) ch)
        (filter (pass_all (filters_of (mlookup m) ch))
          (drop_assigned nname nodes (taken_from res pre []))))).
Proof. exact shard_exact_config. Qed.
Print Assumptions C17_shard_exact.

(* no higher-scored eligible unassigned node was skipped: a node that passes the
   filters, was not taken earlier and is not in the shard comes after EVERY node
   of the shard in (score descending, position in the node list) order *)
Theorem C17_shard_no_skip : forall nodes m specs res pre sp post p y,
  assignments nodes m specs = Some res ->
  NoDup (map nname nodes) -> specs = pre ++ sp :: post ->
  let ch := chain_of specs (ss_name sp) in
  let l := rlookup res (ss_name sp) in
  In p (eligible_of (mlookup m) ch (indexed nodes) (taken_from res pre [])) -> ~ In (nm p) l ->
  In y (indexed nodes) -> In (nm y) l ->
  precedes (total_score (mlookup m) ch) y p = true.
Proof. exact shard_no_skip_config. Qed.
Print Assumptions C17_shard_no_skip.

(* --- identical inputs, identical assignments: independence from what Go iterates as a map --- *)

(* the node-metric map: every listing order of the same map gives the same assignments *)
Theorem C17_metrics_perm : forall nodes m m' specs,
  NoDup (map fst m) -> Permutation.Permutation m m' ->
  assignments nodes m specs = assignments nodes m' specs.
Proof. exact assignments_metrics_perm. Qed.
Print Assumptions C17_metrics_perm.

(* the node list comes from the node lister (a Go map); listNodesFromCache sorts
   it by name (fix f5a4653), so the assignments do not depend on the lister's
   order at all — full strength, ties of scores included *)
Theorem C17_assignments_lister_order_independent : forall nodes nodes' m specs,
  Permutation.Permutation nodes nodes' -> NoDup (map nname nodes) ->
  assignments (list_nodes nodes) m specs = assignments (list_nodes nodes') m specs.
Proof. exact assignments_lister_order_independent. Qed.
Print Assumptions C17_assignments_lister_order_independent.

(* the calculation alone (without the sorted listing) is invariant under the
   order of its node slice exactly as far as scores do not tie ... *)
Theorem C17_assignments_node_perm_tie_free : forall nodes nodes' m specs,
  NoDup nodes -> Permutation.Permutation nodes nodes' ->
  (forall s, In s specs -> tie_free (total_score (mlookup m) (chain_of specs (ss_name s))) nodes) ->
  assignments nodes m specs = assignments nodes' m specs.
Proof. exact assignments_node_perm_tie_free. Qed.
Print Assumptions C17_assignments_node_perm_tie_free.

(* ... and NOT in general: two nodes, cap 1, handed over in either order.  This is
   the situation before fix f5a4653 (what would happen without the sort in
   listNodesFromCache); it was reproduced on the real lister then and is no
   longer a known finding *)
Theorem C17_node_order_refuted :
  exists nodes nodes' m specs,
    Permutation.Permutation nodes nodes' /\ NoDup (map nname nodes) /\
    assignments nodes m specs = Some [(1, [1%positive])] /\
    assignments nodes' m specs = Some [(1, [2%positive])].
Proof. exact node_order_refuted. Qed.
Print Assumptions C17_node_order_refuted.

(* statelessness across reconciles.  NOTE: in the MODEL this holds by
   construction ([reconcile] returns the manager unchanged, as the Go manager
   writes no field after NewShardingManager); its content is the correspondence
   of selector 5 and law 109 on the real manager.  On one manager, the k-th reconcile of ANY
   history (nodes added / removed / relabelled, metrics changing) returns exactly
   what a fresh manager returns on the k-th input alone *)
Theorem C17_history_stateless : forall specs steps outs k ns m,
  history specs steps = Some outs -> nth_error steps k = Some (ns, m) ->
  exists r, nth_error outs k = Some r /\ assignments ns m specs = Some r.
Proof. exact history_stateless. Qed.
Print Assumptions C17_history_stateless.

Theorem C17_history_length : forall specs steps outs,
  history specs steps = Some outs -> length outs = length steps.
Proof. exact history_length. Qed.
Print Assumptions C17_history_length.

(* --- publication: the NodeShard objects (applyAssignment / assignmentNeedsUpdate) --- *)

(* for ALL histories: every published shard is the calculated shard of the same
   scheduler at this or an earlier sync — never anything else *)
Theorem C17_published_is_earlier_calculation : forall specs steps pubs k pubk e,
  publish_history specs steps = Some pubs -> nth_error pubs k = Some pubk -> In e pubk ->
  exists j ns m res, (j <= k)%nat /\ nth_error steps j = Some (ns, m) /\
                     sync_assignments ns m specs = Some res /\ In e res.
Proof. exact published_is_earlier_calculation. Qed.
Print Assumptions C17_published_is_earlier_calculation.

(* assignmentNeedsUpdate exactly: a different count, or at least max(1, len/10) NEW nodes *)
Theorem C17_needs_update_spec : forall p c,
  needs_update p c = true <->
  length p <> length c \/ (Nat.max 1 (length c / 10) <= new_count p c)%nat.
Proof. exact needs_update_spec. Qed.
Print Assumptions C17_needs_update_spec.

(* below 20 nodes any new node republishes the shard ... *)
Theorem C17_needs_update_small : forall p c,
  (length c < 20)%nat ->
  (needs_update p c = true <-> length p <> length c \/ (1 <= new_count p c)%nat).
Proof. exact needs_update_small. Qed.
Print Assumptions C17_needs_update_small.

(* ... from 20 nodes on a single swapped node never does (in general: fewer than len/10 swapped nodes) *)
Theorem C17_needs_update_single_swap_missed : forall p c,
  length p = length c -> (20 <= length c)%nat -> new_count p c = 1%nat -> needs_update p c = false.
Proof. exact needs_update_single_swap_missed. Qed.
Print Assumptions C17_needs_update_single_swap_missed.

Theorem C17_needs_update_below_threshold : forall p c,
  length p = length c -> (new_count p c < Nat.max 1 (length c / 10))%nat -> needs_update p c = false.
Proof. exact needs_update_below_threshold. Qed.
Print Assumptions C17_needs_update_below_threshold.

(* the worker's fallback (assignment cache empty or too old; after fix 3dd3dc2):
   for every configured scheduler it yields exactly that scheduler's component of
   the global calculation on the same nodes and metrics — whatever the NodeShard
   lister shows and in whatever order keys are processed (neither is an input) *)
Theorem C17_fallback_eq_global : forall specs mg nodes m s,
  new_manager specs = Some mg -> In s (map ss_name specs) ->
  fallback mg nodes m s = Some (rlookup (snd (reconcile mg (list_nodes nodes) m)) s).
Proof. exact fallback_eq_global. Qed.
Print Assumptions C17_fallback_eq_global.

(* --- the op-level controller model (selector 8: syncs, single worker items in any
   order through the cache or the fallback, cache clears, deleted and lister-hidden
   NodeShards) --- *)

(* for ALL op histories: every NodeShard on the API server is the same scheduler's
   entry of the global calculation of this or an earlier step — never anything else *)
Theorem C17_published_ops_is_earlier_calculation : forall specs steps pubs k api e,
  publish_ops_history specs steps = Some pubs -> nth_error pubs k = Some api -> In e api ->
  exists j ns m ops res, (j <= k)%nat /\ nth_error steps j = Some (ns, m, ops) /\
                         sync_assignments ns m specs = Some res /\ In e res.
Proof. exact published_ops_is_earlier_calculation. Qed.
Print Assumptions C17_published_ops_is_earlier_calculation.

(* a global sync with nothing hidden, entry by entry: the calculated shard unless the damping refuses *)
Theorem C17_sync_step_lookup : forall mg ns m st t,
  let calc := snd (reconcile mg (list_nodes ns) m) in
  plookup (c_api (step6 mg ns m st (OSync []))) t =
  match plookup calc t with
  | None => plookup (c_api st) t
  | Some l => match plookup (c_api st) t with
              | None => Some l
              | Some cur => if needs_update cur l then Some l else Some cur
              end
  end.
Proof. exact sync_step_lookup. Qed.
Print Assumptions C17_sync_step_lookup.

(* after a global sync with no hidden NodeShard and no damping every scheduler's
   published shard IS its calculated shard, and different schedulers' published shards are disjoint *)
Theorem C17_sync_without_damping_publishes_calculation : forall specs mg ns m st,
  new_manager specs = Some mg ->
  let calc := snd (reconcile mg (list_nodes ns) m) in
  (forall s l cur, In (s, l) calc -> plookup (c_api st) s = Some cur -> needs_update cur l = true \/ cur = l) ->
  let api' := c_api (step6 mg ns m st (OSync [])) in
  (forall s l, In (s, l) calc -> plookup api' s = Some l) /\
  (forall s1 l1 s2 l2 x, In (s1, l1) calc -> In (s2, l2) calc -> s1 <> s2 ->
     plookup api' s1 = Some l1 /\ plookup api' s2 = Some l2 /\ ~ (In x l1 /\ In x l2)).
Proof. exact sync_without_damping_publishes_calculation. Qed.
Print Assumptions C17_sync_without_damping_publishes_calculation.

(* ... but a single worker item through the fallback republishes ONE shard of a NEW
   calculation next to the others' old ones: overlap with no damping involved
   (known finding C17-fallback-republishes-one-shard, reproduced on the real controller) *)
Theorem C17_fallback_single_key_overlap_refuted :
  exists p1 p2,
    publish_ops_history two_caps
      [ (plain_nodes 4, m_up, [OSync []]); (plain_nodes 4, m_down, [OClear; OKey 2 []]) ] = Some [p1; p2] /\
    p2 = [(1, [4; 3]%positive); (2, [3; 4]%positive)] /\
    law_disjoint p2 = false /\
    needs_update [4; 3]%positive [1; 2]%positive = true /\
    sync_assignments (plain_nodes 4) m_down two_caps = Some [(1, [1; 2]%positive); (2, [3; 4]%positive)].
Proof. exact fallback_single_key_overlap_refuted. Qed.
Print Assumptions C17_fallback_single_key_overlap_refuted.

(* non-vacuity of C17_fallback_eq_global *)
Example C17_fallback_demo :
  exists mg, new_manager two_caps = Some mg /\
    fallback mg (plain_nodes 4) m_up 1 = Some [4; 3]%positive /\
    fallback mg (plain_nodes 4) m_up 2 = Some [2; 1]%positive /\
    fallback mg (plain_nodes 4) m_up 7 = None.
Proof. exact fallback_demo. Qed.

(* hence the published shards are NOT always disjoint / eligible: known finding
   C17-publish-hysteresis-keeps-stale-node (22 nodes, two schedulers, one node moves) *)
Theorem C17_published_disjoint_eligible_refuted :
  exists p1 p2 l1 l2,
    publish_history hyst_specs hyst_steps = Some [p1; p2] /\
    In (1, l1) p2 /\ In (2, l2) p2 /\ In 1%positive l1 /\ In 1%positive l2 /\
    alloc_filter (mlookup (hyst_metrics 900 300)) 0 60 {| nname := 1; nwarm := false |} = false /\
    law_disjoint p2 = false /\
    law_eligible (plain_nodes 22) (hyst_metrics 900 300) hyst_specs p2 = false /\
    sync_assignments (plain_nodes 22) (hyst_metrics 900 300) hyst_specs =
      Some [(1, map Pos.of_nat (seq 2 20)); (2, [1; 22]%positive)].
Proof. exact published_disjoint_eligible_refuted. Qed.
Print Assumptions C17_published_disjoint_eligible_refuted.

(* --- the batched path as it was before the fix (F6): refuted --- *)
Theorem C17_bounded_old_batched_refuted :
  exists nodes m specs l,
    length nodes = 51%nat /\
    In (RLimit 0 1) (chain_of specs 1) /\
    old_assignments nodes m specs = Some [(1, l)] /\ length l = 2%nat /\
    assignments nodes m specs = Some [(1, [1%positive])].
Proof. exact bounded_old_batched_refuted. Qed.
Print Assumptions C17_bounded_old_batched_refuted.

Theorem C17_order_old_batched_refuted :
  exists nodes m specs,
    old_assignments nodes m specs = Some [(1, [50; 49; 48; 60; 59; 58]%positive)] /\
    assignments nodes m specs = Some [(1, [60; 59; 58]%positive)].
Proof. exact order_old_batched_refuted. Qed.
Print Assumptions C17_order_old_batched_refuted.

(* non-vacuity: an accepted, fully initialised two-scheduler configuration with non-empty capped shards *)
Example C17_demo :
  assignments demo_nodes demo_metrics demo_specs = Some [(1, [4; 5]%positive); (2, [2; 3]%positive)] /\
  NoDup (map ss_name demo_specs) /\ all_init demo_specs.
Proof. exact demo_assignments. Qed.
