(* Property C06 — job reconciliation yields exactly the desired pods and a
   matching PodGroup.  Property theorems only (lemmas in C06/Lemmas.v; the
   reconciliation model sync_job / sync_pods is C05/Model.v, the PodGroup
   derivation C06/Model.v). *)
From Coq Require Import ZArith List Bool Permutation.
From V Require Import C05.Model C05.JobCodec C05.SyncLemmas C06.Model C06.Laws C06.Lemmas.
Import ListNotations.
Open Scope Z_scope.

(* while the lister shows no PodGroup past Pending, syncJob neither creates nor
   deletes a pod: for every spec, pod set, views and fault set *)
Theorem C06_sync_creates_none_while_pg_pending : forall w u F w' e wr,
  sync_job w u F = (w', e, wr) -> pg_admitted (v_pg w) = false -> w_pods w' = w_pods w.
Proof. exact sync_creates_none_while_pg_pending. Qed.
Print Assumptions C06_sync_creates_none_while_pg_pending.

Theorem C06_request_creates_none_while_pg_pending : forall w r F w' e wr,
  step_req w r F = (w', e, wr) ->
  fst (exec (st_phase (v_st w)) (apply_policies (v_spec w) (v_st w) r)) = KSync ->
  pg_admitted (v_pg w) = false -> w_pods w' = w_pods w.
Proof. exact request_creates_none_while_pg_pending. Qed.
Print Assumptions C06_request_creates_none_while_pg_pending.

(* ---- the pod set.  [pass sp P] = the API server's pods after one fault-free
   pass of syncJob (PodGroup admitted) over pods P seen through a fresh view;
   [mark] = being deleted; [doomed] = own surplus (index outside the task's
   replicas) or live out-of-sync; [wanted] = a replica index of a task whose
   dependencies are met.  All for every spec and pod set with unique pod names. ---- *)

(* exact pod set: nothing disappears, deleted = exactly the doomed pods, created =
   exactly the wanted replicas that did not exist (Pending, live) *)
Theorem C06_sync_exact_pods : forall fixed sp P, NoDup (pod_ids P) ->
  a_err (sync_pods_gen fixed sp P P []) = false /\
  forall t i,
    find_pod t i (pass fixed sp P) =
    match find_pod t i P with
    | Some q => Some (if doomed sp q then mark q else q)
    | None => if wanted sp P t i then Some (newpod t i) else None
    end.
Proof. exact sync_exact_pods. Qed.
Print Assumptions C06_sync_exact_pods.

(* the same on the world (syncJob proper) *)
Theorem C06_sync_job_exact_pods : forall w u w' e wr,
  sync_job w u [] = (w', e, wr) -> c_vdel (v_ctl w) = false -> c_queue (v_ctl w) = true ->
  pg_admitted (v_pg w) = true -> st_phase (v_st w) <> PhNone ->
  v_pods w = w_pods w -> NoDup (pod_ids (w_pods w)) ->
  e = false /\
  forall t i,
    find_pod t i (w_pods w') =
    match find_pod t i (w_pods w) with
    | Some q => Some (if doomed (v_spec w) q then mark q else q)
    | None => if wanted (v_spec w) (w_pods w) t i then Some (newpod t i) else None
    end.
Proof. exact sync_job_exact_pods. Qed.
Print Assumptions C06_sync_job_exact_pods.

(* repeating the pass changes no pod (and reports no error) *)
Theorem C06_sync_idempotent : forall fixed sp P,
  NoDup (map t_name (s_tasks sp)) -> NoDup (pod_ids P) ->
  forall t i, find_pod t i (pass fixed sp (pass fixed sp P)) = find_pod t i (pass fixed sp P).
Proof. exact sync_idempotent. Qed.
Print Assumptions C06_sync_idempotent.

(* crash / partial failure at ANY point (any set F of pod create / delete calls and
   status updates that did not happen), restart (fresh view of what the API server
   holds), retry: same pods as the undisturbed pass *)
Theorem C06_crash_restart_converges : forall fixed sp P F,
  NoDup (map t_name (s_tasks sp)) -> NoDup (pod_ids P) ->
  let crashed := a_pods (sync_pods_gen fixed sp P P F) in
  forall t i, find_pod t i (pass fixed sp crashed) = find_pod t i (pass fixed sp P).
Proof. exact crash_restart_converges. Qed.
Print Assumptions C06_crash_restart_converges.

(* what an interrupted pass can leave behind: per pod name, untouched or the final state *)
Theorem C06_faulty_sync_partial : forall fixed sp P F, NoDup (pod_ids P) ->
  partial sp P (a_pods (sync_pods_gen fixed sp P P F)).
Proof. exact faulty_sync_partial. Qed.
Print Assumptions C06_faulty_sync_partial.

(* ---- createJobPod against an INDEPENDENT specification.  The model works on the pod OBJECT: name,
   namespace, owner reference and the label / annotation MAPS (C06/Model.v make_pod: a sequence of map
   writes, as the Go code does).  [is_pod_of j t i ta tl p] (C06/Lemmas.v) does not mention make_pod: it
   says what can be READ from p: name = (job, t, i), namespace, controller owner reference = (job name,
   uid), under every derived annotation / label key the value for (job, t, i) (task-index, task-spec,
   group name, job name, queue, job version, template name, retry count, namespace label), the
   scheduler's job id = namespace / PodGroup name, and every other key of the template's own maps ta / tl
   unchanged. ---- *)
Theorem C06_make_pod_is_pod_of : forall j t i ta tl, is_pod_of j t i ta tl (make_pod j t i ta tl).
Proof. exact make_pod_is_pod_of. Qed.
Print Assumptions C06_make_pod_is_pod_of.

(* all missing replicas of a task built in one pass of syncJob (every pod from its own copy of the
   template): the k-th pod is the pod of the k-th index *)
Theorem C06_build_pods_own : forall j t ta tl idxs,
  Forall2 (fun i p => is_pod_of j t i ta tl p) idxs (build_pods j t ta tl idxs).
Proof. exact build_pods_own. Qed.
Print Assumptions C06_build_pods_own.

(* REFUTED for a createJobPod that writes into the template's own maps (Go maps are references; seeded
   mutant C06-r3-1): two different indices built in one pass, and the first pod is not the pod of its index *)
Theorem C06_build_pods_shared_refuted : forall j t ta tl i i',
  i <> i' -> ~ Forall2 (fun i p => is_pod_of j t i ta tl p) [i; i'] (build_pods_shared j t ta tl [i; i']).
Proof. exact build_pods_shared_refuted. Qed.
Print Assumptions C06_build_pods_shared_refuted.

(* what correspondence selector 6 compares with the Go pods is READ from these objects (read_fields:
   kget under the marker keys), and the objects it builds are pods of their own (task, index) *)
Theorem C06_task_pod_objs_own : forall ver retry tk x idxs,
  Forall2 (fun i p => is_pod_of (mkJob 1 1 1 1 ver retry) (t_name tk) i (tmpl (x_mem x)) (tmpl (x_cpu x)) p)
          idxs (task_pod_objs ver retry tk x idxs).
Proof. exact task_pod_objs_own. Qed.
Print Assumptions C06_task_pod_objs_own.

(* the executable laws on created pods MEAN the clause: law 211 / 204 = true implies every conjunct *)
Theorem C06_law_created_pods_sound : forall ver retry t x idxs got,
  law_created_pods ver retry t x idxs got = true ->
  Forall2 (fun i p => pf_task p = t_name t /\ pf_lbl_task p = t_name t /\ pf_idx p = i /\ pf_lbl_idx p = i /\
                      pf_version p = ver /\ pf_retry p = retry /\
                      pf_user_lbl p = Z.max 0 (x_cpu x) /\ pf_user_ann p = Z.max 0 (x_mem x)) idxs got.
Proof. exact law_created_pods_sound. Qed.
Print Assumptions C06_law_created_pods_sound.

Theorem C06_law_markers_sound : forall t i ver retry cpu mem m,
  law_markers t i ver retry cpu mem m = true ->
  m_task m = Zpos t /\ m_idx m = i /\ m_lbl_task m = Zpos t /\ m_lbl_idx m = i /\
  m_version m = ver /\ m_retry m = retry /\
  m_owner m = true /\ m_group m = true /\ m_jobname m = true /\ m_queue m = true /\ m_jobid m = true /\
  m_user_lbl m = Z.max 0 cpu /\ m_user_ann m = Z.max 0 mem /\ m_shape m = true.
Proof. exact law_markers_sound. Qed.
Print Assumptions C06_law_markers_sound.

(* a delayed action that expires and leads to syncJob creates no pod while the PodGroup is not admitted *)
Theorem C06_fire_creates_none_while_pg_pending : forall w w' e wr t c rest,
  fire w = (w', e, wr) -> d_queue (c_delay (v_ctl w)) = (t, c) :: rest ->
  fst (exec (st_phase (v_st w)) (dt_action t)) = KSync ->
  pg_admitted (v_pg w) = false -> w_pods w' = w_pods w.
Proof. exact fire_creates_none_while_pg_pending. Qed.
Print Assumptions C06_fire_creates_none_while_pg_pending.

(* controller restart: whatever order the informers deliver pods, job and PodGroup in, the controller ends
   up seeing exactly what the API server holds.  This is a computation on the model's VIEW-COPY abstraction
   (each delivery copies a whole view; the three copies commute); the job cache's placeholder logic for
   pods delivered before their job is not represented in Coq: it is checked on the real cache by the
   restart stream of the correspondence only (second audit, claim 2) *)
Theorem C06_restart_any_delivery_order : forall w order,
  In order delivery_orders -> run w (ORestart :: order) = synced w.
Proof. exact restart_any_delivery_order. Qed.
Print Assumptions C06_restart_any_delivery_order.

Theorem C06_pods_before_job_are_kept : forall w,
  v_pods (run w [ORestart; OSyncPods; OSyncJob]) = w_pods w /\
  c_job (v_ctl (run w [ORestart; OSyncPods; OSyncJob])) = true.
Proof. exact pods_before_job_are_kept. Qed.
Print Assumptions C06_pods_before_job_are_kept.

(* crash / partial failure of a sync at any point, controller restart, deliveries in any
   order, retry: same pods as the undisturbed sync *)
Theorem C06_crash_restart_world : forall w u F w1 e1 wr1 order,
  sync_job w u F = (w1, e1, wr1) ->
  c_vdel (v_ctl w) = false -> c_queue (v_ctl w) = true ->
  pg_admitted (v_pg w) = true -> st_phase (v_st w) <> PhNone ->
  v_pods w = w_pods w -> v_spec w = w_spec w ->
  NoDup (map t_name (s_tasks (v_spec w))) -> NoDup (pod_ids (w_pods w)) ->
  In order delivery_orders ->
  let w2 := run w1 (ORestart :: order) in
  c_job (v_ctl w2) = true /\ v_pods w2 = w_pods w2 /\ v_spec w2 = v_spec w /\
  forall t i, find_pod t i (pass true (v_spec w2) (v_pods w2)) = find_pod t i (pass true (v_spec w) (w_pods w)).
Proof. exact crash_restart_world. Qed.
Print Assumptions C06_crash_restart_world.

(* NOTE (second audit N1): the theorem above concludes about the pure function [pass] on the views the
   restarted controller has, not about the retried syncJob; with a lister PodGroup ahead of the API
   server's the retry does nothing (C06_nonvacuous_crash_restart_retry, second part).  The statement about
   the RETRIED reconcile: if the API server's PodGroup is the admitted one the lister showed, and the job
   there has a phase and no deletion timestamp, then after crash, restart and deliveries in any order a
   sync that meets no fault succeeds and leaves exactly the pods of the undisturbed sync *)
Theorem C06_crash_restart_retry : forall w u F w1 e1 wr1 order u' w3 e3 wr3,
  sync_job w u F = (w1, e1, wr1) ->
  c_vdel (v_ctl w) = false -> c_wdel (v_ctl w) = false -> c_queue (v_ctl w) = true ->
  pg_admitted (v_pg w) = true -> w_pg w = v_pg w ->
  st_phase (v_st w) <> PhNone -> st_phase (w_st w1) <> PhNone ->
  v_pods w = w_pods w -> v_spec w = w_spec w ->
  NoDup (map t_name (s_tasks (v_spec w))) -> NoDup (pod_ids (w_pods w)) ->
  In order delivery_orders ->
  sync_job (run w1 (ORestart :: order)) u' [] = (w3, e3, wr3) ->
  e3 = false /\
  forall t i, find_pod t i (w_pods w3) = find_pod t i (pass true (v_spec w) (w_pods w)).
Proof. exact crash_restart_retry. Qed.
Print Assumptions C06_crash_restart_retry.

(* createOrUpdatePodGroup with a lister that shows what the API server holds: for EVERY
   fault position (the create / update call refused or not) "returned OK" implies that the
   PodGroup exists and mirrors the spec; an error leaves the API server untouched; a
   refused write is reported unless no write was needed *)
Theorem C06_podgroup_mirrors_spec_ok : forall lister api sp xs jp fail api',
  NoDup (map t_name (s_tasks sp)) -> lister = api ->
  create_or_update_pg lister api sp xs jp fail = (api', false) ->
  exists g, api' = Some g /\ pg_mirrors g sp xs jp.
Proof. exact podgroup_mirrors_spec_ok. Qed.
Print Assumptions C06_podgroup_mirrors_spec_ok.

Theorem C06_pg_error_no_change : forall lister api sp xs jp fail api',
  create_or_update_pg lister api sp xs jp fail = (api', true) -> api' = api.
Proof. exact pg_error_no_change. Qed.
Print Assumptions C06_pg_error_no_change.

Theorem C06_pg_refused_write_reported : forall lister api sp xs jp api' err,
  create_or_update_pg lister api sp xs jp true = (api', err) ->
  err = true \/ (api' = api /\ exists g, lister = Some g /\ pg_update g sp xs jp = g).
Proof. exact pg_refused_write_reported. Qed.
Print Assumptions C06_pg_refused_write_reported.

(* a STALE lister copy: whatever the lister shows and whatever the API server holds, a call that
   writes and returns OK leaves a mirroring PodGroup (all mirrored fields are recomputed from the spec).
   Not covered: a stale copy that already mirrors the spec while the API server's object does not: then no
   write is made and OK is returned (the next delivery of the PodGroup re-enqueues nothing; declared) *)
Theorem C06_pg_written_mirrors : forall g api sp xs jp api',
  NoDup (map t_name (s_tasks sp)) -> pg_update g sp xs jp <> g ->
  create_or_update_pg (Some g) api sp xs jp false = (api', false) ->
  exists g', api' = Some g' /\ pg_mirrors g' sp xs jp.
Proof. exact pg_written_mirrors. Qed.
Print Assumptions C06_pg_written_mirrors.

(* after createOrUpdatePodGroup (create, or update after any scale up/down):
   MinMember, every task's MinTaskMember, PriorityClassName, MinResources mirror the spec *)
Theorem C06_podgroup_mirrors_spec : forall sp xs jp,
  NoDup (map t_name (s_tasks sp)) ->
  (let g := pg_create sp xs jp in
   g_minmember g = s_min sp /\ g_prio g = jp /\ g_res g = calc_min_resources sp xs /\
   forall t, In t (s_tasks sp) -> tm_get (t_name t) (g_taskmin g) = Some (min_task_member t)) /\
  (forall g0, let g := pg_update g0 sp xs jp in
   g_minmember g = s_min sp /\ g_prio g = jp /\ g_res g = calc_min_resources sp xs /\
   forall t, In t (s_tasks sp) -> tm_get (t_name t) (g_taskmin g) = Some (min_task_member t)).
Proof. exact podgroup_mirrors_spec. Qed.
Print Assumptions C06_podgroup_mirrors_spec.

(* minResources: tasks are visited in descending priority (a permutation of the tasks) *)
Theorem C06_sort_prio_sorted : forall l, desc_prio (sort_prio l) = true /\ Permutation (sort_prio l) l.
Proof. exact sort_prio_sorted. Qed.
Print Assumptions C06_sort_prio_sorted.

(* minAvailable below the sum of task minimums: exactly minAvailable replicas are summed *)
Theorem C06_first_count_exact : forall l count,
  Forall (fun t => 0 <= pt_replicas t) l -> 0 <= count <= sum_replicas l ->
  r_pods (first_count count l) = count.
Proof. exact first_count_exact. Qed.
Print Assumptions C06_first_count_exact.

(* each task's own minimum first: never more than minAvailable, pods = what was taken *)
Theorem C06_own_mins_count : forall l jobmin cnt x c,
  Forall (fun t => match pt_min t with Some m => 0 <= m | None => True end) l ->
  cnt <= jobmin -> own_mins jobmin cnt l = (x, c) ->
  cnt <= c <= jobmin /\ r_pods x = c - cnt.
Proof. exact own_mins_count. Qed.
Print Assumptions C06_own_mins_count.

(* minResources sums exactly minAvailable replicas: both branches of calcPGMinResources
   (first-count rule; own minimums then fill-up), for ANY visiting order of the
   tasks, hence for any order of equal priorities *)
Theorem C06_calc_min_resources_exact : forall l jobmin tm,
  Forall ptask_ok l -> 0 <= jobmin <= sum_replicas l ->
  r_pods (calc_min_resources_sorted jobmin l tm) = jobmin.
Proof. exact calc_min_resources_exact. Qed.
Print Assumptions C06_calc_min_resources_exact.

Theorem C06_fill_up_exact : forall l leftcnt,
  Forall ptask_ok l -> 0 < leftcnt <= sum_spare l -> r_pods (fill_up leftcnt l) = leftcnt.
Proof. exact fill_up_exact. Qed.
Print Assumptions C06_fill_up_exact.

(* ---- minResources: WHICH requests are summed.  Independent specification: [greedy caps n] hands n units
   to a list of capacities in order, each taking as much as it can ([C06_greedy_spec]: 0 <= k_t <= cap_t,
   total = min n (sum caps)); [rsum ks l] = sum over the tasks of k_t x (the request of one pod of t).
   With the tasks in visiting order l: if minAvailable is below the sum of the task minimums the hand-out
   goes to the tasks' REPLICAS; otherwise every task first receives its OWN MINIMUM (in order, while
   something is left) and the remainder goes, again in order, to the replicas beyond the minimum.
   cpu and memory components included. ---- *)
Theorem C06_greedy_spec : forall caps n,
  Forall (fun c => 0 <= c) caps -> 0 <= n ->
  Forall2 (fun c k => 0 <= k <= c) caps (greedy caps n) /\
  zsum (greedy caps n) = Z.min n (zsum caps).
Proof. exact greedy_spec. Qed.
Print Assumptions C06_greedy_spec.

Theorem C06_calc_min_resources_amount : forall l jobmin tm,
  Forall ptask_ok l -> 0 <= jobmin ->
  calc_min_resources_sorted jobmin l tm =
  if jobmin <? tm then rsum (greedy (map pt_replicas l) jobmin) l
  else let own := greedy (map own_min l) jobmin in
       radd (rsum own l) (rsum (greedy (map spare l) (jobmin - zsum own)) l).
Proof. exact calc_min_resources_amount. Qed.
Print Assumptions C06_calc_min_resources_amount.

(* law 206 MEANS the clause: a value it accepts is the value for SOME visiting order that is a permutation
   of the job's tasks in descending priority (ties in any order), i.e. the amount above over that order *)
Theorem C06_law_minres_amount : forall sp xs got,
  Forall ptask_ok (ptasks sp xs) -> 0 <= s_min sp ->
  law_minres sp xs got = true ->
  exists o, Permutation o (ptasks sp xs) /\ desc_prio o = true /\
    got = if s_min sp <? total_min (ptasks sp xs) then rsum (greedy (map pt_replicas o) (s_min sp)) o
          else let own := greedy (map own_min o) (s_min sp) in
               radd (rsum own o) (rsum (greedy (map spare o) (s_min sp - zsum own)) o).
Proof. exact law_minres_amount. Qed.
Print Assumptions C06_law_minres_amount.

(* the same from the law's own executable guard [well_formed] (replicas >= 0, 0 <= task minimum <= replicas,
   0 <= minAvailable <= total replicas): the hypothesis of the amount theorems is what the guard checks *)
Theorem C06_law_minres_amount_wf : forall sp xs got,
  well_formed sp = true -> law_minres sp xs got = true ->
  exists o, Permutation o (ptasks sp xs) /\ desc_prio o = true /\
    got = if s_min sp <? total_min (ptasks sp xs) then rsum (greedy (map pt_replicas o) (s_min sp)) o
          else let own := greedy (map own_min o) (s_min sp) in
               radd (rsum own o) (rsum (greedy (map spare o) (s_min sp - zsum own)) o).
Proof. exact law_minres_amount_wf. Qed.
Print Assumptions C06_law_minres_amount_wf.

(* ties are visited in SPEC order (sort.Sort is an insertion sort below 12 elements): the model's visiting order
   keeps, for every priority, the tasks of that priority in the order of spec.tasks; law 212 accepts, for
   fewer than 12 tasks, only the amount over that order (round 6: a Less that breaks ties by task name) *)
Theorem C06_sort_prio_stable : forall l p, filter (same_prio p) (sort_prio l) = filter (same_prio p) l.
Proof. exact sort_prio_stable. Qed.
Print Assumptions C06_sort_prio_stable.

Theorem C06_law_minres_stable_sound : forall sp xs got,
  law_minres_stable sp xs got = true -> (length (s_tasks sp) < 12)%nat ->
  let l := ptasks sp xs in let o := sort_prio l in
  got = calc_min_resources_sorted (s_min sp) o (total_min l) /\
  desc_prio o = true /\ Permutation o l /\ forall p, filter (same_prio p) o = filter (same_prio p) l.
Proof. exact law_minres_stable_sound. Qed.
Print Assumptions C06_law_minres_stable_sound.

(* ... and from the law's own guard: the greedy amount over that stable order *)
Theorem C06_law_minres_stable_amount : forall sp xs got,
  well_formed sp = true -> law_minres_stable sp xs got = true -> (length (s_tasks sp) < 12)%nat ->
  let l := ptasks sp xs in let o := sort_prio l in
  got = (if s_min sp <? total_min l then rsum (greedy (map pt_replicas o) (s_min sp)) o
         else let own := greedy (map own_min o) (s_min sp) in
              radd (rsum own o) (rsum (greedy (map spare o) (s_min sp - zsum own)) o)) /\
  desc_prio o = true /\ Permutation o l /\ forall p, filter (same_prio p) o = filter (same_prio p) l.
Proof. exact law_minres_stable_amount. Qed.
Print Assumptions C06_law_minres_stable_amount.

(* law 205 MEANS the mirror clause *)
Theorem C06_law_pg_sound : forall sp xs jp q g,
  law_pg sp xs jp q g = true ->
  g_minmember g = s_min sp /\ g_prio g = jp /\ q = true /\
  (forall t, In t (s_tasks sp) -> tm_get (t_name t) (g_taskmin g) = Some (min_task_member t)) /\
  law_minres_stable sp xs (g_res g) = true.
Proof. exact law_pg_sound. Qed.
Print Assumptions C06_law_pg_sound.

Example C06_nonvacuous_minres_amount :
  let l := [mkPT (mkTask 1 3 (Some 1) [] None) 100 64 10; mkPT (mkTask 2 2 None [] None) 250 0 20] in
  Forall ptask_ok l /\ greedy (map own_min l) 4 = [1; 0] /\ greedy (map spare l) (4 - 1) = [2; 1] /\
  calc_min_resources_sorted 4 l (total_min l) = radd (rsum [1; 0] l) (rsum [2; 1] l) /\
  radd (rsum [1; 0] l) (rsum [2; 1] l) = mkR 4 (3 * 100 + 1 * 250) (3 * 64).
Proof. exact minres_amount_example. Qed.

(* (the step-level facts about the resync worker's op -- it never adds a pod to the job cache -- are lemma
   resync_adds_no_pod of C06/Lemmas.v: read off the definition, not counted as a property theorem; third audit E18) *)

Example C06_nonvacuous :
  let sp := mkSpec [mkTask 1 3 (Some 1) [] None; mkTask 2 2 None [] None] 4 None 3 [] in
  let xs := [mkExtra 100 64 1; mkExtra 250 0 2] in
  NoDup (map t_name (s_tasks sp)) /\
  calc_min_resources sp xs = mkR 4 (2 * 250 + 2 * 100) (2 * 64) /\
  law_pg sp xs 2 true (pg_create sp xs 2) = true.
Proof. exact pg_example. Qed.

Example C06_nonvacuous_pod_set :
  NoDup (map t_name (s_tasks ex_spec)) /\ NoDup (pod_ids ex_pods) /\
  pass true ex_spec ex_pods =
    [mkPod 1 0 PPending false false; mkPod 1 1 PRunning true true; mkPod 1 2 PRunning true false;
     mkPod 2 0 PPending false false] /\
  pass true ex_spec (pass true ex_spec ex_pods) = pass true ex_spec ex_pods /\
  pass true ex_spec (a_pods (sync_pods ex_spec ex_pods ex_pods [FCreate 1 0; FDelete 1 2])) = pass true ex_spec ex_pods.
Proof. exact pod_set_example. Qed.

Example C06_nonvacuous_minres :
  let l := [mkPT (mkTask 1 3 (Some 1) [] None) 100 64 10; mkPT (mkTask 2 2 None [] None) 250 0 20] in
  Forall ptask_ok l /\ 0 <= 4 <= sum_replicas l /\
  calc_min_resources_sorted 4 l (total_min l) = mkR 4 (3 * 100 + 250) (3 * 64).
Proof. exact minres_example. Qed.

Example C06_nonvacuous_crash_restart :
  let w := init_world ex_spec (mkStatus PhRunning 0 0 2 c0 0 [] false false) ex_pods (Some PgRunning) in
  exists w1, sync_job w URunningSync [FCreate 1 0; FDelete 1 2] = (w1, true, false) /\
    let w2 := run w1 [ORestart; OSyncPods; OSyncJob; OSyncPg] in
    c_job (v_ctl w2) = true /\ v_pods w2 = w_pods w1 /\
    pass true (v_spec w2) (v_pods w2) = pass true ex_spec ex_pods.
Proof. exact crash_restart_world_example. Qed.

Example C06_nonvacuous_podgroup_ok :
  let sp := mkSpec [mkTask 1 3 (Some 1) [] None; mkTask 2 2 None [] None] 4 None 3 [] in
  let xs := [mkExtra 100 64 1; mkExtra 250 0 2] in
  let g0 := pg_create (mkSpec [mkTask 1 2 (Some 1) [] None; mkTask 2 2 None [] None] 3 None 3 []) xs 0 in
  create_or_update_pg (Some g0) (Some g0) sp xs 2 false = (Some (pg_update g0 sp xs 2), false) /\
  create_or_update_pg (Some g0) (Some g0) sp xs 2 true = (Some g0, true) /\
  pg_update g0 sp xs 2 <> g0.
Proof. exact podgroup_ok_example. Qed.

Example C06_nonvacuous_crash_restart_retry :
  let st := mkStatus PhRunning 0 0 2 c0 0 [] false false in
  let w := init_world ex_spec st ex_pods (Some PgRunning) in
  let wbad := mkWorld ex_spec ex_spec st st ex_pods ex_pods (Some PgPending) (Some PgRunning) (init_ctl true) in
  (exists w1 w3 wr3, sync_job w URunningSync [FCreate 1 0; FDelete 1 2] = (w1, true, false) /\
     st_phase (w_st w1) <> PhNone /\
     sync_job (run w1 [ORestart; OSyncPods; OSyncJob; OSyncPg]) URunningSync [] = (w3, false, wr3) /\
     w_pods w3 = pass true ex_spec ex_pods) /\
  (exists w1 w3 wr3, sync_job wbad URunningSync [FCreate 1 0; FDelete 1 2] = (w1, true, false) /\
     sync_job (run w1 [ORestart; OSyncPods; OSyncJob; OSyncPg]) URunningSync [] = (w3, false, wr3) /\
     w_pods w3 = w_pods w1 /\ w_pods w3 <> pass true ex_spec ex_pods).
Proof. exact crash_restart_retry_example. Qed.

Example C06_nonvacuous_minres_stable :
  let sp := mkSpec [mkTask 2 2 None [] None; mkTask 1 2 None [] None] 1 None 3 [] in
  let xs := [mkExtra 100 64 1; mkExtra 250 0 1] in
  calc_min_resources sp xs = mkR 1 100 64 /\
  law_minres_stable sp xs (mkR 1 100 64) = true /\
  law_minres sp xs (mkR 1 250 0) = true /\ law_minres_stable sp xs (mkR 1 250 0) = false.
Proof. exact minres_stable_example. Qed.

Example C06_nonvacuous_resync :
  let st := mkStatus PhRunning 0 0 2 (mkC 0 2 0 0 0) 0 [] false false in
  let sp := mkSpec [mkTask 1 2 None [] None] 2 None 3 [] in
  let w := init_world sp st [mkPod 1 0 PRunning false false; mkPod 1 1 PRunning false true] (Some PgRunning) in
  w_pods (run w [OReq (mkReq EOutOfSync None None None 0 0 1) [FDelete 1 1]; OResyncPod 1 1 true;
                 OSyncPods; OSyncPg; OSyncJob; OReq (mkReq EOutOfSync None None None 0 0 1) []]) =
  [mkPod 1 0 PRunning false false; mkPod 1 1 PPending false false].
Proof. exact resync_example. Qed.
