(* Property C02 -- scheduler decisions never overcommit a node.  Statements only; proofs are in
   Sched/NodeCapLemmas.v, Sched/NodeCapLemmasCycle.v, Sched/NodeCapCheck.v, C02/BindLemmas.v. *)
From stdpp Require Import gmap.
From Coq Require Import ZArith.
From V Require Import Sched.LedgerCodec.
From V Require Import Base.Res Sched.LedgerModel Sched.StmtModel Sched.GangModel Sched.CycleModel Sched.LedgerInvP
                      Sched.NodeCapLemmas Sched.NodeCapLemmasCycle Sched.NodeCapCheck Sched.NodeCapLemmasEvict Sched.NodeCapEvictEx
                      Sched.NodeSumLemmas Sched.NodeSumCheck Sched.NodeCapSelectVictims C02.BindModel C02.BindLemmas C02.BindEx.
Open Scope Z_scope.

(* A.1  NodeInfo.AddTask under the guard of its caller keeps the node within capacity *)
Theorem C02_node_add_guarded_keeps_capacity : forall eps, 0 < eps -> forall n t n' t',
  node_within_capacity eps n -> nonneg (t_req t) -> add_guard eps n t ->
  node_add eps n t = inl (n', t') -> node_within_capacity eps n'.
Proof. exact node_add_guarded_keeps_capacity. Qed.
Print Assumptions C02_node_add_guarded_keeps_capacity.

Theorem C02_node_add_allocated_keeps_capacity : forall eps, 0 < eps -> forall n t n' t',
  node_within_capacity eps n -> nonneg (t_req t) -> granular eps (t_req t) ->
  t_status t = Allocated ->
  less_equal eps (t_req t) (n_idle n) DZero = true ->
  less_equal_names eps (t_req t) (future_idle n) DZero = true ->
  node_add eps n t = inl (n', t') -> node_within_capacity eps n'.
Proof. exact node_add_allocated_keeps_capacity. Qed.
Print Assumptions C02_node_add_allocated_keeps_capacity.

Theorem C02_node_add_pipelined_keeps_capacity : forall eps, 0 < eps -> forall n t n' t',
  node_within_capacity eps n -> nonneg (t_req t) -> granular eps (t_req t) ->
  t_status t = Pipelined ->
  less_equal eps (t_req t) (future_idle n) DZero = true ->
  node_add eps n t = inl (n', t') -> node_within_capacity eps n'.
Proof. exact node_add_pipelined_keeps_capacity. Qed.
Print Assumptions C02_node_add_pipelined_keeps_capacity.

(* the Binding re-check keeps Idle above -eps for ANY request ... *)
Theorem C02_node_add_binding_keeps_idle : forall eps, 0 < eps -> forall n t n' t',
  idle_ok eps n -> t_status t = Binding ->
  node_add eps n t = inl (n', t') -> idle_ok eps n'.
Proof. exact node_add_binding_keeps_idle. Qed.
Print Assumptions C02_node_add_binding_keeps_idle.

(* on the bind path every dimension is guarded, 'pods' included *)
Theorem C02_node_add_binding_keeps_idle_all : forall eps, 0 < eps -> forall n t n' t',
  idle_all_ok eps n -> t_status t = Binding ->
  node_add eps n t = inl (n', t') -> idle_all_ok eps n'.
Proof. exact node_add_binding_keeps_idle_all. Qed.
Print Assumptions C02_node_add_binding_keeps_idle_all.

(* ... but it does not look at FutureIdle (planned statement refuted; witness: a node holding a
   pipelined task) *)
Theorem C02_binding_recheck_ignores_future_refuted :
  exists n t n' t',
    node_within_capacity 2 n /\ nonneg (t_req t) /\ granular 2 (t_req t) /\ t_status t = Binding /\
    node_add 2 n t = inl (n', t') /\ ~ node_within_capacity 2 n'.
Proof. exact binding_recheck_ignores_future_refuted. Qed.
Print Assumptions C02_binding_recheck_ignores_future_refuted.

Theorem C02_node_remove_keeps_capacity : forall eps n tid,
  node_within_capacity eps n -> (forall c, n_tasks n !! tid = Some c -> nonneg (t_req c)) ->
  node_within_capacity eps (node_remove n tid).
Proof. exact node_remove_keeps_capacity. Qed.
Print Assumptions C02_node_remove_keeps_capacity.

(* A.2  one step of the action skeleton moves the nodes by guarded AddTask / RemoveTask calls only *)
Theorem C02_step_is_guarded_node_ops : forall eps, 0 < eps -> forall w o,
  world_ok eps w ->
  nsteps eps (nodes (w_sess w)) (nodes (w_sess (fst (step eps w o)))).
Proof. exact step_nodes. Qed.
Print Assumptions C02_step_is_guarded_node_ops.

Theorem C02_guarded_node_ops_are_safe : forall eps, 0 < eps -> forall a b,
  nsteps eps a b -> nodes_safe eps a -> nodes_safe eps b.
Proof. exact nsteps_safe. Qed.
Print Assumptions C02_guarded_node_ops_are_safe.

(* A.3  main theorem *)
Theorem C02_cycle_no_overcommit : forall eps, 0 < eps -> forall w ops k i n,
  world_ok eps w ->
  nodes (w_sess (run eps w (take k ops))) !! i = Some n -> node_within_capacity eps n.
Proof. exact cycle_no_overcommit. Qed.
Print Assumptions C02_cycle_no_overcommit.

(* THE PROPERTY'S WORDING, cycles (audit W1): in every state reached by any list of allocate
   attempts and backfill placements from a world that is within capacity and whose node ledgers
   account for the copies they hold, on every node with a Node object and every guarded dimension:
   the summed requests of the held tasks (all but the pipelined ones: bound, binding, allocated,
   running, terminating) stay below allocatable + eps, and the summed pipelined requests below what
   the node will have free once its terminating tasks are gone (allocatable - staying) + eps *)
Theorem C02_cycle_sums_within_allocatable : forall eps, 0 < eps -> forall w ops k i n d,
  world_ok eps w -> nodes_acct (nodes (w_sess w)) ->
  nodes (w_sess (run eps w (take k ops))) !! i = Some n -> n_has_node n = true -> guarded_dim d ->
  csum (used_amt d) (n_tasks n) < amt (n_alloc n) d + eps /\
  csum (pip_amt d) (n_tasks n) < (amt (n_alloc n) d - (csum (used_amt d) (n_tasks n) - csum (rel_amt d) (n_tasks n))) + eps.
Proof. exact cycle_sums_within_allocatable. Qed.
Print Assumptions C02_cycle_sums_within_allocatable.

(* the ledger identity is an invariant of AddTask / RemoveTask, hence of every sequence of them
   (every step of the skeleton is such a sequence: C02_step_is_guarded_node_ops) *)
Theorem C02_node_add_acct : forall eps n t n' t',
  node_acct n -> nonneg (t_req t) -> node_add eps n t = inl (n', t') -> node_acct n'.
Proof. exact node_add_acct. Qed.
Print Assumptions C02_node_add_acct.

Theorem C02_node_remove_acct : forall n tid, node_acct n -> node_acct (node_remove n tid).
Proof. exact node_remove_acct. Qed.
Print Assumptions C02_node_remove_acct.

Theorem C02_nsteps_acct : forall eps a b, nsteps eps a b -> nodes_acct a -> nodes_acct b.
Proof. exact nsteps_acct. Qed.
Print Assumptions C02_nsteps_acct.

(* on a grid of step g >= eps the tolerance disappears: <= exactly *)
Theorem C02_sums_within_allocatable_grid : forall eps g n d,
  0 < eps -> eps <= g ->
  node_within_capacity eps n -> node_acct n -> n_has_node n = true -> guarded_dim d -> node_on_grid g n d ->
  csum (used_amt d) (n_tasks n) <= amt (n_alloc n) d /\
  csum (pip_amt d) (n_tasks n) <= amt (n_alloc n) d - (csum (used_amt d) (n_tasks n) - csum (rel_amt d) (n_tasks n)).
Proof. exact sums_within_allocatable_grid. Qed.
Print Assumptions C02_sums_within_allocatable_grid.

(* base case: the constructor of initial sessions establishes the accounting invariant *)
Theorem C02_build_nodes_acct : forall eps ns js ts,
  (forall t, t ∈ ts -> 0 <= ts_cpu t /\ 0 <= ts_mem t /\ 0 <= ts_gpu t) ->
  nodes_acct (nodes (build eps ns js ts)).
Proof. exact build_nodes_acct. Qed.
Print Assumptions C02_build_nodes_acct.

(* the executable accounting check used by law 113 is sound *)
Theorem C02_nodes_acct_b_sound : forall ns, nodes_acct_b ns = true -> nodes_acct ns.
Proof. exact nodes_acct_b_sound. Qed.
Print Assumptions C02_nodes_acct_b_sound.

Theorem C02_best_effort_zero : forall eps, 0 < eps -> forall t d,
  task_ok eps t -> t_best_effort t = true -> guarded_dim d -> amt (t_req t) d = 0.
Proof. exact best_effort_zero. Qed.
Print Assumptions C02_best_effort_zero.

Theorem C02_grid_no_overcommit : forall eps g,
  0 < eps -> eps <= g -> forall h n d,
  node_inv h n -> n_has_node n = true -> node_within_capacity eps n -> guarded_dim d -> on_grid g n d ->
  sum_amt (used_amt d) (copies n) <= amt (n_alloc n) d /\
  sum_amt (used_amt d) (copies n) - sum_amt (rel_amt d) (copies n) + sum_amt (pip_amt d) (copies n) <= amt (n_alloc n) d.
Proof. exact grid_no_overcommit. Qed.
Print Assumptions C02_grid_no_overcommit.

(* the executable hypothesis check used by law 113 is sound *)
Theorem C02_world_ok_b_sound : forall eps w, 0 < eps -> world_ok_b eps w = true -> world_ok eps w.
Proof. exact world_ok_b_sound. Qed.
Print Assumptions C02_world_ok_b_sound.

(* B  bind admission *)
Theorem C02_bind_admission_safe : forall eps, 0 < eps -> forall c l k,
  nodes_all (idle_ok eps) (c_nodes c) ->
  nodes_all (idle_ok eps) (c_nodes (bind_state eps c (take k l))).
Proof. exact bind_admission_safe. Qed.
Print Assumptions C02_bind_admission_safe.

(* the same over every dimension, 'pods' included (binds only) *)
Theorem C02_bind_admission_all_dims : forall eps, 0 < eps -> forall c l k,
  nodes_all (idle_all_ok eps) (c_nodes c) ->
  nodes_all (idle_all_ok eps) (c_nodes (bind_state eps c (take k l))).
Proof. exact bind_admission_all_dims. Qed.
Print Assumptions C02_bind_admission_all_dims.

Theorem C02_bind_admission_safe_full : forall eps, 0 < eps -> forall c l k,
  nodes_all (cache_node_ok eps) (c_nodes c) ->
  nodes_all (cache_node_ok eps) (c_nodes (bind_state eps c (take k l))).
Proof. exact bind_admission_safe_full. Qed.
Print Assumptions C02_bind_admission_safe_full.

Theorem C02_agent_bind_admission_safe : forall eps, 0 < eps -> forall ns l k,
  nodes_all (idle_ok eps) ns -> nodes_all (idle_ok eps) (agent_state eps ns (take k l)).
Proof. exact agent_bind_admission_safe. Qed.
Print Assumptions C02_agent_bind_admission_safe.

Theorem C02_rejected_bind_unchanged : forall eps c r,
  heap_keyed (c_heap c) -> snd (add_bind_task eps c r) <> BOk ->
  let c' := fst (add_bind_task eps c r) in
  c_nodes c' = c_nodes c /\ c_heap c' = c_heap c /\
  (c_jobs c' = c_jobs c \/
   exists j t, c_jobs c !! b_job r = Some j /\ c_heap c !! b_task r = Some t /\ b_task r ∈ j_tasks j /\
               c_jobs c' = <[b_job r := job_roundtrip (c_heap c) j t]> (c_jobs c)).
Proof. exact rejected_bind_unchanged. Qed.
Print Assumptions C02_rejected_bind_unchanged.

Theorem C02_job_roundtrip_same : forall h j t,
  h !! t_id t = Some t -> t_id t ∈ j_tasks j ->
  let j' := job_roundtrip h j t in
  j_id j' = j_id j /\ j_queue j' = j_queue j /\ j_min j' = j_min j /\ j_role_min j' = j_role_min j /\
  j_tasks j' = j_tasks j /\
  (sc (j_total j) <> None -> forall d, amt (j_total j') d = amt (j_total j) d) /\
  ((allocated_status (t_status t) = true -> sc (j_alloc j) <> None) -> forall d, amt (j_alloc j') d = amt (j_alloc j) d) /\
  (t_id t ∈ idx_set (j_index j) (t_status t) -> (forall s, s <> t_status t -> t_id t ∉ idx_set (j_index j) s) ->
   forall s, idx_set (j_index j') s = idx_set (j_index j) s).
Proof. exact job_roundtrip_same. Qed.
Print Assumptions C02_job_roundtrip_same.

(* B, round 3: cache events between the binds *)

(* NodeInfo.SetNode recomputes Idle = Allocatable - sum of the held non-pipelined requests *)
Theorem C02_node_set_idle : forall n alloc,
  sc alloc <> None ->
  sc (n_idle (node_set n alloc)) <> None /\ n_tasks (node_set n alloc) = n_tasks n /\ n_has_node (node_set n alloc) = true /\
  forall d, amt (n_idle (node_set n alloc)) d = amt alloc d - sum_amt (used_amt d) (copies n).
Proof. exact node_set_idle. Qed.
Print Assumptions C02_node_set_idle.

Theorem C02_node_set_same_alloc : forall n,
  sc (n_alloc n) <> None ->
  (forall d, amt (n_idle n) d = amt (n_alloc n) d - sum_amt (used_amt d) (copies n)) ->
  forall d, amt (n_idle (node_set n (n_alloc n))) d = amt (n_idle n) d.
Proof. exact node_set_same_alloc. Qed.
Print Assumptions C02_node_set_same_alloc.

Theorem C02_cache_event_keeps : forall eps, 0 < eps -> forall c e,
  cinv eps c -> ev_ok eps c e -> cinv eps (cache_event eps c e).
Proof. exact cache_event_keeps. Qed.
Print Assumptions C02_cache_event_keeps.

Theorem C02_bind_events_safe : forall eps, 0 < eps -> forall l c k,
  cinv eps c -> ops_ok eps c l -> cinv eps (ops_state eps c (take k l)).
Proof. exact bind_events_safe. Qed.
Print Assumptions C02_bind_events_safe.

Theorem C02_bind_events_idle : forall eps, 0 < eps -> forall l c k i n,
  cinv eps c -> ops_ok eps c l -> c_nodes (ops_state eps c (take k l)) !! i = Some n -> n_has_node n = true -> idle_ok eps n.
Proof. exact bind_events_idle. Qed.
Print Assumptions C02_bind_events_idle.

(* THE PROPERTY'S WORDING, bind admission (audit W1): in every state reached by any history of
   AddBindTask calls and cache events, on every node that has its Node object: the summed requests
   of ALL the tasks the node holds stay below allocatable + eps *)
Theorem C02_bind_events_sums : forall eps, 0 < eps -> forall l c k i n d,
  cinv eps c -> ops_ok eps c l -> c_nodes (ops_state eps c (take k l)) !! i = Some n -> n_has_node n = true -> guarded_dim d ->
  csum (used_amt d) (n_tasks n) < amt (n_alloc n) d + eps /\
  csum (used_amt d) (n_tasks n) = csum (req_amt d) (n_tasks n).
Proof. exact bind_events_sums. Qed.
Print Assumptions C02_bind_events_sums.

(* SetNode leaves a node that accounts for exactly the copies it holds *)
Theorem C02_node_set_acct : forall n alloc,
  sc alloc <> None -> (forall k c, n_tasks n !! k = Some c -> nonneg (t_req c)) ->
  node_acct (node_set n alloc) /\ n_alloc (node_set n alloc) = alloc.
Proof. exact node_set_acct. Qed.
Print Assumptions C02_node_set_acct.

(* the agent scheduler's cache: binds interleaved with the same events (audit W6) *)
Theorem C02_agent_events_safe : forall eps, 0 < eps -> forall tasks l ns k,
  nodes_all (bnode_ok eps) ns -> agent_ops_ok eps tasks ns l ->
  nodes_all (bnode_ok eps) (fold_left (agent_step eps tasks) (take k l) ns).
Proof. exact agent_events_safe. Qed.
Print Assumptions C02_agent_events_safe.

(* agent scheduler cache, bind execution over a BATCH of accepted contexts (BATCH_BIND_NUM > 1).
   BindModel.flow_batch is DEFINED as the fold of single-context resyncs (failed pre-binds, then the
   bindings the binder reports failed per task); that it is what BindTask does is established by the
   correspondence of the agent stream only (BindLemmas.flow_batch_is_fold merely unfolds the
   definition and is used for the next theorem).  The content is below: safety, both directions
   of the per-context mechanism, law 117 of the model, and the refutation of the batch-wide reading. *)
(* whatever the pre-binders and the binder answer, the batch keeps every node ledger sound (idle
   bounds, ledger identity node_acct) *)
Theorem C02_flow_batch_safe : forall eps, 0 < eps -> forall tasks pf bf ns pending,
  nodes_all (bnode_ok eps) ns -> nodes_all (bnode_ok eps) (fst (flow_batch eps tasks pf bf ns pending)).
Proof. exact flow_batch_safe. Qed.
Print Assumptions C02_flow_batch_safe.

(* the mechanism (law 117): a context that no failure names is on its node's ledger after the batch
   exactly as before, whatever happened to the other contexts of its batch *)
Theorem C02_flow_batch_keeps_bound : forall eps tasks pf bf ns pending tid nid,
  tid ∉ pf -> tid ∉ bf ->
  on_ledger (fst (flow_batch eps tasks pf bf ns pending)) tid nid = on_ledger ns tid nid.
Proof. exact flow_batch_keeps_bound. Qed.
Print Assumptions C02_flow_batch_keeps_bound.

(* the other direction: a context of the batch that a failure names is off its node's ledger *)
Theorem C02_flow_batch_drops_named : forall eps tasks pf bf ns pending tid nid,
  (tid, nid) ∈ pending -> tid ∈ pf \/ tid ∈ bf ->
  on_ledger (fst (flow_batch eps tasks pf bf ns pending)) tid nid = None.
Proof. exact flow_batch_drops_named. Qed.
Print Assumptions C02_flow_batch_drops_named.

(* law 117 (the extracted law_batch the driver evaluates on the real before / after observations)
   holds of the model's batch, for every fault script and every state *)
Theorem C02_law_batch_sound : forall eps tasks pf bf ns pending,
  law_batch (pf, bf, map (fun p => (p.1, p.2, held_b ns p, held_b (fst (flow_batch eps tasks pf bf ns pending)) p)) pending) = true.
Proof. exact law_batch_sound. Qed.
Print Assumptions C02_law_batch_sound.

(* a failure applied batch-wide (seeded mutant C02-r8-2) takes a pod the API server bound off the
   ledger; the next bind is admitted into its room: 1500m + 2000m on 3000m *)
Theorem C02_batch_wide_failure_refuted :
  snd (flow_batch 2 fb_tasks [] [1%positive] fb_admitted fb_pending) = [(2, 1)]%positive /\
  (let ns := fst (flow_batch 2 fb_tasks [] [1%positive] fb_admitted fb_pending) in
   cpu_held ns = 1500 * 16 /\ snd (agent_add_bind_task 2 ns (fb_t 3) 1%positive) = BRefused ErrInsufficient) /\
  (let ns := flow_batch_wide 2 fb_tasks [] [1%positive] fb_admitted fb_pending in
   cpu_held ns = 0 /\ snd (agent_add_bind_task 2 ns (fb_t 3) 1%positive) = BOk /\
   cpu_held (fst (agent_add_bind_task 2 ns (fb_t 3) 1%positive)) = 2000 * 16).
Proof. exact batch_wide_failure_refuted. Qed.
Print Assumptions C02_batch_wide_failure_refuted.

(* the executable form of cinv used by law 115 is sound *)
Theorem C02_cinv_b_sound : forall eps c, 0 < eps -> cinv_b eps c = true -> cinv eps c.
Proof. exact cinv_b_sound. Qed.
Print Assumptions C02_cinv_b_sound.

(* agent scheduler cache: RemoveNode + re-add forgets what the node held (known finding
   C02-agent-remove-node-forgets-held-tasks, reproduced on the real agent cache): agent_events_safe
   speaks about the copies the cache holds, which after this history are fewer than what is placed *)
Theorem C02_agent_remove_readd_forgets_refuted :
  map fst (map_to_list (n_tasks (bx_node bx_cache))) = [1%positive] /\
  match ag_final !! 1%positive with
  | Some n => (map fst (map_to_list (n_tasks n)), csum (used_amt DCpu) (n_tasks n), nwc_b 2 n)
  | None => ([], 0, false)
  end = ([2%positive], 32000, true) /\
  amt (t_req ag_t2) DCpu + csum (used_amt DCpu) (n_tasks (bx_node bx_cache)) = 64000 /\ amt bx_alloc DCpu = 48000.
Proof. exact agent_remove_readd_forgets_refuted. Qed.
Print Assumptions C02_agent_remove_readd_forgets_refuted.

(* a target without Node object is refused and nothing is touched (after fix 8dab8c3) *)
Theorem C02_bind_needs_node_object : forall eps c r n,
  c_nodes c !! b_node r = Some n -> n_has_node n = false ->
  fst (add_bind_task eps c r) = c /\ snd (add_bind_task eps c r) <> BOk.
Proof. exact bind_needs_node_object. Qed.
Print Assumptions C02_bind_needs_node_object.

(* pre-fix witness: with the AddBindTask of before fix 8dab8c3 "rejects instead of overcommitting" was
   false for a target without Node object (audit W7; reproduced on the real cache before the fix) *)
Theorem C02_bind_to_placeholder_unchecked_refuted :
  cinv_b 2 bx_cache = true /\
  ops_results_prefix 2 bx_cache bx_bad_ops = [None; Some BOk; None] /\
  n_has_node (bx_node (ops_state_prefix 2 bx_cache bx_bad_ops)) = true /\
  n_alloc (bx_node (ops_state_prefix 2 bx_cache bx_bad_ops)) = bx_alloc /\
  csum (used_amt DCpu) (n_tasks (bx_node (ops_state_prefix 2 bx_cache bx_bad_ops))) = 64000 /\ amt bx_alloc DCpu = 48000 /\
  ~ idle_ok 2 (bx_node (ops_state_prefix 2 bx_cache bx_bad_ops)).
Proof. exact bind_to_placeholder_unchecked_refuted. Qed.
Print Assumptions C02_bind_to_placeholder_unchecked_refuted.

(* C  evictions (preempt / reclaim) *)

(* Statement.Evict on the node: Idle and Pipelined keep their amounts, Releasing (hence FutureIdle)
   grows by exactly the victim's request *)
Theorem C02_node_update_evict : forall eps n p c n' p',
  sc (n_idle n) <> None ->
  n_tasks n !! t_id p = Some c -> t_req c = t_req p -> plain (t_status c) ->
  t_status p = Releasing \/ plain (t_status p) ->
  node_update eps n p = inl (n', p') ->
  sc (n_idle n') <> None /\ same_amounts (n_idle n') (n_idle n) /\ same_amounts (n_pipelined n') (n_pipelined n) /\
  (forall d, amt (n_releasing n') d = amt (n_releasing n) d + (if n_has_node n && bool_decide (t_status p = Releasing) then amt (t_req p) d else 0)) /\
  n_tasks n' = <[t_id p := set_node p (Some (n_id n))]> (n_tasks n) /\
  (sc (n_pipelined n) <> None -> sc (n_pipelined n') <> None).
Proof. exact node_update_evict. Qed.
Print Assumptions C02_node_update_evict.

(* any history of tentative evictions (of whatever copies) and FutureIdle-guarded pipelines (of
   whatever tasks) on a node keeps it within capacity, and so does undoing any number of the
   recorded operations newest first (Statement.Discard) *)
Theorem C02_evict_history_safe : forall eps, 0 < eps -> forall n ops k,
  nbase eps n -> Forall fop_ok ops ->
  let x := fold_left (fstep eps) ops (n, []) in
  node_safe eps (fst x) /\ node_safe eps (fold_left (nundo eps) (take k (snd x)) (fst x)).
Proof. exact evict_history_safe. Qed.
Print Assumptions C02_evict_history_safe.

Theorem C02_stack_pipeline : forall eps, 0 < eps -> forall n st t,
  stackP eps n st -> nonneg (t_req t) -> (forall d, amt (t_req t) d <= amt (t_init t) d) ->
  stackP eps (fst (npipeline eps n t)) (if snd (npipeline eps n t) then NP (t_id t) :: st else st).
Proof. exact stack_pipeline. Qed.
Print Assumptions C02_stack_pipeline.

Theorem C02_discard_stack_safe : forall eps st n k,
  stackP eps n st -> node_safe eps (fold_left (nundo eps) (take k st) n).
Proof. exact discard_stack_safe. Qed.
Print Assumptions C02_discard_stack_safe.

(* reclaim's running sum is the node's FutureIdle after the evictions *)
Theorem C02_reclaim_running_sum : forall eps n st tid c d,
  stackP eps n st -> n_tasks n !! tid = Some c -> plain (t_status c) ->
  amt (future_idle (nevict eps n tid)) d = amt (add (future_idle n) (t_req c)) d.
Proof. exact reclaim_running_sum. Qed.
Print Assumptions C02_reclaim_running_sum.

(* the statement operations are these ledger operations *)
Theorem C02_stmt_evict_with_safe : forall eps s sid c nid n j st,
  jobs s !! t_job c = Some j -> nodes s !! nid = Some n -> node_keyed nid n ->
  n_tasks n !! t_id c = Some c -> plain (t_status c) -> stackP eps n st ->
  exists n', nodes (fst (stmt_evict_with eps s sid c None)) = <[nid := n']> (nodes s) /\
             stackP eps n' (NE (t_id c) (t_status c) :: st) /\
             forall d, fut_amt n' d = fut_amt n d + amt (t_req c) d.
Proof. exact stmt_evict_with_safe. Qed.
Print Assumptions C02_stmt_evict_with_safe.

Theorem C02_unevict_with_safe : forall eps s c prev nid n j st,
  jobs s !! t_job c = Some j -> nodes s !! nid = Some n -> node_keyed nid n ->
  n_tasks n !! t_id c = Some c -> stackP eps n (NE (t_id c) prev :: st) ->
  exists n', nodes (fst (unevict_with eps s c prev)) = <[nid := n']> (nodes s) /\ stackP eps n' st.
Proof. exact unevict_with_safe. Qed.
Print Assumptions C02_unevict_with_safe.

Theorem C02_unpipeline_with_safe : forall eps s c nid n j st,
  jobs s !! t_job c = Some j -> nodes s !! nid = Some n -> t_node c = Some nid ->
  stackP eps n (NP (t_id c) :: st) ->
  exists n', nodes (unpipeline_with s c) = <[nid := n']> (nodes s) /\ stackP eps n' st.
Proof. exact unpipeline_with_safe. Qed.
Print Assumptions C02_unpipeline_with_safe.

(* topology-aware preemption: whatever the pop order of the candidates and whatever the other
   votes, evicting exactly the victims SelectVictimsOnNode's dry run returns and pipelining the
   preemptor (no re-check) leaves the node within capacity *)
Theorem C02_select_victims_safe : forall eps, 0 < eps -> forall extra n, nbase eps n -> forall p,
  nonneg (t_req p) -> (forall d, amt (t_req p) d <= amt (t_init p) d) -> forall q vs n' t',
  NoDup q -> Forall (cand_ok n) q ->
  select_victims eps extra future_idle p n q = Some vs ->
  preempt_on eps p n vs = inl (n', t') ->
  node_within_capacity eps n'.
Proof. exact select_victims_safe. Qed.
Print Assumptions C02_select_victims_safe.

(* ... and not when the reprieve test looks at Idle instead of FutureIdle (seeded mutant C02-r5-1) *)
Theorem C02_reprieve_against_idle_refuted :
  nwc_b 2 tp_n1 = true /\
  select_victims_idle_reprieve tp_B tp_n1 [2; 3]%positive = Some [2]%positive /\
  match preempt_on 2 tp_B tp_n1 [2]%positive with
  | inl (n', _) => (nwc_b 2 n', fut_amt n' DCpu)
  | inr _ => (true, 0)
  end = (false, -16000).
Proof. exact reprieve_against_idle_refuted. Qed.
Print Assumptions C02_reprieve_against_idle_refuted.

(* Commit when the evictor refuses nothing touches no node ... *)
Theorem C02_stmt_commit_without_refusal : forall eps s sid,
  refuse_evict s = ∅ -> Forall (fun o => op_kind o <> KAllocate) (default [] (stmts s !! sid)) ->
  nodes (stmt_commit eps s sid) = nodes s.
Proof. exact stmt_commit_without_refusal. Qed.
Print Assumptions C02_stmt_commit_without_refusal.

(* ... and with a refusal it un-evicts the victim under the pipelined preemptor (documented limit) *)
Theorem C02_commit_refused_eviction_refuted :
  nwc_b 2 (node1 ev_sess) = true /\ nwc_b 2 (node1 ev_before_commit) = true /\
  map (fun o => (op_kind o, op_task o)) (default [] (stmts ev_before_commit !! 1%positive)) = [(KEvict, 1%positive); (KPipeline, 3%positive)] /\
  elements (refuse_evict ev_before_commit) = [1%positive] /\
  ~ node_within_capacity 2 (node1 (stmt_commit 2 ev_before_commit 1)).
Proof. exact commit_refused_eviction_refuted. Qed.
Print Assumptions C02_commit_refused_eviction_refuted.

(* non-vacuity *)
Example C02_hypotheses_satisfiable : world_ok 2 ex_world.
Proof. exact ex_world_ok. Qed.

Example C02_skeleton_places :
  match nodes (w_sess (run 2 ex_world ex_ops)) !! 1%positive with
  | Some n => (cpu (n_idle n), map fst (map_to_list (n_tasks n)))
  | None => (0, [])
  end = (4000, [1%positive]).
Proof. exact ex_places. Qed.

(* the granularity hypothesis cannot be dropped *)
Example C02_drift_without_granularity :
  sess_pre_b (task_pre_b 2) (w_sess drift_world) = true /\
  nodes_safe 2 (nodes (w_sess drift_world)) /\
  exists n, nodes (w_sess (run 2 drift_world drift_ops)) !! 1%positive = Some n /\
            amt (n_idle n) DCpu = -3 /\ ~ node_within_capacity 2 n.
Proof. exact drift_without_granularity. Qed.

(* evictions: the node of the witnesses satisfies the hypotheses; what the seeded mutant C02-2 does *)
Example C02_evict_hypotheses_satisfiable : nbase 2 ev_n1.
Proof. exact ev_n1_base. Qed.

Example C02_idle_plus_releasing_overcounts :
  less_equal 2 (t_init ev_t4) (add (n_idle ev_n1') (n_releasing ev_n1')) DZero = true /\
  match node_add 2 ev_n1' (set_status ev_t4 Pipelined) with
  | inl (n', _) => nwc_b 2 n'
  | inr _ => true
  end = false.
Proof. exact idle_plus_releasing_overcounts. Qed.

(* accounting hypothesis satisfiable; bind_events_safe's hypotheses hold of an accepted bind followed by
   a node update with the same allocatable *)
Example C02_acct_hypotheses_satisfiable : world_ok 2 acct_world /\ nodes_acct (nodes (w_sess acct_world)).
Proof. exact acct_world_ok. Qed.

Example C02_bind_events_hypotheses_satisfiable : cinv 2 bx_cache /\ ops_ok 2 bx_cache bx_ops.
Proof. exact bx_hypotheses. Qed.

Example C02_select_victims_hypotheses_satisfiable :
  nbase 2 tp_n1 /\ select_victims 2 all_votes_yes future_idle tp_B tp_n1 [2; 3]%positive = Some [3; 2]%positive.
Proof. split; [exact tp_n1_base|exact (proj1 select_victims_future_idle)]. Qed.
